#!/bin/sh
# usage: ./check.sh <property id> <quick|thorough> [extra tongocheck flags]
# Decides one property statically from /repo's current working tree.
cd "$(dirname "$0")" || exit 2
export GOFLAGS=-mod=mod GOPROXY=off GOSUMDB=off GOTOOLCHAIN=local GOWORK=off
if [ ! -x bin/tongocheck ] || [ -n "$(find checker -newer bin/tongocheck -name '*.go' 2>/dev/null | head -1)" ]; then
  mkdir -p bin && (cd checker && go build -o ../bin/tongocheck .) || { echo "checker build failed" >&2; exit 2; }
fi
id="$1"; tier="${2:-${VERIF_TIER:-quick}}"; shift; shift 2>/dev/null
exec bin/tongocheck -prop "$id" -tier "$tier" "$@"
