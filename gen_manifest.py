#!/usr/bin/env python3
"""Regenerates MANIFEST.json from manifest_src.json (claimed checks + not_applicable) and validates it."""
import json, sys
src = json.load(open('/verif/manifest_src.json'))
props = [json.loads(l)['id'] for l in open('/verif/properties.jsonl')]
checks = []
for pid in props:
    if pid not in src['claimed']:
        continue
    e = src['claimed'][pid]
    checks.append({
        "property_id": pid,
        "quick_cmd": f"./check.sh {pid} quick",
        "thorough_cmd": f"./check.sh {pid} thorough",
        "evidence_file": f"/verif/evidence/{pid}.json",
        "replay_cmd_template": f"./check.sh {pid} quick -replay {{path}}",
        "engine": "tongocheck",
        "level_claimed": {"category": "other", "text": e['text'], "design_ref": f"DESIGN.md §4 {pid}"},
        "level_note": e.get('note', src['default_note']),
        "technique": e['technique'],
    })
na = [{"property_id": p, "reason": src['not_applicable'][p]} for p in props if p not in src['claimed']]
for p in props:
    if p not in src['claimed'] and p not in src['not_applicable']:
        sys.exit(f"{p} neither claimed nor not_applicable")
m = {
    "version": 1,
    "setup_cmd": "./setup.sh",
    "hooks": {"guard": "verif", "enable": "none needed: static analysis reads /repo's source; no hooks or instrumentation are compiled into the repository",
              "baseline_off_cmd": src['baseline_off_cmd'], "source_commits": [], "add_only": True},
    "engines": [{"name": "tongocheck", "path": "/verif/checker", "serves_properties": [c['property_id'] for c in checks],
                 "kind_free_text": "repository-specific static analyser over go/packages + go/types + go/ssa + call graph (x/tools v0.29.0): dominance/must-pass-through, dataflow, layout derivation from struct tags, schema/bindings agreement, lock-set, bounds prover; spec tables in /verif/spec"}],
    "checks": checks,
    "notes": src['notes'],
    "not_applicable": na,
}
json.dump(m, open('/verif/MANIFEST.json', 'w'), indent=1)
try:
    import jsonschema
    jsonschema.validate(m, json.load(open('/root/.vp/MANIFEST.schema.json')))
    print("MANIFEST.json valid;", len(checks), "claimed,", len(na), "not applicable")
except ImportError:
    print("jsonschema not available; wrote MANIFEST.json unvalidated")
