package main

import (
	"flag"
	"fmt"
	"go/token"
	"os"
	"os/exec"
	"runtime/debug"
	"sort"
	"strings"
)

type propFunc func(c *Ctx) propInfo

var props = map[string]propFunc{}

func register(id string, f propFunc) { props[id] = f }

func main() {
	prop := flag.String("prop", "", "property id (C01..C20)")
	tier := flag.String("tier", "quick", "quick|thorough")
	replay := flag.String("replay", "", "replay file (re-evaluates the property and reports whether that obligation still fails)")
	list := flag.Bool("list", false, "list implemented properties")
	dump := flag.Bool("dump", false, "print every obligation")
	sweep := flag.Bool("sweep", false, "audit aid: evaluate all properties in one process and list the rules that fire (writes no evidence)")
	dumpL := flag.String("dump-layouts", "", "print derived TL-B layouts of the struct types of a package (audit aid)")
	flag.Parse()
	if t := os.Getenv("VERIF_TIER"); t != "" && *tier == "" {
		*tier = t
	}
	if *list {
		var ids []string
		for id := range props {
			ids = append(ids, id)
		}
		sort.Strings(ids)
		for _, id := range ids {
			fmt.Println(id)
		}
		return
	}
	if *dumpL != "" {
		c, err := load(nil)
		if err != nil {
			fmt.Fprintln(os.Stderr, err)
			os.Exit(2)
		}
		dumpLayouts(c, *dumpL)
		return
	}
	if *sweep {
		// audit aid for the mutation tools: load once, evaluate every property, print one line per
		// property with the rules that have an unlisted violation (no evidence is written)
		c, err := load(nil)
		if err != nil {
			fmt.Fprintf(os.Stderr, "tongocheck: %v\n", err)
			os.Exit(2)
		}
		var ids []string
		for id := range props {
			ids = append(ids, id)
		}
		sort.Strings(ids)
		rc := 0
		seenV := map[string]bool{}
		for _, id := range ids {
			cc := c.shadow()
			cc.Prop, cc.Tier = id, *tier
			runRules(cc, props[id])
			cc.loadKnown()
			fired := map[string]bool{}
			for _, o := range cc.Obls {
				if o.Status != "violation" {
					continue
				}
				known := false
				for _, k := range cc.known {
					if k.Property == id && k.Status == "known" && k.Key == o.Key {
						known = true
					}
				}
				if !known {
					fired[o.Rule] = true
					if os.Getenv("SWEEP_VERBOSE") != "" {
						k := o.Rule + "|" + o.Key
						if !seenV[k] {
							seenV[k] = true
							fmt.Printf("  VIOL %s %s %s @%s :: %s %s\n", id, o.Rule, o.Key, o.Pos, o.What, o.How)
						}
					}
				}
			}
			n := map[string]int{}
			for _, o := range cc.Obls {
				n[o.Rule]++
			}
			for r, fl := range cc.floors {
				if n[r] < fl {
					if os.Getenv("SWEEP_VERBOSE") != "" {
						fmt.Printf("  FLOOR %s %s has %d, floor %d\n", id, r, n[r], fl)
					}
					fired[r+"(floor)"] = true
				}
			}
			var rs []string
			for r := range fired {
				rs = append(rs, r)
			}
			sort.Strings(rs)
			if len(rs) > 0 {
				rc = 1
			}
			fmt.Printf("SWEEP %s %s\n", id, strings.Join(rs, ","))
		}
		os.Exit(rc)
	}
	pf, ok := props[*prop]
	if !ok {
		fmt.Fprintf(os.Stderr, "unknown property %q\n", *prop)
		os.Exit(2)
	}
	if *tier != "quick" && *tier != "thorough" {
		fmt.Fprintf(os.Stderr, "bad tier %q\n", *tier)
		os.Exit(2)
	}
	// The analysis runs in a child process. A Go fatal error (stack overflow, out of memory) cannot be recovered
	// from inside; if the child dies that way the property is undecided on this tree, and undecided fails: a second
	// child loads the tree, records one E0.undecided violation instead of evaluating the rules, writes the
	// evidence and exits 1 with its VIOLATION line. Exit 3 of the child = the tree does not load (exit 2 here).
	mode := os.Getenv("TONGOCHECK_CHILD")
	if mode == "" {
		run := func(m string) int {
			cmd := exec.Command(os.Args[0], os.Args[1:]...)
			cmd.Env = append(os.Environ(), "TONGOCHECK_CHILD="+m)
			cmd.Stdin, cmd.Stdout, cmd.Stderr = os.Stdin, os.Stdout, os.Stderr
			if err := cmd.Run(); err != nil {
				if ee, ok := err.(*exec.ExitError); ok {
					return ee.ExitCode()
				}
				return -1
			}
			return 0
		}
		switch rc := run("1"); rc {
		case 0, 1:
			os.Exit(rc)
		case 3:
			os.Exit(2)
		default:
			fmt.Fprintf(os.Stderr, "tongocheck: the analysis process died (exit %d): reporting the property as undecided\n", rc)
			rc2 := run("crash")
			if rc2 == 3 {
				rc2 = 2
			}
			os.Exit(rc2)
		}
	}
	c, err := load(nil)
	if err != nil {
		// a tree that does not type-check cannot be decided: broken check, not a violation
		fmt.Fprintf(os.Stderr, "tongocheck: %v\n", err)
		os.Exit(3)
	}
	c.Prop = *prop
	c.Tier = *tier
	if mode == "1" && os.Getenv("TONGOCHECK_SELFTEST_CRASH") != "" {
		selfTestOverflow(1) // exercises the fail-closed path above (tools/selftest_crash.sh)
	}
	if mode == "crash" {
		c.bad("E0.undecided", "rule evaluation died with a fatal runtime error", token.NoPos, "the analysis process was killed by the Go runtime (stack overflow or out of memory) while evaluating this property on this tree: the analysed code has a shape the analysis does not terminate on, so its obligations are undecided - undecided fails")
		os.Exit(c.finish(propInfo{explanation: "incomplete run: the analysis process died; see the E0.undecided violation"}))
	}
	defer func() {
		if r := recover(); r != nil {
			fmt.Fprintf(os.Stderr, "tongocheck: analysis panic: %v\n", r)
			panic(r)
		}
	}()
	debugFacts(c)
	debugGuards(c)
	debugTrace(c)
	info := runRules(c, pf)
	if *dump {
		for _, o := range c.Obls {
			fmt.Printf("  [%s] %s @%s %s%s\n", o.Status, o.Key, o.Pos, o.How, o.What)
		}
	}
	if *replay != "" {
		os.Exit(replayObl(c, *replay, info))
	}
	os.Exit(c.finish(info))
}

// runRules evaluates the property's rules. A panic inside a rule means the code no longer has
// the shape the rule's extraction expects: that is an undecided obligation, reported as a violation
// (exit 1) with the place in the checker that gave up - never a silent pass, never a bare crash.
func runRules(c *Ctx, pf func(*Ctx) propInfo) (info propInfo) {
	defer func() {
		if r := recover(); r != nil {
			where := "?"
			for _, ln := range strings.Split(string(debug.Stack()), "\n") {
				ln = strings.TrimSpace(ln)
				if strings.Contains(ln, "/checker/") && !strings.Contains(ln, "/checker/main.go") && strings.Contains(ln, ".go:") {
					if i := strings.Index(ln, " "); i > 0 {
						ln = ln[:i]
					}
					where = ln
					break
				}
			}
			c.bad("E0.undecided", fmt.Sprintf("rule evaluation gave up at %s", filepathBase(where)), token.NoPos, fmt.Sprintf("the analysis could not be completed (%v at %s): the analysed code no longer has the shape this rule extracts from, so its obligations are undecided - undecided fails", r, where))
			info = propInfo{explanation: "incomplete run: a rule evaluation panicked; see the E0.undecided violation"}
		}
	}()
	return pf(c)
}

func filepathBase(s string) string {
	if i := strings.LastIndex(s, "/"); i >= 0 {
		return s[i+1:]
	}
	return s
}

// selfTestOverflow dies with the Go runtime's unrecoverable "stack overflow" - what a non-terminating recursion
// in a rule would do.
func selfTestOverflow(n int) int {
	var pad [1 << 12]byte
	pad[n%len(pad)] = byte(n)
	return selfTestOverflow(n+1) + int(pad[0])
}
