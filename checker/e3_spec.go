package main

import (
	"fmt"
	"go/token"
	"go/types"
	"os"
	"path/filepath"
	"strings"
)

// loadLayoutSpec reads /verif/spec/tlb_layouts.spec: "pkg.Type = term" entries, possibly
// spanning several lines (continuation lines start with whitespace), '#' comments.
func (c *Ctx) loadLayoutSpec() (map[string]string, []string, error) {
	b, err := os.ReadFile(filepath.Join(c.VerifDir, "spec", "tlb_layouts.spec"))
	if err != nil {
		return nil, nil, err
	}
	spec := map[string]string{}
	var order []string
	cur := ""
	for _, ln := range strings.Split(string(b), "\n") {
		if i := strings.Index(ln, "#"); i >= 0 {
			// '#' only starts a comment at line start or after whitespace (tags like name#hex never appear in terms)
			ln = ln[:i]
		}
		if strings.TrimSpace(ln) == "" {
			continue
		}
		if ln[0] == ' ' || ln[0] == '\t' {
			if cur == "" {
				return nil, nil, fmt.Errorf("spec: continuation without entry: %q", ln)
			}
			spec[cur] += " " + strings.TrimSpace(ln)
			continue
		}
		i := strings.Index(ln, "=")
		if i < 0 {
			return nil, nil, fmt.Errorf("spec: bad line %q", ln)
		}
		cur = strings.TrimSpace(ln[:i])
		spec[cur] = strings.TrimSpace(ln[i+1:])
		order = append(order, cur)
	}
	return spec, order, nil
}

// expandSpec replaces @Name by the (expanded) spec term of Name.
func expandSpec(spec map[string]string, term string, depth int) (string, error) {
	if depth > 20 {
		return "", fmt.Errorf("spec recursion")
	}
	var out strings.Builder
	toks := tokenize(term)
	for i, t := range toks {
		pre := ""
		if k := strings.Index(t, "→"); k >= 0 {
			pre = t[:k+len("→")]
			t = t[k+len("→"):]
		}
		if strings.HasPrefix(t, "@") {
			sub, ok := spec[t[1:]]
			if !ok {
				return "", fmt.Errorf("spec references unknown entry %s", t)
			}
			e, err := expandSpec(spec, sub, depth+1)
			if err != nil {
				return "", err
			}
			t = e
		}
		if i > 0 {
			out.WriteString(" ")
		}
		out.WriteString(pre + t)
	}
	return out.String(), nil
}

// lookupType resolves "pkg.Name" (pkg = last path element of a module package).
func (c *Ctx) lookupType(key string) *types.Named {
	i := strings.LastIndex(key, ".")
	if i < 0 {
		return nil
	}
	pk, name := key[:i], key[i+1:]
	for path, p := range c.ByPath {
		if !strings.HasPrefix(path, modPath) || p.Types == nil || p.Types.Name() != pk {
			continue
		}
		// prefer the direct child of the module root
		if path != modPath+"/"+pk && path != modPath {
			continue
		}
		if o, ok := p.Types.Scope().Lookup(name).(*types.TypeName); ok {
			if n, ok := o.Type().(*types.Named); ok {
				return n
			}
		}
	}
	return nil
}

// layoutVsSpec compares the derived layout of every spec'd type with the spec.
func (c *Ctx) layoutVsSpec(filter func(key string) bool) {
	const R = "E3b.layout=spec"
	spec, order, err := c.loadLayoutSpec()
	if err != nil {
		c.bad(R, "spec file", token.NoPos, err.Error())
		return
	}
	for _, key := range order {
		if filter != nil && !filter(key) {
			continue
		}
		n := c.lookupType(key)
		if n == nil {
			c.bad(R, key, token.NoPos, "type "+key+" named in the spec table does not exist in the tree (renamed/removed): its wire layout can no longer be compared with the schema")
			continue
		}
		want, err := expandSpec(spec, spec[key], 0)
		if err != nil {
			c.bad(R, key, n.Obj().Pos(), err.Error())
			continue
		}
		want = normTerm(want)
		l := c.newLayout()
		k := typeKey(n)
		l.stack[k] = true
		got := normTerm(l.layoutUnder(n.Underlying(), k))
		if len(l.problem) > 0 && !(hasMethod(n, "MarshalTLB") && hasMethod(n, "UnmarshalTLB")) {
			c.bad(R, key, n.Obj().Pos(), "layout derivation problems: "+strings.Join(l.problem, "; "))
			continue
		}
		if got == want {
			c.ok(R, key, n.Obj().Pos(), "derived layout equals spec: "+abbreviate(got, 160))
		} else {
			c.bad(R, key, n.Obj().Pos(), fmt.Sprintf("wire layout of %s differs from the TON schema at %s\n      derived: %s\n      spec:    %s", key, firstDiff(got, want), got, want))
		}
	}
}

func abbreviate(s string, n int) string {
	if len(s) <= n {
		return s
	}
	return s[:n] + "…"
}

func firstDiff(a, b string) string {
	ta, tb := tokenize(a), tokenize(b)
	for i := 0; i < len(ta) && i < len(tb); i++ {
		if ta[i] != tb[i] {
			lo := i - 4
			if lo < 0 {
				lo = 0
			}
			return fmt.Sprintf("token %d: derived %q vs spec %q (after …%s)", i, ta[i], tb[i], strings.Join(ta[lo:i], " "))
		}
	}
	return fmt.Sprintf("length: derived %d tokens vs spec %d tokens", len(ta), len(tb))
}
