package main

import (
	"fmt"
	"go/token"
	"go/types"
	"sort"
	"strings"

	"golang.org/x/tools/go/ssa"
)

func init() { register("C11", propC11) }

func propC11(c *Ctx) propInfo {
	// --- E8: ParsePacket success only through checksum equality and length bounds
	pp := c.mustFn("E8.mustcheck", "liteclient", "ParsePacket")
	if pp != nil {
		c.mustDominate("E8.mustcheck", pp, 1, []requiredCheck{
			bytesEqualCheck("trailer == sha256(nonce|payload)"),
		}, nil, "")
		c.boundsAtSuccess("E8.bounds", pp, 1, "frame length", func(v ssa.Value) bool {
			return derivesFrom(v, callResult("encoding/binary.littleEndian.Uint32"), false)
		}, 64, 8<<20)
	}
	c.floor("E8.mustcheck", 1)
	c.floor("E8.bounds", 1)
	c.adnlLayouts()
	c.adnlSmallFacts()
	c.wireSizes("liteclient")
	c.cipherContinuity()
	c.sendUnderLock()
	c.floor("E7.bytelayout", 12)
	return propInfo{
		explanation: "Static structural clauses of C11 (see DESIGN.md §4 C11): checksum/length validation dominates every success exit of ParsePacket; constant byte layouts of packet, session parameters and handshake agree between writer, reader and spec table; stream-cipher objects are created once and every received byte is decrypted before use. Decides these necessary conditions, not interoperability or cryptographic correctness. One buffering reader over the socket, created before and used inside the receive loop; one-off ParsePacket calls read the socket itself.",
		assumptions: []string{"crypto primitives (AES-CTR, SHA-256, X25519) behave as documented", "io.ReadFull handles TCP segmentation"},
	}
}

func (c *Ctx) adnlLayouts() {
	const R = "E7.bytelayout"
	// Packet.marshal: LE32(len+64) | nonce32 | payload | sha256
	// the length word: produced by the one-line helper Packet.size and copied in, or written in place by marshal
	sizeFn := c.fn("liteclient", "Packet.size")
	if f := c.mustFn(R, "liteclient", "Packet.marshal"); f != nil {
		first := byteField{"", "4", "copy", "size"}
		if sizeFn == nil {
			first = byteField{"", "4", "LE32", "=(64+len("}
		}
		c.layoutIs(R, "Packet.marshal = size4 | nonce32 | payload | hash32", f, c.byteWrites(f), []byteField{
			first, {"4", "36", "copy", "nonce"}, {"36", "(36+len(*_.Payload))", "copy", "Payload"}, {"(36+len(*_.Payload))", "", "copy", "hash"},
		})
		if sizeFn == nil {
			c.ok(R, "Packet.size = LE32(len(payload)+64)", f.Pos(), "written in place by Packet.marshal: LE32(len(payload)+32+32) at [0:4] (checked by the layout rule)")
		}
	}
	if f := sizeFn; f != nil {
		ws := c.byteWrites(f)
		okv := len(ws) == 1 && ws[0].how == "LE32" && strings.Contains(ws[0].what, "=(64+len(")
		c.check(okv, R, "Packet.size = LE32(len(payload)+64)", f.Pos(), "little-endian 32-bit length of nonce+payload+checksum", "Packet.size no longer encodes len(payload)+32+32 as a little-endian 32-bit word: "+fieldsString(ws))
	}
	// ParsePacket reads: nonce = data[:32], payload = data[32:length-32], checksum = data[length-32:]
	if f := c.mustFn(R, "liteclient", "ParsePacket"); f != nil {
		var sl []string
		type cut struct {
			lo, hi       offLin
			hasLo, hasHi bool
		}
		var cuts []cut
		allInstrs(f, func(_ *ssa.BasicBlock, in ssa.Instruction) {
			if s, ok := in.(*ssa.Slice); ok {
				if _, ok := s.X.(*ssa.MakeSlice); ok {
					sl = append(sl, "["+offShape(s.Low)+":"+offShape(s.High)+"]")
					cuts = append(cuts, cut{linOff(s.Low), linOff(s.High), s.Low != nil, s.High != nil})
				}
			}
		})
		sort.Strings(sl)
		got := strings.Join(sl, " ")
		// the three cuts as linear forms: [:32], [32:n-32], [n-32:] with the same n (one term, coefficient 1)
		okSplit := false
		if len(cuts) == 3 {
			isK := func(o offLin, k int64) bool { return o.isConst() && o.k == k }
			endAtom := func(o offLin) string {
				if o.k != -32 || len(o.atoms) != 1 {
					return ""
				}
				for a, co := range o.atoms {
					if co == 1 {
						return a
					}
				}
				return ""
			}
			var nonce, payload, sum *cut
			for i := range cuts {
				cu := &cuts[i]
				switch {
				case (!cu.hasLo || isK(cu.lo, 0)) && cu.hasHi && isK(cu.hi, 32):
					nonce = cu
				case cu.hasLo && isK(cu.lo, 32) && cu.hasHi && endAtom(cu.hi) != "":
					payload = cu
				case cu.hasLo && endAtom(cu.lo) != "" && !cu.hasHi:
					sum = cu
				}
			}
			okSplit = nonce != nil && payload != nil && sum != nil && endAtom(payload.hi) == endAtom(sum.lo)
		}
		c.check(okSplit, R,
			"ParsePacket splits nonce[0:32] | payload[32:n-32] | checksum[n-32:]", f.Pos(), got, "ParsePacket slices the decrypted frame as "+got+"; the frame is nonce[0:32] payload[32:n-32] checksum[n-32:n]")
		rs := c.byteReads(f)
		c.check(len(rs) == 1 && rs[0].how == "LE32", R, "ParsePacket reads the length little-endian", f.Pos(), "LE32", "ParsePacket no longer reads the 4-byte length little-endian")
		// the checksum is sha256 over nonce|payload: compare against p.hash()
		okHash := false
		for _, cl := range bytesEqualCalls(f) {
			okHash = derivesFrom(cl.Call.Args[1], callResult(modPath+"/liteclient.Packet.hash"), false) || derivesFrom(cl.Call.Args[0], callResult(modPath+"/liteclient.Packet.hash"), false)
		}
		c.check(okHash, R, "the trailer is compared with sha256(nonce|payload)", f.Pos(), "bytes.Equal(trailer, p.hash())", "ParsePacket no longer compares the trailer with the hash of nonce and payload")
	}
	if f := c.mustFn(R, "liteclient", "Packet.hash"); f != nil {
		var ws []string
		pieces, isSha := sha256Pieces(f)
		for _, pc := range pieces {
			ws = append(ws, shape(pc, 3))
		}
		c.check(len(ws) == 2 && strings.Contains(ws[0], "nonce") && strings.Contains(ws[1], "Payload") && isSha, R, "checksum = sha256(nonce | payload)", f.Pos(), strings.Join(ws, " | "), "Packet.hash no longer hashes the nonce followed by the payload with SHA-256: "+strings.Join(ws, " | "))
	}
	// session parameters: rx key 0:32, tx key 32:64, rx nonce 64:80, tx nonce 80:96
	for name, want := range map[string][2]string{"params.rxKey": {"0", "32"}, "params.txKey": {"32", "64"}, "params.rxNonce": {"64", "80"}, "params.txNonce": {"80", "96"}} {
		f := c.mustFn(R, "liteclient", name)
		if f == nil {
			continue
		}
		got := ""
		for _, r := range returnsOf(f) {
			if s, ok := retVal(r, 0).(*ssa.Slice); ok {
				lo := offShape(s.Low)
				if lo == "" {
					lo = "0"
				}
				got = lo + ":" + offShape(s.High)
			}
		}
		c.check(got == want[0]+":"+want[1], R, name+" = params["+want[0]+":"+want[1]+"]", f.Pos(), got, fmt.Sprintf("%s returns params[%s]; the ADNL session parameter block is rx_key[0:32] tx_key[32:64] rx_nonce[64:80] tx_nonce[80:96] padding[96:160]", name, got))
	}
	// handshake request: key id 0:32, ephemeral public key 32:64, params hash 64:96, encrypted params 96:256
	if f := c.mustFn(R, "liteclient", "encryptedConn.handshake"); f != nil {
		pubF, sharedF := c.liteKeyFields()
		c.layoutIs(R, "handshake = keyid32 | pubkey32 | params hash32 | encrypted params160", f, c.byteWrites(f), []byteField{
			{"", "32", "copy", "hash"}, {"32", "64", "copy", pubF}, {"64", "96", "copy", "hash"}, {"96", "", "copy", ""},
		})
		// key = shared[0:16] | hash[16:32] ; nonce = hash[0:4] | shared[20:32]
		// the derivation may sit in the handshake or in a helper it calls; what a piece is cut from is decided by
		// where the value comes from (the shared-secret field of the keys, the hash of the parameters)
		var pieces []string
		for _, vi := range c.inlineView(f, 2, nil) {
			cl, ok := vi.in.(*ssa.Call)
			if !ok {
				continue
			}
			b, ok := cl.Call.Value.(*ssa.Builtin)
			if !ok || (b.Name() != "append" && b.Name() != "copy") {
				continue
			}
			// key = append(shared[:16], hash[16:32]...) or  copy(key[:16], shared[:16]); copy(key[16:], hash[16:32])
			// (both forms list the pieces in buffer order when written in the natural order)
			s, ok := cl.Call.Args[1].(*ssa.Slice)
			if !ok {
				continue
			}
			if b.Name() == "copy" {
				if d, isS := cl.Call.Args[0].(*ssa.Slice); !isS || !isMakeSliceBase(d) {
					continue
				}
			}
			what := ""
			switch {
			case derivesFrom(s.X, callResult(modPath+"/liteclient.params.hash"), false):
				what = "hash"
			case derivesFrom(s.X, fieldLoadNamed(sharedF), false):
				what = "shared"
			default:
				continue
			}
			lo := offShape(s.Low)
			if lo == "" {
				lo = "0"
			}
			pieces = append(pieces, fmt.Sprintf("%s[%s:%s]", what, lo, offShape(s.High)))
		}
		got := strings.Join(pieces, " ")
		c.check(strings.Contains(got, "shared[0:16] hash[16:32] hash[0:4] shared[20:32]"), R, "handshake key = shared[0:16]|hash[16:32], nonce = hash[0:4]|shared[20:32]", f.Pos(), got, "the handshake key/nonce derivation is "+got+"; ADNL requires key = shared[0:16]|hash[16:32], nonce = hash[0:4]|shared[20:32]")
	}
	if f := c.mustFn(R, "liteclient", "Address.hash"); f != nil {
		okv := false
		allInstrs(f, func(_ *ssa.BasicBlock, in ssa.Instruction) {
			if st, ok := in.(*ssa.Store); ok {
				if k, ok := constInt(st.Val); ok && k == 0xc6 {
					okv = true
				}
			}
		})
		c.check(okv, R, "key id = sha256(c6 b4 13 48 | pubkey)", f.Pos(), "pub.ed25519 constructor id prefix", "Address.hash no longer prefixes the public key with the pub.ed25519 constructor id c6b41348")
	}
}

// cipherContinuity: cipher / decipher are created once, in the constructor, from the tx / rx
// parameters; received bytes are decrypted exactly once before use; every read from the socket
// in ParsePacket goes through io.ReadFull.
func (c *Ctx) cipherContinuity() {
	const R = "E10.cipher-continuity"
	la := &lockAnalysis{c: c, funcs: c.moduleFuncs("liteclient")}
	// the two stream fields by role, not by name: tx is the one encryptedConn.send runs the outgoing buffer through
	txF, rxF := c.liteStreamFields()
	la.whoMayWrite(R, "liteclient.encryptedConn."+txF, map[string]string{})
	la.whoMayWrite(R, "liteclient.encryptedConn."+rxF, map[string]string{})
	if f := c.mustFn(R, "liteclient", "newEncryptedConnection"); f != nil {
		roles := map[string]string{}
		allInstrs(f, func(_ *ssa.BasicBlock, in ssa.Instruction) {
			st, ok := in.(*ssa.Store)
			if !ok {
				return
			}
			_, fn, ok := fieldOf(st.Addr)
			if !ok || (fn != txF && fn != rxF) {
				return
			}
			if fn == txF {
				fn = "cipher"
			} else {
				fn = "decipher"
			}
			if cl := callOf(stripConv(st.Val)); cl != nil && callQName(&cl.Call) == "crypto/cipher.NewCTR" {
				key, nonce := "?", "?"
				if bl := callOf(cl.Call.Args[0]); bl != nil && len(bl.Call.Args) > 0 {
					if k := callOf(bl.Call.Args[0]); k != nil {
						key = calleeFunc(&k.Call).Name()
					}
				}
				if nn := callOf(cl.Call.Args[1]); nn != nil {
					nonce = calleeFunc(&nn.Call).Name()
				}
				roles[fn] = key + "/" + nonce
			}
		})
		c.check(roles["cipher"] == "txKey/txNonce" && roles["decipher"] == "rxKey/rxNonce", R, "cipher uses tx key+nonce, decipher uses rx key+nonce", f.Pos(), fmt.Sprint(roles), fmt.Sprintf("the stream ciphers are keyed as %v; sending must use (txKey, txNonce) and receiving (rxKey, rxNonce)", roles))
	}
	if f := c.mustFn(R, "liteclient", "ParsePacket"); f != nil {
		// every read on the reader parameter is io.ReadFull
		okRead := true
		n := 0
		allInstrs(f, func(_ *ssa.BasicBlock, in ssa.Instruction) {
			cl, ok := in.(*ssa.Call)
			if !ok {
				return
			}
			uses := false
			for _, a := range cl.Call.Args {
				if a == ssa.Value(f.Params[0]) {
					uses = true
				}
			}
			if cl.Call.IsInvoke() && cl.Call.Value == ssa.Value(f.Params[0]) {
				okRead = false // direct r.Read(...)
				n++
			}
			if uses {
				n++
				if callQName(&cl.Call) != "io.ReadFull" {
					okRead = false
				}
			}
		})
		c.check(okRead && n == 2, R, "ParsePacket reads the stream only with io.ReadFull", f.Pos(), "two io.ReadFull calls (length, frame)", "ParsePacket reads from the connection with something other than io.ReadFull: a TCP segment boundary inside a field would be treated as a short read")
		// each buffer filled by ReadFull is XORed (same buffer as src and dst) before any other use
		okX := true
		for _, rf := range callsTo(f, "io.ReadFull") {
			buf := rf.Call.Args[1]
			var xor *ssa.Call
			allInstrs(f, func(_ *ssa.BasicBlock, in ssa.Instruction) {
				if cl, ok := in.(*ssa.Call); ok && cl.Call.IsInvoke() && cl.Call.Method.Name() == "XORKeyStream" && cl.Call.Args[0] == buf && cl.Call.Args[1] == buf && cl.Call.Value == ssa.Value(f.Params[1]) {
					xor = cl
				}
			})
			if xor == nil {
				okX = false
				continue
			}
			// other uses of buf (besides ReadFull, len, the XOR) are dominated by the XOR
			for _, r := range realRefs(buf) {
				if r == ssa.Instruction(rf) || r == ssa.Instruction(xor) {
					continue
				}
				if cl, ok := r.(*ssa.Call); ok {
					if b, ok := cl.Call.Value.(*ssa.Builtin); ok && b.Name() == "len" {
						continue
					}
				}
				if !(xor.Block().Dominates(r.Block()) && (xor.Block() != r.Block() || before(xor, r))) {
					okX = false
				}
			}
		}
		c.check(okX, R, "received bytes are decrypted once, in place, before they are interpreted", f.Pos(), "ReadFull(x) < XORKeyStream(x, x) < every other use of x, with the decryptor parameter", "ParsePacket interprets bytes read from the socket before (or without) decrypting them with the connection's stream")
	}
	// every ParsePacket call on an encryptedConn passes that connection's decipher; send XORs the whole buffer with cipher
	for _, f := range c.moduleFuncs("liteclient") {
		for _, cl := range callsTo(f, modPath+"/liteclient.ParsePacket") {
			okv := derivesFrom(cl.Call.Args[1], fieldLoadNamed(rxF), false)
			c.check(okv, R, fnName(f)+" parses with the connection's decipher", cl.Pos(), "ParsePacket(_, econn.decipher)", fnName(f)+" calls ParsePacket with a cipher stream that is not the connection's persistent decipher: the CTR state would not carry across packets")
		}
	}
	// one reader over the socket: a buffering reader may read ahead, so a temporary one loses
	// bytes (and the stream-cipher position) for whoever reads next. The only buffering reader is
	// created once, outside the receive loop, and serves every ParsePacket of that loop; any other
	// ParsePacket reads the socket itself.
	nBuf := 0
	for _, f := range c.moduleFuncs("liteclient") {
		for _, q := range []string{"bufio.NewReader", "bufio.NewReaderSize"} {
			for _, br := range callsTo(f, q) {
				if !derivesFrom(br.Call.Args[0], fieldLoadNamed("conn"), false) {
					continue
				}
				nBuf++
				persistent := !inLoop(br.Block())
				usedInLoop := false
				for _, cl := range callsTo(f, modPath+"/liteclient.ParsePacket") {
					if derivesFrom(cl.Call.Args[0], func(v ssa.Value) bool { return v == ssa.Value(br) }, false) && inLoop(cl.Block()) {
						usedInLoop = true
					}
				}
				c.check(persistent && usedInLoop, R, fnName(f)+": the buffering socket reader lives as long as the receive loop", br.Pos(), "created before the loop, used by every ParsePacket in it", fnName(f)+" wraps the socket in a buffering reader that is not the receive loop's persistent reader: bytes it reads ahead (a frame that arrived in the same TCP segment) are lost to the next reader and the stream cipher falls out of step")
			}
		}
		for _, cl := range callsTo(f, modPath+"/liteclient.ParsePacket") {
			if inLoop(cl.Block()) {
				continue
			}
			// the priming read of a loop written as  p, err := Parse(r); for err == nil { ...; p, err = Parse(r) }:
			// it uses the very reader the loop's own ParsePacket uses
			primes := false
			for _, c2 := range callsTo(f, modPath+"/liteclient.ParsePacket") {
				under := func(v ssa.Value) ssa.Value {
					for {
						switch x := v.(type) {
						case *ssa.MakeInterface:
							v = x.X
							continue
						case *ssa.ChangeInterface:
							v = x.X
							continue
						}
						return v
					}
				}
				if c2 != cl && inLoop(c2.Block()) && under(c2.Call.Args[0]) == under(cl.Call.Args[0]) {
					primes = true
				}
			}
			if primes {
				continue
			}
			direct := false
			if mi, ok := cl.Call.Args[0].(*ssa.MakeInterface); ok {
				_, n, ok := fieldOfLoad(mi.X)
				direct = ok && n == "conn"
			} else if ci, ok := cl.Call.Args[0].(*ssa.ChangeInterface); ok {
				_, n, ok := fieldOfLoad(ci.X)
				direct = ok && n == "conn"
			} else if _, n, ok := fieldOfLoad(cl.Call.Args[0]); ok && n == "conn" {
				direct = true
			}
			c.check(direct, R, fnName(f)+": a one-off ParsePacket reads the socket itself", cl.Pos(), "ParsePacket(econn.conn, …)", fnName(f)+" parses a single packet through something other than the socket itself (a temporary buffering reader would swallow the bytes that follow the packet)")
		}
	}
	c.check(nBuf == 1, R, "exactly one buffering reader over the socket", 0, "handleIncomingPackets' reader", fmt.Sprintf("%d buffering readers are created over the connection's socket; one (the receive loop's) is the confirmed number", nBuf))
	if f := c.mustFn(R, "liteclient", "encryptedConn.send"); f != nil {
		okv := false
		var xor, wr *ssa.Call
		allInstrs(f, func(_ *ssa.BasicBlock, in ssa.Instruction) {
			if cl, ok := in.(*ssa.Call); ok && cl.Call.IsInvoke() {
				if cl.Call.Method.Name() == "XORKeyStream" && cl.Call.Args[0] == ssa.Value(f.Params[1]) && cl.Call.Args[1] == ssa.Value(f.Params[1]) && derivesFrom(cl.Call.Value, fieldLoadNamed(txF), false) {
					xor = cl
				}
				if cl.Call.Method.Name() == "Write" && cl.Call.Args[0] == ssa.Value(f.Params[1]) {
					wr = cl
				}
			}
		})
		okv = xor != nil && wr != nil && before(xor, wr)
		c.check(okv, R, "send encrypts the whole buffer with the persistent cipher and writes it", f.Pos(), "cipher.XORKeyStream(b, b) then conn.Write(b)", "encryptedConn.send no longer encrypts exactly the buffer it writes with the connection's persistent cipher")
	}
	c.floor(R, 9)
}

// sendUnderLock: encryptedConn.send is serialised by Connection.mu (shared with C12).
func (c *Ctx) sendUnderLock() {
	const R = "E9.K5-send-serialised"
	la := c.newLockAnalysis("liteclient")
	for _, f := range c.moduleFuncs("liteclient") {
		for _, cl := range callsTo(f, modPath+"/liteclient.encryptedConn.send") {
			key := fnName(f) + " calls encryptedConn.send"
			ls := la.at(cl)
			switch {
			case ls["liteclient.Connection.mu"] == 'W':
				c.ok(R, key, cl.Pos(), "Connection.mu held: XORKeyStream and Write of one packet cannot interleave with another sender's")
			case fnName(f) == "(*liteclient.Connection).sendAuthRequest":
				c.exc(R, key, cl.Pos(), "handshake of a connection whose status is still Connecting: no other sender exists yet")
			default:
				c.bad(R, key, cl.Pos(), "encryptedConn.send called without holding Connection.mu (lockset "+ls.String()+"): concurrent senders desynchronise the AES-CTR stream from the byte order on the wire")
			}
		}
	}
	c.floor(R, 3)
}

// adnlSmallFacts (after the mutation battery): the payload buffer ParsePacket allocates has
// exactly the size of the slice copied into it; NewAddress accepts exactly an Ed25519 public key
// (32 bytes); the key id is sha256(TL id of pub.ed25519 | key), the id being c6 b4 13 48.
func (c *Ctx) adnlSmallFacts() {
	const R = "E7.bytelayout"
	if f := c.fn("liteclient", "ParsePacket"); f != nil {
		okv, desc := false, "no copy into a made payload buffer found"
		allInstrs(f, func(b *ssa.BasicBlock, in ssa.Instruction) {
			cl, ok := in.(*ssa.Call)
			if !ok {
				return
			}
			bi, ok := cl.Call.Value.(*ssa.Builtin)
			if !ok || bi.Name() != "copy" {
				return
			}
			src, ok := cl.Call.Args[1].(*ssa.Slice)
			if !ok || src.High == nil || src.Low == nil {
				return
			}
			// destination: a load of a field whose last store is a MakeSlice
			var mk *ssa.MakeSlice
			derivesFrom(cl.Call.Args[0], func(v ssa.Value) bool {
				if m, ok := v.(*ssa.MakeSlice); ok {
					mk = m
					return true
				}
				return false
			}, false)
			if mk == nil {
				return
			}
			p := c.newProver(f, b)
			d := p.lin(mk.Len).sub(p.lin(src.High)).add(p.lin(src.Low))
			okv = d.isConst() && d.k.Sign() == 0
			desc = fmt.Sprintf("make(%s) vs [%s:%s]", shape(mk.Len, 3), shape(src.Low, 3), shape(src.High, 3))
		})
		c.check(okv, R, "ParsePacket's payload buffer has the size of the payload slice", f.Pos(), desc, "ParsePacket allocates the payload with "+desc+": copy fills the shorter of the two, so the payload is cut (and the checksum of every frame fails) or padded with zero bytes")
	}
	if f := c.fn("liteclient", "NewAddress"); f != nil {
		c.boundsAtSuccess("E8.bounds", f, 1, "len(key)", lenOf(nil), 32, 32)
	}
	if f := c.fn("liteclient", "Address.hash"); f != nil {
		var first []int64
		pieces, isSha := sha256Pieces(f)
		n := len(pieces)
		if n > 0 {
			if sl, ok := pieces[0].(*ssa.Slice); ok {
				if al, ok := sl.X.(*ssa.Alloc); ok {
					vals := map[int64]int64{}
					for _, ref := range *al.Referrers() {
						if ia, ok := ref.(*ssa.IndexAddr); ok {
							if i, ok := constInt(ia.Index); ok {
								for _, st := range storesTo(ia) {
									if k, ok := constInt(st.Val); ok {
										vals[i] = k
									}
								}
							}
						}
					}
					for i := int64(0); i < int64(len(vals)); i++ {
						first = append(first, vals[i])
					}
				}
			}
		}
		got := ""
		for _, b := range first {
			got += fmt.Sprintf("%02x", b)
		}
		c.check(got == "c6b41348" && n == 2 && isSha, R, "key id = sha256(c6b41348 | public key)", f.Pos(), got, "Address.hash hashes the prefix "+got+" (then "+fmt.Sprint(n-1)+" more piece(s)); an ADNL key id is sha256 over the TL id of pub.ed25519, c6 b4 13 48, followed by the 32-byte key - with any other prefix the server does not recognise the key it is addressed by")
	}
}

// wireSizes (after the mutation battery): what goes on the wire is exactly as long as its parts.
//   - Packet.marshal's buffer is 4 + 32 + len(payload) + 32 bytes (one spare byte desynchronises
//     the stream cipher's framing for ever);
//   - a buffer that is made with a constant length, filled by ONE PutUint16/32/64 over the whole
//     buffer and then returned, appended to or sent has that integer's size;
//   - a count returned by io.ReadFull is compared with the requested length so that the error is on
//     the unequal side.
func (c *Ctx) wireSizes(rels ...string) {
	const R = "E7.wire-sizes"
	if f := c.fn("liteclient", "Packet.marshal"); f != nil {
		okv, desc := false, "no made buffer found"
		allInstrs(f, func(b *ssa.BasicBlock, in ssa.Instruction) {
			mk, ok := in.(*ssa.MakeSlice)
			if !ok {
				return
			}
			p := c.newProver(f, b)
			var pl ssa.Value
			derivesFrom(mk.Len, func(v ssa.Value) bool {
				if cl := callOf(v); cl != nil {
					if bi, ok := cl.Call.Value.(*ssa.Builtin); ok && bi.Name() == "len" {
						pl = v
						return true
					}
				}
				return false
			}, false)
			if pl == nil {
				return
			}
			d := p.lin(mk.Len).sub(p.lin(pl)).addConst(-68)
			okv = d.isConst() && d.k.Sign() == 0
			desc = shape(mk.Len, 4)
		})
		c.check(okv, R, "Packet.marshal allocates 4 + 32 + len(payload) + 32 bytes", f.Pos(), desc, "Packet.marshal allocates "+desc+" bytes; a frame is length(4) nonce(32) payload checksum(32): a longer buffer puts stray zero bytes into the encrypted stream and every later frame is misaligned")
	}
	width := map[string]int64{"PutUint16": 2, "PutUint32": 4, "PutUint64": 8}
	for _, f := range c.moduleFuncs(rels...) {
		n := 0
		allInstrs(f, func(_ *ssa.BasicBlock, in ssa.Instruction) {
			cl, ok := in.(*ssa.Call)
			if !ok {
				return
			}
			q := callQName(&cl.Call)
			var w int64
			for name, ww := range width {
				if strings.HasPrefix(q, "encoding/binary.") && strings.HasSuffix(q, "."+name) {
					w = ww
				}
			}
			if w == 0 {
				return
			}
			buf := cl.Call.Args[len(cl.Call.Args)-2]
			// the whole made buffer (possibly through x[:]), not a window of a bigger one
			if sl, ok := buf.(*ssa.Slice); ok && sl.Low == nil && sl.High == nil {
				if _, isAlloc := sl.X.(*ssa.Alloc); !isAlloc {
					buf = sl.X
				}
			}
			size := int64(-1)
			switch x := buf.(type) {
			case *ssa.MakeSlice:
				size, _ = constInt(x.Len)
			case *ssa.Slice:
				if al, ok := x.X.(*ssa.Alloc); ok && al.Comment == "makeslice" {
					if k, ok := constInt(x.High); ok || x.High == nil {
						if nn, ok2 := arrayLen(al.Type()); ok2 {
							size = nn
							if ok && k < nn {
								size = k
							}
						}
					}
					if x.Low != nil {
						size = -1
					}
				}
			}
			if size < 0 {
				return
			}
			n++
			key := fmt.Sprintf("%s: buffer of one %d-byte integer", fnName(f), w)
			if n > 1 {
				key += fmt.Sprintf("#%d", n)
			}
			c.check(size == w, R, key, cl.Pos(), fmt.Sprintf("make([]byte, %d)", size), fmt.Sprintf("%s makes a %d-byte buffer for a single %d-byte integer and hands the whole buffer on: the extra bytes travel (or are encoded) with it", fnName(f), size, w))
		})
		// io.ReadFull count vs requested length
		for _, b := range f.Blocks {
			iff := lastIf(b)
			if iff == nil {
				continue
			}
			bo, ok := iff.Cond.(*ssa.BinOp)
			if !ok || (bo.Op != token.EQL && bo.Op != token.NEQ) {
				continue
			}
			isCount := func(v ssa.Value) bool {
				ex, ok := v.(*ssa.Extract)
				if !ok || ex.Index != 0 {
					return false
				}
				cl := callOf(ex.Tuple)
				return cl != nil && (callQName(&cl.Call) == "io.ReadFull" || callQName(&cl.Call) == "io.ReadAtLeast")
			}
			if !isCount(bo.X) && !isCount(bo.Y) {
				continue
			}
			t, e := failsDirectly(f, b.Succs[0]), failsDirectly(f, b.Succs[1])
			if t == e {
				continue
			}
			failsWhenEqual := (t && bo.Op == token.EQL) || (e && bo.Op == token.NEQ)
			c.check(!failsWhenEqual, R, fnName(f)+": bytes read vs bytes wanted", bo.Pos(), "the error is on the unequal side", fnName(f)+" fails exactly when io.ReadFull delivered the number of bytes asked for: every complete frame is refused")
		}
	}
}

// liteStreamFields: the names of the two cipher.Stream fields of encryptedConn by role: tx is the one
// whose XORKeyStream runs in the method that writes to the socket (send), rx the other.
func (c *Ctx) liteStreamFields() (tx, rx string) {
	tx, rx = "cipher", "decipher"
	p := c.pkg("liteclient")
	if p == nil {
		return
	}
	tn, ok := p.Types.Scope().Lookup("encryptedConn").(*types.TypeName)
	if !ok {
		return
	}
	st, ok := tn.Type().Underlying().(*types.Struct)
	if !ok {
		return
	}
	var streams []string
	for i := 0; i < st.NumFields(); i++ {
		if strings.HasSuffix(st.Field(i).Type().String(), "crypto/cipher.Stream") {
			streams = append(streams, st.Field(i).Name())
		}
	}
	if len(streams) != 2 {
		return
	}
	f := c.fn("liteclient", "encryptedConn.send")
	if f == nil {
		return
	}
	used := ""
	allInstrs(f, func(_ *ssa.BasicBlock, in ssa.Instruction) {
		if cl, ok := in.(*ssa.Call); ok && cl.Call.IsInvoke() && cl.Call.Method.Name() == "XORKeyStream" {
			if _, n, ok := fieldOfLoad(cl.Call.Value); ok {
				used = n
			}
		}
	})
	switch used {
	case streams[0]:
		return streams[0], streams[1]
	case streams[1]:
		return streams[1], streams[0]
	}
	return
}

// liteKeyFields: the names of the two fields of x25519Keys by role: the ephemeral public key is the one
// filled from ed25519.GenerateKey, the shared secret the one filled from the key agreement.
func (c *Ctx) liteKeyFields() (pub, shared string) {
	pub, shared = "public", "shared"
	f := c.fn("liteclient", "newKeys")
	if f == nil {
		return
	}
	allInstrs(f, func(_ *ssa.BasicBlock, in ssa.Instruction) {
		st, ok := in.(*ssa.Store)
		if !ok {
			return
		}
		own, n, ok := fieldOf(st.Addr)
		if !ok || !strings.HasSuffix(own, "x25519Keys") {
			return
		}
		switch {
		case derivesFrom(st.Val, callResult(modPath+"/liteclient.sharedKey", "github.com/oasisprotocol/curve25519-voi/primitives/x25519.X25519"), false):
			shared = n
		case derivesFrom(st.Val, callResult("crypto/ed25519.GenerateKey"), false):
			pub = n
		}
	})
	return
}

// isMakeSliceBase: the slice expression cuts a buffer made by make([]byte, K) (directly or through the whole-buffer slice).
func isMakeSliceBase(d *ssa.Slice) bool {
	base := d.X
	if inner, ok := base.(*ssa.Slice); ok {
		base = inner.X
	}
	if al, ok := base.(*ssa.Alloc); ok && al.Comment == "makeslice" {
		return true
	}
	_, isMk := base.(*ssa.MakeSlice)
	return isMk
}

// sha256Pieces: the byte strings f feeds, in order, into one SHA-256: its own h.Write(x) calls on a hash made by
// one sha256.New(), or the arguments it hands to an unexported variadic helper that makes one sha256.New(),
// writes each element of its ...[]byte parameter in a range loop and returns Sum (sha256Sum(a, b)).
func sha256Pieces(f *ssa.Function) ([]ssa.Value, bool) {
	var direct []ssa.Value
	allInstrs(f, func(_ *ssa.BasicBlock, in ssa.Instruction) {
		if cl, ok := in.(*ssa.Call); ok && cl.Call.IsInvoke() && cl.Call.Method.Name() == "Write" {
			direct = append(direct, cl.Call.Args[0])
		}
	})
	if len(callsTo(f, "crypto/sha256.New")) == 1 {
		return direct, true
	}
	if len(direct) > 0 {
		return direct, false
	}
	for _, site := range callsIn(f) {
		h := plainHelper(site.Common().StaticCallee())
		if h == nil || h == f || !h.Signature.Variadic() || len(callsTo(h, "crypto/sha256.New")) != 1 {
			continue
		}
		// the helper writes exactly the current element of a range over its variadic parameter
		vp := h.Params[len(h.Params)-1]
		okLoop, nWrite := false, 0
		allInstrs(h, func(b *ssa.BasicBlock, in ssa.Instruction) {
			cl, ok := in.(*ssa.Call)
			if !ok || !cl.Call.IsInvoke() || cl.Call.Method.Name() != "Write" {
				return
			}
			nWrite++
			if ld, ok := cl.Call.Args[0].(*ssa.UnOp); ok && ld.Op == token.MUL {
				if ia, ok := ld.X.(*ssa.IndexAddr); ok && ia.X == ssa.Value(vp) && inLoop(b) {
					if _, isPhi := stripConv(ia.Index).(*ssa.Phi); isPhi || isRangeIndex(ia.Index) {
						okLoop = true
					}
				}
			}
		})
		if !okLoop || nWrite != 1 {
			continue
		}
		// the elements of the argument slice, by index
		args := site.Common().Args
		sl, ok := args[len(args)-1].(*ssa.Slice)
		if !ok {
			continue
		}
		al, ok := sl.X.(*ssa.Alloc)
		if !ok {
			continue
		}
		elems := map[int64]ssa.Value{}
		for _, ref := range *al.Referrers() {
			if ia, ok := ref.(*ssa.IndexAddr); ok {
				if i, ok := constInt(ia.Index); ok {
					for _, st := range storesTo(ia) {
						elems[i] = st.Val
					}
				}
			}
		}
		var out []ssa.Value
		for i := int64(0); i < int64(len(elems)); i++ {
			if elems[i] == nil {
				return nil, false
			}
			out = append(out, elems[i])
		}
		return out, true
	}
	return nil, false
}

// isRangeIndex: the index value of a range-over-slice loop in go/ssa (the incremented hidden counter).
func isRangeIndex(v ssa.Value) bool {
	bo, ok := v.(*ssa.BinOp)
	if !ok || bo.Op != token.ADD {
		return false
	}
	_, isPhi := bo.X.(*ssa.Phi)
	k, isK := constInt(bo.Y)
	return isPhi && isK && k == 1
}
