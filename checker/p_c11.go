package main

import "golang.org/x/tools/go/ssa"

func init() { register("C11", propC11) }

func propC11(c *Ctx) propInfo {
	// --- E8: ParsePacket success only through checksum equality and length bounds
	pp := c.mustFn("E8.mustcheck", "liteclient", "ParsePacket")
	if pp != nil {
		c.mustDominate("E8.mustcheck", pp, 1, []requiredCheck{
			{name: "bytes.Equal(trailer, sha256(nonce|payload))", src: callResult("bytes.Equal"), kind: "bool"},
		}, nil, "")
		c.boundsAtSuccess("E8.bounds", pp, 1, "frame length", func(v ssa.Value) bool {
			return derivesFrom(v, callResult("encoding/binary.littleEndian.Uint32"), false)
		}, 64, 8<<20)
	}
	c.floor("E8.mustcheck", 1)
	c.floor("E8.bounds", 1)
	return propInfo{
		explanation: "Static structural clauses of C11 (see DESIGN.md §4 C11): checksum/length validation dominates every success exit of ParsePacket; constant byte layouts of packet, session parameters and handshake agree between writer, reader and spec table; stream-cipher objects are created once and every received byte is decrypted before use. Decides these necessary conditions, not interoperability or cryptographic correctness.",
		assumptions: []string{"crypto primitives (AES-CTR, SHA-256, X25519) behave as documented", "io.ReadFull handles TCP segmentation"},
	}
}
