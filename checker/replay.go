package main

import (
	"encoding/json"
	"fmt"
	"os"
)

// replayObl re-evaluates the property on the current tree and reports the status of the
// single obligation recorded in the replay file.
func replayObl(c *Ctx, path string, info propInfo) int {
	b, err := os.ReadFile(path)
	if err != nil {
		fmt.Fprintln(os.Stderr, err)
		return 2
	}
	var r struct {
		Property   string `json:"property"`
		Obligation Obl    `json:"obligation"`
	}
	if err := json.Unmarshal(b, &r); err != nil {
		fmt.Fprintln(os.Stderr, err)
		return 2
	}
	for _, o := range c.Obls {
		if o.Key == r.Obligation.Key {
			fmt.Printf("replay: %s status=%s at %s %s%s\n", o.Key, o.Status, o.Pos, o.How, o.What)
			if o.Status == "violation" {
				fmt.Printf("VIOLATION property=%s replay=%s\n", c.Prop, path)
				return 1
			}
			return 0
		}
	}
	fmt.Printf("replay: obligation %s no longer exists on this tree\n", r.Obligation.Key)
	return 0
}
