package main

import (
	"fmt"
	"go/token"
	"go/types"

	"golang.org/x/tools/go/ssa"
)

// reflectSetGuards: reflect.Value.Set panics when the value is not assignable to the target.
// In the decoders a few Set calls store a value of a STATIC type (a cell, an Any) into whatever
// reflect.Value the caller passed; that is only safe where the target's dynamic type has been
// compared - with == on the true edge - against a type variable that denotes exactly that static
// type. The rule resolves the type variables from the package initialiser
// (var t = reflect.TypeOf(expr)), counts the Elem() steps on both sides, and demands the guard at
// the Set itself or, when the target is a parameter, at every call site. Targets whose value is
// built from the target's own type (reflect.New(val.Type().Elem()), MakeSlice(val.Type(), ..))
// are assignable by construction and carry no obligation.
func (c *Ctx) reflectSetGuards(rels ...string) {
	const R = "E1.P7-reflect-set"
	typeVars := map[*ssa.Global]types.Type{}
	for _, rel := range rels {
		sp := c.spkg(rel)
		if sp == nil {
			continue
		}
		if init := sp.Func("init"); init != nil {
			allInstrs(init, func(_ *ssa.BasicBlock, in ssa.Instruction) {
				st, ok := in.(*ssa.Store)
				if !ok {
					return
				}
				g, ok := st.Addr.(*ssa.Global)
				if !ok {
					return
				}
				if cl := callOf(st.Val); cl != nil && callQName(&cl.Call) == "reflect.TypeOf" {
					if mi, ok := cl.Call.Args[0].(*ssa.MakeInterface); ok {
						typeVars[g] = mi.X.Type()
					}
				}
			})
		}
	}
	elem := func(t types.Type, n int) types.Type {
		for i := 0; i < n && t != nil; i++ {
			p, ok := t.Underlying().(*types.Pointer)
			if !ok {
				return nil
			}
			t = p.Elem()
		}
		return t
	}
	// chain: strip reflect.Value.Elem calls
	chain := func(v ssa.Value) (ssa.Value, int) {
		n := 0
		for {
			cl := callOf(v)
			if cl == nil || callQName(&cl.Call) != "reflect.Value.Elem" {
				return v, n
			}
			v = cl.Call.Args[0]
			n++
		}
	}
	// guarded: at block b of f, base.Type() == G holds with typeVars[G] (k Elems) identical to want
	guarded := func(f *ssa.Function, b *ssa.BasicBlock, base ssa.Value, k int, want types.Type) bool {
		for _, ft := range factsAt(f, b) {
			bo, ok := ft.Cond.(*ssa.BinOp)
			if !ok || bo.Op != token.EQL || !ft.Truth {
				continue
			}
			for _, pr := range [][2]ssa.Value{{bo.X, bo.Y}, {bo.Y, bo.X}} {
				tc := callOf(pr[0])
				if tc == nil || callQName(&tc.Call) != "reflect.Value.Type" || tc.Call.Args[0] != base {
					continue
				}
				ld, ok := pr[1].(*ssa.UnOp)
				if !ok {
					continue
				}
				g, ok := ld.X.(*ssa.Global)
				if !ok {
					continue
				}
				if t := elem(typeVars[g], k); t != nil && want != nil && types.Identical(t, want) {
					return true
				}
			}
		}
		return false
	}
	ci := c.buildCallIndex()
	n := 0
	for _, f := range c.moduleFuncs(rels...) {
		for _, cl := range callsTo(f, "reflect.Value.Set") {
			srcBase, j := chain(cl.Call.Args[1])
			vo := callOf(srcBase)
			if vo == nil || callQName(&vo.Call) != "reflect.ValueOf" {
				continue // built from the target's own type
			}
			mi, ok := vo.Call.Args[0].(*ssa.MakeInterface)
			if !ok {
				continue
			}
			want := elem(mi.X.Type(), j)
			// a value obtained from the target's own type through an interface round trip
			// (reflect.New(val.Type()).Interface().(I)) is assignable by construction
			if derivesFrom(mi.X, func(v ssa.Value) bool {
				c2 := callOf(v)
				return c2 != nil && callQName(&c2.Call) == "reflect.New"
			}, true) {
				continue
			}
			dstBase, k := chain(cl.Call.Args[0])
			n++
			key := fmt.Sprintf("%s: Set(%s) into a caller-supplied value", fnName(f), types.TypeString(want, func(p *types.Package) string { return p.Name() }))
			okv := guarded(f, cl.Block(), dstBase, k, want)
			how := "type compared (==, true edge) with the matching type variable at the Set"
			if !okv {
				if prm, isParam := dstBase.(*ssa.Parameter); isParam {
					idx := -1
					for i, p := range f.Params {
						if p == prm {
							idx = i
						}
					}
					sites := ci.sites[origin(f)]
					okv = len(sites) > 0 && idx >= 0
					for _, s := range sites {
						args := s.Common().Args
						if idx >= len(args) || !guarded(s.Parent(), s.Block(), args[idx], k, want) {
							okv = false
						}
					}
					how = fmt.Sprintf("type compared with the matching type variable at each of the %d call sites", len(sites))
				}
			}
			c.check(okv, R, key, cl.Pos(), how, fmt.Sprintf("%s stores a %s into a reflect.Value whose type has not been established as exactly that (no `Type() == <type variable>` on the true edge, with && to the kind test, dominating the store): reflect.Value.Set panics on any other target - a library cell in untrusted input is enough to reach it", fnName(f), types.TypeString(want, nil)))
		}
	}
	if n < 3 {
		c.bad(R, "static-typed Set sites found", token.NoPos, fmt.Sprintf("only %d reflect Set sites with a statically typed value found in %v; four were confirmed", n, rels))
	}
}

// nilFuncCalls: calling a nil function value panics. A call through a function-typed field of one
// of the module's structs (an optional callback: library resolver, logger hook) must sit behind a
// comparison of that field with nil that excludes nil on the path to the call.
func (c *Ctx) nilFuncCalls(rels ...string) {
	const R = "E1.P8-nil-func"
	for _, f := range c.moduleFuncs(rels...) {
		ord := 0
		allInstrs(f, func(b *ssa.BasicBlock, in ssa.Instruction) {
			cl, ok := in.(*ssa.Call)
			if !ok || cl.Call.IsInvoke() || cl.Call.StaticCallee() != nil {
				return
			}
			ld, ok := cl.Call.Value.(*ssa.UnOp)
			if !ok || ld.Op != token.MUL {
				return
			}
			fa, ok := ld.X.(*ssa.FieldAddr)
			if !ok {
				return
			}
			tn, fn, ok := fieldOf(fa)
			if !ok {
				return
			}
			guarded := false
			for _, ft := range factsAt(f, b) {
				bo, ok := ft.Cond.(*ssa.BinOp)
				if !ok || (bo.Op != token.EQL && bo.Op != token.NEQ) {
					continue
				}
				for _, pr := range [][2]ssa.Value{{bo.X, bo.Y}, {bo.Y, bo.X}} {
					if !isNilConst(pr[1]) {
						continue
					}
					l2, ok := pr[0].(*ssa.UnOp)
					if !ok {
						continue
					}
					fa2, ok := l2.X.(*ssa.FieldAddr)
					if !ok || fa2.Field != fa.Field || !types.Identical(fa2.X.Type(), fa.X.Type()) {
						continue
					}
					if (bo.Op == token.NEQ) == ft.Truth {
						guarded = true
					}
				}
			}
			// a callback inside a loop whose continuation depends on what the callback returned has no
			// bound of its own: the other side decides how often it runs (a resolver that answers a
			// library cell with a library cell, for ever)
			if inLoop(b) {
				dep := false
				for _, lb := range f.Blocks {
					if !inLoop(lb) || !reachableFrom(lb, nil)[b] || !reachableFrom(b, nil)[lb] {
						continue
					}
					if iff := lastIf(lb); iff != nil && derivesFrom(iff.Cond, func(v ssa.Value) bool { return v == ssa.Value(cl) }, true) {
						if !isErrNilTest(iff.Cond) {
							dep = true
						}
					}
				}
				c.check(!dep, "E1.P5-callback-loop", fmt.Sprintf("%s: %s.%s is not re-invoked on its own answer", fnName(f), tn, fn), cl.Pos(), "no loop whose continuation depends on the callback's result", fmt.Sprintf("%s calls the callback %s.%s in a loop that goes on as long as the callback's own answer says so: nothing bounds the number of rounds (a resolver that keeps answering library cells makes decoding run for ever)", fnName(f), tn, fn))
			}
			ord++
			key := fmt.Sprintf("%s: call through %s.%s", fnName(f), tn, fn)
			if ord > 1 {
				key += fmt.Sprintf("#%d", ord)
			}
			if guarded {
				c.ok(R, key, cl.Pos(), "field compared with nil, non-nil on the path to the call")
				return
			}
			// always set by every constructor? accepted through the exception table only
			if why, ok := excLookupS(excNilFunc, key); ok {
				c.exc(R, key, cl.Pos(), why)
				return
			}
			c.bad(R, key, cl.Pos(), fmt.Sprintf("%s calls the function stored in %s.%s without a nil test that excludes nil on the way: with the callback not configured the call panics", fnName(f), tn, fn))
		})
	}
}

var excNilFunc = map[string]string{}

// isErrNilTest: cond is "err ==/!= nil" on an error value (the ordinary failure exit of a loop body).
func isErrNilTest(cond ssa.Value) bool {
	bo, ok := cond.(*ssa.BinOp)
	if !ok || (bo.Op != token.EQL && bo.Op != token.NEQ) {
		return false
	}
	return (isNilConst(bo.Y) && isErrorType(bo.X.Type())) || (isNilConst(bo.X) && isErrorType(bo.Y.Type()))
}
