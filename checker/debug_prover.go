package main

import (
	"fmt"
	"os"

	"golang.org/x/tools/go/ssa"
)

// debugFacts prints the prover facts at each bounds site of a function (TONGO_DEBUG_FN=pkg:Name).
func debugFacts(c *Ctx) {
	spec := os.Getenv("TONGO_DEBUG_FN")
	if spec == "" {
		return
	}
	i := 0
	for i < len(spec) && spec[i] != ':' {
		i++
	}
	f := c.fn(spec[:i], spec[i+1:])
	if f == nil {
		fmt.Println("debug: no such function")
		return
	}
	f.WriteTo(os.Stdout)
	for _, b := range f.Blocks {
		for _, in := range b.Instrs {
			switch in.(type) {
			case *ssa.IndexAddr, *ssa.Index, *ssa.Slice:
				p := c.newProver(f, b)
				fmt.Printf("site %s in block %d: %d facts\n", instrText(in), b.Index, len(p.facts))
				for _, ft := range p.facts {
					fmt.Printf("    %s >= 0   [%s]\n", ft.e, ft.why)
				}
			}
		}
	}
}

// debugGuards prints the shapes of all branch conditions of a function (TONGO_DEBUG_GUARDS=pkg:Name).
func debugGuards(c *Ctx) {
	spec := os.Getenv("TONGO_DEBUG_GUARDS")
	if spec == "" {
		return
	}
	i := 0
	for i < len(spec) && spec[i] != ':' {
		i++
	}
	f := c.fn(spec[:i], spec[i+1:])
	if f == nil {
		fmt.Println("debug: no such function")
		return
	}
	for _, b := range f.Blocks {
		if ifi := lastIf(b); ifi != nil {
			fmt.Printf("guard %s  rejects=%v  @%s\n", shape(ifi.Cond, 3), rejects(f, b), c.rel(condPos(ifi)))
		}
	}
}

// debugReach prints one call path from the roots to the named function (TONGO_DEBUG_REACH=pkg:Name).
func debugReach(c *Ctx, roots []*ssa.Function) {
	spec := os.Getenv("TONGO_DEBUG_REACH")
	if spec == "" {
		return
	}
	i := 0
	for i < len(spec) && spec[i] != ':' {
		i++
	}
	target := c.fn(spec[:i], spec[i+1:])
	cg := c.CG()
	prev := map[*ssa.Function]*ssa.Function{}
	var work []*ssa.Function
	for _, r := range roots {
		prev[r] = r
		work = append(work, r)
	}
	for len(work) > 0 {
		f := work[0]
		work = work[1:]
		if origin(f) == target {
			for g := f; ; g = prev[g] {
				fmt.Println("  <-", fnName(g))
				if prev[g] == g {
					return
				}
			}
		}
		var outs []*ssa.Function
		outs = append(outs, f.AnonFuncs...)
		if n := cg.Nodes[f]; n != nil {
			for _, e := range n.Out {
				outs = append(outs, e.Callee.Func)
			}
		}
		for _, g := range outs {
			if _, ok := prev[g]; !ok && inModule(g) {
				prev[g] = f
				work = append(work, g)
			}
		}
	}
	fmt.Println("not reachable")
}
