package main

import (
	"go/types"
	"reflect"
	"sort"
	"strings"
)

// E3a: tag hygiene and dispatch over the TL-B universe.

// tlbUniverse returns the named struct types of the module that take part in TL-B
// (de)serialisation through the reflection codec: those with a tlb/tlbSumType tag or a
// SumType field, plus named struct types reachable from them by field or type argument.
func (c *Ctx) tlbUniverse() []*types.Named {
	seen := map[*types.Named]bool{}
	var out []*types.Named
	var visitT func(t types.Type)
	add := func(n *types.Named) {
		n = n.Origin()
		if seen[n] || n.Obj().Pkg() == nil || !strings.HasPrefix(n.Obj().Pkg().Path(), modPath) {
			return
		}
		seen[n] = true
		if n.Obj().Pkg().Path() == bocPath {
			return // boc.Cell / boc.BitString are primitives of the codec, not reflectively coded structs
		}
		if _, ok := n.Underlying().(*types.Struct); ok {
			out = append(out, n)
		}
		if hasMethod(n, "MarshalTLB") || hasMethod(n, "UnmarshalTLB") {
			return // fields of a custom-coded type are not (necessarily) walked by the reflective codec
		}
		visitT(n.Underlying())
	}
	visitT = func(t types.Type) {
		switch u := t.(type) {
		case *types.Alias:
			visitT(types.Unalias(u))
		case *types.Named:
			if ta := u.TypeArgs(); ta != nil {
				for i := 0; i < ta.Len(); i++ {
					visitT(ta.At(i))
				}
			}
			add(u)
		case *types.Pointer:
			visitT(u.Elem())
		case *types.Slice:
			visitT(u.Elem())
		case *types.Array:
			visitT(u.Elem())
		case *types.Struct:
			for i := 0; i < u.NumFields(); i++ {
				visitT(u.Field(i).Type())
			}
		}
	}
	var paths []string
	for p := range c.ByPath {
		if strings.HasPrefix(p, modPath) && !strings.Contains(p, "/examples") && !strings.Contains(p, "/experiments") && !strings.Contains(p, "/cmd") {
			paths = append(paths, p)
		}
	}
	sort.Strings(paths)
	for _, p := range paths {
		sc := c.ByPath[p].Types.Scope()
		for _, name := range sc.Names() {
			tn, ok := sc.Lookup(name).(*types.TypeName)
			if !ok || tn.IsAlias() {
				continue
			}
			n, ok := tn.Type().(*types.Named)
			if !ok {
				continue
			}
			st, ok := n.Underlying().(*types.Struct)
			if !ok {
				continue
			}
			if structHasTLB(st, 0) {
				add(n)
			}
		}
	}
	return out
}

func structHasTLB(st *types.Struct, depth int) bool {
	for i := 0; i < st.NumFields(); i++ {
		tg := reflect.StructTag(st.Tag(i))
		if _, ok := tg.Lookup("tlb"); ok {
			return true
		}
		if _, ok := tg.Lookup("tlbSumType"); ok {
			return true
		}
		if n := namedOf(st.Field(i).Type()); n != nil && n.Obj().Name() == "SumType" && n.Obj().Pkg() != nil && n.Obj().Pkg().Path() == tlbPath {
			return true
		}
		if depth < 2 {
			ft := st.Field(i).Type()
			if p, ok := ft.(*types.Pointer); ok {
				ft = p.Elem()
			}
			if inner, ok := ft.(*types.Struct); ok && structHasTLB(inner, depth+1) {
				return true
			}
		}
	}
	return false
}

// tagHygiene runs the layout derivation over the universe and reports hygiene problems for
// reflectively coded types; custom-coded types must have both directions.
func (c *Ctx) tagHygiene() {
	const R = "E3a.hygiene"
	const RP = "E3a.codec-pair"
	uni := c.tlbUniverse()
	for _, n := range uni {
		k := typeKey(n)
		hm, hu := hasMethod(n, "MarshalTLB"), hasMethod(n, "UnmarshalTLB")
		if hm && hu {
			c.ok(RP, k, n.Obj().Pos(), "custom codec in both directions")
			continue
		}
		l := c.newLayout()
		l.stack[k] = true
		l.layoutUnder(n.Underlying(), k)
		if hm != hu {
			// one-sided custom codec: the other direction is the reflective one and must work on this struct
			side, fatal := "MarshalTLB", "[ambig]"
			if hu {
				// only a custom decoder: tlb.Marshal walks the struct reflectively. An error there is an
				// honest "cannot encode"; a panic (unexported field) is not.
				side, fatal = "UnmarshalTLB", "[panic]"
			}
			var bad []string
			for _, p := range dedup(l.problem) {
				if strings.HasPrefix(p, fatal) {
					bad = append(bad, p)
				}
			}
			if len(bad) > 0 {
				c.bad(RP, k, n.Obj().Pos(), k+" has only "+side+"; the reflective codec used for the other direction misbehaves on it: "+strings.Join(bad, "; "))
			} else {
				c.ok(RP, k, n.Obj().Pos(), "one custom side ("+side+"); the reflective side either works or fails with an error")
			}
			continue
		}
		if len(l.problem) > 0 {
			c.bad(R, k, n.Obj().Pos(), strings.Join(dedup(l.problem), "; "))
		} else {
			c.ok(R, k, n.Obj().Pos(), "tags parse, alternatives tagged and prefix-free, field kinds supported, no unexported field")
		}
	}
	c.note("tlb universe: %d struct types", len(uni))
}

func dedup(s []string) []string {
	m := map[string]bool{}
	var out []string
	for _, x := range s {
		if !m[x] {
			m[x] = true
			out = append(out, x)
		}
	}
	return out
}
