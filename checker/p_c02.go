package main

import (
	"fmt"
	"go/constant"
	"go/token"
	"go/types"
	"sort"
	"strings"

	"golang.org/x/tools/go/ssa"
)

func init() { register("C02", propC02) }

func propC02(c *Ctx) propInfo {
	c.bocDescriptors() // d1/d2 are the first two bytes of every hash preimage
	c.hashCursorIndependence()
	c.hashSingleImplementation()
	c.hashPreimage()
	c.hashDepthLimit()
	c.prunedAccessors()
	c.fieldwiseCopy("E2.R-partial-assign", "boc")
	c.hashIndexCounter()
	c.hashConstants()
	c.prunedCellLayout()
	c.floor("E10.cursor-independence", 2)
	c.floor("E10.single-hash", 8)
	c.floor("E7.preimage", 5)
	c.floor("E8.depth-limit", 2)
	c.floor("E7.pruned-accessors", 4)
	c.tailZero()
	c.hashStoreReaders()
	c.hasherState()
	c.cacheOnlyComplete()
	c.levelMaskAlgebra()
	c.maskPropagation()
	return propInfo{
		explanation: "Static structural clauses of C02 (DESIGN.md §4 C02): nothing reachable from the hashing functions reads a read-cursor or writes a field of the cell being hashed; every public hash entry point reaches the one implementation (newImmutableCell) and differs only in the cache passed; in the per-level loop the descriptor and the mask-dependent representation take their mask from mask.Apply(level) of the loop level, the preimage is written in the order representation|previous hash, all child depths (2 bytes big-endian), all child hashes, with the child level shifted exactly for the two Merkle types; the depth limit dominates the append of a depth; pruned-branch accessors use strides 32 and 2 from base 2. Decides these necessary conditions, not the level-mask arithmetic nor numeric hash values. Also the zero-tail invariant of bit strings (every bulk copy into a BitString buffer clones a whole buffer, sets a byte-aligned length or masks the last byte), on which the raw-buffer representation relies.",
	}
}

// fieldsTouched: fields read / written by everything reachable (in package boc) from roots.
func (c *Ctx) fieldsTouched(roots []*ssa.Function) (reads, writes map[string]string) {
	reads, writes = map[string]string{}, map[string]string{}
	reach := c.reachable(roots, map[string]bool{"boc": true})
	for f := range reach {
		ff := origin(f)
		allInstrs(ff, func(_ *ssa.BasicBlock, in ssa.Instruction) {
			switch x := in.(type) {
			case *ssa.UnOp:
				if x.Op == token.MUL {
					if of, ok := ownerField(x.X); ok {
						if _, seen := reads[of]; !seen {
							reads[of] = fnName(ff) + " at " + c.rel(x.Pos())
						}
					}
				}
			case *ssa.Store:
				if of, ok := ownerField(x.Addr); ok {
					if fa := x.Addr.(*ssa.FieldAddr); !isFresh(fa.X) {
						if _, seen := writes[of]; !seen {
							writes[of] = fnName(ff) + " at " + c.rel(x.Pos())
						}
					}
				}
			}
		})
	}
	return
}

func (c *Ctx) hashCursorIndependence() {
	const R = "E10.cursor-independence"
	roots := c.rootsByName(R, "boc:newImmutableCell", "boc:immutableCell.Hash", "boc:immutableCell.Depth")
	reads, writes := c.fieldsTouched(roots)
	var bad []string
	for _, f := range []string{"boc.BitString.rCursor", "boc.Cell.refCursor"} {
		if w, ok := reads[f]; ok {
			bad = append(bad, f+" read by "+w)
		}
	}
	c.check(len(bad) == 0, R, "hashing never reads a read cursor", token.NoPos, fmt.Sprintf("%d fields read by the hashing code, none of them a cursor", len(reads)), "the hashing code reads a read cursor ("+strings.Join(bad, "; ")+"): a hash would depend on what has already been read from the cell")
	var wbad []string
	for f, w := range writes {
		if strings.HasPrefix(f, "boc.Cell.") || strings.HasPrefix(f, "boc.BitString.") {
			wbad = append(wbad, f+" written by "+w)
		}
	}
	c.check(len(wbad) == 0, R, "hashing never writes the cell being hashed", token.NoPos, "no store to a field of Cell / BitString is reachable from the hashing code", "the hashing code modifies the cell it hashes: "+strings.Join(wbad, "; "))
}

func (c *Ctx) hashSingleImplementation() {
	const R = "E10.single-hash"
	impl := c.mustFn(R, "boc", "newImmutableCell")
	if impl == nil {
		return
	}
	for _, n := range []string{"Cell.Hash", "Cell.Hash256", "Cell.HashString", "Hasher.Hash", "Hasher.HashString", "Cell.Sign"} {
		f := c.mustFn(R, "boc", n)
		if f == nil {
			continue
		}
		reach := c.reachable([]*ssa.Function{f}, map[string]bool{"boc": true})
		c.check(reach[impl], R, n+" reaches newImmutableCell", f.Pos(), "the one hashing implementation is on the call path", n+" no longer computes its hash through newImmutableCell (a second implementation could diverge)")
	}
	// Cell.hash returns imc.Hash(maxLevel). When the unexported helper was inlined into its callers, each public
	// entry point that builds the immutable cell itself is held to the same two clauses.
	hashFns := []*ssa.Function{}
	if f := c.fn("boc", "Cell.hash"); f != nil {
		hashFns = append(hashFns, f)
	} else {
		for _, n := range []string{"Cell.Hash", "Cell.Hash256", "Cell.HashString", "Hasher.Hash"} {
			if f := c.fn("boc", n); f != nil && len(callsTo(f, bocPath+".newImmutableCell")) > 0 {
				hashFns = append(hashFns, f)
			}
		}
		if len(hashFns) == 0 {
			c.mustFn(R, "boc", "Cell.hash")
		}
	}
	for fi, f := range hashFns {
		if fi > 0 {
			// the ledger keys below name Cell.hash; further inlined copies are checked but share the verdict
			sh := c.shadow()
			sh.singleHashBody(R, f)
			for _, o := range sh.Obls {
				if o.Status == "violation" {
					c.bad(R, fnName(f)+": "+strings.TrimPrefix(o.Key, R+"|"), f.Pos(), o.What)
				}
			}
			continue
		}
		c.singleHashBody(R, f)
	}
}

func (c *Ctx) singleHashBody(R string, f *ssa.Function) {
	{
		okv := false
		for _, cl := range callsTo(f, bocPath+".immutableCell.Hash") {
			if k, ok := constInt(cl.Call.Args[1]); ok && k == 3 {
				okv = true
			}
		}
		c.check(okv, R, "Cell.hash returns the hash of the top level", f.Pos(), "imc.Hash(maxLevel=3)", "Cell.hash no longer returns the representation hash at the maximum level (3)")
		// and nothing else: every success return is that computed value (a hash stored in the cell, e.g. one read
		// from a bag of cells that carries hashes, is attacker-chosen data and must not be handed out as the hash)
		okAll, nRet := true, 0
		for _, sp := range successPoints(f, 1) {
			nRet++
			if !derivesFrom(retVal(sp.Ret, 0), callResult(bocPath+".immutableCell.Hash"), true) {
				okAll = false
			}
		}
		c.check(okAll && nRet >= 1, R, "every hash handed out by Cell.hash is computed from the cell's content", f.Pos(), "single success return: imc.Hash(maxLevel)", "Cell.hash can return a value that is not computed by newImmutableCell/immutableCell.Hash (a cached or stored hash): a bag of cells that stores hashes can then make a cell report any hash - a state-init can be made to 'hash' to a victim's address")
	}
}

// hashPreimage: order and arguments of the Write calls on the sha256 state inside the level loop.
func (c *Ctx) hashPreimage() {
	const R = "E7.preimage"
	f := c.mustFn(R, "boc", "newImmutableCell")
	if f == nil {
		return
	}
	// the loop level variable: phi named "i" compared with level
	var lvl *ssa.Phi
	// the level variable is what IsSignificant is asked about
	for _, cl := range callsTo(f, bocPath+".levelMask.IsSignificant") {
		derivesFrom(cl.Call.Args[1], func(v ssa.Value) bool {
			if ph, ok := v.(*ssa.Phi); ok && inLoop(ph.Block()) && lvl == nil {
				lvl = ph
			}
			return false
		}, false)
	}
	if lvl == nil {
		c.bad(R, "level loop", f.Pos(), "per-level loop variable not found")
		return
	}
	fromApply := func(v ssa.Value) bool {
		cl := callOf(v)
		if cl == nil || callQName(&cl.Call) != bocPath+".levelMask.Apply" {
			return false
		}
		return derivesFrom(cl.Call.Args[1], func(x ssa.Value) bool { return x == ssa.Value(lvl) }, false)
	}
	// the rule's own named primitives are not entered; every other unexported helper of the package is read
	// as if inlined (E19), so extracting a step of the loop into a helper changes nothing
	prims := map[string]bool{"newImmutableCell": true, "d1": true, "d2": true, "descriptors": true, "descriptorBytes": true, "bocReprWithoutRefs": true, "Hash": true, "Depth": true, "Apply": true, "IsSignificant": true, "HashIndex": true, "HashesCount": true, "Level": true}
	stop := func(g *ssa.Function) bool { return prims[g.Name()] }
	view := c.inlineView(f, 2, stop)
	callsQ := func(q string) []vinstr {
		var out []vinstr
		for _, vi := range view {
			if cl, ok := vi.in.(*ssa.Call); ok && callQName(&cl.Call) == q {
				out = append(out, vi)
			}
		}
		return out
	}
	argOf := func(vi vinstr, i int) ssa.Value {
		v, _ := resolveDeep(vi.in.(*ssa.Call).Call.Args[i], vi.cx)
		return v
	}
	// every d1(...) and bocReprWithoutRefs(...) call takes mask.Apply(i)
	n := 0
	okMask := true
	for _, q := range []string{c.qn("boc", "d1"), bocPath + ".Cell.bocReprWithoutRefs"} {
		for _, vi := range callsQ(q) {
			n++
			if !fromApply(argOf(vi, 1)) {
				okMask = false
			}
		}
	}
	c.check(okMask && n == 2, R, "descriptor byte uses the mask of the level being hashed", f.Pos(), "both the level-0 representation and the higher-level descriptor take c.mask.Apply(i)", "the descriptor byte d1 (or the representation) of a level is no longer computed from mask.Apply(level): cells with two or more mask bits hash wrongly above level 0")
	// order of hash.Write calls in one iteration of the level loop: [repr | d1d2 + previous hash] , depths (in refs loop), hashes (in refs loop)
	var writes []vinstr
	for _, vi := range view {
		if cl, ok := vi.in.(*ssa.Call); ok && cl.Call.IsInvoke() && cl.Call.Method.Name() == "Write" {
			writes = append(writes, vi)
		}
	}
	kind := func(cl *ssa.Call) string {
		a := cl.Call.Args[0]
		switch {
		case derivesFrom(a, callResult(bocPath+".Cell.bocReprWithoutRefs"), false):
			return "repr"
		case derivesFrom(a, callResult(c.qn("boc", "d1")), false):
			return "d1d2"
		case derivesFrom(a, callResult(bocPath+".immutableCell.Hash"), false):
			return "childhash"
		case derivesFrom(a, callResult("encoding/binary.bigEndian.PutUint16"), false) || sliceOfLocalArray(a, 2):
			return "childdepth"
		case derivesFrom(a, func(v ssa.Value) bool { _, fn, ok := fieldOf(v); return ok && fn == "hashes" }, false):
			return "prevhash"
		}
		return "?"
	}
	byKind := map[string][]vinstr{}
	var seq []string
	for _, w := range writes {
		k := kind(w.in.(*ssa.Call))
		seq = append(seq, k)
		byKind[k] = append(byKind[k], w)
	}
	sort.Strings(seq)
	got := strings.Join(seq, " ")
	// a runs before b in one iteration (compared where their call chains part)
	header := lvl.Block()
	runsBefore := func(a, b vinstr) bool {
		chain := func(v vinstr) []ssa.Instruction {
			var out []ssa.Instruction
			out = append(out, v.in)
			for cx := v.cx; cx != nil && cx.site != nil; cx = cx.parent {
				out = append([]ssa.Instruction{cx.site}, out...)
			}
			return out
		}
		ca, cb := chain(a), chain(b)
		for i := 0; i < len(ca) && i < len(cb); i++ {
			if ca[i] == cb[i] {
				continue
			}
			g := ca[i].Parent()
			var h *ssa.BasicBlock
			if g == f {
				h = header
			}
			return orderedWithin(g, h, ca[i], cb[i]) && !orderedWithin(g, h, cb[i], ca[i])
		}
		return false
	}
	allBefore := func(ka, kb string) bool {
		for _, a := range byKind[ka] {
			for _, b := range byKind[kb] {
				if !runsBefore(a, b) {
					return false
				}
			}
		}
		return true
	}
	exclusive := func(ka, kb string) bool {
		for _, a := range byKind[ka] {
			for _, b := range byKind[kb] {
				ta, tb := a.top(), b.top()
				if ta == tb || orderedWithin(f, header, ta, tb) || orderedWithin(f, header, tb, ta) {
					return false
				}
			}
		}
		return true
	}
	okOrder := len(byKind["?"]) == 0
	for _, k := range []string{"repr", "d1d2", "prevhash", "childdepth", "childhash"} {
		if len(byKind[k]) == 0 {
			okOrder = false
		}
	}
	okOrder = okOrder && allBefore("d1d2", "prevhash") && allBefore("repr", "childdepth") && allBefore("prevhash", "childdepth") && allBefore("childdepth", "childhash") && exclusive("repr", "d1d2") && exclusive("repr", "prevhash")
	c.check(okOrder, R, "preimage segment order", f.Pos(), "representation | (d1 d2, previous level hash) ; all child depths ; all child hashes (order of the Write calls along the paths of one loop iteration)", "the SHA-256 preimage of a level is not written as [repr | d1d2 prevhash] [child depths] [child hashes]: the Write calls found are ["+got+"] and their order along the paths of one iteration differs from the definition")
	var dW, hW *ssa.Call
	if len(byKind["childdepth"]) > 0 {
		dW = byKind["childdepth"][0].in.(*ssa.Call)
	}
	if len(byKind["childhash"]) > 0 {
		hW = byKind["childhash"][0].in.(*ssa.Call)
	}
	if dW != nil && hW != nil {
		// both child writes index the same level: their level argument is the same value
		dl := callsQ(bocPath + ".immutableCell.Depth")
		hl := callsQ(bocPath + ".immutableCell.Hash")
		same := len(dl) == 1 && len(hl) == 1 && argOf(dl[0], 1) == argOf(hl[0], 1)
		c.check(same, R, "child depth and child hash are taken at the same level", dW.Pos(), "Depth(childLevelIndex) and Hash(childLevelIndex) share the level value", "child depths and child hashes are taken at different levels")
		// the shared level is i or i+1 exactly under the Merkle-type test
		if same {
			lv := argOf(dl[0], 1)
			plain, shifted, other := false, false, false
			type vc = struct {
				v  ssa.Value
				cx *vctx
			}
			var cands []vc
			// i + shift with the shift chosen once, before the loop over the levels: 0 or 1
			if bo, ok := lv.(*ssa.BinOp); ok && bo.Op == token.ADD {
				for _, pr := range [][2]ssa.Value{{bo.X, bo.Y}, {bo.Y, bo.X}} {
					x, _ := resolveDeep(pr[0], nil)
					sh, isPhi := pr[1].(*ssa.Phi)
					if x != ssa.Value(lvl) || !isPhi {
						continue
					}
					ks := map[int64]bool{}
					allK := true
					for _, e := range sh.Edges {
						if k, ok := constInt(e); ok {
							ks[k] = true
						} else {
							allK = false
						}
					}
					if allK && len(ks) == 2 && ks[0] && ks[1] {
						plain, shifted = true, true
					}
				}
			}
			if plain && shifted {
				// decided
			} else if ph, ok := lv.(*ssa.Phi); ok {
				for _, e := range ph.Edges {
					cands = append(cands, vc{e, nil})
				}
			} else {
				for _, x := range helperReturns(lv, nil, stop) {
					cands = append(cands, vc{x.v, x.cx})
				}
			}
			for _, cd := range cands {
				e, cx := resolveDeep(cd.v, cd.cx)
				if e == ssa.Value(lvl) {
					plain = true
					continue
				}
				if bo, ok := e.(*ssa.BinOp); ok && bo.Op == token.ADD {
					x, _ := resolveDeep(bo.X, cx)
					if k, ok := constInt(bo.Y); ok && k == 1 && x == ssa.Value(lvl) {
						shifted = true
						continue
					}
				}
				other = true
			}
			c.check(plain && shifted && !other, R, "Merkle cells hash their children one level up", dW.Pos(), "childLevelIndex is i, or i+1 on the Merkle-proof / Merkle-update edge", "the child level is no longer i for ordinary cells and i+1 for Merkle cells")
		}
		// the i+1 edge is taken exactly for cell types 3 and 4: every test of the cell type against one of them sends
		// its EQUAL side (true edge of ==, false edge of !=) straight to one and the same block - not into the other
		// test (that would be "and"), and not to different places
		tset := map[int64]bool{}
		typeTests := map[*ssa.BasicBlock]bool{}
		eqSide := map[*ssa.BasicBlock]bool{}
		okSides := true
		for pass := 0; pass < 2; pass++ {
			for _, vi := range view {
				ifi, ok := vi.in.(*ssa.If)
				if !ok {
					continue
				}
				if bo, ok := ifi.Cond.(*ssa.BinOp); ok && (bo.Op == token.EQL || bo.Op == token.NEQ) {
					x, _ := resolveDeep(bo.X, vi.cx)
					if k, ok := constInt(bo.Y); ok && k >= 2 && derivesFrom(x, fieldLoadOf("boc.Cell.cellType"), false) {
						if pass == 0 {
							tset[k] = true
							typeTests[ifi.Block()] = true
							continue
						}
						side := ifi.Block().Succs[0]
						if bo.Op == token.NEQ {
							side = ifi.Block().Succs[1]
						}
						if typeTests[side] {
							okSides = false
						}
						eqSide[side] = true
					}
				}
			}
		}
		if len(eqSide) != 1 {
			okSides = false
		}
		types := keysOfInt(tset)
		c.check(okSides || len(types) == 0, R, "the child-level shift is taken when the type IS Merkle proof OR Merkle update", dW.Pos(), "both type tests send their equal side to the same block", "the tests of the cell type that select the shifted child level are no longer 'type == MerkleProof || type == MerkleUpdate' (an inverted comparison or an 'and'): Merkle cells hash their children at the wrong level, or ordinary cells do")
		c.check(fmt.Sprint(types) == "[3 4]", R, "the shifted child level applies to Merkle proof and Merkle update cells", dW.Pos(), "cellType == 3 || cellType == 4", fmt.Sprintf("the child-level shift is applied for cell types %v, the definition says Merkle proof (3) and Merkle update (4)", types))
	}
}

func sliceOfLocalArray(v ssa.Value, n int64) bool {
	sl, ok := v.(*ssa.Slice)
	if !ok {
		return false
	}
	k, ok := arrayLen(sl.X.Type())
	return ok && k == n
}

func (c *Ctx) hashDepthLimit() {
	const R = "E8.depth-limit"
	f := c.mustFn(R, "boc", "newImmutableCell")
	if f == nil {
		return
	}
	// the append to imm.depths of a depth that was incremented is dominated by the false edge of depth >= maxDepth
	var guard *ssa.If
	passIdx := 1
	var guarded ssa.Value
	// the limit test sits in newImmutableCell or in an unexported helper it calls (depthAbove(maxChild, refs))
	entry := f
	for _, g := range c.deepFns(entry) {
		for _, b := range g.Blocks {
			if ifi := lastIf(b); ifi != nil {
				for i, s := range b.Succs {
					if !returnsSentinel(s, "ErrDepthIsTooBig") {
						continue
					}
					// rejected exactly from 1024 on, however the comparison is spelt
					if x, lo, ok := rejectLowerBound(ifi, i); ok && lo == 1024 {
						guard, passIdx, guarded = ifi, 1-i, stripConv(x)
						f = g
					}
				}
			}
		}
	}
	c.check(guard != nil, R, "depth >= maxDepth returns ErrDepthIsTooBig", f.Pos(), "guard with the constant 1024 whose failing edge returns the sentinel", "newImmutableCell no longer rejects a cell whose children reach depth 1024 with ErrDepthIsTooBig")
	if guard != nil {
		// the increment depth+1 happens only behind the guard
		okInc := true
		allInstrs(f, func(b *ssa.BasicBlock, in ssa.Instruction) {
			bo, ok := in.(*ssa.BinOp)
			if !ok || bo.Op != token.ADD {
				return
			}
			// the running depth is the value the limit guard compares with 1024
			if stripConv(bo.X) == guarded {
				if k, ok := constInt(bo.Y); ok && k == 1 {
					if !edgeDominates(f, edge{guard.Block(), passIdx}, b) {
						okInc = false
					}
				}
			}
		})
		c.check(okInc, R, "depth is incremented only behind the limit check", condPos(guard), "depth+1 is dominated by the passing edge of the limit guard", "the depth of a cell is incremented on a path that bypasses the depth-limit check")
	}
}

// prunedAccessors: stored hash k at [2+32k, 2+32(k+1)), stored depth at 2+32*count+2k.
func (c *Ctx) prunedAccessors() {
	const R = "E7.pruned-accessors"
	if f := c.mustFn(R, "boc", "immutableCell.Hash"); f != nil {
		var sl *ssa.Slice
		allInstrs(f, func(_ *ssa.BasicBlock, in ssa.Instruction) {
			if s, ok := in.(*ssa.Slice); ok && s.Low != nil && s.High != nil {
				sl = s
			}
		})
		okv := false
		if sl != nil {
			p := c.newProver(f, sl.Block())
			lo, hi := p.lin(sl.Low), p.lin(sl.High)
			// hi - lo == 32 ; lo = 2 + 32*index
			okv = p.prove(hi.sub(lo).addConst(-32)) && p.prove(lo.sub(hi).addConst(32)) && affineIn(lo, 2, 32)
		}
		c.check(okv, R, "stored hash k occupies bytes [2+32k, 2+32k+32)", f.Pos(), "slice bounds are 2+32*index and 32 bytes later", "immutableCell.Hash no longer slices the stored hash of a pruned branch at 2+32*index (32 bytes)")
	}
	if f := c.mustFn(R, "boc", "immutableCell.Depth"); f != nil {
		var sl *ssa.Slice
		allInstrs(f, func(_ *ssa.BasicBlock, in ssa.Instruction) {
			if s, ok := in.(*ssa.Slice); ok && s.Low != nil {
				sl = s
			}
		})
		okv := false
		if sl != nil {
			// the offset as a linear form, however it is spelt (literals or named constants, temporaries, any
			// order of the terms): constant 2, one term with coefficient 32 and one with coefficient 2
			lo := c.newProver(f, sl.Block()).lin(sl.Low)
			has32, has2 := 0, 0
			for _, co := range lo.co {
				switch {
				case co.Cmp(ratInt(32)) == 0:
					has32++
				case co.Cmp(ratInt(2)) == 0:
					has2++
				default:
					has32 = -99
				}
			}
			okv = lo.k.Cmp(ratInt(2)) == 0 && has32 == 1 && has2 == 1
		}
		two := false
		for _, cl := range callsTo(f, bocPath+".readNBytesUIntFromArray") {
			if k, ok := constInt(cl.Call.Args[0]); ok && k == 2 {
				two = true
			}
		}
		c.check(okv && two, R, "stored depth k is the 2-byte big-endian value at 2+32*count+2k", f.Pos(), "offset 2 + 32*offset + 2*index, two bytes", "immutableCell.Depth no longer reads the stored depth of a pruned branch as two bytes at 2+32*count+2*index")
	}
	// a pruned branch answers from its stored data exactly when the requested hash index differs from its own
	for _, n := range []string{"immutableCell.Hash", "immutableCell.Depth"} {
		f := c.fn("boc", n)
		if f == nil {
			continue
		}
		okv := false
		for _, b := range f.Blocks {
			if ifi := lastIf(b); ifi != nil {
				if bo, ok := ifi.Cond.(*ssa.BinOp); ok && (bo.Op == token.NEQ || bo.Op == token.EQL) {
					if derivesFrom(bo.X, callResult(bocPath+".levelMask.HashIndex"), false) && derivesFrom(bo.Y, callResult(bocPath+".levelMask.HashIndex"), false) {
						okv = true
					}
				}
			}
		}
		c.check(okv, R, n+" compares the requested hash index with the cell's own", f.Pos(), "index != offset selects the stored value", n+" no longer selects between stored and own value by comparing hash indices")
		// polarity: the stored bytes are read where the cell IS a pruned branch and the indices DIFFER
		var sl *ssa.Slice
		allInstrs(f, func(_ *ssa.BasicBlock, in ssa.Instruction) {
			if x, ok := in.(*ssa.Slice); ok && x.Low != nil {
				sl = x
			}
		})
		if sl == nil {
			continue
		}
		pruned, differ := false, false
		for _, ft := range factsAt(f, sl.Block()) {
			bo, ok := ft.Cond.(*ssa.BinOp)
			if !ok || (bo.Op != token.NEQ && bo.Op != token.EQL) {
				continue
			}
			eq := (bo.Op == token.EQL) == ft.Truth
			if derivesFrom(bo.X, callResult(bocPath+".levelMask.HashIndex"), false) && derivesFrom(bo.Y, callResult(bocPath+".levelMask.HashIndex"), false) {
				differ = !eq
				continue
			}
			for _, pr := range [][2]ssa.Value{{bo.X, bo.Y}, {bo.Y, bo.X}} {
				if k, ok := constInt(pr[1]); ok && k == c.constValue("boc", "PrunedBranchCell") && isFieldLoadOfType(pr[0], "CellType") {
					pruned = eq
				}
			}
		}
		c.check(pruned && differ, R, n+" reads stored bytes only for a pruned branch and a foreign level", sl.Pos(), "cellType == PrunedBranchCell and index != offset", n+fmt.Sprintf(" slices the stored hashes/depths under [is a pruned branch: %v, requested index differs from own: %v]; the stored values exist only in a pruned branch and answer only for the levels above the cell's own - any other cell (or level) has no such bytes and gets garbage or a panic", pruned, differ))
	}
}

// constValue: the integer value of a package-level constant (-1 when absent).
func (c *Ctx) constValue(rel, name string) int64 {
	p := c.pkg(rel)
	if p == nil {
		return -1
	}
	if cst, ok := p.Types.Scope().Lookup(name).(*types.Const); ok {
		if v, ok := constant.Int64Val(constant.ToInt(cst.Val())); ok {
			return v
		}
	}
	return -1
}

// isFieldLoadOfType: v is a load of a struct field whose type is the named type tn.
func isFieldLoadOfType(v ssa.Value, tn string) bool {
	u, ok := stripConv(v).(*ssa.UnOp)
	if !ok || u.Op != token.MUL {
		return false
	}
	fa, ok := u.X.(*ssa.FieldAddr)
	if !ok {
		return false
	}
	n, ok := u.Type().(*types.Named)
	_ = fa
	return ok && n.Obj().Name() == tn
}

// affineIn: e == base + stride*v for a single variable v.
func affineIn(e *linexp, base, stride int64) bool {
	if len(e.co) != 1 {
		return false
	}
	for _, c := range e.co {
		if c.Cmp(ratInt(stride)) != 0 {
			return false
		}
	}
	return e.k.Cmp(ratInt(base)) == 0
}

func (c *Ctx) hashConstants() {
	const R = "E11.limits"
	p := c.pkg("boc")
	if p == nil {
		return
	}
	want := map[string]int64{"hashSize": 32, "depthSize": 2, "maxLevel": 3, "maxDepth": 1024, "CellBits": 1023}
	for name, w := range want {
		okv := constObjEquals(p, name, w)
		c.check(okv, R, name+" == "+fmt.Sprint(w), token.NoPos, "protocol constant matches the TON specification", fmt.Sprintf("boc.%s is no longer %d", name, w))
	}
}

// tailZero: the representation (bocReprWithoutRefs) copies the raw buffer and ORs the completion
// tag in, so it relies on the invariant "bits at positions >= len are zero". Bit-level writers
// keep it (On/Off at len); every *bulk* copy into a BitString buffer must either clone a whole
// buffer together with its len, set a byte-aligned len, or mask the last byte afterwards.
// tailZeroStatus evaluates the zero-tail rule without recording obligations.
func (c *Ctx) tailZeroStatus() (bool, []string) {
	sh := c.shadow()
	sh.tailZero()
	var bad []string
	for _, o := range sh.Obls {
		if o.Rule == "E10.tail-zero" && o.Status == "violation" {
			bad = append(bad, o.Key)
		}
	}
	return len(bad) == 0, bad
}

func (c *Ctx) tailZero() {
	const R = "E10.tail-zero"
	// the consumer: confirm the reliance exists (otherwise the rule is moot and must be revisited)
	if f := c.mustFn(R, "boc", "Cell.bocReprWithoutRefs"); f != nil {
		uses := len(callsTo(f, modPath+"/boc.Cell.getBuffer")) == 1
		if !uses {
			// the one-line getter inlined: a copy whose source is the raw buffer field itself
			allInstrs(f, func(_ *ssa.BasicBlock, in ssa.Instruction) {
				if cl, ok := in.(*ssa.Call); ok {
					if bi, ok := cl.Call.Value.(*ssa.Builtin); ok && bi.Name() == "copy" && len(cl.Call.Args) == 2 {
						if derivesFrom(cl.Call.Args[1], fieldLoadOf("boc.BitString.buf"), false) || derivesFrom(cl.Call.Args[1], callResult(bocPath+".BitString.Buffer"), false) {
							uses = true
						}
					}
				}
			})
		}
		c.check(uses, R, "representation copies the raw buffer (relies on a zero tail)", f.Pos(), "copy(res[2:], c.getBuffer()) | tag bit", "bocReprWithoutRefs no longer copies the raw buffer: the zero-tail invariant rule must be revisited")
	}
	isBufField := func(v ssa.Value) bool {
		tn, fn, ok := fieldOf(v)
		return ok && fn == "buf" && tn == "boc.BitString"
	}
	n := 0
	for _, f := range c.moduleFuncs("boc") {
		// clone idioms stored into a BitString buffer are bulk copies too
		allInstrs(f, func(_ *ssa.BasicBlock, in ssa.Instruction) {
			st, ok := in.(*ssa.Store)
			if !ok || !isBufField(st.Addr) {
				return
			}
			if _, cloned := freshBytes(st.Val); !cloned {
				return
			}
			n++
			key := fnName(f) + " bulk copy into BitString.buf"
			aligned := false
			allInstrs(f, func(_ *ssa.BasicBlock, in2 ssa.Instruction) {
				if s2, ok := in2.(*ssa.Store); ok {
					if tn, fn, ok := fieldOf(s2.Addr); ok && tn == "boc.BitString" && (fn == "len" || fn == "cap") {
						if bo, ok := s2.Val.(*ssa.BinOp); ok && bo.Op == token.MUL {
							if k, ok := constInt(bo.Y); ok && k == 8 {
								aligned = true
							}
						}
					}
				}
			})
			c.check(aligned, R, key, st.Pos(), "len is set to 8*len(bytes): no partial last byte at the time of the copy", fnName(f)+" clones whole bytes into a BitString buffer whose bit length need not be a multiple of 8 and does not clear the bits after len")
		})
		allInstrs(f, func(_ *ssa.BasicBlock, in ssa.Instruction) {
			cl, ok := in.(*ssa.Call)
			if !ok {
				return
			}
			b, ok := cl.Call.Value.(*ssa.Builtin)
			if !ok || b.Name() != "copy" {
				return
			}
			dst := cl.Call.Args[0]
			base := dst
			if sl, ok := base.(*ssa.Slice); ok {
				base = sl.X
			}
			toBuf := false
			if u, ok := base.(*ssa.UnOp); ok && isBufField(u.X) {
				toBuf = true
			}
			if !toBuf {
				// a local slice that is stored into a BitString's buf field in this function
				if refs := base.Referrers(); refs != nil {
					for _, r := range *refs {
						if st, ok := r.(*ssa.Store); ok && st.Val == base && isBufField(st.Addr) {
							toBuf = true
						}
					}
				}
			}
			if !toBuf {
				return
			}
			n++
			key := fnName(f) + " bulk copy into BitString.buf"
			src := cl.Call.Args[1]
			// (a) whole-buffer clone: the source is another BitString's complete buffer
			if u, ok := src.(*ssa.UnOp); ok && isBufField(u.X) {
				c.ok(R, key, cl.Pos(), "clones a complete buffer (the clone's len is the source's len, checked by the literal rule)")
				return
			}
			// (d) len is set to a whole number of bytes afterwards
			aligned := false
			masked := false
			allInstrs(f, func(_ *ssa.BasicBlock, in2 ssa.Instruction) {
				st, ok := in2.(*ssa.Store)
				if !ok {
					return
				}
				if tn, fn, ok := fieldOf(st.Addr); ok && tn == "boc.BitString" && (fn == "len" || fn == "cap") {
					if bo, ok := st.Val.(*ssa.BinOp); ok && bo.Op == token.MUL {
						if k, ok := constInt(bo.Y); ok && k == 8 {
							aligned = true
						}
					}
				}
				// (b) buf[i] &= mask after the copy
				if ia, ok := st.Addr.(*ssa.IndexAddr); ok {
					if bo, ok := st.Val.(*ssa.BinOp); ok && bo.Op == token.AND {
						if ld, ok := bo.X.(*ssa.UnOp); ok && sameIndexAddr(ld.X, ia) {
							if u, ok := ia.X.(*ssa.UnOp); ok && isBufField(u.X) && cl.Block().Dominates(st.Block()) {
								// guarded by n&7 != 0
								for _, ft := range factsAt(f, st.Block()) {
									if bb, ok := ft.Cond.(*ssa.BinOp); ok && (bb.Op == token.NEQ || bb.Op == token.EQL) {
										if a, ok := bb.X.(*ssa.BinOp); ok && a.Op == token.AND {
											if k, ok := constInt(a.Y); ok && k == 7 {
												masked = true
											}
										}
									}
								}
							}
						}
					}
				}
			})
			switch {
			case masked:
				c.ok(R, key, cl.Pos(), "the last copied byte is masked when the bit count is not a multiple of 8")
			case aligned:
				c.ok(R, key, cl.Pos(), "len is set to 8*len(bytes): no partial last byte at the time of the copy")
			default:
				c.bad(R, key, cl.Pos(), fnName(f)+" copies whole bytes into a BitString buffer whose bit length need not be a multiple of 8 and does not clear the bits after len: the cell representation (raw buffer | completion tag) and therefore hash and BOC bytes of a cell built from it depend on bits that are not part of the value")
			}
		})
	}
	c.floor(R, 4)
	_ = n
}

// sameIndexAddr: go/ssa does no CSE, `x[i] op= y` yields two IndexAddr instructions.
func sameIndexAddr(v ssa.Value, ia *ssa.IndexAddr) bool {
	if v == ssa.Value(ia) {
		return true
	}
	o, ok := v.(*ssa.IndexAddr)
	return ok && o.X == ia.X && o.Index == ia.Index
}

// hashStoreReaders: the per-level hash and depth arrays of an immutable cell are indexed by
// significant level, not by level; only the two accessors (which translate a level through
// mask.Apply(level).HashIndex()) and the constructor touch them. Any other reader would hand out
// "hash number k" as if it were "the hash of level k".
func (c *Ctx) hashStoreReaders() {
	const R = "E10.hash-store-readers"
	allowed := map[string]string{
		"boc.newImmutableCell":       "constructor: appends the hashes in order and chains the previous one",
		"(*boc.immutableCell).Hash":  "accessor: index = mask.Apply(level).HashIndex()",
		"(*boc.immutableCell).Depth": "accessor: index = mask.Apply(level).HashIndex()",
	}
	n := 0
	for _, f := range c.moduleFuncs("boc", "tlb", "ton", "wallet", "liteapi") {
		seen := map[string]bool{}
		allInstrs(f, func(_ *ssa.BasicBlock, in ssa.Instruction) {
			var fa ssa.Value
			switch x := in.(type) {
			case *ssa.FieldAddr:
				fa = x
			case *ssa.Field:
				fa = x
			default:
				return
			}
			tn, fn, ok := fieldOf(fa)
			if !ok || tn != "boc.immutableCell" || (fn != "hashes" && fn != "depths") {
				return
			}
			name := fnName(origin(f))
			key := name + " touches immutableCell." + fn
			if seen[key] {
				return
			}
			seen[key] = true
			n++
			if why, ok := allowed[name]; ok {
				c.ok(R, key, in.Pos(), why)
			} else {
				c.bad(R, key, in.Pos(), name+" reads immutableCell."+fn+" directly: the arrays are indexed by significant level, so element k is not the value for level k (element 0 of an ordinary cell with level > 0 is its level-0 hash, not its representation hash); use Hash(level)/Depth(level)")
			}
		})
	}
	c.floor(R, 4)
	_ = n
}

// levelMaskAlgebra: the four level-mask functions in their defining forms (TON: a level mask has one
// bit per significant level 1..3). Each rule accepts the usual equivalent spellings and rejects forms
// that compute a different function for masks with a gap (0b10, 0b101):
//
//	Level         = bit length of m          (32-LeadingZeros32 / bits.Len32)
//	HashIndex     = number of set bits       (OnesCount)
//	Apply(l)      = m & ((1<<l)-1)
//	IsSignificant = l == 0 || bit l-1 of m   (a single-bit test: x%2, x&1, m&(1<<k))
func (c *Ctx) levelMaskAlgebra() {
	const R = "E11.level-mask"
	callsAny := func(f *ssa.Function, qs ...string) bool {
		for _, q := range qs {
			if len(callsTo(f, q)) > 0 {
				return true
			}
		}
		return false
	}
	if f := c.mustFn(R, "boc", "levelMask.Level"); f != nil {
		c.check(callsAny(f, "math/bits.LeadingZeros32", "math/bits.Len32", "math/bits.Len", "math/bits.LeadingZeros"), R, "Level = bit length of the mask", f.Pos(), "32 - LeadingZeros32(m)", "levelMask.Level is no longer the bit length of the mask")
	}
	if f := c.mustFn(R, "boc", "levelMask.HashIndex"); f != nil {
		c.check(callsAny(f, "math/bits.OnesCount32", "math/bits.OnesCount") && !callsAny(f, "math/bits.LeadingZeros32", "math/bits.Len32"), R, "HashIndex = number of set bits", f.Pos(), "OnesCount32(m)", "levelMask.HashIndex is no longer the number of set bits of the mask (the index of a level's hash among the stored hashes)")
	}
	if f := c.mustFn(R, "boc", "levelMask.Apply"); f != nil {
		okv := false
		allInstrs(f, func(_ *ssa.BasicBlock, in ssa.Instruction) {
			bo, ok := in.(*ssa.BinOp)
			if !ok || bo.Op != token.AND {
				return
			}
			for _, side := range []ssa.Value{bo.X, bo.Y} {
				if sub, ok := stripConv(side).(*ssa.BinOp); ok && sub.Op == token.SUB {
					if k, ok := constInt(sub.Y); ok && k == 1 {
						if sh, ok := stripConv(sub.X).(*ssa.BinOp); ok && sh.Op == token.SHL {
							if k1, ok := constInt(sh.X); ok && k1 == 1 && derivesFrom(sh.Y, func(v ssa.Value) bool { return v == ssa.Value(f.Params[1]) }, false) {
								okv = true
							}
						}
					}
				}
			}
		})
		c.check(okv, R, "Apply(level) keeps the bits below level: m & ((1<<level)-1)", f.Pos(), "m & ((1 << level) - 1)", "levelMask.Apply is no longer m & ((1<<level)-1)")
	}
	if f := c.mustFn(R, "boc", "levelMask.IsSignificant"); f != nil {
		// a single-bit test of a value derived from m and level
		single := false
		allInstrs(f, func(_ *ssa.BasicBlock, in ssa.Instruction) {
			bo, ok := in.(*ssa.BinOp)
			if !ok {
				return
			}
			fromBoth := func(v ssa.Value) bool {
				ls := strings.Join(leaves(v), ",")
				return strings.Contains(ls, "#0") && strings.Contains(ls, "#1") // the mask (receiver) and the level
			}
			switch bo.Op {
			case token.REM:
				if k, ok := constInt(bo.Y); ok && k == 2 && fromBoth(bo.X) {
					single = true
				}
			case token.AND:
				if k, ok := constInt(bo.Y); ok && k == 1 && fromBoth(bo.X) {
					single = true
				}
				if k, ok := constInt(bo.X); ok && k == 1 && fromBoth(bo.Y) {
					single = true
				}
				for _, pr := range [][2]ssa.Value{{bo.X, bo.Y}, {bo.Y, bo.X}} {
					if sh, ok := stripConv(pr[1]).(*ssa.BinOp); ok && sh.Op == token.SHL {
						if k1, ok := constInt(sh.X); ok && k1 == 1 {
							single = true
						}
					}
				}
			}
		})
		// level 0 is always significant
		zero := false
		for _, b := range f.Blocks {
			if iff := lastIf(b); iff != nil {
				if bo, ok := iff.Cond.(*ssa.BinOp); ok && bo.Op == token.EQL && bo.X == ssa.Value(f.Params[1]) {
					if k, ok := constInt(bo.Y); ok && k == 0 {
						zero = true
					}
				}
			}
		}
		c.check(single && zero, R, "IsSignificant(level) = level == 0 || bit level-1 of the mask", f.Pos(), "single-bit test of m >> (level-1)", "levelMask.IsSignificant no longer tests exactly one bit of the mask (forms like 'any bit at or above' or 'any bit below' agree with it only for masks without a gap): cells with mask 0b10 or 0b101 get an extra or a missing hash and a wrong descriptor byte")
	}
	c.levelMaskExact()
	c.floor(R, 6)
}

// levelMaskExact: the constants of the two defining forms that the shape rules above leave open.
//
//	Level: W - LeadingZerosW(m) with W the width of the counted word (or bits.LenW(m));
//	IsSignificant: the tested bit is bit level-1 (shift by level-1, or mask 1<<(level-1)), and the
//	result is true when that bit is SET.
func (c *Ctx) levelMaskExact() {
	const R = "E11.level-mask"
	if f := c.fn("boc", "levelMask.Level"); f != nil {
		okv, desc := false, "?"
		for _, r := range returnsOf(f) {
			v := stripConv(retVal(r, 0))
			if cl := callOf(v); cl != nil && strings.HasPrefix(callQName(&cl.Call), "math/bits.Len") {
				okv, desc = true, "bits.Len"
			}
			if bo, ok := v.(*ssa.BinOp); ok && bo.Op == token.SUB {
				if cl := callOf(stripConv(bo.Y)); cl != nil {
					w := map[string]int64{"math/bits.LeadingZeros32": 32, "math/bits.LeadingZeros64": 64, "math/bits.LeadingZeros": 64, "math/bits.LeadingZeros16": 16, "math/bits.LeadingZeros8": 8}[callQName(&cl.Call)]
					if k, ok := constInt(bo.X); ok {
						desc = fmt.Sprintf("%d - %s", k, shortQ(callQName(&cl.Call)))
						okv = w != 0 && k == w
					}
				}
			}
		}
		c.check(okv, R, "Level: word width minus leading zeros", f.Pos(), desc, "levelMask.Level computes "+desc+": the bit length of a W-bit word is W minus its leading zeros; any other constant shifts every level by a fixed amount")
	}
	if f := c.fn("boc", "levelMask.IsSignificant"); f != nil && len(f.Params) == 2 {
		lvl := ssa.Value(f.Params[1])
		isLvlMinus1 := func(v ssa.Value) bool {
			bo, ok := stripConv(v).(*ssa.BinOp)
			if !ok || bo.Op != token.SUB || stripConv(bo.X) != lvl {
				return false
			}
			k, ok := constInt(bo.Y)
			return ok && k == 1
		}
		okv, desc := false, "?"
		// the returned values: a comparison, or the phi of a short-circuit form (level == 0 || bit test)
		var rets []ssa.Value
		for _, r := range returnsOf(f) {
			v := retVal(r, 0)
			if phi, ok := v.(*ssa.Phi); ok {
				rets = append(rets, phi.Edges...)
			} else {
				rets = append(rets, v)
			}
		}
		for _, v := range rets {
			if _, isConst := v.(*ssa.Const); isConst {
				continue
			}
			cmp, ok := v.(*ssa.BinOp)
			if !ok {
				continue
			}
			desc = shape(cmp, 4)
			k, isK := constInt(cmp.Y)
			setWhenTrue := isK && ((cmp.Op == token.NEQ && k == 0) || (cmp.Op == token.GTR && k == 0) || (cmp.Op == token.EQL && k == 1))
			bit, ok := stripConv(cmp.X).(*ssa.BinOp)
			if !ok || !setWhenTrue {
				continue
			}
			one := func(v ssa.Value) bool { k, ok := constInt(v); return ok && k == 1 }
			two := func(v ssa.Value) bool { k, ok := constInt(v); return ok && k == 2 }
			switch {
			case (bit.Op == token.REM && two(bit.Y)) || (bit.Op == token.AND && one(bit.Y)):
				if sh, ok := stripConv(bit.X).(*ssa.BinOp); ok && sh.Op == token.SHR && isLvlMinus1(sh.Y) {
					okv = true
				}
			case bit.Op == token.AND:
				for _, side := range []ssa.Value{bit.X, bit.Y} {
					if sh, ok := stripConv(side).(*ssa.BinOp); ok && sh.Op == token.SHL && one(sh.X) && isLvlMinus1(sh.Y) {
						okv = true
					}
				}
			}
		}
		c.check(okv, R, "IsSignificant tests bit level-1 and is true when it is set", f.Pos(), desc, "levelMask.IsSignificant returns "+desc+"; level L (1..3) is significant exactly when bit L-1 of the mask is set")
	}
}

// cacheOnlyComplete: the cell -> immutable-cell cache is shared by every call through one Hasher.
// An entry is stored only when the value is complete: no failure return is reachable after the store,
// otherwise a later call finds a half-built entry (no hashes, no depths) and indexes into nothing.
func (c *Ctx) cacheOnlyComplete() {
	const R = "E10.cache-complete"
	f := c.mustFn(R, "boc", "newImmutableCell")
	if f == nil {
		return
	}
	n := 0
	okv := true
	where := ""
	allInstrs(f, func(b *ssa.BasicBlock, in ssa.Instruction) {
		mu, ok := in.(*ssa.MapUpdate)
		if !ok || mu.Map != ssa.Value(f.Params[1]) {
			return
		}
		n++
		reach := reachableFrom(b, nil)
		reach[b] = true
		for _, r := range returnsOf(f) {
			if !reach[r.Block()] {
				continue
			}
			if r.Block() == b && !before(mu, r) {
				continue
			}
			if classifyErr(f, retVal(r, 1), r.Block(), 0) != errNil {
				okv = false
				where = c.rel(r.Pos())
			}
		}
	})
	c.check(okv && n == 1, R, "newImmutableCell caches an entry only when it is complete", f.Pos(), "cache[c] = imm right before the success return", "newImmutableCell stores the entry in the shared cache before it is complete: the failure return at "+where+" leaves a half-built entry behind, and the next Hash of that cell (or of an ancestor) through the same Hasher indexes its empty hash list and panics")
	c.floor(R, 1)
}
