package main

import (
	"fmt"
	"go/token"
	"sort"
	"strings"

	"golang.org/x/tools/go/ssa"
)

// E7 bytelayout: constant byte layouts of hand-written binary formats.

type byteField struct {
	lo, hi string // constant or symbolic ("" = open)
	how    string // LE16/LE32/LE64/BE16/BE32/BE64/copy/byte/read
	what   string // shape of the source / destination role
}

func (b byteField) String() string { return fmt.Sprintf("[%s:%s]%s(%s)", b.lo, b.hi, b.how, b.what) }

func offShape(v ssa.Value) string {
	if v == nil {
		return ""
	}
	if k, ok := constInt(v); ok {
		return fmt.Sprint(k)
	}
	return shape(v, 3)
}

// sliceBounds returns base and bounds of a slice expression value (or the value itself with open bounds).
func sliceBounds(v ssa.Value) (base ssa.Value, lo, hi string) {
	if sl, ok := v.(*ssa.Slice); ok {
		return sl.X, offShape(sl.Low), offShape(sl.High)
	}
	return v, "", ""
}

// byteWrites lists the writes into byte buffers in f: PutUintN(b[lo:hi], x), copy(b[lo:hi], x), b[i] = x.
func (c *Ctx) byteWrites(f *ssa.Function) []byteField {
	var out []byteField
	allInstrs(f, func(_ *ssa.BasicBlock, in ssa.Instruction) {
		switch x := in.(type) {
		case *ssa.Call:
			q := callQName(&x.Call)
			if strings.HasPrefix(q, "encoding/binary.") && strings.Contains(q, ".PutUint") {
				end := "LE"
				if strings.Contains(q, "bigEndian") {
					end = "BE"
				}
				bits := q[strings.LastIndex(q, "PutUint")+7:]
				_, lo, hi := sliceBounds(x.Call.Args[1])
				out = append(out, byteField{lo, hi, end + bits, shape(x.Call.Args[2], 3)})
			}
			if b, ok := x.Call.Value.(*ssa.Builtin); ok && b.Name() == "copy" {
				_, lo, hi := sliceBounds(x.Call.Args[0])
				out = append(out, byteField{lo, hi, "copy", shape(x.Call.Args[1], 3)})
			}
		case *ssa.Store:
			if ia, ok := x.Addr.(*ssa.IndexAddr); ok && isByte(x.Val.Type()) {
				if k, ok := constInt(ia.Index); ok {
					out = append(out, byteField{fmt.Sprint(k), fmt.Sprint(k + 1), "byte", shape(x.Val, 3)})
				}
			}
		}
	})
	return out
}

// byteReads lists reads from byte buffers: UintN(b[lo:hi]), b[lo:hi] slices, b[i] loads.
func (c *Ctx) byteReads(f *ssa.Function) []byteField {
	var out []byteField
	allInstrs(f, func(_ *ssa.BasicBlock, in ssa.Instruction) {
		switch x := in.(type) {
		case *ssa.Call:
			q := callQName(&x.Call)
			if strings.HasPrefix(q, "encoding/binary.") && (strings.Contains(q, "Endian.Uint")) {
				end := "LE"
				if strings.Contains(q, "bigEndian") {
					end = "BE"
				}
				bits := q[strings.LastIndex(q, "Uint")+4:]
				_, lo, hi := sliceBounds(x.Call.Args[1])
				out = append(out, byteField{lo, hi, end + bits, ""})
			}
		}
	})
	return out
}

func fieldsString(fs []byteField) string {
	var s []string
	for _, f := range fs {
		s = append(s, f.String())
	}
	sort.Strings(s)
	return strings.Join(s, " ")
}

// layoutIs compares the extracted writes (how+bounds, role by substring) with the expected list.
func (c *Ctx) layoutIs(rule, key string, f *ssa.Function, got []byteField, want []byteField) {
	if f == nil {
		return
	}
	match := func(g, w byteField) bool {
		return g.lo == w.lo && g.hi == w.hi && g.how == w.how && (w.what == "" || strings.Contains(g.what, w.what))
	}
	var missing []string
	used := make([]bool, len(got))
	for _, w := range want {
		found := false
		for i, g := range got {
			if !used[i] && match(g, w) {
				used[i] = true
				found = true
				break
			}
		}
		if !found {
			missing = append(missing, w.String())
		}
	}
	var extra []string
	for i, g := range got {
		if !used[i] {
			extra = append(extra, g.String())
		}
	}
	c.check(len(missing) == 0 && len(extra) == 0, rule, key, f.Pos(), "byte layout equals the specification: "+fieldsString(want),
		fmt.Sprintf("%s: byte layout differs from the specification\n      missing: %v\n      unexpected: %v", fnName(f), missing, extra))
}

// appendSequence: the ordered pieces appended to the slice that reaches call `sink` argument argIdx.
func appendChain(v ssa.Value) []string {
	var out []string
	seen := map[ssa.Value]bool{}
	for v != nil && !seen[v] {
		seen[v] = true
		cl, ok := v.(*ssa.Call)
		if !ok {
			// initial value
			out = append([]string{"init:" + shape(v, 3)}, out...)
			break
		}
		b, ok := cl.Call.Value.(*ssa.Builtin)
		if !ok || b.Name() != "append" {
			out = append([]string{"init:" + shape(v, 3)}, out...)
			break
		}
		out = append([]string{shape(cl.Call.Args[1], 3)}, out...)
		v = cl.Call.Args[0]
	}
	return out
}

var _ = token.ADD
