package main

import (
	"fmt"
	"go/token"
	"go/types"
	"sort"
	"strconv"
	"strings"

	"golang.org/x/tools/go/ssa"
)

// E7 bytelayout: constant byte layouts of hand-written binary formats.

type byteField struct {
	lo, hi string // constant or symbolic ("" = open)
	how    string // LE16/LE32/LE64/BE16/BE32/BE64/copy/byte/read
	what   string // shape of the source / destination role
}

func (b byteField) String() string { return fmt.Sprintf("[%s:%s]%s(%s)", b.lo, b.hi, b.how, b.what) }

func offShape(v ssa.Value) string {
	if v == nil {
		return ""
	}
	if k, ok := constInt(v); ok {
		return fmt.Sprint(k)
	}
	return shape(v, 3)
}

// sliceBounds returns base and bounds of a slice expression value (or the value itself with open bounds).
func sliceBounds(v ssa.Value) (base ssa.Value, lo, hi string) {
	if sl, ok := v.(*ssa.Slice); ok {
		return sl.X, offShape(sl.Low), offShape(sl.High)
	}
	return v, "", ""
}

// byteWrites lists the writes into byte buffers in f: PutUintN(b[lo:hi], x), copy(b[lo:hi], x), b[i] = x.
func (c *Ctx) byteWrites(f *ssa.Function) []byteField {
	var out []byteField
	allInstrs(f, func(_ *ssa.BasicBlock, in ssa.Instruction) {
		switch x := in.(type) {
		case *ssa.Call:
			q := callQName(&x.Call)
			if strings.HasPrefix(q, "encoding/binary.") && strings.Contains(q, ".PutUint") {
				end := "LE"
				if strings.Contains(q, "bigEndian") {
					end = "BE"
				}
				bits := q[strings.LastIndex(q, "PutUint")+7:]
				_, lo, hi := sliceBounds(x.Call.Args[1])
				out = append(out, byteField{lo, hi, end + bits, shape(x.Call.Args[2], 3)})
			}
			if b, ok := x.Call.Value.(*ssa.Builtin); ok && b.Name() == "copy" {
				_, lo, hi := sliceBounds(x.Call.Args[0])
				out = append(out, byteField{lo, hi, "copy", shape(x.Call.Args[1], 3)})
			}
		case *ssa.Store:
			if ia, ok := x.Addr.(*ssa.IndexAddr); ok && isByte(x.Val.Type()) {
				if k, ok := constInt(ia.Index); ok {
					out = append(out, byteField{fmt.Sprint(k), fmt.Sprint(k + 1), "byte", shape(x.Val, 3)})
				}
			}
		}
	})
	return out
}

// byteReads lists reads from byte buffers: UintN(b[lo:hi]), b[lo:hi] slices, b[i] loads.
func (c *Ctx) byteReads(f *ssa.Function) []byteField {
	var out []byteField
	allInstrs(f, func(_ *ssa.BasicBlock, in ssa.Instruction) {
		switch x := in.(type) {
		case *ssa.Call:
			q := callQName(&x.Call)
			if strings.HasPrefix(q, "encoding/binary.") && (strings.Contains(q, "Endian.Uint")) {
				end := "LE"
				if strings.Contains(q, "bigEndian") {
					end = "BE"
				}
				bits := q[strings.LastIndex(q, "Uint")+4:]
				_, lo, hi := sliceBounds(x.Call.Args[1])
				out = append(out, byteField{lo, hi, end + bits, ""})
			}
		}
	})
	return out
}

func fieldsString(fs []byteField) string {
	var s []string
	for _, f := range fs {
		s = append(s, f.String())
	}
	sort.Strings(s)
	return strings.Join(s, " ")
}

// layoutIs compares the extracted writes (how+bounds, role by substring) with the expected list.
func (c *Ctx) layoutIs(rule, key string, f *ssa.Function, got []byteField, want []byteField) {
	if f == nil {
		return
	}
	match := func(g, w byteField) bool {
		return g.lo == w.lo && g.hi == w.hi && g.how == w.how && (w.what == "" || strings.Contains(g.what, w.what))
	}
	var missing []string
	used := make([]bool, len(got))
	for _, w := range want {
		found := false
		for i, g := range got {
			if !used[i] && match(g, w) {
				used[i] = true
				found = true
				break
			}
		}
		if !found {
			missing = append(missing, w.String())
		}
	}
	var extra []string
	for i, g := range got {
		if !used[i] {
			extra = append(extra, g.String())
		}
	}
	c.check(len(missing) == 0 && len(extra) == 0, rule, key, f.Pos(), "byte layout equals the specification: "+fieldsString(want),
		fmt.Sprintf("%s: byte layout differs from the specification\n      missing: %v\n      unexpected: %v", fnName(f), missing, extra))
}

// appendSequence: the ordered pieces appended to the slice that reaches call `sink` argument argIdx.
func appendChain(v ssa.Value) []string {
	var out []string
	seen := map[ssa.Value]bool{}
	for v != nil && !seen[v] {
		seen[v] = true
		cl, ok := v.(*ssa.Call)
		if !ok {
			// initial value
			out = append([]string{"init:" + shape(v, 3)}, out...)
			break
		}
		b, ok := cl.Call.Value.(*ssa.Builtin)
		if !ok || b.Name() != "append" {
			out = append([]string{"init:" + shape(v, 3)}, out...)
			break
		}
		out = append([]string{shape(cl.Call.Args[1], 3)}, out...)
		v = cl.Call.Args[0]
	}
	return out
}

var _ = token.ADD

// convChain returns the types along a chain of numeric conversions, outermost first, and the
// value at the bottom of the chain.
func convChain(v ssa.Value) ([]string, ssa.Value) {
	var ts []string
	for {
		switch x := v.(type) {
		case *ssa.Convert:
			ts = append(ts, normBasic(x.Type().Underlying().String()))
			v = x.X
		case *ssa.ChangeType:
			v = x.X
		default:
			ts = append(ts, normBasic(v.Type().Underlying().String()))
			return ts, v
		}
	}
}

// fieldStores lists the values stored into field `name` (of any struct) in f.
func fieldStores(f *ssa.Function, name string) []*ssa.Store {
	var out []*ssa.Store
	allInstrs(f, func(_ *ssa.BasicBlock, in ssa.Instruction) {
		if st, ok := in.(*ssa.Store); ok {
			if _, fn, ok := fieldOf(st.Addr); ok && fn == name {
				out = append(out, st)
			}
		}
	})
	return out
}

// widthChain checks that every store to field `field` in f is a conversion chain `want`
// (outermost first) whose root satisfies rootOK.
func (c *Ctx) widthChain(rule string, f *ssa.Function, field string, want []string, rootDesc string, rootOK func(ssa.Value) bool) {
	if f == nil {
		return
	}
	sts := fieldStores(f, field)
	key := fmt.Sprintf("%s: %s = %s(%s)", fnName(f), field, strings.Join(want, "("), rootDesc)
	if len(sts) != 1 {
		c.bad(rule, key, f.Pos(), fmt.Sprintf("%s assigns %s at %d sites; the conversion is a single width/sign chain %v of %s, not a case analysis on the value", fnName(f), field, len(sts), want, rootDesc))
		return
	}
	ts, root := convChain(sts[0].Val)
	okv := strings.Join(ts, ",") == strings.Join(want, ",") && rootOK(root)
	c.check(okv, rule, key, sts[0].Pos(), "conversion chain "+strings.Join(ts, "<-")+" from "+shape(root, 3),
		fmt.Sprintf("%s converts %s through %v from %s; the inverse of the writer's truncation is %v of %s (sign and width must match the sibling encoder)", fnName(f), field, ts, shape(root, 3), want, rootDesc))
}

func isIndexLoad(idx int64) func(ssa.Value) bool {
	return func(v ssa.Value) bool {
		u, ok := v.(*ssa.UnOp)
		if !ok || u.Op != token.MUL {
			return false
		}
		ia, ok := u.X.(*ssa.IndexAddr)
		if !ok {
			return false
		}
		k, ok := constInt(ia.Index)
		return ok && k == idx
	}
}

func isFieldLoad(name string) func(ssa.Value) bool {
	return func(v ssa.Value) bool {
		if fl, ok := v.(*ssa.Field); ok {
			_, n, _ := fieldOf(fl)
			return n == name
		}
		if u, ok := v.(*ssa.UnOp); ok && u.Op == token.MUL {
			_, n, ok := fieldOf(u.X)
			return ok && n == name
		}
		return false
	}
}

func isCallTo(q string) func(ssa.Value) bool {
	return func(v ssa.Value) bool {
		if ex, ok := v.(*ssa.Extract); ok {
			v = ex.Tuple
		}
		cl := callOf(v)
		return cl != nil && callQName(&cl.Call) == q
	}
}

func normBasic(s string) string {
	switch s {
	case "byte":
		return "uint8"
	case "rune":
		return "int32"
	}
	return s
}

// describePiece names one appended piece of a byte string being assembled: a fixed-width integer
// buffer (make([]byte, K) written by exactly one PutUintN covering it), a field, a constant.
func (c *Ctx) describePiece(f *ssa.Function, v ssa.Value) string {
	orig := v
	for {
		switch x := v.(type) {
		case *ssa.Slice:
			if x.Low == nil && x.High == nil {
				v = x.X
				continue
			}
			if al, ok := x.X.(*ssa.Alloc); ok && x.Low == nil && al.Comment == "makeslice" {
				// make([]byte, K): new [K]byte + slice [:K]
				if n, ok := arrayLen(al.Type().(*types.Pointer).Elem()); ok {
					if k, ok := constInt(x.High); ok && k == n {
						v = al
						continue
					}
				}
			}
		case *ssa.Convert:
			v = x.X
			continue
		case *ssa.ChangeType:
			v = x.X
			continue
		}
		break
	}
	if s, ok := constString(v); ok {
		return fmt.Sprintf("%q", s)
	}
	if mk, ok := v.(*ssa.Alloc); ok && mk.Comment == "makeslice" {
		k, _ := arrayLen(mk.Type().(*types.Pointer).Elem())
		var puts []string
		allInstrs(f, func(_ *ssa.BasicBlock, in ssa.Instruction) {
			cl, ok := in.(*ssa.Call)
			if !ok {
				return
			}
			q := callQName(&cl.Call)
			if strings.HasPrefix(q, "encoding/binary.") && strings.Contains(q, ".PutUint") {
				base, lo, hi := sliceBounds(cl.Call.Args[1])
				if base == ssa.Value(mk) {
					if k2, ok := constInt64Str(hi); ok && k2 == k && lo == "" {
						hi = ""
					}
					end := "LE"
					if strings.Contains(q, "bigEndian") {
						end = "BE"
					}
					bits := q[strings.LastIndex(q, "PutUint")+7:]
					ts, root := convChain(cl.Call.Args[2])
					rs := shape(root, 2)
					if _, n, ok := fieldOfLoad(root); ok {
						rs = n
					}
					if cl := callOf(root); cl != nil {
						if bi, ok := cl.Call.Value.(*ssa.Builtin); ok && bi.Name() == "len" && len(cl.Call.Args) == 1 {
							if _, n, ok := fieldOfLoad(cl.Call.Args[0]); ok {
								rs = "len(." + n + ")" // field name only: independent of what the owner is called
							}
						}
					}
					puts = append(puts, fmt.Sprintf("%s%s[%s:%s](%s %s)", end, bits, lo, hi, strings.Join(ts, "<-"), rs))
				}
			}
		})
		sort.Strings(puts)
		return fmt.Sprintf("buf%d{%s}", k, strings.Join(puts, ","))
	}
	if _, n, ok := fieldOfLoad(v); ok {
		return "field:" + n
	}
	if al, ok := v.(*ssa.Alloc); ok {
		for _, st := range storesTo(al) {
			if cl := callOf(st.Val); cl != nil {
				return "call:" + shortQ(callQName(&cl.Call))
			}
		}
		// composite literal array: list constant element stores
		var ks []string
		for _, r := range *al.Referrers() {
			if ia, ok := r.(*ssa.IndexAddr); ok {
				for _, st := range storesTo(ia) {
					if k, ok := constInt(st.Val); ok {
						ks = append(ks, fmt.Sprintf("%02x", k))
					}
				}
			}
		}
		return "lit{" + strings.Join(ks, " ") + "}"
	}
	if cl := callOf(v); cl != nil {
		return "call:" + shortQ(callQName(&cl.Call))
	}
	if u, ok := v.(*ssa.UnOp); ok && u.Op == token.MUL {
		if al, ok := u.X.(*ssa.Alloc); ok {
			for _, st := range storesTo(al) {
				if cl := callOf(st.Val); cl != nil {
					return "call:" + shortQ(callQName(&cl.Call))
				}
			}
		}
	}
	return shape(orig, 3)
}

func fieldOfLoad(v ssa.Value) (string, string, bool) {
	if fl, ok := v.(*ssa.Field); ok {
		return fieldOf(fl)
	}
	if u, ok := v.(*ssa.UnOp); ok && u.Op == token.MUL {
		return fieldOf(u.X)
	}
	return "", "", false
}

// assembled returns the pieces of the byte string v built by successive appends.
func (c *Ctx) assembled(f *ssa.Function, v ssa.Value) []string {
	var vals []ssa.Value
	seen := map[ssa.Value]bool{}
	for v != nil && !seen[v] {
		seen[v] = true
		cl, ok := v.(*ssa.Call)
		if ok {
			if b, ok := cl.Call.Value.(*ssa.Builtin); ok && b.Name() == "append" {
				vals = append([]ssa.Value{cl.Call.Args[1]}, vals...)
				v = cl.Call.Args[0]
				continue
			}
		}
		vals = append([]ssa.Value{v}, vals...)
		break
	}
	var out []string
	for _, x := range vals {
		out = append(out, c.describePiece(f, x))
	}
	return out
}

func constInt64Str(s string) (int64, bool) {
	k, err := strconv.ParseInt(s, 10, 64)
	return k, err == nil
}
