package main

import (
	"fmt"
	"go/token"
	"go/types"
	"sort"
	"strconv"
	"strings"

	"golang.org/x/tools/go/ssa"
)

// E7 bytelayout: constant byte layouts of hand-written binary formats.

type byteField struct {
	lo, hi string // constant or symbolic ("" = open)
	how    string // LE16/LE32/LE64/BE16/BE32/BE64/copy/byte/read
	what   string // shape of the source / destination role
}

// deepFields: the String() of fields found in an unexported helper of the scanned function, not in the
// function itself (set by byteWrites, consulted by layoutIs)
var deepFields = map[string]bool{}

func (b byteField) String() string { return fmt.Sprintf("[%s:%s]%s(%s)", b.lo, b.hi, b.how, b.what) }

func offShape(v ssa.Value) string {
	if v == nil {
		return ""
	}
	if k, ok := constInt(v); ok {
		return fmt.Sprint(k)
	}
	return shape(v, 3)
}

// sliceBounds returns base and bounds of a slice expression value (or the value itself with open bounds).
func sliceBounds(v ssa.Value) (base ssa.Value, lo, hi string) {
	if sl, ok := v.(*ssa.Slice); ok {
		// a slice of a slice with constant bounds is a slice of the underlying buffer: data := raw[:16];
		// data[8:] is raw[8:16]
		if inner, ok := sl.X.(*ssa.Slice); ok && !isMakeSlice(inner) {
			ib, ilo, ihi := sliceBounds(inner)
			atoi := func(s string) (int64, bool) {
				if s == "" {
					return 0, true
				}
				n, err := strconv.ParseInt(s, 10, 64)
				return n, err == nil
			}
			if a, ok1 := atoi(ilo); ok1 {
				l, okL := constInt(sl.Low)
				if sl.Low == nil {
					l, okL = 0, true
				}
				if okL {
					alo := fmt.Sprint(a + l)
					if a+l == 0 && ilo == "" && sl.Low == nil {
						alo = ""
					}
					ahi := ihi
					if sl.High != nil {
						if h, ok := constInt(sl.High); ok {
							ahi = fmt.Sprint(a + h)
						} else {
							return sl.X, offShape(sl.Low), offShape(sl.High)
						}
					}
					return ib, alo, ahi
				}
			}
		}
		return sl.X, offShape(sl.Low), offShape(sl.High)
	}
	return v, "", ""
}

// byteWrites lists the writes into byte buffers in f: PutUintN(b[lo:hi], x), copy(b[lo:hi], x), b[i] = x.
func (c *Ctx) byteWrites(f *ssa.Function) []byteField {
	var out []byteField
	// the buffer may be filled in f or in an unexported helper f calls (handshakeRequest(...)): read both
	for _, g := range c.deepFns(f) {
		for _, w := range c.byteWritesOf(g) {
			if g != f {
				deepFields[fnName(f)+"|"+w.String()] = true
			}
			out = append(out, w)
		}
	}
	return out
}

// srcShape: the shape of a written value; a parameter of a helper with one call site is shown as the
// argument it stands for (copy(req[32:64], pub) in the helper is copy(req[32:64], keys.public)).
func srcShape(v ssa.Value) string {
	for i := 0; i < 3; i++ {
		prm, ok := stripConv(v).(*ssa.Parameter)
		if !ok {
			break
		}
		h := plainHelper(prm.Parent())
		if h == nil || len(gCallSites[h]) != 1 {
			break
		}
		idx := -1
		for j, q := range h.Params {
			if q == prm {
				idx = j
			}
		}
		args := gCallSites[h][0].Common().Args
		if idx < 0 || idx >= len(args) {
			break
		}
		v = args[idx]
	}
	return shape(v, 3)
}

func (c *Ctx) byteWritesOf(f *ssa.Function) []byteField {
	var out []byteField
	// buffers grown from length 0 by appends of constant-size pieces (make([]byte, 0, N);
	// b = binary.LittleEndian.AppendUint32(b, x); b = append(b, arr[:]...)): each piece lands at the
	// running length, which is a constant - the same layout as PutUint32(b[:4], x); copy(b[4:36], arr[:])
	off := map[ssa.Value]int64{}
	pos := func(k int64) string {
		if k == 0 {
			return ""
		}
		return fmt.Sprint(k)
	}
	allInstrs(f, func(_ *ssa.BasicBlock, in ssa.Instruction) {
		switch x := in.(type) {
		case *ssa.MakeSlice:
			if k, ok := constInt(x.Len); ok && k == 0 {
				off[x] = 0
			}
		case *ssa.Slice:
			if al, ok := x.X.(*ssa.Alloc); ok && al.Heap && al.Comment == "makeslice" {
				if k, ok := constInt(x.High); ok && k == 0 {
					off[x] = 0
				}
			}
		case *ssa.Call:
			q := callQName(&x.Call)
			if strings.HasPrefix(q, "encoding/binary.") && strings.Contains(q, ".AppendUint") {
				if o, ok := off[x.Call.Args[1]]; ok {
					end := "LE"
					if strings.Contains(q, "bigEndian") {
						end = "BE"
					}
					bits := q[strings.LastIndex(q, "AppendUint")+10:]
					n, _ := strconv.Atoi(bits)
					out = append(out, byteField{pos(o), fmt.Sprint(o + int64(n/8)), end + bits, srcShape(x.Call.Args[2])})
					off[x] = o + int64(n/8)
				}
			}
			if b, ok := x.Call.Value.(*ssa.Builtin); ok && b.Name() == "append" && len(x.Call.Args) == 2 {
				if o, ok := off[x.Call.Args[0]]; ok {
					if sl, ok := x.Call.Args[1].(*ssa.Slice); ok && sl.Low == nil && sl.High == nil {
						if n, ok := arrayLen(sl.X.Type()); ok {
							out = append(out, byteField{pos(o), fmt.Sprint(o + n), "copy", srcShape(x.Call.Args[1])})
							off[x] = o + n
						}
					}
				}
			}
		}
	})
	allInstrs(f, func(_ *ssa.BasicBlock, in ssa.Instruction) {
		switch x := in.(type) {
		case *ssa.Call:
			q := callQName(&x.Call)
			if strings.HasPrefix(q, "encoding/binary.") && strings.Contains(q, ".PutUint") {
				end := "LE"
				if strings.Contains(q, "bigEndian") {
					end = "BE"
				}
				bits := q[strings.LastIndex(q, "PutUint")+7:]
				_, lo, hi := sliceBounds(x.Call.Args[1])
				out = append(out, byteField{lo, hi, end + bits, srcShape(x.Call.Args[2])})
			}
			if b, ok := x.Call.Value.(*ssa.Builtin); ok && b.Name() == "copy" {
				_, lo, hi := sliceBounds(x.Call.Args[0])
				out = append(out, byteField{lo, hi, "copy", srcShape(x.Call.Args[1])})
			}
		case *ssa.Store:
			if ia, ok := x.Addr.(*ssa.IndexAddr); ok && isByte(x.Val.Type()) {
				if k, ok := constInt(ia.Index); ok {
					out = append(out, byteField{fmt.Sprint(k), fmt.Sprint(k + 1), "byte", srcShape(x.Val)})
				}
			}
		}
	})
	return out
}

// byteReads lists reads from byte buffers: UintN(b[lo:hi]), b[lo:hi] slices, b[i] loads.
func (c *Ctx) byteReads(f *ssa.Function) []byteField {
	var out []byteField
	c.allInstrsDeep(f, func(_ *ssa.BasicBlock, in ssa.Instruction) {
		switch x := in.(type) {
		case *ssa.Call:
			q := callQName(&x.Call)
			if strings.HasPrefix(q, "encoding/binary.") && (strings.Contains(q, "Endian.Uint")) {
				end := "LE"
				if strings.Contains(q, "bigEndian") {
					end = "BE"
				}
				bits := q[strings.LastIndex(q, "Uint")+4:]
				_, lo, hi := sliceBounds(x.Call.Args[1])
				out = append(out, byteField{lo, hi, end + bits, ""})
			}
		}
	})
	return out
}

func fieldsString(fs []byteField) string {
	var s []string
	for _, f := range fs {
		s = append(s, f.String())
	}
	sort.Strings(s)
	return strings.Join(s, " ")
}

// layoutIs compares the extracted writes (how+bounds, role by substring) with the expected list.
func (c *Ctx) layoutIs(rule, key string, f *ssa.Function, got []byteField, want []byteField) {
	if f == nil {
		return
	}
	match := func(g, w byteField) bool {
		return g.lo == w.lo && g.hi == w.hi && g.how == w.how && (w.what == "" || strings.Contains(g.what, w.what))
	}
	var missing []string
	used := make([]bool, len(got))
	for _, w := range want {
		found := false
		for i, g := range got {
			if !used[i] && match(g, w) {
				used[i] = true
				found = true
				break
			}
		}
		if !found {
			missing = append(missing, w.String())
		}
	}
	var extra []string
	for i, g := range got {
		// writes of helpers that are not part of this layout (a helper building its own small buffer) are not
		// this function's fields; a helper's write counts when it supplies a field the layout asks for
		if !used[i] && !deepFields[fnName(f)+"|"+g.String()] {
			extra = append(extra, g.String())
		}
	}
	c.check(len(missing) == 0 && len(extra) == 0, rule, key, f.Pos(), "byte layout equals the specification: "+fieldsString(want),
		fmt.Sprintf("%s: byte layout differs from the specification\n      missing: %v\n      unexpected: %v", fnName(f), missing, extra))
}

// appendSequence: the ordered pieces appended to the slice that reaches call `sink` argument argIdx.
func appendChain(v ssa.Value) []string {
	var out []string
	seen := map[ssa.Value]bool{}
	for v != nil && !seen[v] {
		seen[v] = true
		cl, ok := v.(*ssa.Call)
		if !ok {
			// initial value
			out = append([]string{"init:" + shape(v, 3)}, out...)
			break
		}
		b, ok := cl.Call.Value.(*ssa.Builtin)
		if !ok || b.Name() != "append" {
			out = append([]string{"init:" + shape(v, 3)}, out...)
			break
		}
		out = append([]string{shape(cl.Call.Args[1], 3)}, out...)
		v = cl.Call.Args[0]
	}
	return out
}

var _ = token.ADD

// convChain returns the types along a chain of numeric conversions, outermost first, and the
// value at the bottom of the chain.
func convChain(v ssa.Value) ([]string, ssa.Value) {
	var ts []string
	for {
		switch x := v.(type) {
		case *ssa.Convert:
			ts = append(ts, normBasic(x.Type().Underlying().String()))
			v = x.X
		case *ssa.ChangeType:
			v = x.X
		default:
			ts = append(ts, normBasic(v.Type().Underlying().String()))
			return ts, v
		}
	}
}

// fieldStores lists the values stored into field `name` (of any struct) in f.
func fieldStores(f *ssa.Function, name string) []*ssa.Store {
	var out []*ssa.Store
	allInstrs(f, func(_ *ssa.BasicBlock, in ssa.Instruction) {
		if st, ok := in.(*ssa.Store); ok {
			if _, fn, ok := fieldOf(st.Addr); ok && fn == name {
				out = append(out, st)
			}
		}
	})
	return out
}

// widthChain checks that every store to field `field` in f is a conversion chain `want`
// (outermost first) whose root satisfies rootOK.
func (c *Ctx) widthChain(rule string, f *ssa.Function, field string, want []string, rootDesc string, rootOK func(ssa.Value) bool) {
	if f == nil {
		return
	}
	sts := fieldStores(f, field)
	key := fmt.Sprintf("%s: %s = %s(%s)", fnName(f), field, strings.Join(want, "("), rootDesc)
	if len(sts) != 1 {
		c.bad(rule, key, f.Pos(), fmt.Sprintf("%s assigns %s at %d sites; the conversion is a single width/sign chain %v of %s, not a case analysis on the value", fnName(f), field, len(sts), want, rootDesc))
		return
	}
	ts, root := convChain(sts[0].Val)
	okv := strings.Join(ts, ",") == strings.Join(want, ",") && rootOK(root)
	c.check(okv, rule, key, sts[0].Pos(), "conversion chain "+strings.Join(ts, "<-")+" from "+shape(root, 3),
		fmt.Sprintf("%s converts %s through %v from %s; the inverse of the writer's truncation is %v of %s (sign and width must match the sibling encoder)", fnName(f), field, ts, shape(root, 3), want, rootDesc))
}

func isIndexLoad(idx int64) func(ssa.Value) bool {
	return func(v ssa.Value) bool {
		u, ok := v.(*ssa.UnOp)
		if !ok || u.Op != token.MUL {
			return false
		}
		ia, ok := u.X.(*ssa.IndexAddr)
		if !ok {
			return false
		}
		k, ok := constInt(ia.Index)
		return ok && k == idx
	}
}

func isFieldLoad(name string) func(ssa.Value) bool {
	return func(v ssa.Value) bool {
		if fl, ok := v.(*ssa.Field); ok {
			_, n, _ := fieldOf(fl)
			return n == name
		}
		if u, ok := v.(*ssa.UnOp); ok && u.Op == token.MUL {
			_, n, ok := fieldOf(u.X)
			return ok && n == name
		}
		return false
	}
}

func isCallTo(q string) func(ssa.Value) bool {
	return func(v ssa.Value) bool {
		if ex, ok := v.(*ssa.Extract); ok {
			v = ex.Tuple
		}
		cl := callOf(v)
		return cl != nil && callQName(&cl.Call) == q
	}
}

func normBasic(s string) string {
	switch s {
	case "byte":
		return "uint8"
	case "rune":
		return "int32"
	}
	return s
}

// describePiece names one appended piece of a byte string being assembled: a fixed-width integer
// buffer (make([]byte, K) written by exactly one PutUintN covering it), a field, a constant.
func (c *Ctx) describePiece(f *ssa.Function, v ssa.Value) string {
	orig := v
	for {
		switch x := v.(type) {
		case *ssa.Slice:
			if x.Low == nil && x.High == nil {
				v = x.X
				continue
			}
			if al, ok := x.X.(*ssa.Alloc); ok && x.Low == nil && al.Comment == "makeslice" {
				// make([]byte, K): new [K]byte + slice [:K]
				if n, ok := arrayLen(al.Type().(*types.Pointer).Elem()); ok {
					if k, ok := constInt(x.High); ok && k == n {
						v = al
						continue
					}
				}
			}
		case *ssa.Convert:
			v = x.X
			continue
		case *ssa.ChangeType:
			v = x.X
			continue
		}
		break
	}
	if s, ok := constString(v); ok {
		return fmt.Sprintf("%q", s)
	}
	if mk, ok := v.(*ssa.Alloc); ok && mk.Comment == "makeslice" {
		k, _ := arrayLen(mk.Type().(*types.Pointer).Elem())
		var puts []string
		allInstrs(f, func(_ *ssa.BasicBlock, in ssa.Instruction) {
			cl, ok := in.(*ssa.Call)
			if !ok {
				return
			}
			q := callQName(&cl.Call)
			if strings.HasPrefix(q, "encoding/binary.") && strings.Contains(q, ".PutUint") {
				base, lo, hi := sliceBounds(cl.Call.Args[1])
				if base == ssa.Value(mk) {
					if k2, ok := constInt64Str(hi); ok && k2 == k && lo == "" {
						hi = ""
					}
					end := "LE"
					if strings.Contains(q, "bigEndian") {
						end = "BE"
					}
					bits := q[strings.LastIndex(q, "PutUint")+7:]
					ts, root := convChain(cl.Call.Args[2])
					rs := shape(root, 2)
					if _, n, ok := fieldOfLoad(root); ok {
						rs = n
					}
					if cl := callOf(root); cl != nil {
						if bi, ok := cl.Call.Value.(*ssa.Builtin); ok && bi.Name() == "len" && len(cl.Call.Args) == 1 {
							if _, n, ok := fieldOfLoad(cl.Call.Args[0]); ok {
								rs = "len(." + n + ")" // field name only: independent of what the owner is called
							}
						}
					}
					puts = append(puts, fmt.Sprintf("%s%s[%s:%s](%s %s)", end, bits, lo, hi, strings.Join(ts, "<-"), rs))
				}
			}
		})
		sort.Strings(puts)
		return fmt.Sprintf("buf%d{%s}", k, strings.Join(puts, ","))
	}
	if _, n, ok := fieldOfLoad(v); ok {
		return "field:" + n
	}
	if al, ok := v.(*ssa.Alloc); ok {
		for _, st := range storesTo(al) {
			if cl := callOf(st.Val); cl != nil {
				return "call:" + shortQ(callQName(&cl.Call))
			}
		}
		// composite literal array: list constant element stores
		var ks []string
		for _, r := range *al.Referrers() {
			if ia, ok := r.(*ssa.IndexAddr); ok {
				for _, st := range storesTo(ia) {
					if k, ok := constInt(st.Val); ok {
						ks = append(ks, fmt.Sprintf("%02x", k))
					}
				}
			}
		}
		return "lit{" + strings.Join(ks, " ") + "}"
	}
	if cl := callOf(v); cl != nil {
		return "call:" + shortQ(callQName(&cl.Call))
	}
	if u, ok := v.(*ssa.UnOp); ok && u.Op == token.MUL {
		if al, ok := u.X.(*ssa.Alloc); ok {
			for _, st := range storesTo(al) {
				if cl := callOf(st.Val); cl != nil {
					return "call:" + shortQ(callQName(&cl.Call))
				}
			}
		}
	}
	return shape(orig, 3)
}

func fieldOfLoad(v ssa.Value) (string, string, bool) {
	if fl, ok := v.(*ssa.Field); ok {
		return fieldOf(fl)
	}
	if u, ok := v.(*ssa.UnOp); ok && u.Op == token.MUL {
		return fieldOf(u.X)
	}
	return "", "", false
}

// assembled returns the pieces of the byte string v built by successive appends.
func (c *Ctx) assembled(f *ssa.Function, v ssa.Value) []string {
	var vals []ssa.Value
	seen := map[ssa.Value]bool{}
	for v != nil && !seen[v] {
		seen[v] = true
		cl, ok := v.(*ssa.Call)
		if ok {
			if b, ok := cl.Call.Value.(*ssa.Builtin); ok && b.Name() == "append" {
				vals = append([]ssa.Value{cl.Call.Args[1]}, vals...)
				v = cl.Call.Args[0]
				continue
			}
		}
		vals = append([]ssa.Value{v}, vals...)
		break
	}
	var out []string
	for _, x := range vals {
		out = append(out, c.describePiece(f, x))
	}
	return out
}

func constInt64Str(s string) (int64, bool) {
	k, err := strconv.ParseInt(s, 10, 64)
	return k, err == nil
}

// isMakeSlice: the slice go/ssa builds for make([]T, K) with constant K (a whole new array).
func isMakeSlice(sl *ssa.Slice) bool {
	al, ok := sl.X.(*ssa.Alloc)
	return ok && al.Heap && al.Comment == "makeslice"
}
