package main

import (
	"fmt"
	"go/token"
	"go/types"
	"sort"
	"strconv"
	"strings"

	"golang.org/x/tools/go/ssa"
)

// E7 bytelayout: constant byte layouts of hand-written binary formats.

type byteField struct {
	lo, hi string // constant or symbolic ("" = open)
	how    string // LE16/LE32/LE64/BE16/BE32/BE64/copy/byte/read
	what   string // shape of the source / destination role
}

// deepFields: the String() of fields found in an unexported helper of the scanned function, not in the
// function itself (set by byteWrites, consulted by layoutIs)
var deepFields = map[string]bool{}

// fieldBase: the buffer (allocation) each recorded field was written into, by "function|field"
var fieldBase = map[string]ssa.Value{}

// bufferOf: the allocation behind a (possibly re-sliced) byte buffer value.
func bufferOf(v ssa.Value) ssa.Value {
	for i := 0; i < 6; i++ {
		switch x := v.(type) {
		case *ssa.Slice:
			v = x.X
			continue
		case *ssa.UnOp:
			if x.Op == token.MUL {
				v = x.X
				continue
			}
		}
		break
	}
	return v
}

func (b byteField) String() string { return fmt.Sprintf("[%s:%s]%s(%s)", b.lo, b.hi, b.how, b.what) }

func offShape(v ssa.Value) string {
	if v == nil {
		return ""
	}
	return linOff(v).String()
}

// offLin: an offset as a linear form k + sum coef*atom, so that 36+len(p) and (32+len(p)+32)-32+4 read alike.
type offLin struct {
	k     int64
	atoms map[string]int64
}

func (o offLin) add(p offLin, sign int64) offLin {
	r := offLin{k: o.k + sign*p.k, atoms: map[string]int64{}}
	for a, c := range o.atoms {
		r.atoms[a] += c
	}
	for a, c := range p.atoms {
		r.atoms[a] += sign * c
	}
	for a, c := range r.atoms {
		if c == 0 {
			delete(r.atoms, a)
		}
	}
	return r
}

func (o offLin) isConst() bool { return len(o.atoms) == 0 }

func (o offLin) String() string {
	if o.isConst() {
		return fmt.Sprint(o.k)
	}
	var as []string
	for a := range o.atoms {
		as = append(as, a)
	}
	sort.Strings(as)
	var parts []string
	if o.k != 0 {
		parts = append(parts, fmt.Sprint(o.k))
	}
	for _, a := range as {
		switch c := o.atoms[a]; {
		case c == 1:
			parts = append(parts, a)
		case c == -1:
			parts = append(parts, "-"+a)
		default:
			parts = append(parts, fmt.Sprintf("%d*%s", c, a))
		}
	}
	if len(parts) == 1 {
		return parts[0]
	}
	return "(" + strings.Join(parts, "+") + ")"
}

func linOff(v ssa.Value) offLin {
	if v == nil {
		return offLin{}
	}
	v = stripConv(v)
	if k, ok := constInt(v); ok {
		return offLin{k: k}
	}
	if bo, ok := v.(*ssa.BinOp); ok && isInteger(bo.Type()) {
		switch bo.Op {
		case token.ADD:
			return linOff(bo.X).add(linOff(bo.Y), 1)
		case token.SUB:
			return linOff(bo.X).add(linOff(bo.Y), -1)
		case token.MUL:
			x, y := linOff(bo.X), linOff(bo.Y)
			if y.isConst() {
				x, y = y, x
			}
			if x.isConst() {
				r := offLin{k: x.k * y.k, atoms: map[string]int64{}}
				for a, c := range y.atoms {
					if x.k*c != 0 {
						r.atoms[a] = x.k * c
					}
				}
				return r
			}
		}
	}
	return offLin{atoms: map[string]int64{shape(v, 2): 1}}
}

// sliceBounds returns base and bounds of a slice expression value (or the value itself with open bounds). A
// slice of a slice is a slice of the underlying buffer: data := raw[4:]; data[8:n] is raw[12:4+n].
func sliceBounds(v ssa.Value) (base ssa.Value, lo, hi string) {
	b, l, h, hasLo, hasHi := sliceBoundsLin(v)
	if hasLo {
		lo = l.String()
	}
	if hasHi {
		hi = h.String()
	}
	return b, lo, hi
}

func sliceBoundsLin(v ssa.Value) (base ssa.Value, lo, hi offLin, hasLo, hasHi bool) {
	sl, ok := v.(*ssa.Slice)
	if !ok {
		return v, offLin{}, offLin{}, false, false
	}
	if sl.Low != nil {
		lo, hasLo = linOff(sl.Low), true
	}
	if sl.High != nil {
		hi, hasHi = linOff(sl.High), true
	}
	base = sl.X
	if inner, ok := sl.X.(*ssa.Slice); ok && !isMakeSlice(inner) {
		ib, ilo, ihi, iHasLo, iHasHi := sliceBoundsLin(inner)
		base = ib
		if iHasLo {
			if hasLo {
				lo = lo.add(ilo, 1)
			} else {
				lo, hasLo = ilo, true
			}
			if hasHi {
				hi = hi.add(ilo, 1)
			}
		}
		if !hasHi && iHasHi {
			hi, hasHi = ihi, true
		}
	}
	return
}

// byteWrites lists the writes into byte buffers in f: PutUintN(b[lo:hi], x), copy(b[lo:hi], x), b[i] = x.
func (c *Ctx) byteWrites(f *ssa.Function) []byteField {
	var out []byteField
	// the buffer may be filled in f or in an unexported helper f calls (handshakeRequest(...)): read both
	for _, g := range c.deepFns(f) {
		for _, w := range c.byteWritesOf(g) {
			if g != f {
				deepFields[fnName(f)+"|"+w.String()] = true
			}
			out = append(out, w)
		}
	}
	return out
}

// srcShape: the shape of a written value; a parameter of a helper with one call site is shown as the
// argument it stands for (copy(req[32:64], pub) in the helper is copy(req[32:64], keys.public)).
func srcShape(v ssa.Value) string {
	for i := 0; i < 3; i++ {
		prm, ok := stripConv(v).(*ssa.Parameter)
		if !ok {
			break
		}
		h := plainHelper(prm.Parent())
		if h == nil || len(gCallSites[h]) != 1 {
			break
		}
		idx := -1
		for j, q := range h.Params {
			if q == prm {
				idx = j
			}
		}
		args := gCallSites[h][0].Common().Args
		if idx < 0 || idx >= len(args) {
			break
		}
		v = args[idx]
	}
	return shape(v, 3)
}

func (c *Ctx) byteWritesOf(f *ssa.Function) []byteField {
	var out []byteField
	byteStores := map[int64]ssa.Value{}
	// buffers grown from length 0 by appends of constant-size pieces (make([]byte, 0, N);
	// b = binary.LittleEndian.AppendUint32(b, x); b = append(b, arr[:]...)): each piece lands at the
	// running length, which is a constant - the same layout as PutUint32(b[:4], x); copy(b[4:36], arr[:])
	off := map[ssa.Value]int64{}
	pos := func(k int64) string {
		if k == 0 {
			return ""
		}
		return fmt.Sprint(k)
	}
	allInstrs(f, func(_ *ssa.BasicBlock, in ssa.Instruction) {
		switch x := in.(type) {
		case *ssa.MakeSlice:
			if k, ok := constInt(x.Len); ok && k == 0 {
				off[x] = 0
			}
		case *ssa.Slice:
			if al, ok := x.X.(*ssa.Alloc); ok && al.Heap && al.Comment == "makeslice" {
				if k, ok := constInt(x.High); ok && k == 0 {
					off[x] = 0
				}
			}
		case *ssa.Call:
			q := callQName(&x.Call)
			if strings.HasPrefix(q, "encoding/binary.") && strings.Contains(q, ".AppendUint") {
				if o, ok := off[x.Call.Args[1]]; ok {
					end := "LE"
					if strings.Contains(q, "bigEndian") {
						end = "BE"
					}
					bits := q[strings.LastIndex(q, "AppendUint")+10:]
					n, _ := strconv.Atoi(bits)
					out = append(out, byteField{pos(o), fmt.Sprint(o + int64(n/8)), end + bits, srcShape(x.Call.Args[2])})
					off[x] = o + int64(n/8)
				}
			}
			if b, ok := x.Call.Value.(*ssa.Builtin); ok && b.Name() == "append" && len(x.Call.Args) == 2 {
				if o, ok := off[x.Call.Args[0]]; ok {
					if sl, ok := x.Call.Args[1].(*ssa.Slice); ok && sl.Low == nil && sl.High == nil {
						if n, ok := arrayLen(sl.X.Type()); ok {
							out = append(out, byteField{pos(o), fmt.Sprint(o + n), "copy", srcShape(x.Call.Args[1])})
							off[x] = o + n
						}
					}
				}
			}
		}
	})
	allInstrs(f, func(_ *ssa.BasicBlock, in ssa.Instruction) {
		switch x := in.(type) {
		case *ssa.Call:
			q := callQName(&x.Call)
			if strings.HasPrefix(q, "encoding/binary.") && strings.Contains(q, ".PutUint") {
				end := "LE"
				if strings.Contains(q, "bigEndian") {
					end = "BE"
				}
				bits := q[strings.LastIndex(q, "PutUint")+7:]
				base, lo, hi := sliceBounds(x.Call.Args[1])
				what := srcShape(x.Call.Args[2])
				// a computed value is also shown as a linear form, so that len+32+32 and 32+len+32 read alike
				if lf := linOff(x.Call.Args[2]); !lf.isConst() && (lf.k != 0 || len(lf.atoms) > 1) {
					what += "=" + lf.String()
				}
				bf := byteField{lo, hi, end + bits, what}
				out = append(out, bf)
				fieldBase[fnName(f)+"|"+bf.String()] = bufferOf(base)
			}
			if b, ok := x.Call.Value.(*ssa.Builtin); ok && b.Name() == "copy" {
				base, lo, hi := sliceBounds(x.Call.Args[0])
				bf := byteField{lo, hi, "copy", srcShape(x.Call.Args[1])}
				out = append(out, bf)
				fieldBase[fnName(f)+"|"+bf.String()] = bufferOf(base)
			}
			// a stream cipher writing its output straight into a part of the buffer: XORKeyStream(buf[lo:hi], src)
			// places (the encryption of) src there, like copy(buf[lo:hi], encrypted)
			if x.Call.IsInvoke() && x.Call.Method.Name() == "XORKeyStream" && len(x.Call.Args) == 2 {
				if dst, ok := x.Call.Args[0].(*ssa.Slice); ok && x.Call.Args[0] != x.Call.Args[1] && (dst.Low != nil || dst.High != nil) {
					_, lo, hi := sliceBounds(dst)
					out = append(out, byteField{lo, hi, "copy", ""})
				}
			}
		case *ssa.Store:
			if ia, ok := x.Addr.(*ssa.IndexAddr); ok && isByte(x.Val.Type()) {
				if k, ok := constInt(ia.Index); ok {
					// (a byte assigned and then updated in place, b[0] = tag; b[0] |= flag, is one field)
					if _, again := byteStores[k]; !again {
						out = append(out, byteField{fmt.Sprint(k), fmt.Sprint(k + 1), "byte", srcShape(x.Val)})
					}
					byteStores[k] = x.Val
				}
			}
		}
	})
	// a 16-bit value written big-endian by hand: b[k] = byte(x>>8); b[k+1] = byte(x)  is  PutUint16(b[k:k+2], x)
	for k, hi := range byteStores {
		lo, ok := byteStores[k+1]
		if !ok {
			continue
		}
		sh, ok := stripConv(hi).(*ssa.BinOp)
		if !ok || sh.Op != token.SHR {
			continue
		}
		if n, ok := constInt(sh.Y); !ok || n != 8 {
			continue
		}
		if stripConv(sh.X) != stripConv(lo) {
			continue
		}
		var kept []byteField
		for _, w := range out {
			if w.how == "byte" && (w.lo == fmt.Sprint(k) || w.lo == fmt.Sprint(k+1)) {
				continue
			}
			kept = append(kept, w)
		}
		out = append(kept, byteField{fmt.Sprint(k), fmt.Sprint(k + 2), "BE16", srcShape(stripConv(lo))})
	}
	return out
}

// byteReads lists reads from byte buffers: UintN(b[lo:hi]), b[lo:hi] slices, b[i] loads.
func (c *Ctx) byteReads(f *ssa.Function) []byteField {
	var out []byteField
	c.allInstrsDeep(f, func(_ *ssa.BasicBlock, in ssa.Instruction) {
		switch x := in.(type) {
		case *ssa.Call:
			q := callQName(&x.Call)
			if strings.HasPrefix(q, "encoding/binary.") && (strings.Contains(q, "Endian.Uint")) {
				end := "LE"
				if strings.Contains(q, "bigEndian") {
					end = "BE"
				}
				bits := q[strings.LastIndex(q, "Uint")+4:]
				_, lo, hi := sliceBounds(x.Call.Args[1])
				out = append(out, byteField{lo, hi, end + bits, ""})
			}
		}
	})
	return out
}

func fieldsString(fs []byteField) string {
	var s []string
	for _, f := range fs {
		s = append(s, f.String())
	}
	sort.Strings(s)
	return strings.Join(s, " ")
}

// layoutIs compares the extracted writes (how+bounds, role by substring) with the expected list.
func (c *Ctx) layoutIs(rule, key string, f *ssa.Function, got []byteField, want []byteField) {
	if f == nil {
		return
	}
	match := func(g, w byteField) bool {
		return g.lo == w.lo && g.hi == w.hi && g.how == w.how && (w.what == "" || strings.Contains(g.what, w.what))
	}
	var missing []string
	used := make([]bool, len(got))
	for _, w := range want {
		found := false
		for i, g := range got {
			if !used[i] && match(g, w) {
				used[i] = true
				found = true
				break
			}
		}
		if !found {
			missing = append(missing, w.String())
		}
	}
	// the buffer the layout is about: the one the matched fields were written into; writes into other buffers of
	// the same function (a key, a nonce built with copy) are not fields of this layout
	var main ssa.Value
	votes := map[ssa.Value]int{}
	for i, g := range got {
		if used[i] {
			if b := fieldBase[fnName(f)+"|"+g.String()]; b != nil {
				votes[b]++
				if main == nil || votes[b] > votes[main] {
					main = b
				}
			}
		}
	}
	var extra []string
	for i, g := range got {
		if !used[i] && main != nil {
			if b := fieldBase[fnName(f)+"|"+g.String()]; b != nil && b != main {
				continue
			}
		}
		// writes of helpers that are not part of this layout (a helper building its own small buffer) are not
		// this function's fields; a helper's write counts when it supplies a field the layout asks for
		if !used[i] && !deepFields[fnName(f)+"|"+g.String()] {
			extra = append(extra, g.String())
		}
	}
	c.check(len(missing) == 0 && len(extra) == 0, rule, key, f.Pos(), "byte layout equals the specification: "+fieldsString(want),
		fmt.Sprintf("%s: byte layout differs from the specification\n      missing: %v\n      unexpected: %v", fnName(f), missing, extra))
}

// appendSequence: the ordered pieces appended to the slice that reaches call `sink` argument argIdx.
func appendChain(v ssa.Value) []string {
	var out []string
	seen := map[ssa.Value]bool{}
	for v != nil && !seen[v] {
		seen[v] = true
		cl, ok := v.(*ssa.Call)
		if !ok {
			// initial value
			out = append([]string{"init:" + shape(v, 3)}, out...)
			break
		}
		// binary.BigEndian.AppendUint16(b, v) appends the encoded integer: a piece like any other
		if q := callQName(&cl.Call); strings.HasPrefix(q, "encoding/binary.") && strings.Contains(q, ".AppendUint") && len(cl.Call.Args) == 3 {
			end := "LE"
			if strings.Contains(q, "bigEndian") {
				end = "BE"
			}
			out = append([]string{end + q[strings.LastIndex(q, "AppendUint")+10:] + "(" + shape(cl.Call.Args[2], 3) + ")"}, out...)
			v = cl.Call.Args[1]
			continue
		}
		b, ok := cl.Call.Value.(*ssa.Builtin)
		if !ok || b.Name() != "append" {
			out = append([]string{"init:" + shape(v, 3)}, out...)
			break
		}
		out = append([]string{shape(cl.Call.Args[1], 3)}, out...)
		v = cl.Call.Args[0]
	}
	return out
}

var _ = token.ADD

// convChain returns the types along a chain of numeric conversions, outermost first, and the
// value at the bottom of the chain.
func convChain(v ssa.Value) ([]string, ssa.Value) {
	var ts []string
	for {
		switch x := v.(type) {
		case *ssa.Convert:
			ts = append(ts, normBasic(x.Type().Underlying().String()))
			v = x.X
		case *ssa.ChangeType:
			v = x.X
		default:
			ts = append(ts, normBasic(v.Type().Underlying().String()))
			return ts, v
		}
	}
}

// fieldStores lists the values stored into field `name` (of any struct) in f.
func fieldStores(f *ssa.Function, name string) []*ssa.Store {
	var out []*ssa.Store
	allInstrs(f, func(_ *ssa.BasicBlock, in ssa.Instruction) {
		if st, ok := in.(*ssa.Store); ok {
			if _, fn, ok := fieldOf(st.Addr); ok && fn == name {
				out = append(out, st)
			}
		}
	})
	return out
}

// widthChain checks that every store to field `field` in f is a conversion chain `want`
// (outermost first) whose root satisfies rootOK.
func (c *Ctx) widthChain(rule string, f *ssa.Function, field string, want []string, rootDesc string, rootOK func(ssa.Value) bool) {
	if f == nil {
		return
	}
	sts := fieldStores(f, field)
	key := fmt.Sprintf("%s: %s = %s(%s)", fnName(f), field, strings.Join(want, "("), rootDesc)
	if len(sts) != 1 {
		c.bad(rule, key, f.Pos(), fmt.Sprintf("%s assigns %s at %d sites; the conversion is a single width/sign chain %v of %s, not a case analysis on the value", fnName(f), field, len(sts), want, rootDesc))
		return
	}
	ts, root := convChain(sts[0].Val)
	okv := strings.Join(ts, ",") == strings.Join(want, ",") && rootOK(root)
	c.check(okv, rule, key, sts[0].Pos(), "conversion chain "+strings.Join(ts, "<-")+" from "+shape(root, 3),
		fmt.Sprintf("%s converts %s through %v from %s; the inverse of the writer's truncation is %v of %s (sign and width must match the sibling encoder)", fnName(f), field, ts, shape(root, 3), want, rootDesc))
}

func isIndexLoad(idx int64) func(ssa.Value) bool {
	return func(v ssa.Value) bool {
		u, ok := v.(*ssa.UnOp)
		if !ok || u.Op != token.MUL {
			return false
		}
		ia, ok := u.X.(*ssa.IndexAddr)
		if !ok {
			return false
		}
		k, ok := constInt(ia.Index)
		return ok && k == idx
	}
}

func isFieldLoad(name string) func(ssa.Value) bool {
	return func(v ssa.Value) bool {
		if fl, ok := v.(*ssa.Field); ok {
			_, n, _ := fieldOf(fl)
			return n == name
		}
		if u, ok := v.(*ssa.UnOp); ok && u.Op == token.MUL {
			_, n, ok := fieldOf(u.X)
			return ok && n == name
		}
		return false
	}
}

func isCallTo(q string) func(ssa.Value) bool {
	return func(v ssa.Value) bool {
		if ex, ok := v.(*ssa.Extract); ok {
			v = ex.Tuple
		}
		cl := callOf(v)
		return cl != nil && callQName(&cl.Call) == q
	}
}

func normBasic(s string) string {
	switch s {
	case "byte":
		return "uint8"
	case "rune":
		return "int32"
	}
	return s
}

// describePiece names one appended piece of a byte string being assembled: a fixed-width integer
// buffer (make([]byte, K) written by exactly one PutUintN covering it), a field, a constant.
func (c *Ctx) describePiece(f *ssa.Function, v ssa.Value) string {
	orig := v
	for {
		switch x := v.(type) {
		case *ssa.Slice:
			if x.Low == nil && x.High == nil {
				v = x.X
				continue
			}
			if al, ok := x.X.(*ssa.Alloc); ok && x.Low == nil && al.Comment == "makeslice" {
				// make([]byte, K): new [K]byte + slice [:K]
				if n, ok := arrayLen(al.Type().(*types.Pointer).Elem()); ok {
					if k, ok := constInt(x.High); ok && k == n {
						v = al
						continue
					}
				}
			}
		case *ssa.Convert:
			v = x.X
			continue
		case *ssa.ChangeType:
			v = x.X
			continue
		}
		break
	}
	if s, ok := constString(v); ok {
		return fmt.Sprintf("%q", s)
	}
	if mk, ok := v.(*ssa.Alloc); ok && mk.Comment == "makeslice" {
		k, _ := arrayLen(mk.Type().(*types.Pointer).Elem())
		var puts []string
		allInstrs(f, func(_ *ssa.BasicBlock, in ssa.Instruction) {
			cl, ok := in.(*ssa.Call)
			if !ok {
				return
			}
			q := callQName(&cl.Call)
			if strings.HasPrefix(q, "encoding/binary.") && strings.Contains(q, ".PutUint") {
				base, lo, hi := sliceBounds(cl.Call.Args[1])
				if base == ssa.Value(mk) {
					if k2, ok := constInt64Str(hi); ok && k2 == k && lo == "" {
						hi = ""
					}
					end := "LE"
					if strings.Contains(q, "bigEndian") {
						end = "BE"
					}
					bits := q[strings.LastIndex(q, "PutUint")+7:]
					ts, root := convChain(cl.Call.Args[2])
					rs := shape(root, 2)
					if _, n, ok := fieldOfLoad(root); ok {
						rs = n
					}
					if cl := callOf(root); cl != nil {
						if bi, ok := cl.Call.Value.(*ssa.Builtin); ok && bi.Name() == "len" && len(cl.Call.Args) == 1 {
							if _, n, ok := fieldOfLoad(cl.Call.Args[0]); ok {
								rs = "len(." + n + ")" // field name only: independent of what the owner is called
							}
						}
					}
					puts = append(puts, fmt.Sprintf("%s%s[%s:%s](%s %s)", end, bits, lo, hi, strings.Join(ts, "<-"), rs))
				}
			}
		})
		sort.Strings(puts)
		return fmt.Sprintf("buf%d{%s}", k, strings.Join(puts, ","))
	}
	if _, n, ok := fieldOfLoad(v); ok {
		return "field:" + n
	}
	if al, ok := v.(*ssa.Alloc); ok {
		for _, st := range storesTo(al) {
			if cl := callOf(st.Val); cl != nil {
				return "call:" + shortQ(callQName(&cl.Call))
			}
		}
		// composite literal array: list constant element stores
		var ks []string
		for _, r := range *al.Referrers() {
			if ia, ok := r.(*ssa.IndexAddr); ok {
				for _, st := range storesTo(ia) {
					if k, ok := constInt(st.Val); ok {
						ks = append(ks, fmt.Sprintf("%02x", k))
					}
				}
			}
		}
		return "lit{" + strings.Join(ks, " ") + "}"
	}
	if cl := callOf(v); cl != nil {
		return "call:" + shortQ(callQName(&cl.Call))
	}
	if u, ok := v.(*ssa.UnOp); ok && u.Op == token.MUL {
		if al, ok := u.X.(*ssa.Alloc); ok {
			for _, st := range storesTo(al) {
				if cl := callOf(st.Val); cl != nil {
					return "call:" + shortQ(callQName(&cl.Call))
				}
			}
		}
	}
	return shape(orig, 3)
}

func fieldOfLoad(v ssa.Value) (string, string, bool) {
	if fl, ok := v.(*ssa.Field); ok {
		return fieldOf(fl)
	}
	if u, ok := v.(*ssa.UnOp); ok && u.Op == token.MUL {
		return fieldOf(u.X)
	}
	return "", "", false
}

// assembled returns the pieces of the byte string v built by successive appends.
func (c *Ctx) assembled(f *ssa.Function, v ssa.Value) []string {
	var vals []ssa.Value
	seen := map[ssa.Value]bool{}
	for v != nil && !seen[v] {
		seen[v] = true
		cl, ok := v.(*ssa.Call)
		if ok {
			if b, ok := cl.Call.Value.(*ssa.Builtin); ok && b.Name() == "append" {
				vals = append([]ssa.Value{cl.Call.Args[1]}, vals...)
				v = cl.Call.Args[0]
				continue
			}
			// b = binary.BigEndian.AppendUint32(b, x): the same piece as a 4-byte buffer filled by PutUint32 and appended
			if q := callQName(&cl.Call); strings.HasPrefix(q, "encoding/binary.") && strings.Contains(q, ".AppendUint") {
				vals = append([]ssa.Value{cl}, vals...)
				v = cl.Call.Args[1]
				continue
			}
		}
		// an empty initial buffer contributes nothing (var b []byte / make([]byte, 0, n) in front of appends)
		if len(vals) > 0 {
			if cst, ok := v.(*ssa.Const); ok && cst.Value == nil {
				break
			}
			if mk, ok := v.(*ssa.MakeSlice); ok {
				if k, ok := constInt(mk.Len); ok && k == 0 {
					break
				}
			}
		}
		vals = append([]ssa.Value{v}, vals...)
		break
	}
	var out []string
	for _, x := range vals {
		if cl, ok := x.(*ssa.Call); ok {
			if q := callQName(&cl.Call); strings.HasPrefix(q, "encoding/binary.") && strings.Contains(q, ".AppendUint") {
				end := "LE"
				if strings.Contains(q, "bigEndian") {
					end = "BE"
				}
				bits := q[strings.LastIndex(q, "AppendUint")+10:]
				n, _ := strconv.Atoi(bits)
				ts, root := convChain(cl.Call.Args[2])
				rs := shape(root, 2)
				if _, fn, ok := fieldOfLoad(root); ok {
					rs = fn
				}
				if c2 := callOf(root); c2 != nil {
					if bi, ok := c2.Call.Value.(*ssa.Builtin); ok && bi.Name() == "len" && len(c2.Call.Args) == 1 {
						if _, fn, ok := fieldOfLoad(c2.Call.Args[0]); ok {
							rs = "len(." + fn + ")"
						}
					}
				}
				out = append(out, fmt.Sprintf("buf%d{%s%s[:](%s %s)}", n/8, end, bits, strings.Join(ts, "<-"), rs))
				continue
			}
		}
		out = append(out, c.describePiece(f, x))
	}
	return out
}

func constInt64Str(s string) (int64, bool) {
	k, err := strconv.ParseInt(s, 10, 64)
	return k, err == nil
}

// isMakeSlice: the slice go/ssa builds for make([]T, K) with constant K (a whole new array).
func isMakeSlice(sl *ssa.Slice) bool {
	al, ok := sl.X.(*ssa.Alloc)
	return ok && al.Heap && al.Comment == "makeslice"
}
