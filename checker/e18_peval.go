package main

import (
	"go/constant"
	"go/token"
	"go/types"
	"strings"

	"golang.org/x/tools/go/ssa"
)

// E18: sparse conditional constant propagation over go/ssa (Wegman-Zadeck), used as a partial
// evaluator: "under the assumption that these calls / parameters have these constant values,
// which blocks of the function are reachable and which constants reach this argument". It lets a
// rule state WHAT a function does for one input class (one reflect.Kind, one constructor tag)
// without depending on HOW the dispatch is written (switch, if-chain, helper that maps the kind
// to a width, named constants, negated conditions with swapped branches).
//
// The lattice per value is undefined < constant < unknown. In-module static callees are evaluated
// recursively (bounded depth) with the constant arguments as parameter assumptions; every other
// call is unknown unless the assume hook gives it a value. Nothing is executed: this is constant
// folding over the SSA graph.

type latv struct {
	k int8 // 0 undefined, 1 constant, 2 unknown
	v int64
}

var latTop = latv{k: 2}

func latMeet(a, b latv) latv {
	switch {
	case a.k == 0:
		return b
	case b.k == 0:
		return a
	case a.k == 2 || b.k == 2:
		return latTop
	case a.v == b.v:
		return a
	}
	return latTop
}

type peval struct {
	c      *Ctx
	assume func(cl *ssa.CallCommon) (int64, bool)
	// onCall is invoked once per reachable call instruction (after the fixed point), in the caller and in every
	// in-module callee evaluated; arg returns the constant value of an argument
	depth int
	stack map[*ssa.Function]bool
}

type pevalResult struct {
	fn    *ssa.Function
	reach map[*ssa.BasicBlock]bool
	vals  map[ssa.Value]latv
	ret   []latv
	sub   map[*ssa.Call]*pevalResult // evaluated in-module callees, by call site
}

func (r *pevalResult) val(v ssa.Value) (int64, bool) {
	if l, ok := constLat(v); ok {
		return l.v, true
	}
	l := r.vals[v]
	return l.v, l.k == 1
}

func constLat(v ssa.Value) (latv, bool) {
	cv, ok := v.(*ssa.Const)
	if !ok {
		return latv{}, false
	}
	if cv.Value == nil {
		return latTop, true
	}
	switch cv.Value.Kind() {
	case constant.Bool:
		if constant.BoolVal(cv.Value) {
			return latv{1, 1}, true
		}
		return latv{1, 0}, true
	case constant.Int:
		if i, ok := constant.Int64Val(cv.Value); ok {
			return latv{1, i}, true
		}
		if u, ok := constant.Uint64Val(cv.Value); ok {
			return latv{1, int64(u)}, true
		}
	}
	return latTop, true
}

// run evaluates fn with the given constant parameters (index -> value).
func (pe *peval) run(fn *ssa.Function, params map[int]int64) *pevalResult {
	res := &pevalResult{fn: fn, reach: map[*ssa.BasicBlock]bool{}, vals: map[ssa.Value]latv{}, sub: map[*ssa.Call]*pevalResult{}}
	if len(fn.Blocks) == 0 {
		return res
	}
	if pe.stack == nil {
		pe.stack = map[*ssa.Function]bool{}
	}
	pe.stack[fn] = true
	defer delete(pe.stack, fn)
	for i, p := range fn.Params {
		if v, ok := params[i]; ok {
			res.vals[p] = latv{1, v}
		} else {
			res.vals[p] = latTop
		}
	}
	for _, fv := range fn.FreeVars {
		res.vals[fv] = latTop
	}
	execEdge := map[edge]bool{}
	res.reach[fn.Blocks[0]] = true
	get := func(v ssa.Value) latv {
		if l, ok := constLat(v); ok {
			return l
		}
		if l, ok := res.vals[v]; ok {
			return l
		}
		switch v.(type) {
		case *ssa.Global, *ssa.Function, *ssa.Builtin:
			return latTop
		}
		return latv{}
	}
	for iter := 0; iter < 64; iter++ {
		changed := false
		set := func(v ssa.Value, l latv) {
			old := res.vals[v]
			n := latMeet(old, l)
			if n != old {
				res.vals[v] = n
				changed = true
			}
		}
		for _, b := range fn.Blocks {
			if !res.reach[b] {
				continue
			}
			for _, in := range b.Instrs {
				switch x := in.(type) {
				case *ssa.Phi:
					l := latv{}
					for i, e := range x.Edges {
						pb := b.Preds[i]
						live := false
						for si, s := range pb.Succs {
							if s == b && execEdge[edge{pb, si}] {
								live = true
							}
						}
						if live {
							l = latMeet(l, get(e))
						}
					}
					set(x, l)
				case *ssa.BinOp:
					set(x, foldBin(x.Op, get(x.X), get(x.Y), x.X.Type()))
				case *ssa.UnOp:
					a := get(x.X)
					switch {
					case a.k != 1:
						if x.Op == token.MUL || x.Op == token.ARROW {
							set(x, latTop)
						} else {
							set(x, a)
						}
					case x.Op == token.NOT:
						set(x, latv{1, 1 - a.v})
					case x.Op == token.SUB:
						set(x, latv{1, -a.v})
					case x.Op == token.XOR:
						set(x, latv{1, ^a.v})
					default:
						set(x, latTop)
					}
				case *ssa.Convert:
					a := get(x.X)
					if a.k == 1 {
						if bt, ok := x.Type().Underlying().(*types.Basic); ok && bt.Info()&types.IsInteger != 0 {
							if st, ok := x.X.Type().Underlying().(*types.Basic); ok && st.Info()&types.IsInteger != 0 {
								set(x, latv{1, truncInt(a.v, bt)})
								continue
							}
						}
						set(x, latTop)
					} else {
						set(x, a)
					}
				case *ssa.ChangeType:
					set(x, get(x.X))
				case *ssa.Lookup:
					// a lookup with a constant key in a package-level map that is filled once, by constants, in the
					// package initialiser and never written afterwards (a kind -> width table)
					k := get(x.Index)
					if k.k == 1 && !x.CommaOk {
						if tab, ok := pe.c.globalMapConst(x.X); ok {
							if v, has := tab[k.v]; has {
								set(x, latv{1, v})
							} else {
								set(x, latv{1, 0}) // missing key: the zero value
							}
							continue
						}
					}
					if k.k == 0 {
						continue
					}
					set(x, latTop)
				case *ssa.Call:
					set(x, pe.callValue(res, x))
				case *ssa.If:
					cv := get(x.Cond)
					mark := func(i int) {
						e := edge{b, i}
						if !execEdge[e] {
							execEdge[e] = true
							changed = true
						}
						if !res.reach[b.Succs[i]] {
							res.reach[b.Succs[i]] = true
							changed = true
						}
					}
					switch {
					case cv.k == 0:
					case cv.k == 1 && cv.v != 0:
						mark(0)
					case cv.k == 1:
						mark(1)
					default:
						mark(0)
						mark(1)
					}
				case *ssa.Jump:
					e := edge{b, 0}
					if !execEdge[e] {
						execEdge[e] = true
						changed = true
					}
					if !res.reach[b.Succs[0]] {
						res.reach[b.Succs[0]] = true
						changed = true
					}
				case *ssa.Return:
				default:
					if v, ok := in.(ssa.Value); ok {
						if _, seen := res.vals[v]; !seen {
							res.vals[v] = latTop
							changed = true
						}
					}
				}
			}
		}
		if !changed {
			break
		}
	}
	// returns
	for _, b := range fn.Blocks {
		if !res.reach[b] || len(b.Instrs) == 0 {
			continue
		}
		if r, ok := b.Instrs[len(b.Instrs)-1].(*ssa.Return); ok {
			if res.ret == nil {
				res.ret = make([]latv, len(r.Results))
			}
			for i, rv := range r.Results {
				res.ret[i] = latMeet(res.ret[i], get(unspill(rv)))
			}
		}
	}
	return res
}

func (pe *peval) callValue(res *pevalResult, cl *ssa.Call) latv {
	if pe.assume != nil {
		if v, ok := pe.assume(&cl.Call); ok {
			return latv{1, v}
		}
	}
	callee := cl.Call.StaticCallee()
	if callee == nil || len(callee.Blocks) == 0 || callee.Pkg == nil || !inModule(callee) {
		return latTop
	}
	callee = origin(callee)
	if pe.stack[callee] || len(pe.stack) > 3 {
		return latTop
	}
	params := map[int]int64{}
	for i, a := range cl.Call.Args {
		l := res.vals[a]
		if cl, ok := constLat(a); ok {
			l = cl
		}
		if l.k == 0 {
			return latv{} // not ready yet
		}
		if l.k == 1 {
			params[i] = l.v
		}
	}
	sub := pe.run(callee, params)
	res.sub[cl] = sub
	if sig := callee.Signature; sig.Results().Len() >= 1 && len(sub.ret) >= 1 {
		if sig.Results().Len() == 1 {
			return sub.ret[0]
		}
	}
	return latTop
}

// reachableCalls lists the call instructions in reachable blocks of the evaluated function and of
// every in-module callee evaluated from a reachable call site, with the result that owns each.
func (r *pevalResult) reachableCalls(fn func(owner *pevalResult, cl *ssa.Call)) {
	seen := map[*pevalResult]bool{}
	var walk func(x *pevalResult)
	walk = func(x *pevalResult) {
		if seen[x] {
			return
		}
		seen[x] = true
		for _, b := range x.fn.Blocks {
			if !x.reach[b] {
				continue
			}
			for _, in := range b.Instrs {
				if cl, ok := in.(*ssa.Call); ok {
					fn(x, cl)
					if s := x.sub[cl]; s != nil {
						walk(s)
					}
				}
			}
		}
	}
	walk(r)
}

func truncInt(v int64, bt *types.Basic) int64 {
	switch bt.Kind() {
	case types.Int8:
		return int64(int8(v))
	case types.Int16:
		return int64(int16(v))
	case types.Int32:
		return int64(int32(v))
	case types.Uint8:
		return int64(uint8(v))
	case types.Uint16:
		return int64(uint16(v))
	case types.Uint32:
		return int64(uint32(v))
	}
	return v
}

func foldBin(op token.Token, a, b latv, t types.Type) latv {
	if a.k == 0 || b.k == 0 {
		return latv{}
	}
	if a.k == 2 || b.k == 2 {
		return latTop
	}
	bl := func(x bool) latv {
		if x {
			return latv{1, 1}
		}
		return latv{1, 0}
	}
	unsigned := false
	if bt, ok := t.Underlying().(*types.Basic); ok && bt.Info()&types.IsUnsigned != 0 {
		unsigned = true
	}
	x, y := a.v, b.v
	switch op {
	case token.EQL:
		return bl(x == y)
	case token.NEQ:
		return bl(x != y)
	case token.LSS:
		if unsigned {
			return bl(uint64(x) < uint64(y))
		}
		return bl(x < y)
	case token.LEQ:
		if unsigned {
			return bl(uint64(x) <= uint64(y))
		}
		return bl(x <= y)
	case token.GTR:
		if unsigned {
			return bl(uint64(x) > uint64(y))
		}
		return bl(x > y)
	case token.GEQ:
		if unsigned {
			return bl(uint64(x) >= uint64(y))
		}
		return bl(x >= y)
	case token.ADD:
		return latv{1, x + y}
	case token.SUB:
		return latv{1, x - y}
	case token.MUL:
		return latv{1, x * y}
	case token.QUO:
		if y == 0 {
			return latTop
		}
		if unsigned {
			return latv{1, int64(uint64(x) / uint64(y))}
		}
		return latv{1, x / y}
	case token.REM:
		if y == 0 {
			return latTop
		}
		if unsigned {
			return latv{1, int64(uint64(x) % uint64(y))}
		}
		return latv{1, x % y}
	case token.AND:
		return latv{1, x & y}
	case token.OR:
		return latv{1, x | y}
	case token.XOR:
		return latv{1, x ^ y}
	case token.AND_NOT:
		return latv{1, x &^ y}
	case token.SHL:
		if y < 0 || y > 63 {
			return latTop
		}
		return latv{1, x << uint(y)}
	case token.SHR:
		if y < 0 || y > 63 {
			return latTop
		}
		if unsigned {
			return latv{1, int64(uint64(x) >> uint(y))}
		}
		return latv{1, x >> uint(y)}
	}
	return latTop
}

// helperClosure returns f (with its closures) and the functions of the same package that f calls
// statically, transitively up to the given depth - the code a reader would see after inlining the
// helpers back. Functions for which stop returns true are not entered (other anchors of the rule).
func (c *Ctx) helperClosure(f *ssa.Function, depth int, stop func(*ssa.Function) bool) []*ssa.Function {
	seen := map[*ssa.Function]bool{}
	var out []*ssa.Function
	var walk func(g *ssa.Function, d int)
	walk = func(g *ssa.Function, d int) {
		if g == nil || seen[g] || len(g.Blocks) == 0 {
			return
		}
		seen[g] = true
		out = append(out, g)
		for _, a := range g.AnonFuncs {
			walk(a, d)
		}
		if d == 0 {
			return
		}
		for _, ci := range callsIn(g) {
			callee := ci.Common().StaticCallee()
			if callee == nil {
				continue
			}
			callee = origin(callee) // an instantiation of a generic helper has no package of its own
			if callee.Pkg == nil || f.Pkg == nil || callee.Pkg != f.Pkg {
				continue
			}
			if stop != nil && stop(callee) {
				continue
			}
			walk(callee, d-1)
		}
	}
	walk(f, depth)
	return out
}

// unexportedHelpers is the usual stop predicate: only unexported plain helpers are entered.
func unexportedOnly(g *ssa.Function) bool {
	return g.Object() != nil && g.Object().Exported()
}

// reachableInstrs visits every instruction in reachable blocks of the evaluated function and of the
// in-module callees evaluated from reachable call sites.
func (r *pevalResult) reachableInstrs(fn func(owner *pevalResult, in ssa.Instruction)) {
	seen := map[*pevalResult]bool{}
	var walk func(x *pevalResult)
	walk = func(x *pevalResult) {
		if seen[x] {
			return
		}
		seen[x] = true
		for _, b := range x.fn.Blocks {
			if !x.reach[b] {
				continue
			}
			for _, in := range b.Instrs {
				fn(x, in)
				if cl, ok := in.(*ssa.Call); ok {
					if s := x.sub[cl]; s != nil {
						walk(s)
					}
				}
			}
		}
	}
	walk(r)
}

type ownedInstr struct {
	owner *pevalResult
	in    ssa.Instruction
}

// kindSpecific: the instructions of f (and of the helpers it calls) that are reachable when every
// reflect.Value.Kind() call returns k but not when it returns reflect.Invalid: the code that
// handles kind k, however the dispatch is written.
func (c *Ctx) kindSpecific(f *ssa.Function, k int64) []ownedInstr {
	eval := func(k int64) *pevalResult {
		pe := &peval{c: c, assume: func(cc *ssa.CallCommon) (int64, bool) {
			if callQName(cc) == "reflect.Value.Kind" {
				return k, true
			}
			return 0, false
		}}
		return pe.run(f, nil)
	}
	base := map[ssa.Instruction]bool{}
	eval(0).reachableInstrs(func(_ *pevalResult, in ssa.Instruction) { base[in] = true })
	var out []ownedInstr
	eval(k).reachableInstrs(func(o *pevalResult, in ssa.Instruction) {
		if !base[in] {
			out = append(out, ownedInstr{o, in})
		}
	})
	return out
}

// globalMapConst: v loads a package-level map variable of the module whose only store is, in the
// package initialiser, a map built there from constant keys and constant integer values, and which no
// other code updates: the table as Go data.
func (c *Ctx) globalMapConst(v ssa.Value) (map[int64]int64, bool) {
	ld, ok := v.(*ssa.UnOp)
	if !ok || ld.Op != token.MUL {
		return nil, false
	}
	g, ok := ld.X.(*ssa.Global)
	if !ok || g.Pkg == nil || !strings.HasPrefix(g.Pkg.Pkg.Path(), modPath) {
		return nil, false
	}
	if c.mapMemo == nil {
		c.mapMemo = map[*ssa.Global]map[int64]int64{}
	}
	if t, done := c.mapMemo[g]; done {
		return t, t != nil
	}
	c.mapMemo[g] = nil
	initFn := g.Pkg.Func("init")
	if initFn == nil {
		return nil, false
	}
	var mk ssa.Value
	nStores := 0
	for _, f := range c.moduleFuncs(strings.TrimPrefix(strings.TrimPrefix(g.Pkg.Pkg.Path(), modPath), "/")) {
		bad := false
		if f == initFn {
			continue
		}
		allInstrs(f, func(_ *ssa.BasicBlock, in ssa.Instruction) {
			switch x := in.(type) {
			case *ssa.Store:
				if x.Addr == ssa.Value(g) {
					nStores++
					mk = x.Val
				}
			case *ssa.MapUpdate:
				if l2, ok := x.Map.(*ssa.UnOp); ok && l2.X == ssa.Value(g) {
					bad = true // updated through the variable after initialisation
				}
			}
		})
		if bad {
			return nil, false
		}
	}
	// the initialiser's own stores
	allInstrs(initFn, func(_ *ssa.BasicBlock, in ssa.Instruction) {
		if st, ok := in.(*ssa.Store); ok && st.Addr == ssa.Value(g) {
			nStores++
			mk = st.Val
		}
	})
	if nStores != 1 || mk == nil {
		return nil, false
	}
	if _, isMk := mk.(*ssa.MakeMap); !isMk {
		return nil, false
	}
	tab := map[int64]int64{}
	okAll := true
	for _, r := range *mk.Referrers() {
		switch x := r.(type) {
		case *ssa.MapUpdate:
			k, ok1 := constInt(stripConv(x.Key))
			val, ok2 := constInt(stripConv(x.Value))
			if !ok1 || !ok2 {
				okAll = false
			}
			tab[k] = val
		case *ssa.Store, *ssa.DebugRef:
		default:
			okAll = false
		}
	}
	if !okAll {
		return nil, false
	}
	c.mapMemo[g] = tab
	return tab, true
}
