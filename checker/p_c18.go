package main

import (
	"fmt"
	"go/constant"
	"go/token"
	"go/types"
	"strings"

	"golang.org/x/tools/go/ssa"
)

func init() { register("C18", propC18) }

func propC18(c *Ctx) propInfo {
	c.prunedCellLayout()
	c.proofRootLayout()
	c.maskPropagation()
	c.keptCellType()
	c.proveKeyRules()
	c.proveWalkArithmetic()
	c.cursorFreshness()
	c.cursorPathOwnership()
	c.prunedAccessors() // the proof stores Hash(0)/Depth(0) read through these accessors
	c.levelMaskAlgebra()
	c.layoutVsSpec(func(k string) bool { return k == "tlb.MerkleProof" || k == "tlb.MerkleUpdate" })
	c.errflow(excC06E2, "boc")
	c.floor("E5.proof-layout", 8)
	c.floor("E10.mask-propagation", 3)
	c.floor("E8.prove-key", 4)
	return propInfo{
		explanation: "Static structural clauses of C18 (DESIGN.md §4 C18): the pruned-branch cell built by the prover is type(8)=1, mask(8)=1, hash, depth(16) with exotic type pruned-branch and mask 1, and the hash and depth written are Hash(0) and Depth(0) of the node being replaced (through the accessors, so that an already pruned node contributes its stored values); the proof root is 3, Hash(0), Depth(0) of the original root plus one reference with exotic type Merkle proof; on a rebuilt node the mask is the OR over all rebuilt children; Merkle cells are refused by the pruner; ProveKeyInHashmap returns a proof only through an equality of the complete reconstructed and requested keys, prunes the sibling and follows the side it took. Decides these necessary conditions, not hash equality of the pruned tree. Each walk has its own pruning set (Cursor/Ref/Prune/CreateProof data flow).",
	}
}

// writesOn lists, in block order, the write calls whose receiver is the cell created by the given NewCell call.
func cellWrites(f *ssa.Function, cell ssa.Value) []*ssa.Call {
	var out []*ssa.Call
	allInstrs(f, func(_ *ssa.BasicBlock, in ssa.Instruction) {
		cl, ok := in.(*ssa.Call)
		if !ok || len(cl.Call.Args) == 0 || cl.Call.Args[0] != cell {
			return
		}
		q := callQName(&cl.Call)
		if strings.HasPrefix(q, bocPath+".Cell.Write") || q == bocPath+".Cell.AddRef" {
			out = append(out, cl)
		}
	})
	return out
}

func fieldStoresOn(f *ssa.Function, base ssa.Value) map[string]ssa.Value {
	out := map[string]ssa.Value{}
	allInstrs(f, func(_ *ssa.BasicBlock, in ssa.Instruction) {
		st, ok := in.(*ssa.Store)
		if !ok {
			return
		}
		fa, ok := st.Addr.(*ssa.FieldAddr)
		if !ok || fa.X != base {
			return
		}
		_, fn, _ := fieldOf(fa)
		out[fn] = st.Val
	})
	return out
}

// accessorOfReceiver: v derives from a call recv.<name>(0) on the given receiver.
func accessorOf(v ssa.Value, name string, recv ssa.Value) bool {
	return derivesFrom(v, func(x ssa.Value) bool {
		cl := callOf(x)
		if cl == nil || callQName(&cl.Call) != bocPath+".immutableCell."+name {
			return false
		}
		if k, ok := constInt(cl.Call.Args[1]); !ok || k != 0 {
			return false
		}
		return recv == nil || cl.Call.Args[0] == recv || derivesFrom(cl.Call.Args[0], func(y ssa.Value) bool { return y == recv }, false)
	}, false)
}

func (c *Ctx) prunedCellLayout() {
	const R = "E5.proof-layout"
	f := c.mustFn(R, "boc", "immutableCell.pruneCells")
	if f == nil {
		return
	}
	// the pruned-branch cell is built in pruneCells or in the unexported helper it delegates to
	entry := f
	f, nc := c.hostOf(entry, bocPath+".NewCell")
	exoticArg := int64(-1)
	if nc == nil {
		// NewCellExotic(type) instead of NewCell() + a store of the type
		if g, cl := c.hostOf(entry, bocPath+".NewCellExotic"); cl != nil {
			f, nc = g, cl
			if k, ok := constInt(stripConv(cl.Call.Args[0])); ok {
				exoticArg = k
			}
		}
	}
	if nc == nil {
		c.bad(R, "pruned cell construction", entry.Pos(), "no boc.NewCell() in pruneCells")
		return
	}
	ws := cellWrites(f, nc)
	var evs []string
	for _, w := range ws {
		evs = append(evs, c.eventOf(f, w))
	}
	got := strings.Join(evs, " ")
	c.check(got == "U(8)=1 U(8)=1 BYTES(n) U(16)", R, "pruned branch = type 1, mask 1, hash, depth16", nc.Pos(), "writes "+got, "the pruned-branch cell is written as ["+got+"]; the format is type(8)=1 mask(8)=1 hash(256) depth(16)")
	if len(ws) == 4 {
		recv := ssa.Value(f.Params[0])
		c.check(accessorOf(ws[2].Call.Args[1], "Hash", recv), R, "pruned branch stores Hash(0) of the replaced node", ws[2].Pos(), "the bytes written come from ic.Hash(0)", "the hash stored in a pruned branch is not taken through ic.Hash(0): for a node that is itself a pruned branch this stores the wrong hash (its own representation hash instead of the original subtree's)")
		c.check(accessorOf(ws[3].Call.Args[1], "Depth", recv), R, "pruned branch stores Depth(0) of the replaced node", ws[3].Pos(), "the depth written comes from ic.Depth(0)", "the depth stored in a pruned branch is not taken through ic.Depth(0)")
	}
	st := fieldStoresOn(f, nc)
	ct, _ := constInt(stripConv(valOr(st["cellType"])))
	if _, stored := st["cellType"]; !stored && exoticArg >= 0 {
		ct = exoticArg
	}
	mk, _ := constInt(stripConv(valOr(st["mask"])))
	c.check(ct == 1 && mk == 1, R, "pruned branch has exotic type 1 and level mask 1", nc.Pos(), "cellType = PrunedBranchCell, mask = 1", fmt.Sprintf("the pruned-branch cell gets cellType %d and mask %d (expected 1 and 1)", ct, mk))
	// Merkle cells refused
	refused := map[int64]bool{}
	for _, b := range entry.Blocks {
		if ifi := lastIf(b); ifi != nil {
			if bo, ok := ifi.Cond.(*ssa.BinOp); ok && bo.Op == token.EQL {
				if k, ok := constInt(bo.Y); ok && derivesFrom(bo.X, fieldLoadNamed("cellType"), false) && rejects(entry, b) {
					refused[k] = true
				}
			}
		}
	}
	c.check(refused[3] && refused[4], R, "the pruner refuses Merkle proof / update cells", entry.Pos(), "cellType 3 and 4 return an error", "pruneCells no longer refuses Merkle-proof and Merkle-update cells")
}

func valOr(v ssa.Value) ssa.Value {
	if v == nil {
		return ssa.NewConst(constant.MakeInt64(-1), types.Typ[types.Int])
	}
	return v
}

func (c *Ctx) proofRootLayout() {
	const R = "E5.proof-layout"
	f := c.mustFn(R, "boc", "MerkleProver.CreateProof")
	if f == nil {
		return
	}
	// the root is made by NewCell() followed by a store of the exotic type, or by NewCellExotic(type)
	var nc *ssa.Call
	exoticArg := int64(-1)
	for _, cl := range callsTo(f, bocPath+".NewCell") {
		nc = cl
	}
	for _, cl := range callsTo(f, bocPath+".NewCellExotic") {
		nc = cl
		if k, ok := constInt(stripConv(cl.Call.Args[0])); ok {
			exoticArg = k
		}
	}
	if nc == nil {
		c.bad(R, "proof root construction", f.Pos(), "no boc.NewCell() in CreateProof")
		return
	}
	ws := cellWrites(f, nc)
	var evs []string
	for _, w := range ws {
		evs = append(evs, c.eventOf(f, w))
	}
	got := strings.Join(evs, " ")
	c.check(got == "U(8)=3 BYTES(n) U(16) REF", R, "proof root = 3, hash, depth16, ^tree", nc.Pos(), "writes "+got, "the Merkle-proof root is written as ["+got+"]; the format is 3 hash(256) depth(16) ^virtual_root")
	if len(ws) == 4 {
		c.check(accessorOf(ws[1].Call.Args[1], "Hash", nil) && derivesFrom(ws[1].Call.Args[1], fieldLoadNamed("root"), true), R, "proof root carries Hash(0) of the original root", ws[1].Pos(), "p.root.Hash(0)", "the hash in the Merkle-proof root is not Hash(0) of the prover's original root")
		c.check(accessorOf(ws[2].Call.Args[1], "Depth", nil) && derivesFrom(ws[2].Call.Args[1], fieldLoadNamed("root"), true), R, "proof root carries Depth(0) of the original root", ws[2].Pos(), "p.root.Depth(0)", "the depth in the Merkle-proof root is not Depth(0) of the prover's original root")
		c.check(derivesFrom(ws[3].Call.Args[1], callResult(bocPath+".immutableCell.pruneCells"), false), R, "proof root references the pruned tree", ws[3].Pos(), "AddRef(result of pruneCells)", "the Merkle-proof root does not reference the tree produced by pruneCells")
	}
	st := fieldStoresOn(f, nc)
	ct, _ := constInt(stripConv(valOr(st["cellType"])))
	if _, stored := st["cellType"]; !stored && exoticArg >= 0 {
		ct = exoticArg
	}
	c.check(ct == 3, R, "proof root has exotic type Merkle proof", nc.Pos(), "cellType = MerkleProofCell", fmt.Sprintf("the proof root gets cellType %d (expected 3)", ct))
}

func fieldLoadNamed(name string) srcPred {
	return func(v ssa.Value) bool {
		u, ok := v.(*ssa.UnOp)
		if !ok {
			return false
		}
		_, fn, ok := fieldOf(u.X)
		return ok && fn == name
	}
}

// maskPropagation: the mask stored on a rebuilt node derives from an OR with each rebuilt child's mask.
func (c *Ctx) maskPropagation() {
	const R = "E10.mask-propagation"
	f := c.mustFn(R, "boc", "immutableCell.pruneCells")
	if f == nil {
		return
	}
	var orOp *ssa.BinOp
	allInstrs(f, func(_ *ssa.BasicBlock, in ssa.Instruction) {
		if bo, ok := in.(*ssa.BinOp); ok && bo.Op == token.OR {
			childMask := func(v ssa.Value) bool {
				return derivesFrom(v, func(x ssa.Value) bool {
					u, ok := x.(*ssa.UnOp)
					if !ok {
						return false
					}
					of, ok := ownerField(u.X)
					return ok && of == "boc.Cell.mask" && derivesFrom(u.X, callResult(bocPath+".immutableCell.pruneCells"), false)
				}, false)
			}
			if childMask(bo.X) || childMask(bo.Y) {
				orOp = bo
			}
		}
	})
	c.check(orOp != nil, R, "node mask ORs in the mask of every rebuilt child", f.Pos(), "mask |= child.mask inside the loop over the references", "pruneCells no longer ORs the rebuilt children's level masks into the parent's mask: ancestors of a pruned branch keep level 0 and hash as if nothing was pruned")
	if orOp != nil {
		// the OR result reaches the store to res.mask after the loop
		stored := false
		allInstrs(f, func(_ *ssa.BasicBlock, in ssa.Instruction) {
			if st, ok := in.(*ssa.Store); ok {
				if of, ok := ownerField(st.Addr); ok && of == "boc.Cell.mask" {
					if derivesFrom(st.Val, func(v ssa.Value) bool { return v == ssa.Value(orOp) }, false) {
						stored = true
					}
				}
			}
		})
		c.check(stored, R, "the accumulated mask is stored on the rebuilt node", orOp.Pos(), "res.mask = mask", "the accumulated level mask is not stored on the rebuilt node")
	}
	// the accumulation starts from the node's own mask: a retained pruned branch (no children) keeps its level
	own := false
	allInstrs(f, func(_ *ssa.BasicBlock, in ssa.Instruction) {
		if st, ok := in.(*ssa.Store); ok {
			if of, ok := ownerField(st.Addr); ok && of == "boc.Cell.mask" {
				for _, l := range leaves(st.Val) {
					if l == "#0.mask" {
						own = true
					}
				}
			}
		}
	})
	c.check(own, R, "the rebuilt node keeps the original node's own mask", f.Pos(), "mask := ic.mask | children", "pruneCells builds the copied node's level mask from its children only: a pruned-branch cell already present in the tree (no children) and all its ancestors come out with level 0, so the proof's level-0 hash no longer matches")
}

// proveKeyRules: ProveKeyInHashmap.
func (c *Ctx) proveKeyRules() {
	const R = "E8.prove-key"
	f := c.mustFn(R, "tlb", "ProveKeyInHashmap")
	if f == nil {
		return
	}
	// success only through a full-key equality: a comparison of the results of the same complete
	// textual/bit form (ToFiftHex / BinaryString) of the reconstructed key and of the key parameter
	full := func(v ssa.Value) (string, ssa.Value) {
		cl := callOf(v)
		if cl == nil {
			return "", nil
		}
		q := callQName(&cl.Call)
		if q == bocPath+".BitString.ToFiftHex" || q == bocPath+".BitString.BinaryString" {
			return q, cl.Call.Args[0]
		}
		return "", nil
	}
	var eqIf *ssa.If
	// the comparison (with the proof construction behind it) sits in ProveKeyInHashmap or in an unexported
	// helper it ends with (proveLeaf)
	entry := f
	var allBlocks []*ssa.BasicBlock
	for _, g := range c.deepFns(entry) {
		allBlocks = append(allBlocks, g.Blocks...)
	}
	keyParam := ssa.Value(nil)
	if len(entry.Params) >= 3 {
		keyParam = entry.Params[2]
	}
	for _, b := range allBlocks {
		ifi := lastIf(b)
		if ifi == nil {
			continue
		}
		bo, ok := ifi.Cond.(*ssa.BinOp)
		if !ok || (bo.Op != token.NEQ && bo.Op != token.EQL) {
			continue
		}
		qa, ra := full(bo.X)
		qb, rb := full(bo.Y)
		if qa == "" || qa != qb {
			continue
		}
		isKey := func(v ssa.Value) bool {
			return derivesFrom(v, func(x ssa.Value) bool { return keyParam != nil && x == keyParam }, false)
		}
		isBuilt := func(v ssa.Value) bool { return derivesFrom(v, callResult(bocPath+".BitString.ReadBits"), false) }
		if (isKey(ra) && isBuilt(rb)) || (isKey(rb) && isBuilt(ra)) {
			eqIf = ifi
		}
	}
	if eqIf == nil {
		c.bad(R, "proof only for the requested key", f.Pos(), "ProveKeyInHashmap has no comparison of the complete reconstructed key with the complete requested key (both through ToFiftHex or BinaryString): a key that differs only in bits outside the compared part would get a proof of another key's value")
	} else {
		bo := eqIf.Cond.(*ssa.BinOp)
		passIdx := 0
		if bo.Op == token.NEQ {
			passIdx = 1
		}
		cut := map[edge]bool{{eqIf.Block(), passIdx}: true}
		f = eqIf.Parent() // the function that holds the comparison
		reach := reachableWithout(f, cut)
		okv := true
		errIdx := f.Signature.Results().Len() - 1
		for _, sp := range successPoints(f, errIdx) {
			if reach[sp.Block] {
				okv = false
			}
		}
		if f != entry {
			// every success of the entry point goes through the helper
			for _, sp := range successPoints(entry, 2) {
				through := false
				for _, cl := range callsTo(entry, qname(f.Object().(*types.Func))) {
					if cl.Block().Dominates(sp.Block) {
						through = true
					}
				}
				if !through {
					okv = false
				}
			}
		}
		c.check(okv, R, "proof only for the requested key", condPos(eqIf), "every success exit lies behind the equality of the complete keys", "ProveKeyInHashmap can return a proof without the reconstructed key being equal to the requested key")
		// the absent-key edge is an error
		c.check(rejects(f, eqIf.Block()), R, "absent key is an error", condPos(eqIf), "the failing edge of the key comparison returns an error", "a key mismatch in ProveKeyInHashmap no longer returns an error")
	}
	f = entry
	// sibling pruning: on each side of the fork the pruned reference and the followed reference are the two different children
	type br struct{ pruned, followed []int64 }
	sides := map[bool]*br{true: {}, false: {}}
	var fork *ssa.If
	for _, b := range f.Blocks {
		if ifi := lastIf(b); ifi != nil && isWireRead(ifi.Cond) {
			fork = ifi
		}
	}
	if fork == nil {
		// the fork step in an unexported helper that is handed the key bit (descend(cell, cursor, isRight)): the
		// fork is the helper's test of that parameter
		for _, site := range callsIn(entry) {
			h := plainHelper(site.Common().StaticCallee())
			if h == nil || h == entry {
				continue
			}
			for i, a := range site.Common().Args {
				if i >= len(h.Params) || !isWireRead(a) {
					continue
				}
				for _, b := range h.Blocks {
					if ifi := lastIf(b); ifi != nil && ifi.Cond == ssa.Value(h.Params[i]) {
						f, fork = h, ifi
					}
				}
			}
		}
	}
	if fork != nil {
		// which side of the fork a block lies on: behind the true (right) edge, the false (left) edge, or neither
		// (the key bit may be tested more than once: every test of the same value is the fork)
		var forks []*ssa.If
		for _, b := range f.Blocks {
			if ifi := lastIf(b); ifi != nil && ifi.Cond == fork.Cond {
				forks = append(forks, ifi)
			}
		}
		sideOf := func(b *ssa.BasicBlock) (right, known bool) {
			for _, fk := range forks {
				if edgeDominates(f, edge{fk.Block(), 0}, b) {
					return true, true
				}
				if edgeDominates(f, edge{fk.Block(), 1}, b) {
					return false, true
				}
			}
			return false, false
		}
		for _, cl := range callsTo(f, bocPath+".Cursor.Ref") {
			isPruned := false
			for _, r := range realRefs(cl) {
				if rc, ok := r.(*ssa.Call); ok && callQName(&rc.Call) == bocPath+".Cursor.Prune" {
					isPruned = true
				}
			}
			add := func(right bool, k int64) {
				s := sides[right]
				if isPruned {
					s.pruned = append(s.pruned, k)
				} else {
					s.followed = append(s.followed, k)
				}
			}
			if k, ok := constInt(cl.Call.Args[1]); ok {
				// one call per side, with a constant child index
				if right, known := sideOf(cl.Block()); known {
					add(right, k)
				}
				continue
			}
			// one call after the fork, with the child index chosen on each side (taken, sibling := 0, 1 / 1, 0)
			if phi, ok := cl.Call.Args[1].(*ssa.Phi); ok {
				for i, e := range phi.Edges {
					k, ok := constInt(e)
					if !ok {
						continue
					}
					pred := phi.Block().Preds[i]
					if right, known := sideOf(pred); known {
						add(right, k)
					} else {
						// the edge straight from a fork: the side on which nothing was reassigned
						for _, fk := range forks {
							if pred != fk.Block() {
								continue
							}
							for si, sb := range fk.Block().Succs {
								if sb == phi.Block() {
									add(si == 0, k)
								}
							}
						}
					}
				}
			}
		}
		okv := fmt.Sprint(sides[true].pruned) == "[0]" && fmt.Sprint(sides[true].followed) == "[1]" && fmt.Sprint(sides[false].pruned) == "[1]" && fmt.Sprint(sides[false].followed) == "[0]"
		c.check(okv, R, "the sibling is pruned and the taken side is followed", condPos(fork), "right: prune Ref(0), follow Ref(1); left: prune Ref(1), follow Ref(0)",
			fmt.Sprintf("fork handling: on the right branch pruned %v followed %v, on the left branch pruned %v followed %v", sides[true].pruned, sides[true].followed, sides[false].pruned, sides[false].followed))
	} else {
		c.bad(R, "the sibling is pruned and the taken side is followed", f.Pos(), "fork on the key bit not found")
	}
	// the proof comes from the prover's CreateProof on the cursor
	c.check(len(c.callsToDeep(entry, bocPath+".MerkleProver.CreateProof")) == 1, R, "proof bytes come from MerkleProver.CreateProof", entry.Pos(), "single CreateProof call", "ProveKeyInHashmap no longer builds the proof through MerkleProver.CreateProof")
}

// cursorFreshness: each walk over the prover's tree has its own pruning set. Cursor() creates the
// set; Ref() shares its parent's set and moves to the chosen child; CreateProof prunes with the set of
// the cursor it is given.
func (c *Ctx) cursorFreshness() {
	const R = "E10.cursor-fresh"
	if f := c.mustFn(R, "boc", "MerkleProver.Cursor"); f != nil {
		okv := false
		for _, m := range literalFields(f, "Cursor") {
			fresh := len(m["pruned"]) == 1
			if fresh {
				_, fresh = m["pruned"][0].(*ssa.MakeMap)
			}
			okv = fresh && vals2leaves(m["cell"]) == "#0.root"
		}
		// and what is returned is that new cursor, not one kept in the prover
		for _, r := range returnsOf(f) {
			if al, ok := retVal(r, 0).(*ssa.Alloc); !ok || !strings.HasSuffix(al.Type().String(), "boc.Cursor") {
				okv = false
			}
		}
		// the prover keeps no state between walks: its fields are written only by the constructor
		for _, g := range c.moduleFuncs("boc") {
			if g.Name() == "NewMerkleProver" {
				continue
			}
			allInstrs(g, func(_ *ssa.BasicBlock, in ssa.Instruction) {
				if st, ok := in.(*ssa.Store); ok {
					if tn, _, ok := fieldOf(st.Addr); ok && tn == "boc.MerkleProver" {
						okv = false
					}
				}
			})
		}
		c.check(okv, R, "Cursor() starts at the root with a freshly made pruning set", f.Pos(), "Cursor{cell: p.root, pruned: make(map)}", "MerkleProver.Cursor no longer gives every walk its own pruning set (or does not start at the root): marks of an earlier proof prune cells of a later one")
	}
	if f := c.mustFn(R, "boc", "Cursor.Ref"); f != nil {
		okv := false
		for _, m := range literalFields(f, "Cursor") {
			okv = vals2leaves(m["pruned"]) == "#0.pruned" && strings.HasPrefix(vals2leaves(m["cell"]), "#0.cell") && strings.Contains(vals2leaves(m["cell"]), "#1") && vals2leaves(m["path"]) == "#0.path,#1"
		}
		c.check(okv, R, "Ref(i) keeps the walk's pruning set and moves to child i, extending its position by i", f.Pos(), "Cursor{cell: c.cell.refs[ref], path: c.path+i, pruned: c.pruned}", "Cursor.Ref no longer shares the walk's pruning set / moves to the requested child / extends the position with the reference index")
	}
	if f := c.mustFn(R, "boc", "Cursor.Prune"); f != nil {
		okv := false
		allInstrs(f, func(_ *ssa.BasicBlock, in ssa.Instruction) {
			if mu, ok := in.(*ssa.MapUpdate); ok {
				okv = strings.Join(leaves(mu.Map), ",") == "#0.pruned" && strings.Join(leaves(mu.Key), ",") == "#0.path"
			}
		})
		c.check(okv, R, "Prune() marks the cursor's own position in the walk's set", f.Pos(), "c.pruned[c.path] = {}", "Cursor.Prune no longer marks the cursor's current position in its pruning set")
	}
	if f := c.mustFn(R, "boc", "MerkleProver.CreateProof"); f != nil {
		okv := false
		for _, cl := range callsTo(f, modPath+"/boc.immutableCell.pruneCells") {
			okv = strings.Join(leaves(cl.Call.Args[0]), ",") == "#0.root" && strings.Join(leaves(cl.Call.Args[1]), ",") == "#1.pruned"
		}
		c.check(okv, R, "CreateProof prunes the prover's root with the given cursor's set", f.Pos(), "p.root.pruneCells(cursor.pruned)", "CreateProof no longer prunes the prover's root with the pruning set of the cursor it was given")
	}
	// what is pruned is a POSITION: cells are shared between positions (the parser creates one object per
	// distinct cell), so a set keyed by the cell itself prunes every occurrence - including the branch that
	// holds the proven key when a fork has two identical branches
	if n := c.lookupType("boc.Cursor"); n != nil {
		okv := false
		desc := "?"
		if st, ok := n.Underlying().(*types.Struct); ok {
			for i := 0; i < st.NumFields(); i++ {
				if st.Field(i).Name() == "pruned" {
					if mt, ok := st.Field(i).Type().Underlying().(*types.Map); ok {
						desc = mt.Key().String()
						// a position is a path of up to 1024 reference indexes: neither a cell pointer (identity is
						// shared between positions) nor a fixed-width integer (deep paths wrap around and collide
						// with shallow ones) can represent it
						if b, ok := mt.Key().Underlying().(*types.Basic); ok && b.Kind() == types.String {
							okv = true
						}
					}
				}
			}
		}
		c.check(okv, R, "the pruning set is keyed by position, not by cell identity", n.Obj().Pos(), "key type "+desc, "Cursor.pruned is keyed by "+desc+" (a position of the tree - a path of up to 1024 reference indexes - needs an unbounded key such as a string; a cell pointer is shared between positions, a fixed-width integer wraps for deep paths): a cell that occurs at several positions (identical subtrees are one object after deserialization) is pruned everywhere, e.g. Hashmap{0x00:7, 0x80:7} parsed from a BoC yields proofs that reveal no entry")
	} else {
		c.bad(R, "the pruning set is keyed by position, not by cell identity", 0, "type boc.Cursor not found")
	}
	if f := c.mustFn(R, "boc", "immutableCell.pruneCells"); f != nil {
		okv := false
		n := 0
		allInstrs(f, func(_ *ssa.BasicBlock, in ssa.Instruction) {
			if cl, ok := in.(*ssa.Call); ok {
				if sc := cl.Call.StaticCallee(); sc != nil && origin(sc) == origin(f) {
					n++
					if len(cl.Call.Args) > 2 {
						ls := strings.Join(leaves(cl.Call.Args[2]), ",")
						okv = strings.Contains(ls, "#2") && inLoop(cl.Block())
					}
				}
			}
		})
		look := false
		allInstrs(f, func(_ *ssa.BasicBlock, in ssa.Instruction) {
			if lk, ok := in.(*ssa.Lookup); ok && strings.Join(leaves(lk.Index), ",") == "#2" && strings.Join(leaves(lk.X), ",") == "#1" {
				look = true
			}
		})
		c.check(okv && n == 1 && look, R, "pruneCells tests its own position and hands each child its own position", f.Pos(), "pruned[path]; child i gets path+i", "pruneCells no longer decides by the position it was given / no longer extends the position per reference")
	}
	c.floor(R, 6)
}

// proveWalkArithmetic: the proof walk follows hm_edge#_ {n} {l} {m} label:(HmLabel ~l n) {n = (~m) + l}
// node:(HashmapNode m ...) with hmn_fork#_ {n} left:^(Hashmap n X) ... = HashmapNode (n + 1) X: after a
// label of l bits and one branch bit, remaining' = remaining - l - 1; the node is a leaf exactly when
// the label exhausts the key (remaining == l), so the walk goes on only while remaining > l. The
// bound handed to the label reader decides the width of hml_long's length field, so a wrong
// remaining misreads every deeper label.
func (c *Ctx) proveWalkArithmetic() {
	const R = "E8.prove-key"
	f := c.fn("tlb", "ProveKeyInHashmap")
	if f == nil {
		return
	}
	var ll *ssa.Call
	for _, cl := range callsTo(f, modPath+"/tlb.loadLabel") {
		ll = cl
	}
	if ll == nil {
		c.bad(R, "the walk reads each label with the remaining key length", f.Pos(), "ProveKeyInHashmap no longer calls loadLabel (undecided)")
		return
	}
	rem, ok := ll.Call.Args[0].(*ssa.Phi)
	if !ok {
		c.bad(R, "the walk reads each label with the remaining key length", ll.Pos(), "the bound passed to loadLabel is not a loop-carried value (undecided)")
		return
	}
	var size ssa.Value
	for _, r := range realRefs(ll) {
		if ex, ok := r.(*ssa.Extract); ok && ex.Index == 0 {
			size = ex
		}
	}
	var upd ssa.Value
	for _, e := range rem.Edges {
		if derivesFrom(e, func(v ssa.Value) bool { return v == ssa.Value(rem) }, false) && e != ssa.Value(rem) {
			upd = e
		}
	}
	if size == nil || upd == nil {
		c.bad(R, "remaining' = remaining - label length - 1", ll.Pos(), "the loop-carried remaining length is not updated from the label length (undecided)")
		return
	}
	ui, ok := upd.(ssa.Instruction)
	if !ok {
		return
	}
	p := c.newProver(f, ui.Block())
	d := p.lin(upd).sub(p.lin(rem)).add(p.lin(size)).addConst(1)
	c.check(d.isConst() && d.k.Sign() == 0, R, "remaining' = remaining - label length - 1", upd.Pos(), "one label and one branch bit are consumed per level", "ProveKeyInHashmap updates the remaining key length to "+shape(upd, 4)+"; each level consumes the label and one branch bit (remaining - size - 1): with any other value the length field of every deeper hml_long label is read with the wrong width")
	// the walk continues only while the label is shorter than the remaining key
	c.check(p.prove(p.lin(rem).sub(p.lin(size)).addConst(-1)), R, "the walk descends only while remaining > label length", upd.Pos(), "remaining - size - 1 >= 0 on the descending path", "ProveKeyInHashmap descends although the label may already cover the whole remaining key (remaining == label length is the leaf): the value of a key that IS present is then reported as an error")
}

// cursorPathOwnership (round 5): each cursor's position is its own value. A child position built
// with append(parent.path, x) on a []byte field shares the parent's backing array: taking the
// second child overwrites the last byte of the first child's path, so a cursor held across a
// sibling's creation points at the sibling. Positions are strings (immutable), or the slice is
// built from a fresh copy.
func (c *Ctx) cursorPathOwnership() {
	const R = "E10.cursor-freshness"
	f := c.fn("boc", "Cursor.Ref")
	if f == nil {
		return
	}
	okv := true
	what := ""
	allInstrs(f, func(_ *ssa.BasicBlock, in ssa.Instruction) {
		cl, ok := in.(*ssa.Call)
		if !ok {
			return
		}
		bi, ok := cl.Call.Value.(*ssa.Builtin)
		if !ok || bi.Name() != "append" {
			return
		}
		// append whose first argument is a field of the receiver (shared storage), result kept in the child
		if ld, ok := cl.Call.Args[0].(*ssa.UnOp); ok && ld.Op == token.MUL {
			if fa, ok := ld.X.(*ssa.FieldAddr); ok && fa.X == ssa.Value(f.Params[0]) {
				okv = false
				_, fn, _ := fieldOf(fa)
				what = fn
			}
		}
	})
	c.check(okv, R, "a child cursor's position does not share storage with its parent's", f.Pos(), "no append onto a slice field of the receiver", "Cursor.Ref builds the child's position with append on the receiver's own slice field ("+what+"): two children of one cursor share a backing array, and creating the second rewrites the position of the first - a cursor kept across that prunes or reveals the wrong subtree")
}

// hostOf: the function among f and the unexported helpers it calls (one level) that contains a call
// of q, with that call: where a piece of f's work sits after an extract-method refactoring.
func (c *Ctx) hostOf(f *ssa.Function, q string) (*ssa.Function, *ssa.Call) {
	for _, g := range c.helperClosure(f, 1, func(h *ssa.Function) bool { return plainHelper(h) == nil }) {
		if cs := callsTo(g, q); len(cs) > 0 {
			return g, cs[len(cs)-1]
		}
	}
	return f, nil
}

// keptCellType: a node the pruner keeps is rebuilt with the node's own cell type. A library cell or an already
// pruned branch in the kept part of the tree that comes out as an ordinary cell hashes differently, and the
// proof no longer matches the root hash it states. Rule: in pruneCells (or the unexported helper that builds the
// copy) some store to a Cell's cellType takes its value from the immutable cell's own cellType.
func (c *Ctx) keptCellType() {
	const R = "E10.mask-propagation"
	f := c.mustFn(R, "boc", "immutableCell.pruneCells")
	if f == nil {
		return
	}
	okv := false
	c.allInstrsDeep(f, func(_ *ssa.BasicBlock, in ssa.Instruction) {
		st, ok := in.(*ssa.Store)
		if !ok {
			return
		}
		if of, ok := ownerField(st.Addr); ok && of == "boc.Cell.cellType" {
			if derivesFrom(st.Val, func(v ssa.Value) bool {
				u, ok := v.(*ssa.UnOp)
				if !ok || u.Op != token.MUL {
					return false
				}
				of2, ok := ownerField(u.X)
				return ok && of2 == "boc.immutableCell.cellType"
			}, false) {
				okv = true
			}
		}
	})
	c.check(okv, R, "a kept node keeps its cell type", f.Pos(), "Cell.cellType of the copy = the immutable cell's cellType", "pruneCells no longer gives the copy of a kept node the node's own cell type: an exotic cell (library cell, earlier pruned branch) in the kept part of the tree becomes an ordinary cell, its hash changes and the proof does not verify against the root hash it carries")
}
