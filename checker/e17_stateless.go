package main

import (
	"fmt"
	"go/token"
	"go/types"
	"strings"

	"golang.org/x/tools/go/ssa"
)

// E17 stateless codecs. The codec and protocol-encoding packages keep no mutable state between
// calls: what a call returns depends on its arguments (and, for a Hasher or Decoder, on the object
// the caller passed). Round 6 of the seeded changes introduced such state in seven different
// disguises - a sync.Pool of scratch buffers put back dirty, a cached table of powers of two that
// the next line adds into, a package-level Hasher / CRC object / default Decoder shared by
// independent calls - and each broke a different property (a later call sees an earlier call's
// data; concurrent calls race). One rule covers the family:
//
//	outside init(), no function of these packages
//	  - stores to a package-level variable, updates or deletes from a package-level map,
//	  - uses a sync.Pool or sync.Map held in a package-level variable,
//	  - calls a math/big mutator, or a stateful method of a hash (Write/Reset/Sum...), on a value
//	    that comes from a package-level variable or table,
//	  - calls a method of one of the module's own types on a package-level object when that method
//	    writes its receiver's state.
//
// Reads of package-level tables and constants are what they are for and are not touched.
func (c *Ctx) statelessCodecs(rule string, exc map[string]string, rels ...string) {
	var fromGlobal func(v ssa.Value) *ssa.Global
	type retKey struct {
		f *ssa.Function
		i int
	}
	retMemo := map[retKey]*ssa.Global{}
	retBusy := map[*ssa.Function]bool{}
	// returnsShared: an in-module function hands out something that lives in a package-level
	// variable (an entry of a cached table, a pooled object)
	returnsShared := func(fn *ssa.Function, idx int) *ssa.Global {
		if g, ok := retMemo[retKey{fn, idx}]; ok {
			return g
		}
		if retBusy[fn] || len(fn.Blocks) == 0 {
			return nil
		}
		retBusy[fn] = true
		defer delete(retBusy, fn)
		var g *ssa.Global
		for _, r := range returnsOf(fn) {
			for i := range r.Results {
				if i != idx {
					continue
				}
				v := retVal(r, i)
				if isErrorType(v.Type()) {
					continue // sentinel errors are package-level values by design
				}
				switch v.Type().Underlying().(type) {
				case *types.Pointer, *types.Map, *types.Slice, *types.Interface:
					if gg := fromGlobal(v); gg != nil {
						g = gg
					}
				}
			}
		}
		retMemo[retKey{fn, idx}] = g
		return g
	}
	fromGlobal = func(v ssa.Value) *ssa.Global {
		var g *ssa.Global
		if cl := callOf(v); cl != nil {
			if sc := cl.Call.StaticCallee(); sc != nil && inModule(sc) {
				if gg := returnsShared(origin(sc), 0); gg != nil {
					return gg
				}
			}
		}
		if ex, ok := v.(*ssa.Extract); ok {
			if cl := callOf(ex.Tuple); cl != nil {
				if sc := cl.Call.StaticCallee(); sc != nil && inModule(sc) {
					if gg := returnsShared(origin(sc), ex.Index); gg != nil {
						return gg
					}
				}
			}
		}
		derivesFrom(v, func(x ssa.Value) bool {
			if gg, ok := x.(*ssa.Global); ok && inModulePkg(gg.Pkg) {
				g = gg
				return true
			}
			return false
		}, false)
		if g != nil {
			return g
		}
		// value looked up in a package-level map / loaded from a package-level sync.Map
		switch x := v.(type) {
		case *ssa.Extract:
			return nil
		case *ssa.Lookup:
			var gm *ssa.Global
			derivesFrom(x.X, func(y ssa.Value) bool {
				if gg, ok := y.(*ssa.Global); ok && inModulePkg(gg.Pkg) {
					gm = gg
					return true
				}
				return false
			}, false)
			return gm
		}
		return nil
	}
	// does method m (in-module, pointer receiver) write its receiver's state?
	writesRecv := map[*ssa.Function]int{}
	var mutates func(m *ssa.Function, depth int) bool
	mutates = func(m *ssa.Function, depth int) bool {
		if m == nil || len(m.Blocks) == 0 || len(m.Params) == 0 {
			return false
		}
		if v, ok := writesRecv[m]; ok {
			return v == 1
		}
		writesRecv[m] = 0
		recv := ssa.Value(m.Params[0])
		res := false
		allInstrs(m, func(_ *ssa.BasicBlock, in ssa.Instruction) {
			switch x := in.(type) {
			case *ssa.Store:
				if fa, ok := x.Addr.(*ssa.FieldAddr); ok && fa.X == recv {
					res = true
				}
			case *ssa.MapUpdate:
				if derivesFrom(x.Map, func(y ssa.Value) bool {
					fa, ok := y.(*ssa.FieldAddr)
					return ok && fa.X == recv
				}, false) {
					res = true
				}
			case *ssa.Call:
				if depth < 2 {
					if sc := x.Call.StaticCallee(); sc != nil && inModule(sc) && len(x.Call.Args) > 0 && x.Call.Args[0] == recv {
						if mutates(origin(sc), depth+1) {
							res = true
						}
					}
				}
			}
		})
		if res {
			writesRecv[m] = 1
		}
		return res
	}
	n := 0
	for _, f := range c.moduleFuncs(rels...) {
		root := f
		for root.Parent() != nil {
			root = root.Parent()
		}
		if root.Name() == "init" || strings.HasPrefix(root.Name(), "init#") || root.Synthetic != "" {
			continue
		}
		ord := map[string]int{}
		report := func(pos token.Pos, g *ssa.Global, what string) {
			n++
			key := fmt.Sprintf("%s: %s %s", fnName(f), what, g.Name())
			ord[key]++
			if ord[key] > 1 {
				key = fmt.Sprintf("%s#%d", key, ord[key])
			}
			if why, ok := excLookupS(exc, key); ok {
				c.exc(rule, key, pos, why)
				return
			}
			c.bad(rule, key, pos, fmt.Sprintf("%s %s the package-level variable %s: the codec packages keep no state between calls - with it, what a call returns depends on earlier or concurrent calls (stale data handed to the next caller, unsynchronised access from independent goroutines)", fnName(f), what, g.Name()))
		}
		allInstrs(f, func(_ *ssa.BasicBlock, in ssa.Instruction) {
			switch x := in.(type) {
			case *ssa.Store:
				if g, ok := x.Addr.(*ssa.Global); ok && inModulePkg(g.Pkg) {
					report(x.Pos(), g, "assigns")
				}
				if ia, ok := x.Addr.(*ssa.IndexAddr); ok {
					if g := fromGlobal(ia.X); g != nil {
						report(x.Pos(), g, "writes an element of")
					}
				}
				if fa, ok := x.Addr.(*ssa.FieldAddr); ok {
					if g, ok := fa.X.(*ssa.Global); ok && inModulePkg(g.Pkg) {
						report(x.Pos(), g, "writes a field of")
					}
				}
			case *ssa.MapUpdate:
				if g := fromGlobal(x.Map); g != nil {
					report(x.Pos(), g, "updates the map")
				}
			case *ssa.Call:
				q := callQName(&x.Call)
				if bi, ok := x.Call.Value.(*ssa.Builtin); ok && bi.Name() == "delete" {
					if g := fromGlobal(x.Call.Args[0]); g != nil {
						report(x.Pos(), g, "deletes from the map")
					}
					return
				}
				switch {
				case strings.HasPrefix(q, "sync.Pool.") || strings.HasPrefix(q, "sync.Map."):
					if g := fromGlobal(x.Call.Args[0]); g != nil {
						report(x.Pos(), g, "uses the shared "+strings.SplitN(q, ".", 3)[1])
					}
				case strings.HasPrefix(q, "math/big.Int.") && bigMutators[strings.TrimPrefix(q, "math/big.Int.")]:
					if g := fromGlobal(x.Call.Args[0]); g != nil {
						report(x.Pos(), g, "computes in place into a big integer taken from")
					}
				case x.Call.IsInvoke():
					switch x.Call.Method.Name() {
					case "Write", "Reset", "Sum", "Update", "WriteString", "WriteByte":
						if g := fromGlobal(x.Call.Value); g != nil {
							report(x.Pos(), g, "drives the stateful object held in")
						}
					}
				default:
					// a package-level OBJECT that carries caches (a map somewhere inside) handed to module
					// code as an argument: a shared Decoder with its Hasher, for instance
					if sc := x.Call.StaticCallee(); sc != nil && inModule(sc) {
						for ai, a := range x.Call.Args {
							if ai == 0 && sc.Signature.Recv() != nil {
								continue
							}
							ld, ok := a.(*ssa.UnOp)
							if !ok || ld.Op != token.MUL {
								continue
							}
							g, ok := ld.X.(*ssa.Global)
							if !ok || !inModulePkg(g.Pkg) {
								continue
							}
							if pt, ok := ld.Type().Underlying().(*types.Pointer); ok && carriesCache(pt.Elem(), 0) {
								report(x.Pos(), g, "hands module code the cache-carrying object held in")
							}
						}
					}
					if sc := x.Call.StaticCallee(); sc != nil && inModule(sc) && sc.Signature.Recv() != nil && len(x.Call.Args) > 0 {
						if _, isPtr := sc.Signature.Recv().Type().Underlying().(*types.Pointer); isPtr {
							if g := fromGlobal(x.Call.Args[0]); g != nil && mutates(origin(sc), 0) {
								report(x.Pos(), g, "calls the state-changing method "+sc.Name()+" on the object held in")
							}
						}
					}
				}
			}
		})
	}
	c.ok(rule, "no mutable package-level state in the codec packages", token.NoPos, fmt.Sprintf("%d uses examined/excepted in %v", n, rels))
}

func inModulePkg(p *ssa.Package) bool {
	return p != nil && p.Pkg != nil && strings.HasPrefix(p.Pkg.Path(), modPath)
}

// loopVarEscape: the module declares go 1.19, so `for _, v := range xs` has ONE variable v for the
// whole loop. Taking its address (or an address inside it) and letting that escape the iteration -
// appended to a slice, stored into another object, captured by a goroutine's or deferred closure -
// makes every iteration hand out the same storage: all elements alias the last one, every
// goroutine reads the connection of the last iteration. In go/ssa such a variable is an Alloc made
// outside the loop and stored to inside it; the rule looks for exactly that plus an escape inside
// the loop. (With per-iteration semantics the Alloc sits inside the loop and nothing is reported.)
func (c *Ctx) loopVarEscape(rule string, rels ...string) {
	n := 0
	for _, f := range c.moduleFuncs(rels...) {
		allInstrs(f, func(ab *ssa.BasicBlock, in ssa.Instruction) {
			al, ok := in.(*ssa.Alloc)
			if !ok {
				return
			}
			refs := al.Referrers()
			if refs == nil {
				return
			}
			// blocks of a loop that assigns the variable on every trip and does not contain its creation
			var loopBlk *ssa.BasicBlock
			for _, r := range *refs {
				if st, ok := r.(*ssa.Store); ok && st.Addr == ssa.Value(al) && inLoop(st.Block()) {
					// a cycle through the assigning block that does NOT pass through the block creating
					// the variable: the same variable is assigned again and again
					if cycleAvoiding(st.Block(), ab) {
						loopBlk = st.Block()
					}
				}
			}
			if loopBlk == nil {
				return
			}
			inThatLoop := func(b *ssa.BasicBlock) bool {
				return b != ab && reachAvoiding(loopBlk, ab)[b] && reachAvoiding(b, ab)[loopBlk]
			}
			// escapes of the address inside that loop
			var addrUsers func(v ssa.Value, depth int) (string, token.Pos)
			addrUsers = func(v ssa.Value, depth int) (string, token.Pos) {
				rr := v.Referrers()
				if rr == nil || depth > 3 {
					return "", token.NoPos
				}
				for _, r := range *rr {
					b := r.Block()
					if b == nil || !inThatLoop(b) {
						continue
					}
					switch x := r.(type) {
					case *ssa.FieldAddr:
						if w, p := addrUsers(x, depth+1); w != "" {
							return w, p
						}
					case *ssa.IndexAddr:
						if w, p := addrUsers(x, depth+1); w != "" {
							return w, p
						}
					case *ssa.Store:
						if x.Val == v { // the ADDRESS is stored somewhere
							return "stored into another object", x.Pos()
						}
					case *ssa.MakeClosure:
						// captured by reference: only a problem when the closure outlives the iteration
						if cr := x.Referrers(); cr != nil {
							for _, u := range *cr {
								switch u.(type) {
								case *ssa.Go:
									return "captured by a goroutine started in the loop", x.Pos()
								case *ssa.Defer:
									return "captured by a deferred call", x.Pos()
								case *ssa.Store:
									return "captured by a closure that is stored", x.Pos()
								}
							}
						}
					case *ssa.Call:
						if bi, ok := x.Call.Value.(*ssa.Builtin); ok && bi.Name() == "append" {
							return "appended to a slice", x.Pos()
						}
					case *ssa.Send:
						if x.X == v {
							return "sent on a channel", x.Pos()
						}
					case *ssa.MakeInterface, *ssa.Slice:
						if sv, ok := r.(ssa.Value); ok {
							if w, p := addrUsers(sv, depth+1); w != "" {
								return w, p
							}
						}
					}
				}
				return "", token.NoPos
			}
			how, pos := addrUsers(al, 0)
			if how == "" {
				return
			}
			n++
			c.bad(rule, fmt.Sprintf("%s: address of the loop variable %s escapes the iteration", fnName(f), al.Comment), pos, fmt.Sprintf("%s: the variable %q is one variable for the whole loop (the module's go directive is below 1.22) and its address is %s: every iteration hands out the same storage - all collected pointers alias the last element / every goroutine sees the last iteration's value", fnName(f), al.Comment, how))
		})
	}
	c.ok(rule, "no loop variable's address outlives its iteration", token.NoPos, fmt.Sprintf("%d escapes found in %v", n, rels))
}

// reachAvoiding: blocks reachable from b by at least one edge without entering block avoid.
func reachAvoiding(b, avoid *ssa.BasicBlock) map[*ssa.BasicBlock]bool {
	seen := map[*ssa.BasicBlock]bool{}
	stack := []*ssa.BasicBlock{}
	for _, s := range b.Succs {
		if s != avoid {
			stack = append(stack, s)
		}
	}
	for len(stack) > 0 {
		x := stack[len(stack)-1]
		stack = stack[:len(stack)-1]
		if seen[x] {
			continue
		}
		seen[x] = true
		for _, s := range x.Succs {
			if s != avoid {
				stack = append(stack, s)
			}
		}
	}
	return seen
}

// cycleAvoiding: b lies on a cycle that does not pass through avoid.
func cycleAvoiding(b, avoid *ssa.BasicBlock) bool {
	return b != avoid && reachAvoiding(b, avoid)[b]
}

// carriesCache: a struct type that has a map field, directly or through pointers to structs.
func carriesCache(t types.Type, depth int) bool {
	if depth > 3 {
		return false
	}
	st, ok := t.Underlying().(*types.Struct)
	if !ok {
		return false
	}
	for i := 0; i < st.NumFields(); i++ {
		switch ft := st.Field(i).Type().Underlying().(type) {
		case *types.Map:
			return true
		case *types.Pointer:
			if carriesCache(ft.Elem(), depth+1) {
				return true
			}
		case *types.Struct:
			if carriesCache(st.Field(i).Type(), depth+1) {
				return true
			}
		}
	}
	return false
}
