package main

import (
	"fmt"
	"go/token"
	"go/types"
	"strings"

	"golang.org/x/tools/go/ssa"
)

// E16: polarity and strength of small guards (added after the mutation battery: one-token flips
// of these guards passed the repository's tests because the guarded paths are never exercised).
// Each rule reads the guard off the CFG and states what the guard must imply; none depends on names.

// failsDirectly: block b ends in a return whose last result is a fresh / sentinel error.
func failsDirectly(f *ssa.Function, b *ssa.BasicBlock) bool {
	if len(b.Instrs) == 0 {
		return false
	}
	r, ok := b.Instrs[len(b.Instrs)-1].(*ssa.Return)
	if !ok || len(r.Results) == 0 {
		return false
	}
	last := retVal(r, len(r.Results)-1)
	if !isErrorType(last.Type()) {
		return false
	}
	return classifyErr(f, last, nil, 0) == errNonNil
}

func (c *Ctx) guardPolarity(rels ...string) {
	for _, f := range c.moduleFuncs(rels...) {
		c.refAvailability(f)
		c.alignmentGuards(f)
		c.validatorPolarity(f)
		c.accumulatorWidth(f)
		c.lengthMatchGuards(f)
		c.presenceGuards(f)
		c.defaultingPolarity(f)
	}
}

// refAvailability: a NextRef that sits behind a test of RefsAvailableForRead() of the same cell
// sits behind a test that guarantees at least one reference (> 0, >= 1, != 0); `>= 0` guarantees
// nothing and turns "no more references" into a decoding error for every well-formed value.
func (c *Ctx) refAvailability(f *ssa.Function) {
	const R = "E16.ref-availability"
	n := 0
	for _, cl := range callsTo(f, bocPath+".Cell.NextRef") {
		recv := cl.Call.Args[0]
		for _, ft := range factsAt(f, cl.Block()) {
			bo, ok := ft.Cond.(*ssa.BinOp)
			if !ok {
				continue
			}
			ac := callOf(bo.X)
			if ac == nil || callQName(&ac.Call) != bocPath+".Cell.RefsAvailableForRead" || ac.Call.Args[0] != recv {
				continue
			}
			k, ok := constInt(bo.Y)
			if !ok {
				continue
			}
			op := bo.Op
			if !ft.Truth {
				op = map[token.Token]token.Token{token.LSS: token.GEQ, token.LEQ: token.GTR, token.GTR: token.LEQ, token.GEQ: token.LSS, token.EQL: token.NEQ, token.NEQ: token.EQL}[op]
			}
			lower := int64(-1 << 30)
			switch op {
			case token.GTR:
				lower = k + 1
			case token.GEQ:
				lower = k
			case token.NEQ:
				if k == 0 {
					lower = 1 // a count is not negative
				}
			case token.EQL:
				lower = k
			}
			n++
			key := fmt.Sprintf("%s: NextRef behind RefsAvailableForRead %s %d", fnName(f), op, k)
			if n > 1 {
				key += fmt.Sprintf("#%d", n)
			}
			c.check(lower >= 1, R, key, cl.Pos(), "the guard implies at least one reference", fmt.Sprintf("%s calls NextRef behind the test RefsAvailableForRead() %s %d, which does not imply that a reference is left: the cell that ends a chain (no reference) is reported as an error instead of ending the chain", fnName(f), op, k))
		}
	}
}

// alignmentGuards: a test "x % 8" (or % 4) whose one branch fails directly fails on the
// NON-multiple side: the library demands whole bytes/nibbles, never forbids them.
func (c *Ctx) alignmentGuards(f *ssa.Function) {
	const R = "E16.alignment-guard"
	n := 0
	for _, b := range f.Blocks {
		iff := lastIf(b)
		if iff == nil {
			continue
		}
		for _, m := range []int64{8, 4} {
			is, eq := modTest(iff.Cond, m)
			if !is {
				continue
			}
			t, e := failsDirectly(f, b.Succs[0]), failsDirectly(f, b.Succs[1])
			if t == e {
				continue
			}
			// the failing edge: true edge when t; on it the remainder is (eq ? zero : non-zero)
			failsOnMultiple := (t && eq) || (e && !eq)
			n++
			key := fmt.Sprintf("%s: %%%d guard", fnName(f), m)
			if n > 1 {
				key += fmt.Sprintf("#%d", n)
			}
			c.check(!failsOnMultiple, R, key, iff.Cond.Pos(), "the error is on the non-multiple side", fmt.Sprintf("%s returns an error exactly when %s is a multiple of %d and goes on when it is not: the alignment requirement is inverted, every well-formed value is refused", fnName(f), shape(iff.Cond.(*ssa.BinOp).X, 3), m))
		}
	}
}

// validatorPolarity: a call to a library validator used directly as a branch condition with one
// directly failing branch fails on the validator's FALSE side.
var validators = map[string]bool{"unicode/utf8.Valid": true, "unicode/utf8.ValidString": true, "crypto/ed25519.Verify": true, "encoding/json.Valid": true}

func (c *Ctx) validatorPolarity(f *ssa.Function) {
	const R = "E16.validator-polarity"
	for _, b := range f.Blocks {
		iff := lastIf(b)
		if iff == nil {
			continue
		}
		cond, neg := iff.Cond, false
		if u, ok := cond.(*ssa.UnOp); ok && u.Op == token.NOT {
			cond, neg = u.X, true
		}
		cl := callOf(cond)
		if cl == nil || !validators[callQName(&cl.Call)] {
			continue
		}
		t, e := failsDirectly(f, b.Succs[0]), failsDirectly(f, b.Succs[1])
		if t == e {
			continue
		}
		failsWhenValid := (t && !neg) || (e && neg)
		c.check(!failsWhenValid, R, fnName(f)+": "+shortQ(callQName(&cl.Call)), cl.Pos(), "the error is on the validator's false side", fmt.Sprintf("%s returns an error exactly when %s accepts its input: valid data is refused and invalid data accepted", fnName(f), shortQ(callQName(&cl.Call))))
	}
}

// accumulatorWidth: a loop that builds an unsigned integer as acc = acc<<s | piece
//   - shifts by as many bits as the piece it reads has (ReadUint(s) / one byte for s = 8), and
//   - runs at most 64/s times where the count comes from the input (proved with the linear prover
//     from the guard on the count), otherwise the high part falls off a uint64 without an error.
func (c *Ctx) accumulatorWidth(f *ssa.Function) {
	const R = "E16.accumulator"
	n := 0
	allInstrs(f, func(b *ssa.BasicBlock, in ssa.Instruction) {
		sh, ok := in.(*ssa.BinOp)
		if !ok || (sh.Op != token.SHL && sh.Op != token.MUL) || !inLoop(b) {
			return
		}
		s, ok := constInt(sh.Y)
		if !ok || s <= 0 {
			return
		}
		if sh.Op == token.MUL {
			// acc * 2^k is acc << k (res *= 256 and res = res<<8 are one idiom)
			k := int64(0)
			for v := s; v > 1 && v%2 == 0; v /= 2 {
				k++
			}
			if k == 0 || int64(1)<<uint(k) != s {
				return
			}
			s = k
		}
		acc, ok := sh.X.(*ssa.Phi)
		if !ok || !isInteger(acc.Type()) || !isUnsigned(acc.Type()) || intBits(acc.Type()) != 64 {
			return
		}
		// the phi is fed by an OR/ADD of the shift and a piece
		var comb *ssa.BinOp
		for _, e := range acc.Edges {
			if bo, ok := e.(*ssa.BinOp); ok && (bo.Op == token.OR || bo.Op == token.ADD) && (bo.X == ssa.Value(sh) || bo.Y == ssa.Value(sh)) {
				comb = bo
			}
		}
		if comb == nil {
			return
		}
		piece := comb.X
		if piece == ssa.Value(sh) {
			piece = comb.Y
		}
		n++
		key := fmt.Sprintf("%s: accumulator << %d", fnName(f), s)
		if n > 1 {
			key += fmt.Sprintf("#%d", n)
		}
		// (a) the piece has s bits
		bits := int64(0)
		derivesFrom(piece, func(v ssa.Value) bool {
			if cl := callOf(v); cl != nil && strings.HasSuffix(callQName(&cl.Call), ".ReadUint") {
				if k, ok := constInt(cl.Call.Args[1]); ok {
					bits = k
				}
				return true
			}
			if cv, ok := v.(*ssa.Convert); ok && bits == 0 {
				if isInteger(cv.X.Type()) && intBits(cv.X.Type()) < 64 {
					bits = int64(intBits(cv.X.Type()))
				}
			}
			return false
		}, false)
		if bits == 0 {
			return // piece of unknown width: not this idiom
		}
		c.check(bits == s, R, key+" matches the piece", sh.Pos(), fmt.Sprintf("%d-bit piece, shift %d", bits, s), fmt.Sprintf("%s shifts its accumulator by %d bits per step but appends a %d-bit piece: the pieces overlap or leave gaps and the value is not the big-endian number that was written", fnName(f), s, bits))
		// (b) at most 64/s steps: the loop header's bound N satisfies N*s <= 64
		hdr := acc.Block()
		iff := lastIf(hdr)
		if iff == nil {
			return
		}
		cmp, ok := iff.Cond.(*ssa.BinOp)
		if !ok || cmp.Op != token.LSS {
			return
		}
		p := c.newProver(f, hdr)
		okB := p.prove(p.lin(cmp.Y).scale(-s).addConst(64))
		if !okB {
			// an unexported helper whose count is a parameter: bounded when every call site passes a count
			// its own guards (or a constant) bound
			if h := plainHelper(f); h != nil && !gAddrTaken[h] && len(gCallSites[h]) > 0 {
				if prm, ok := stripConv(cmp.Y).(*ssa.Parameter); ok && prm.Parent() == f {
					idx := -1
					for i, q := range f.Params {
						if q == prm {
							idx = i
						}
					}
					all := idx >= 0
					for _, site := range gCallSites[h] {
						sf := site.Parent()
						if !all || idx >= len(site.Common().Args) || sf == nil {
							all = false
							break
						}
						q := c.newProver(sf, site.Block())
						arg := site.Common().Args[idx]
						if !q.prove(q.lin(arg).scale(-s).addConst(64)) {
							// one more level: the caller is itself a helper that passes its own parameter on
							if prm2, ok := stripConv(arg).(*ssa.Parameter); ok && plainHelper(sf) != nil && len(gCallSites[plainHelper(sf)]) > 0 {
								i2 := -1
								for i, q2 := range sf.Params {
									if q2 == prm2 {
										i2 = i
									}
								}
								for _, s2 := range gCallSites[plainHelper(sf)] {
									q2 := c.newProver(s2.Parent(), s2.Block())
									if i2 < 0 || i2 >= len(s2.Common().Args) || !q2.prove(q2.lin(s2.Common().Args[i2]).scale(-s).addConst(64)) {
										all = false
									}
								}
								continue
							}
							all = false
						}
					}
					okB = all
				}
			}
		}
		if !okB {
			if why, ok := excLookupS(excAccum, key); ok {
				c.exc(R, key+" fits 64 bits", sh.Pos(), why)
				return
			}
		}
		// exactness: the guard on the count refuses exactly the counts that do not fit
		// (count > 64/s, or count >= 64/s + 1); a stricter one refuses numbers that do fit
		for _, ft := range factsAt(f, hdr) {
			g, ok := ft.Cond.(*ssa.BinOp)
			if !ok || ft.Truth {
				continue // the refusing edge is the true edge; here we are on the accepting side
			}
			k, isK := constInt(g.Y)
			if !isK || !derivesFrom(cmp.Y, func(v ssa.Value) bool { return v == g.X }, false) {
				continue
			}
			var maxOK int64 = -1
			switch g.Op {
			case token.GTR:
				maxOK = k
			case token.GEQ:
				maxOK = k - 1
			}
			if maxOK >= 0 && okB {
				c.check(maxOK*s == 64, R, key+" refuses only what does not fit", g.Pos(), fmt.Sprintf("counts up to %d accepted, %d bits each", maxOK, s), fmt.Sprintf("%s refuses every count above %d although %d pieces of %d bits fit a uint64: numbers that need all 64 bits are rejected as overflow", fnName(f), maxOK, 64/s, s))
			}
		}
		c.check(okB, R, key+" fits 64 bits", sh.Pos(), fmt.Sprintf("trip count * %d <= 64 proved from the guard on the count", s), fmt.Sprintf("%s accumulates %s pieces of %d bits into a uint64 without the count being known to be at most %d: a longer number loses its high part silently instead of being refused", fnName(f), shape(cmp.Y, 3), s, 64/s))
	})
}

var excAccum = map[string]string{
	"boc.readNBytesUIntFromArray: accumulator << 8": "n is a constant (1, 2) or one of the two byte widths of the bag-of-cells header: sizeBytes, refused by parseBocHeader unless 1..4, and offsetBytes, refused unless 1..8 (E5.boc-header reads both guards); deserializeCellData receives the validated sizeBytes through the header struct, which the prover does not follow",
}

// enumTables: a named basic type whose MarshalTLB is a switch over its constants, each writing a
// constant tag, and whose UnmarshalTLB reads a tag and switches back, carries two tables. They
// must be mutual inverses: decode(encode(v)) == v for every listed constant and
// encode(decode(k)) == k for every listed tag. (Widths are compared by the codec-pair rule.)
func (c *Ctx) enumTables(rule string, rels ...string) int {
	n := 0
	constKey := func(v ssa.Value) (string, bool) {
		cst, ok := v.(*ssa.Const)
		if !ok || cst.Value == nil {
			return "", false
		}
		return cst.Value.ExactString(), true
	}
	for _, rel := range rels {
		p := c.pkg(rel)
		if p == nil {
			continue
		}
		for _, name := range p.Types.Scope().Names() {
			tn, ok := p.Types.Scope().Lookup(name).(*types.TypeName)
			if !ok {
				continue
			}
			if _, isBasic := tn.Type().Underlying().(*types.Basic); !isBasic {
				continue
			}
			w := c.fn(rel, name+".MarshalTLB")
			r := c.fn(rel, name+".UnmarshalTLB")
			if w == nil || r == nil || len(w.Params) == 0 {
				continue
			}
			recv := ssa.Value(w.Params[0])
			enc := map[string]string{} // value -> tag
			multi := map[string]bool{}
			for _, q := range []string{bocPath + ".Cell.WriteUint", bocPath + ".Cell.WriteInt"} {
				for _, cl := range callsTo(w, q) {
					k, ok := constKey(cl.Call.Args[1])
					if !ok {
						continue
					}
					for _, ft := range factsAt(w, cl.Block()) {
						bo, ok := ft.Cond.(*ssa.BinOp)
						if !ok || bo.Op != token.EQL || !ft.Truth || bo.X != recv {
							continue
						}
						if v, ok := constKey(bo.Y); ok {
							if _, dup := enc[v]; dup {
								multi[v] = true // a tag written in several pieces: not a plain table entry
							}
							enc[v] = k
						}
					}
				}
			}
			for v := range multi {
				delete(enc, v)
			}
			if len(enc) < 2 {
				continue
			}
			// reader: tag value = result of a ReadUint/ReadInt; stores of constants into *recv under tag == K
			dec := map[string]string{} // tag -> value
			allInstrs(r, func(b *ssa.BasicBlock, in ssa.Instruction) {
				st, ok := in.(*ssa.Store)
				if !ok || st.Addr != ssa.Value(r.Params[0]) {
					return
				}
				v, ok := constKey(st.Val)
				if !ok {
					return
				}
				var tags []string
				for _, ft := range factsAt(r, b) {
					bo, ok := ft.Cond.(*ssa.BinOp)
					if !ok || bo.Op != token.EQL || !ft.Truth {
						continue
					}
					if !derivesFrom(bo.X, func(x ssa.Value) bool {
						c2 := callOf(x)
						return c2 != nil && (strings.HasSuffix(callQName(&c2.Call), ".ReadUint") || strings.HasSuffix(callQName(&c2.Call), ".ReadInt"))
					}, false) {
						continue
					}
					if k, ok := constKey(bo.Y); ok {
						tags = append(tags, k)
					}
				}
				if len(tags) == 1 { // a value selected by several tag pieces is not a plain table entry
					dec[tags[0]] = v
				}
			})
			if len(dec) < 2 {
				continue
			}
			n++
			var probs []string
			for _, v := range sortedKeys(enc) {
				k := enc[v]
				if back, ok := dec[k]; ok && back != v {
					probs = append(probs, fmt.Sprintf("%s is written as tag %s, which reads back as %s", v, k, back))
				} else if !ok {
					probs = append(probs, fmt.Sprintf("%s is written as tag %s, which the reader does not know", v, k))
				}
			}
			for _, k := range sortedKeys(dec) {
				v := dec[k]
				if back, ok := enc[v]; ok && back != k {
					probs = append(probs, fmt.Sprintf("tag %s reads as %s, which is written as tag %s", k, v, back))
				}
			}
			c.check(len(probs) == 0, rule, rel+"."+name+": value<->tag tables are inverse", w.Pos(), fmt.Sprintf("%d values, %d tags", len(enc), len(dec)), fmt.Sprintf("%s.%s: the table MarshalTLB writes and the table UnmarshalTLB reads are not inverse: %s", rel, name, strings.Join(probs, "; ")))
		}
	}
	return n
}

// nilContradictions (Engler's "checked here, dereferenced there"): a pointer that the function
// itself compares with nil is dereferenced at a point where the comparison says it IS nil. Loads
// of the same field with nothing in between that could write it are identified. Exact: the rule
// reports only dereferences on paths where nil-ness is established by a dominating branch.
func (c *Ctx) nilContradictions(rule string, rels ...string) int {
	n := 0
	for _, f := range c.moduleFuncs(rels...) {
		canon := func(v ssa.Value) ssa.Value {
			for i := 0; i < 4; i++ {
				ld, ok := v.(*ssa.UnOp)
				if !ok || ld.Op != token.MUL {
					return v
				}
				e := earlierSameLoad(ld)
				if e == nil {
					return v
				}
				v = e
			}
			return v
		}
		// pointers compared with nil
		tested := map[ssa.Value]bool{}
		allInstrs(f, func(_ *ssa.BasicBlock, in ssa.Instruction) {
			bo, ok := in.(*ssa.BinOp)
			if !ok || (bo.Op != token.EQL && bo.Op != token.NEQ) {
				return
			}
			for _, pr := range [][2]ssa.Value{{bo.X, bo.Y}, {bo.Y, bo.X}} {
				if isNilConst(pr[1]) {
					switch pr[0].Type().Underlying().(type) {
					case *types.Pointer, *types.Interface:
						tested[canon(pr[0])] = true
					}
				}
			}
		})
		if len(tested) == 0 {
			continue
		}
		knownNil := func(b *ssa.BasicBlock, p ssa.Value) bool {
			for _, ft := range factsAt(f, b) {
				bo, ok := ft.Cond.(*ssa.BinOp)
				if !ok || (bo.Op != token.EQL && bo.Op != token.NEQ) {
					continue
				}
				for _, pr := range [][2]ssa.Value{{bo.X, bo.Y}, {bo.Y, bo.X}} {
					if isNilConst(pr[1]) && canon(pr[0]) == p && (bo.Op == token.EQL) == ft.Truth {
						return true
					}
				}
			}
			return false
		}
		ord := 0
		allInstrs(f, func(b *ssa.BasicBlock, in ssa.Instruction) {
			var p ssa.Value
			switch x := in.(type) {
			case *ssa.FieldAddr:
				p = x.X
			case *ssa.UnOp:
				if x.Op == token.MUL {
					p = x.X
				}
			case *ssa.Store:
				p = x.Addr
			case *ssa.Call:
				if x.Call.IsInvoke() {
					p = x.Call.Value // a method call on a nil interface value panics
				}
			}
			if p == nil {
				return
			}
			switch p.Type().Underlying().(type) {
			case *types.Pointer, *types.Interface:
			default:
				return
			}
			cp := canon(p)
			if !tested[cp] {
				return
			}
			n++
			if knownNil(b, cp) {
				ord++
				key := fmt.Sprintf("%s: %s dereferenced where it is nil", fnName(f), shape(p, 2))
				if ord > 1 {
					key += fmt.Sprintf("#%d", ord)
				}
				c.bad(rule, key, in.Pos(), fmt.Sprintf("%s dereferences %s on a path where the function's own test has established that it is nil (inverted or wrongly combined nil test): the call panics", fnName(f), shape(p, 3)))
			}
		})
	}
	c.ok(rule, "no pointer is dereferenced where the function's own nil test says it is nil", token.NoPos, fmt.Sprintf("%d dereferences of nil-tested pointers examined in %v", n, rels))
	return n
}

// lengthMatchGuards: a comparison of two lengths (len(x), reflect Len()) with == / != whose one
// branch fails directly fails on the UNEQUAL side: the code demands matching sizes, it never
// forbids them.
func (c *Ctx) lengthMatchGuards(f *ssa.Function) {
	const R = "E16.length-match"
	isLen := func(v ssa.Value) bool {
		cl := callOf(stripConv(v))
		if cl == nil {
			return false
		}
		if bi, ok := cl.Call.Value.(*ssa.Builtin); ok {
			return bi.Name() == "len"
		}
		if cl.Call.IsInvoke() {
			return cl.Call.Method.Name() == "Len"
		}
		return strings.HasSuffix(callQName(&cl.Call), ".Len")
	}
	n := 0
	for _, b := range f.Blocks {
		iff := lastIf(b)
		if iff == nil {
			continue
		}
		bo, ok := iff.Cond.(*ssa.BinOp)
		if !ok || (bo.Op != token.EQL && bo.Op != token.NEQ) || !isLen(bo.X) || !isLen(bo.Y) {
			continue
		}
		t, e := failsDirectly(f, b.Succs[0]), failsDirectly(f, b.Succs[1])
		if t == e {
			continue
		}
		failsWhenEqual := (t && bo.Op == token.EQL) || (e && bo.Op == token.NEQ)
		n++
		key := fmt.Sprintf("%s: length comparison", fnName(f))
		if n > 1 {
			key += fmt.Sprintf("#%d", n)
		}
		c.check(!failsWhenEqual, R, key, bo.Pos(), "the error is on the unequal side", fmt.Sprintf("%s returns an error exactly when %s and %s are EQUAL and goes on when they differ: the size check is inverted", fnName(f), shape(bo.X, 2), shape(bo.Y, 2)))
	}
}

// presenceGuards: a branch on "is it there?" - the ok of a map lookup or type assertion, or the
// Exists flag of a Maybe - with one directly failing arm fails on the ABSENT side.
func (c *Ctx) presenceGuards(f *ssa.Function) {
	const R = "E16.presence-guard"
	n := 0
	for _, b := range f.Blocks {
		iff := lastIf(b)
		if iff == nil {
			continue
		}
		cond, neg := iff.Cond, false
		if u, ok := cond.(*ssa.UnOp); ok && u.Op == token.NOT {
			cond, neg = u.X, true
		}
		what := ""
		if ex, ok := cond.(*ssa.Extract); ok && ex.Index == 1 {
			switch t := ex.Tuple.(type) {
			case *ssa.Lookup:
				if t.CommaOk {
					what = "the ok of a map lookup"
				}
			case *ssa.TypeAssert:
				if t.CommaOk {
					what = "the ok of a type assertion"
				}
			}
		}
		if ld, ok := cond.(*ssa.UnOp); ok && ld.Op == token.MUL {
			if _, fn, ok := fieldOf(ld.X); ok && fn == "Exists" {
				what = "the Exists flag of " + shape(ld.X, 2)
			}
		}
		if what == "" {
			continue
		}
		t, e := failsDirectly(f, b.Succs[0]), failsDirectly(f, b.Succs[1])
		if t == e {
			continue
		}
		failsWhenPresent := (t && !neg) || (e && neg)
		n++
		key := fmt.Sprintf("%s: branch on %s", fnName(f), what)
		if n > 1 {
			key += fmt.Sprintf("#%d", n)
		}
		c.check(!failsWhenPresent, R, key, iff.Cond.Pos(), "the error is on the absent side", fmt.Sprintf("%s returns an error exactly when %s is TRUE and goes on when the thing is absent: the presence test is inverted", fnName(f), what))
	}
}

// defaultingPolarity: `if x == zero { x = default }`. A constant stored into a field behind a
// comparison of that same field with its zero value must sit on the "is zero" side; on the other
// side it overwrites what was configured and leaves the unset case at zero.
func (c *Ctx) defaultingPolarity(f *ssa.Function) {
	const R = "E16.defaulting"
	n := 0
	allInstrs(f, func(b *ssa.BasicBlock, in ssa.Instruction) {
		st, ok := in.(*ssa.Store)
		if !ok {
			return
		}
		fa, ok := st.Addr.(*ssa.FieldAddr)
		if !ok {
			return
		}
		if _, isConst := stripConv(st.Val).(*ssa.Const); !isConst {
			if ld, ok := stripConv(st.Val).(*ssa.UnOp); !ok || ld.Op != token.MUL {
				return
			} else if _, isG := ld.X.(*ssa.Global); !isG {
				return
			}
		}
		for _, ft := range factsAt(f, b) {
			bo, ok := ft.Cond.(*ssa.BinOp)
			if !ok || (bo.Op != token.EQL && bo.Op != token.NEQ) {
				continue
			}
			ld, ok := stripConv(bo.X).(*ssa.UnOp)
			if !ok || ld.Op != token.MUL {
				continue
			}
			fa2, ok := ld.X.(*ssa.FieldAddr)
			if !ok || fa2.Field != fa.Field || !sameBase(fa2.X, fa.X, 0) {
				continue
			}
			zero := false
			if k, ok := constInt(bo.Y); ok && k == 0 {
				zero = true
			}
			if isNilConst(bo.Y) {
				zero = true
			}
			if cst, ok := bo.Y.(*ssa.Const); ok && cst.Value != nil && cst.Value.ExactString() == `""` {
				zero = true
			}
			if !zero {
				continue
			}
			// a default is something other than the zero value (storing the zero value behind a test
			// for it is a state transition, not a default)
			if k, ok := constInt(stripConv(st.Val)); ok && k == 0 {
				continue
			}
			n++
			key := fmt.Sprintf("%s: default for %s", fnName(f), shape(fa, 2))
			if n > 1 {
				key += fmt.Sprintf("#%d", n)
			}
			c.check((bo.Op == token.EQL) == ft.Truth, R, key, st.Pos(), "the default is stored where the field is zero", fmt.Sprintf("%s stores a default into %s on the path where the field is NOT zero: a configured value is overwritten and an unset one stays zero", fnName(f), shape(fa, 2)))
		}
	})
}

// radixDiscipline: every number this module parses from or prints to text with an explicit radix
// uses 2, 10 or 16; nothing in the TON text forms uses another base.
func (c *Ctx) radixDiscipline(rule string, rels ...string) {
	n := 0
	for _, f := range c.moduleFuncs(rels...) {
		allInstrs(f, func(_ *ssa.BasicBlock, in ssa.Instruction) {
			cl, ok := in.(*ssa.Call)
			if !ok {
				return
			}
			idx := map[string]int{"strconv.ParseInt": 1, "strconv.ParseUint": 1, "strconv.FormatInt": 1, "strconv.FormatUint": 1, "math/big.Int.SetString": 2, "math/big.Int.Text": 1}
			i, ok := idx[callQName(&cl.Call)]
			if !ok || i >= len(cl.Call.Args) {
				return
			}
			base, ok := constInt(cl.Call.Args[i])
			if !ok {
				return
			}
			n++
			if base != 2 && base != 10 && base != 16 && base != 0 {
				c.bad(rule, fmt.Sprintf("%s: %s in radix %d", fnName(f), shortQ(callQName(&cl.Call)), base), cl.Pos(), fmt.Sprintf("%s converts a number with radix %d; the text forms of this library are decimal, hexadecimal or (tags) binary", fnName(f), base))
			}
		})
	}
	c.ok(rule, "explicit radices are 2, 10 or 16", token.NoPos, fmt.Sprintf("%d conversions with a constant radix in %v", n, rels))
}

// aliasTableMixup: the code base names the key spaces of its sibling tables with type aliases
// (NFTOpName / JettonOpName are both `= string`, so the compiler accepts either). A lookup of a
// value declared with one alias in a table declared with a DIFFERENT alias of the same underlying
// type consults the sibling's table: it works for the entries both tables share and silently
// misses the rest.
func (c *Ctx) aliasTableMixup(rule string, rels ...string) {
	n := 0
	for _, f := range c.moduleFuncs(rels...) {
		allInstrs(f, func(_ *ssa.BasicBlock, in ssa.Instruction) {
			lk, ok := in.(*ssa.Lookup)
			if !ok {
				return
			}
			mt, ok := types.Unalias(lk.X.Type()).Underlying().(*types.Map)
			if !ok {
				return
			}
			ka, ok1 := mt.Key().(*types.Alias)
			ia, ok2 := lk.Index.Type().(*types.Alias)
			if !ok1 || !ok2 {
				return
			}
			n++
			if ka.Obj() != ia.Obj() {
				c.bad(rule, fmt.Sprintf("%s: %s looked up in a table keyed by %s", fnName(f), ia.Obj().Name(), ka.Obj().Name()), lk.Pos(), fmt.Sprintf("%s looks a value of type %s up in %s, a table keyed by %s (both are aliases of %s, so this compiles): it is the sibling codec's table - entries the two tables do not share are not found and the constructor is written without its opcode", fnName(f), ia.Obj().Name(), shape(lk.X, 2), ka.Obj().Name(), types.Unalias(ka).String()))
			}
		})
	}
	// writer/reader of one type use the same code space: the alias naming the VALUES of the table
	// MarshalTLB consults is the alias naming the KEYS of the table UnmarshalTLB consults
	aliasName := func(t types.Type) string {
		if a, ok := t.(*types.Alias); ok {
			return a.Obj().Name()
		}
		return ""
	}
	for _, rel := range rels {
		p := c.pkg(rel)
		if p == nil {
			continue
		}
		for _, name := range p.Types.Scope().Names() {
			w, r := c.fn(rel, name+".MarshalTLB"), c.fn(rel, name+".UnmarshalTLB")
			if w == nil || r == nil {
				continue
			}
			wv, rk := map[string]bool{}, map[string]bool{}
			allInstrs(w, func(_ *ssa.BasicBlock, in ssa.Instruction) {
				if lk, ok := in.(*ssa.Lookup); ok {
					if mt, ok := types.Unalias(lk.X.Type()).Underlying().(*types.Map); ok {
						if a := aliasName(mt.Elem()); a != "" {
							wv[a] = true
						}
					}
				}
			})
			allInstrs(r, func(_ *ssa.BasicBlock, in ssa.Instruction) {
				if lk, ok := in.(*ssa.Lookup); ok {
					if mt, ok := types.Unalias(lk.X.Type()).Underlying().(*types.Map); ok {
						if a := aliasName(mt.Key()); a != "" {
							rk[a] = true
						}
					}
				}
			})
			if len(wv) == 0 || len(rk) == 0 {
				continue
			}
			n++
			common := false
			for a := range wv {
				if rk[a] {
					common = true
				}
			}
			c.check(common, rule, rel+"."+name+": writer and reader consult tables of one code space", w.Pos(), fmt.Sprintf("writer values %v, reader keys %v", sortedKeys(wv), sortedKeys(rk)), fmt.Sprintf("%s.%s.MarshalTLB takes its codes from a table whose values are %v, UnmarshalTLB looks codes up in a table keyed by %v: the writer consults a sibling codec's table (it compiles because the aliases share an underlying type); constructors the two tables do not share are written without their code", rel, name, sortedKeys(wv), sortedKeys(rk)))
		}
	}
	c.ok(rule, "alias-keyed tables are consulted with their own key type", token.NoPos, fmt.Sprintf("%d lookups with alias-typed key and index in %v", n, rels))
}
