package main

import (
	"fmt"
	"go/token"
	"go/types"
	"regexp"
	"sort"
	"strings"

	"golang.org/x/tools/go/ssa"
)

// E1 panicfree: totality of decoders. Obligations P1..P7 on every in-module function
// reachable from the roots.

type e1cfg struct {
	roots    []*ssa.Function
	pkgs     map[string]bool     // module-relative packages whose sites are reported
	maxDepth int                 // interprocedural caller-context depth
	traverse map[string]bool     // packages whose functions are followed by reachability (nil: all of the module)
	exc      map[string]excEntry // per-construct exceptions, keyed by obligation key (without rule prefix)
	excP5    map[string]excEntry
}

// excEntry is a per-construct exception: the reason the obligation holds although the prover
// cannot show it, plus the guards it relies on. Each guard names a function and the shape of a
// branch condition that must still exist there (and, in the same function, dominate the site);
// deleting or changing the guard voids the exception.
type excEntry struct {
	why    string
	relies []guardRef
}

type guardRef struct {
	fn   string // "pkg:Func"
	cond string // shape(cond, 3) of the If condition
}

// callSites maps a static callee (generic origin) to the call instructions calling it.
type callIndex struct {
	sites     map[*ssa.Function][]ssa.CallInstruction
	addrTaken map[*ssa.Function]bool
}

func (c *Ctx) buildCallIndex() *callIndex {
	ci := &callIndex{sites: map[*ssa.Function][]ssa.CallInstruction{}, addrTaken: map[*ssa.Function]bool{}}
	var rels []string
	for p := range c.ByPath {
		if strings.HasPrefix(p, modPath) {
			rels = append(rels, strings.TrimPrefix(strings.TrimPrefix(p, modPath), "/"))
		}
	}
	sort.Strings(rels)
	for _, f := range c.moduleFuncs(rels...) {
		allInstrs(f, func(_ *ssa.BasicBlock, i ssa.Instruction) {
			if call, ok := i.(ssa.CallInstruction); ok {
				if sc := call.Common().StaticCallee(); sc != nil {
					ci.sites[origin(sc)] = append(ci.sites[origin(sc)], call)
				}
			}
			// function values used other than as callee
			for _, op := range i.Operands(nil) {
				if op == nil || *op == nil {
					continue
				}
				if fn, ok := (*op).(*ssa.Function); ok {
					if call, ok := i.(ssa.CallInstruction); ok && call.Common().Value == fn {
						continue
					}
					ci.addrTaken[origin(fn)] = true
				}
			}
		})
	}
	return ci
}

// reachable computes the in-module functions reachable from roots. Static calls, closures
// created in reachable functions, and interface invokes resolved by CHA to in-module methods.
func (c *Ctx) reachable(roots []*ssa.Function, traverse ...map[string]bool) map[*ssa.Function]bool {
	var trav map[string]bool
	if len(traverse) > 0 {
		trav = traverse[0]
	}
	cg := c.CG()
	seen := map[*ssa.Function]bool{}
	var work []*ssa.Function
	push := func(f *ssa.Function) {
		if f == nil {
			return
		}
		if !inModule(f) || seen[f] || len(f.Blocks) == 0 {
			return
		}
		rel := pkgRel(f)
		if strings.HasPrefix(rel, "examples") || strings.HasPrefix(rel, "experiments") || strings.HasPrefix(rel, "cmd") {
			return
		}
		if trav != nil && !trav[rel] {
			return
		}
		seen[f] = true
		work = append(work, f)
	}
	for _, r := range roots {
		push(r)
	}
	for len(work) > 0 {
		f := work[len(work)-1]
		work = work[:len(work)-1]
		for _, a := range f.AnonFuncs {
			push(a)
		}
		if n := cg.Nodes[f]; n != nil {
			for _, e := range n.Out {
				push(e.Callee.Func)
			}
		}
	}
	return seen
}

// inScope: generic instantiations are analysed once on their origin.
func canonical(fs map[*ssa.Function]bool) []*ssa.Function {
	m := map[*ssa.Function]bool{}
	for f := range fs {
		m[origin(f)] = true
	}
	var out []*ssa.Function
	for f := range m {
		if len(f.Blocks) > 0 {
			out = append(out, f)
		}
	}
	sort.Slice(out, func(i, j int) bool { return fnName(out[i]) < fnName(out[j]) })
	return out
}

type siteGoal struct {
	desc  string
	build func(p *proverCtx) []*linexp // all must be proven >= 0
}

func (c *Ctx) panicFree(cfg e1cfg) {
	debugReach(c, cfg.roots)
	reach := c.reachable(cfg.roots, cfg.traverse)
	funcs := canonical(reach)
	ci := c.buildCallIndex()
	nIn := 0
	for _, f := range funcs {
		if !cfg.pkgs[pkgRel(f)] {
			continue
		}
		nIn++
		c.panicSites(f, cfg, ci, reach)
	}
	c.note("panicfree: %d roots, %d reachable in-module functions, %d in reported packages", len(cfg.roots), len(funcs), nIn)
	c.recursion(cfg, reach)
}

func instrText(i ssa.Instruction) string {
	s := i.String()
	if v, ok := i.(ssa.Value); ok {
		s = v.Name() + " = " + s
	}
	if len(s) > 90 {
		s = s[:90] + "…"
	}
	return s
}

// siteKey builds a position-independent key: function + construct kind + operand shape + ordinal.
func siteKey(f *ssa.Function, kind string, i ssa.Instruction) string {
	return fmt.Sprintf("%s %s %s", fnName(f), kind, normInstr(i))
}

// normInstr renders an instruction with SSA register names replaced by their defining shape,
// so that unrelated edits elsewhere in the function do not change the key.
func normInstr(i ssa.Instruction) string {
	switch x := i.(type) {
	case *ssa.IndexAddr:
		return "index " + shape(x.X, 2) + "[" + shape(x.Index, 2) + "]"
	case *ssa.Index:
		return "index " + shape(x.X, 2) + "[" + shape(x.Index, 2) + "]"
	case *ssa.Lookup:
		return "index " + shape(x.X, 2) + "[" + shape(x.Index, 2) + "]"
	case *ssa.Slice:
		return "slice " + shape(x.X, 2) + "[" + shapeOpt(x.Low) + ":" + shapeOpt(x.High) + "]"
	case *ssa.MakeSlice:
		return "make " + strings.TrimPrefix(x.Type().String(), modPath+"/") + " len=" + shape(x.Len, 2) + " cap=" + shape(x.Cap, 2)
	case *ssa.TypeAssert:
		return "assert " + shape(x.X, 1) + ".(" + strings.ReplaceAll(x.AssertedType.String(), modPath+"/", "") + ")"
	case *ssa.Panic:
		return "panic " + shape(x.X, 2)
	case *ssa.Call:
		return "call " + shortQ(callQName(&x.Call))
	case *ssa.BinOp:
		return "op " + shape(x, 2)
	}
	return i.String()
}

func shapeOpt(v ssa.Value) string {
	if v == nil {
		return ""
	}
	return shape(v, 2)
}

func shape(v ssa.Value, d int) string {
	if v == nil {
		return ""
	}
	switch x := v.(type) {
	case *ssa.Const:
		if x.Value == nil {
			return "nil"
		}
		return x.Value.String()
	case *ssa.Parameter:
		return x.Name()
	case *ssa.FreeVar:
		return x.Name()
	case *ssa.Global:
		return x.Name()
	case *ssa.Function:
		return x.Name()
	}
	if d == 0 {
		return "_"
	}
	switch x := v.(type) {
	case *ssa.BinOp:
		return "(" + shape(x.X, d-1) + x.Op.String() + shape(x.Y, d-1) + ")"
	case *ssa.UnOp:
		if x.Op == token.MUL {
			return "*" + shape(x.X, d)
		}
		return x.Op.String() + shape(x.X, d-1)
	case *ssa.FieldAddr:
		_, fn, _ := fieldOf(x)
		return shape(x.X, d-1) + "." + fn
	case *ssa.Field:
		_, fn, _ := fieldOf(x)
		return shape(x.X, d-1) + "." + fn
	case *ssa.Convert:
		return shape(x.X, d)
	case *ssa.ChangeType:
		return shape(x.X, d)
	case *ssa.Call:
		if b, ok := x.Call.Value.(*ssa.Builtin); ok {
			if len(x.Call.Args) > 0 {
				return b.Name() + "(" + shape(x.Call.Args[0], d-1) + ")"
			}
			return b.Name() + "()"
		}
		return shortQ(callQName(&x.Call)) + "()"
	case *ssa.Extract:
		return shape(x.Tuple, d) + "#" + fmt.Sprint(x.Index)
	case *ssa.Phi:
		if c := x.Comment; c != "" {
			return "φ" + c
		}
		return "φ"
	case *ssa.Slice:
		return shape(x.X, d-1) + "[" + shapeOpt2(x.Low, d-1) + ":" + shapeOpt2(x.High, d-1) + "]"
	case *ssa.Alloc:
		if x.Comment != "" {
			return "&" + x.Comment
		}
		return "&_"
	case *ssa.IndexAddr:
		return shape(x.X, d-1) + "[" + shape(x.Index, d-1) + "]"
	case *ssa.Index:
		return shape(x.X, d-1) + "[" + shape(x.Index, d-1) + "]"
	case *ssa.MakeSlice:
		return "make"
	case *ssa.Lookup:
		return shape(x.X, d-1) + "[" + shape(x.Index, d-1) + "]"
	}
	return "_"
}

func shapeOpt2(v ssa.Value, d int) string {
	if v == nil {
		return ""
	}
	return shape(v, d)
}

type e1env struct {
	cfg   e1cfg
	ci    *callIndex
	reach map[*ssa.Function]bool
}

func (c *Ctx) panicSites(f *ssa.Function, cfg e1cfg, ci *callIndex, reach map[*ssa.Function]bool) {
	env := &e1env{cfg, ci, reach}
	for _, b := range f.Blocks {
		for _, in := range b.Instrs {
			switch x := in.(type) {
			case *ssa.Panic:
				key := siteKey(f, "P1", x)
				c.resolve("E1.P1-panic", key, x.Pos(), f, b, false, env, "", "explicit panic reachable from a decoding entry point: "+instrText(x))
			case *ssa.TypeAssert:
				if x.CommaOk {
					continue
				}
				key := siteKey(f, "P3", x)
				c.resolve("E1.P3-assert", key, x.Pos(), f, b, c.assertSafe(x), env, "operand has the asserted dynamic type on every path (MakeInterface of that type)", "unchecked type assertion (no comma-ok) on a decode path: "+instrText(x))
			case *ssa.IndexAddr:
				c.boundsSite(f, b, x, x.X, x.Index, env)
			case *ssa.Index:
				c.boundsSite(f, b, x, x.X, x.Index, env)
			case *ssa.Lookup:
				if _, isMap := x.X.Type().Underlying().(*types.Map); isMap {
					continue
				}
				c.boundsSite(f, b, x, x.X, x.Index, env)
			case *ssa.Slice:
				c.sliceSite(f, b, x, env)
			case *ssa.MakeSlice:
				c.makeSite(f, b, x, env)
			case *ssa.BinOp:
				if (x.Op == token.QUO || x.Op == token.REM) && isInteger(x.Type()) {
					if _, ok := constInt(x.Y); ok {
						continue
					}
					key := siteKey(f, "P7", x)
					g := siteGoal{desc: "divisor != 0", build: func(p *proverCtx) []*linexp {
						return []*linexp{p.lin(x.Y).addConst(-1)}
					}}
					c.siteObl("E1.P7-divzero", key, x.Pos(), f, b, g, env, "divisor proved >= 1", "integer division by a value not proved non-zero: "+instrText(x))
				}
			case *ssa.Call:
				c.libPrecond(f, b, x, env)
				if callQName(&x.Call) == "reflect.MakeSlice" && len(x.Call.Args) == 3 {
					key := siteKey(f, "P4", x) + " reflect.MakeSlice"
					ln, cp := x.Call.Args[1], x.Call.Args[2]
					g := siteGoal{desc: "reflect.MakeSlice size bounded", build: func(p *proverCtx) []*linexp {
						var goals []*linexp
						for _, v := range []ssa.Value{ln, cp} {
							if _, ok := constInt(v); ok {
								continue
							}
							e := p.lin(v)
							goals = append(goals, e)
							if !onlyLenVars(e) {
								goals = append(goals, e.scale(-1).addConst(allocLimit))
							}
						}
						return goals
					}}
					c.siteObl("E1.P4-alloc", key, x.Pos(), f, b, g, env, "reflect.MakeSlice size bounded", "reflect.MakeSlice sized by a value not bounded by a constant or by the input length: "+instrText(x))
				}
			}
		}
	}
}

func (c *Ctx) assertSafe(x *ssa.TypeAssert) bool {
	vals := []ssa.Value{x.X}
	if phi, ok := x.X.(*ssa.Phi); ok {
		vals = phi.Edges
	}
	for _, v := range vals {
		mi, ok := v.(*ssa.MakeInterface)
		if !ok || !types.Identical(mi.X.Type(), x.AssertedType) {
			return false
		}
	}
	return true
}

// resolve records one obligation: discharged when proved, else through a per-construct
// exception whose guards still exist, else a violation.
func (c *Ctx) resolve(rule, key string, pos token.Pos, f *ssa.Function, b *ssa.BasicBlock, proved bool, env *e1env, okMsg, badMsg string) {
	if proved {
		c.ok(rule, key, pos, okMsg)
		return
	}
	ex, ok := excLookupE(env.cfg.exc, key)
	if !ok && (rule == "E1.P2-bounds" || rule == "E1.P4-alloc") {
		ex, ok = env.cfg.exc["fn:"+fnName(f)]
	}
	if !ok {
		// ... or in a helper shared by several functions each of which has the exception for this construct
		// (the duplicated code they shared was extracted)
		if h := plainHelper(f); h != nil && soleCaller(f) == nil && len(gCallSites[h]) > 1 {
			k2 := key
			if i := strings.Index(k2, " @ "); i >= 0 {
				k2 = k2[:i]
			}
			if strings.HasPrefix(k2, fnName(f)+" ") {
				all, n := true, 0
				var first excEntry
				for _, site := range gCallSites[h] {
					p := site.Parent()
					for p.Parent() != nil {
						p = p.Parent()
					}
					p = origin(p)
					if p == h {
						continue
					}
					e, found := excLookupLoose(env.cfg.exc, fnName(p)+strings.TrimPrefix(k2, fnName(f)))
					if !found {
						all = false
						break
					}
					if n == 0 {
						first = e
					}
					n++
				}
				if all && n > 0 {
					ex, ok = first, true
					b = nil
				}
			}
		}
	}
	if !ok {
		// the construct sits in an unexported helper with a single calling function (extract-method): the
		// reasoned exception of the same construct in that caller carries over
		if caller := soleCaller(f); caller != nil {
			k2 := key
			if i := strings.Index(k2, " @ "); i >= 0 {
				k2 = k2[:i]
			}
			if strings.HasPrefix(k2, fnName(f)+" ") {
				k2 = fnName(caller) + strings.TrimPrefix(k2, fnName(f))
				ex, ok = excLookupLoose(env.cfg.exc, k2)
				if !ok {
					// the helper's parameter names are its author's choice (a parameter called like a field of the
					// package is still a parameter): compare with them anonymised
					k3 := k2
					for _, prm := range f.Params {
						if prm.Name() == "" {
							continue
						}
						re := regexp.MustCompile(`(^|[^.\w])` + regexp.QuoteMeta(prm.Name()) + `($|[^\w(])`)
						for i := 0; i < 4; i++ {
							k3 = re.ReplaceAllString(k3, "${1}_${2}")
						}
					}
					if k3 != k2 {
						ex, ok = excLookupLoose(env.cfg.exc, k3)
					}
				}
				if ok {
					f, b = caller, nil
				}
			}
		}
	}
	if ok {
		if miss := c.guardsMissing(ex, f, b); miss != "" {
			c.bad(rule, key, pos, badMsg+" -- the exception for this construct relies on a guard that is no longer present: "+miss)
			return
		}
		why := ex.why
		for _, g := range ex.relies {
			why += " [relies on guard " + g.cond + " in " + g.fn + ": present]"
		}
		c.exc(rule, key, pos, why)
		return
	}
	c.bad(rule, key, pos, badMsg+" (in "+fnName(f)+")")
}

// guardsMissing verifies the guards an exception relies on.
func (c *Ctx) guardsMissing(ex excEntry, f *ssa.Function, b *ssa.BasicBlock) string {
	for _, g := range ex.relies {
		i := strings.Index(g.fn, ":")
		gf := c.fn(g.fn[:i], g.fn[i+1:])
		if gf == nil && f != nil {
			// the guard's function no longer exists (a small helper inlined into its callers): the guard must now
			// stand in the site's own function, in front of the site
			gf = f
		}
		if gf == nil {
			return "function " + g.fn + " not found"
		}
		found := false
		// a condition written with a leading '~' is a branch that need not reject (a case split
		// whose other arm returns normally); it must exist and dominate all the same
		noReject := strings.HasPrefix(g.cond, "~")
		g.cond = strings.TrimPrefix(g.cond, "~")
		// alternatives: the same test over the same quantity held in another place (a slot of a slice, or the
		// local it is accumulated in), separated by " ∥ "
		alts := strings.Split(g.cond, " ∥ ")
		anyAlt := func(cond ssa.Value) bool {
			for _, a := range alts {
				if condMatches(cond, a) {
					return true
				}
			}
			return false
		}
		// the guard says "reject when W": the failing edge is the true edge of W, the false edge of !W. (When
		// both edges fail, or the failure is returned further down a chain of blocks, the polarity is not judged.)
		rightSide := func(fn *ssa.Function, bb *ssa.BasicBlock, cond ssa.Value) bool {
			for _, a := range alts {
				if ok, negd := condMatchesPol(cond, a); ok {
					t, fl := rejectsOn(fn, bb, 0), rejectsOn(fn, bb, 1)
					if t == fl {
						return true
					}
					return (t && !negd) || (fl && negd)
				}
			}
			return true
		}
		for _, bb := range gf.Blocks {
			ifi := lastIf(bb)
			if ifi == nil || !(anyAlt(ifi.Cond) || c.linGuardMatches(gf, bb, ifi.Cond, g.cond)) {
				continue
			}
			// the guard must reject: one of its edges leads (directly) to a return of a non-nil error
			if !noReject && !rejects(gf, bb) {
				continue
			}
			if !noReject && !rightSide(gf, bb, ifi.Cond) {
				continue // the test is there but it rejects the complement
			}
			if gf == f && b != nil {
				// same function: the site must lie behind the guard
				if !(edgeDominates(gf, edge{bb, 0}, b) || edgeDominates(gf, edge{bb, 1}, b)) {
					continue
				}
			}
			found = true
		}
		if !found {
			// the guard was moved, with the loop or block around it, into an unexported helper that the
			// function calls: it still runs on every call of the function that reaches past the helper
			for _, h := range c.helperClosure(gf, 2, func(x *ssa.Function) bool { return plainHelper(x) == nil }) {
				if h == gf {
					continue
				}
				for _, bb := range h.Blocks {
					ifi := lastIf(bb)
					if ifi != nil && (anyAlt(ifi.Cond) || c.linGuardMatches(h, bb, ifi.Cond, g.cond)) && (noReject || rejects(h, bb)) {
						found = true
					}
				}
			}
		}
		if !found {
			return fmt.Sprintf("%s in %s", g.cond, g.fn)
		}
	}
	return ""
}

// rejects: one successor of the If block is a block that returns a definite failure.
func rejects(f *ssa.Function, b *ssa.BasicBlock) bool {
	for _, s := range b.Succs {
		if len(s.Instrs) == 0 {
			continue
		}
		if r, ok := s.Instrs[len(s.Instrs)-1].(*ssa.Return); ok && len(r.Results) > 0 {
			last := retVal(r, len(r.Results)-1)
			if isFailureValue(f, last, s) {
				return true
			}
		}
	}
	return false
}

// siteObl proves a goal at a site; when the local proof needs facts about the parameters of an
// internal function it is split into one obligation per calling context.
func (c *Ctx) siteObl(rule, key string, pos token.Pos, f *ssa.Function, b *ssa.BasicBlock, g siteGoal, env *e1env, okMsg, badMsg string) {
	p := c.newProver(f, b)
	if !proveAll(p, g) && c.phiSplit(f, b, g) {
		c.ok(rule, key, pos, okMsg+" (case split over the incoming edges of a phi)")
		return
	}
	p = c.newProver(f, b)
	// contradiction: the function's OWN branch facts establish that the access is out of range
	// (x[0] behind `len(x) != 0 -> return`): a definite crash on this path, whatever the callers
	// guarantee. Only with satisfiable facts (dead code proves anything).
	if rule == "E1.P2-bounds" && !p.prove(linConst(-1)) {
		for _, gl := range g.build(p) {
			if p.prove(gl.scale(-1).addConst(-1)) {
				c.bad(rule, key, pos, badMsg+" -- worse: the branch conditions of "+fnName(f)+" itself imply that this access is OUT of range on the path that reaches it (inverted emptiness or length test)")
				return
			}
		}
	}
	c.oblWith(rule, key, pos, p, f, b, f, g, env, okMsg, badMsg, 0)
}

func proveAll(p *proverCtx, g siteGoal) bool {
	for _, gl := range g.build(p) {
		if !p.prove(gl) {
			return false
		}
	}
	return true
}

func (c *Ctx) oblWith(rule, key string, pos token.Pos, p *proverCtx, f *ssa.Function, b *ssa.BasicBlock, frontier *ssa.Function, g siteGoal, env *e1env, okMsg, badMsg string, depth int) {
	if proveAll(p, g) {
		if depth > 0 {
			okMsg += fmt.Sprintf(" (with the facts of %d calling context level(s))", depth)
		}
		c.ok(rule, key, pos, okMsg)
		return
	}
	if _, has := excLookupE(env.cfg.exc, key); has || depth >= env.cfg.maxDepth || !isInternalFunc(frontier) || env.ci.addrTaken[origin(frontier)] || !dependsOnParams(p, g, frontier) {
		c.resolve(rule, key, pos, f, b, false, env, okMsg, badMsg)
		return
	}
	var relevant []ssa.CallInstruction
	recursive := false
	for _, s := range env.ci.sites[origin(frontier)] {
		if origin(s.Parent()) == origin(frontier) {
			recursive = true
		}
		if reachOrigin(env.reach, s.Parent()) {
			relevant = append(relevant, s)
		}
	}
	if len(relevant) == 0 || len(relevant) > 16*c.scale() || recursive {
		c.resolve(rule, key, pos, f, b, false, env, okMsg, badMsg)
		return
	}
	for _, s := range relevant {
		caller := s.Parent()
		mkJoint := func(subst map[ssa.Value]ssa.Value, extra *ssa.BasicBlock, edgeTo *ssa.BasicBlock) *proverCtx {
			q := &proverCtx{c: c, f: p.f, block: p.block, seenVar: map[lvar]bool{}, stable: map[stableKey]bool{}, siteBlock: map[*ssa.Function]*ssa.BasicBlock{}, subst: subst}
			for k, v := range p.siteBlock {
				q.siteBlock[k] = v
			}
			q.siteBlock[caller] = s.Block()
			q.facts = append(q.facts, p.facts...)
			for k, v := range p.seenVar {
				q.seenVar[k] = v
			}
			for _, ft := range factsAt(caller, s.Block()) {
				q.condFacts(ft.Cond, ft.Truth, "caller branch "+c.rel(condPosOf(ft)))
			}
			if extra != nil {
				for _, ft := range factsAt(caller, extra) {
					q.condFacts(ft.Cond, ft.Truth, "caller branch (phi edge) "+c.rel(condPosOf(ft)))
				}
				if ifi := lastIf(extra); ifi != nil && extra.Succs[0] != extra.Succs[1] {
					q.condFacts(ifi.Cond, extra.Succs[0] == edgeTo, "edge into phi")
				}
			}
			args := s.Common().Args
			params := frontier.Params
			if len(args) == len(params) {
				for i, prm := range params {
					a := args[i]
					switch {
					case isInteger(prm.Type()):
						pl, al := q.lin(prm), q.lin(a)
						q.addFact(pl.sub(al), "param=arg")
						q.addFact(al.sub(pl), "param=arg")
					case isSliceLike(prm.Type()):
						pl := q.varFor(lvar{v: prm, kind: 'l'})
						al := q.varFor(lvar{v: a, kind: 'l'})
						q.addFact(pl.sub(al), "len(param)=len(arg)")
						q.addFact(al.sub(pl), "len(param)=len(arg)")
						if _, isSl := prm.Type().Underlying().(*types.Slice); isSl {
							pc := q.varFor(lvar{v: prm, kind: 'c'})
							ac := q.varFor(lvar{v: a, kind: 'c'})
							q.addFact(pc.sub(ac), "cap(param)=cap(arg)")
							q.addFact(ac.sub(pc), "cap(param)=cap(arg)")
						}
					}
				}
			}
			return q
		}
		q := mkJoint(nil, nil, nil)
		subKey := key + " @ " + fnName(caller) + " " + normInstr(s.(ssa.Instruction))
		if v := s.Value(); v != nil {
			subKey = key + " @ " + fnName(caller) + " call(" + argShapes(s.Common()) + ")"
		}
		// case split over a phi argument of the call (e.g. a key obtained on one of two paths)
		if !proveAll(q, g) {
			split := false
			for _, a := range s.Common().Args {
				ph, ok := a.(*ssa.Phi)
				if !ok || !ph.Block().Dominates(s.Block()) {
					continue
				}
				all := true
				for i, ev := range ph.Edges {
					qi := mkJoint(map[ssa.Value]ssa.Value{ph: ev}, ph.Block().Preds[i], ph.Block())
					if !proveAll(qi, g) {
						all = false
						break
					}
				}
				if all {
					split = true
					break
				}
			}
			if split {
				c.ok(rule, subKey, s.Pos(), okMsg+" (calling context, case split over the incoming edges of a phi argument)")
				continue
			}
		}
		c.oblWith(rule, subKey, s.Pos(), q, f, b, caller, g, env, okMsg, badMsg+" [called from "+fnName(caller)+" at "+c.rel(s.Pos())+"]", depth+1)
	}
}

func argShapes(cc *ssa.CallCommon) string {
	var as []string
	for _, a := range cc.Args {
		as = append(as, shape(a, 2))
	}
	return strings.Join(as, ",")
}

// boundsSite: 0 <= idx < len(x)
func (c *Ctx) boundsSite(f *ssa.Function, b *ssa.BasicBlock, in ssa.Instruction, x, idx ssa.Value, env *e1env) {
	key := siteKey(f, "P2", in)
	if n, ok := arrayLen(x.Type()); ok {
		if k, ok := constInt(idx); ok && k >= 0 && k < n {
			c.okTriv("E1.P2-bounds", key, in.Pos(), "constant index into fixed array (compile-time checked)")
			return
		}
	}
	g := siteGoal{desc: "0 <= index < len", build: func(p *proverCtx) []*linexp {
		i := p.lin(idx)
		l := p.varFor(lvar{v: x, kind: 'l'})
		return []*linexp{i, l.sub(i).addConst(-1)}
	}}
	c.siteObl("E1.P2-bounds", key, in.Pos(), f, b, g, env, "0 <= index < len proved from dominating branch facts / definitions", "index not proved within bounds: "+instrText(in))
}

func (c *Ctx) sliceSite(f *ssa.Function, b *ssa.BasicBlock, x *ssa.Slice, env *e1env) {
	key := siteKey(f, "P2", x)
	if x.Low == nil && x.High == nil && x.Max == nil {
		c.okTriv("E1.P2-bounds", key, x.Pos(), "full slice x[:]")
		return
	}
	_, isStr := x.X.Type().Underlying().(*types.Basic)
	_, isArr := arrayLen(x.X.Type())
	g := siteGoal{desc: "0 <= lo <= hi <= cap", build: func(p *proverCtx) []*linexp {
		var goals []*linexp
		lenX := p.varFor(lvar{v: x.X, kind: 'l'})
		limit := lenX
		if !isStr && !isArr {
			limit = p.varFor(lvar{v: x.X, kind: 'c'})
		}
		var lo, hi *linexp
		if x.Low != nil {
			lo = p.lin(x.Low)
			goals = append(goals, lo)
		} else {
			lo = linConst(0)
		}
		if x.High != nil {
			hi = p.lin(x.High)
			goals = append(goals, limit.sub(hi))
			goals = append(goals, hi.sub(lo))
		} else {
			goals = append(goals, lenX.sub(lo))
		}
		if x.Max != nil {
			mx := p.lin(x.Max)
			goals = append(goals, limit.sub(mx))
			if x.High != nil {
				goals = append(goals, mx.sub(hi))
			}
		}
		return goals
	}}
	c.siteObl("E1.P2-bounds", key, x.Pos(), f, b, g, env, "0 <= lo <= hi <= cap proved from dominating branch facts / definitions", "slice bounds not proved: "+instrText(x))
}

const allocLimit = 1 << 24

func (c *Ctx) makeSite(f *ssa.Function, b *ssa.BasicBlock, x *ssa.MakeSlice, env *e1env) {
	_, lc := constInt(x.Len)
	_, cc := constInt(x.Cap)
	if lc && cc {
		return
	}
	key := siteKey(f, "P4", x)
	g := siteGoal{desc: "0 <= size <= 2^24 or <= size of an in-memory object", build: func(p *proverCtx) []*linexp {
		var goals []*linexp
		for _, v := range []ssa.Value{x.Len, x.Cap} {
			if _, ok := constInt(v); ok {
				continue
			}
			e := p.lin(v)
			goals = append(goals, e) // >= 0 (negative size panics)
			if onlyLenVars(e) {
				continue
			}
			if p.prove(e.scale(-1).addConst(allocLimit)) {
				continue
			}
			// bounded by 64 * the length of some existing slice/string?
			bounded := false
			var lens []lvar
			for lv := range p.seenVar {
				if lv.kind == 'l' || lv.kind == 'L' {
					lens = append(lens, lv)
				}
			}
			sort.Slice(lens, func(i, j int) bool { return lvarKey(lens[i]) < lvarKey(lens[j]) })
			for _, lv := range lens {
				if p.prove(linVar(lv).scale(64).sub(e)) {
					bounded = true
					break
				}
			}
			if !bounded {
				goals = append(goals, e.scale(-1).addConst(allocLimit))
			}
		}
		return goals
	}}
	c.siteObl("E1.P4-alloc", key, x.Pos(), f, b, g, env, "allocation size is non-negative and bounded by a constant or by the size of an existing object", "allocation sized by a value not bounded by a constant or by the input length: "+instrText(x))
}

// onlyLenVars: expression is a small non-negative combination of len()/cap() of existing objects plus a constant.
func onlyLenVars(e *linexp) bool {
	for v, co := range e.co {
		if v.kind != 'l' && v.kind != 'c' && v.kind != 'L' && v.kind != 'C' {
			return false
		}
		if co.Sign() < 0 {
			continue
		}
		if co.Cmp(ratInt(64)) > 0 {
			return false
		}
	}
	return true
}

// library preconditions (P7)
func (c *Ctx) libPrecond(f *ssa.Function, b *ssa.BasicBlock, x *ssa.Call, env *e1env) {
	q := callQName(&x.Call)
	var need int64
	argIdx := 0
	exact := false
	switch q {
	case "encoding/binary.littleEndian.Uint16", "encoding/binary.bigEndian.Uint16", "encoding/binary.littleEndian.PutUint16", "encoding/binary.bigEndian.PutUint16":
		need = 2
	case "encoding/binary.littleEndian.Uint32", "encoding/binary.bigEndian.Uint32", "encoding/binary.littleEndian.PutUint32", "encoding/binary.bigEndian.PutUint32":
		need = 4
	case "encoding/binary.littleEndian.Uint64", "encoding/binary.bigEndian.Uint64", "encoding/binary.littleEndian.PutUint64", "encoding/binary.bigEndian.PutUint64":
		need = 8
	case "crypto/ed25519.Verify":
		need, exact = 32, true
	case "crypto/ed25519.Sign":
		need, exact = 64, true
	case "crypto/ed25519.NewKeyFromSeed":
		need, exact = 32, true
	case "math/big.Int.FillBytes":
		// panics when the absolute value does not fit the buffer: 8*len(buf) >= x.BitLen(), with BitLen() of the
		// same value tested on the way here
		key := siteKey(f, "P7", x) + " value fits buffer"
		recv, buf := x.Call.Args[0], x.Call.Args[1]
		var bitLen ssa.Value
		allInstrs(f, func(bb *ssa.BasicBlock, in ssa.Instruction) {
			if cl, ok := in.(*ssa.Call); ok && callQName(&cl.Call) == "math/big.Int.BitLen" && cl.Call.Args[0] == recv && bb.Dominates(b) {
				bitLen = cl
			}
		})
		g := siteGoal{desc: "8*len(buf) >= x.BitLen()", build: func(p *proverCtx) []*linexp {
			if bitLen == nil {
				return []*linexp{linConst(-1)}
			}
			return []*linexp{p.varFor(lvar{v: buf, kind: 'l'}).scale(8).sub(p.lin(bitLen))}
		}}
		c.siteObl("E1.P7-libpre", key, x.Pos(), f, b, g, env, "the value's bit length is bounded by the buffer size on the way to the call", "(*big.Int).FillBytes panics when the value does not fit the buffer; no test of BitLen() of the same value against the buffer size reaches this call")
		return
	case "strings.Repeat", "bytes.Repeat":
		key := siteKey(f, "P7", x) + " count>=0"
		g := siteGoal{desc: "Repeat count >= 0", build: func(p *proverCtx) []*linexp { return []*linexp{p.lin(x.Call.Args[1])} }}
		c.siteObl("E1.P7-libpre", key, x.Pos(), f, b, g, env, "Repeat count proved non-negative", "strings.Repeat panics on a negative count; not proved at this call")
		return
	default:
		return
	}
	args := argsOf(x)
	if argIdx >= len(args) {
		return
	}
	arg := args[argIdx]
	rel := map[bool]string{true: "==", false: ">="}[exact]
	key := siteKey(f, "P7", x) + fmt.Sprintf(" len(arg%d)%s%d", argIdx, rel, need)
	g := siteGoal{desc: "len(arg) precondition", build: func(p *proverCtx) []*linexp {
		l := p.varFor(lvar{v: arg, kind: 'l'})
		gs := []*linexp{l.addConst(-need)}
		if exact {
			gs = append(gs, l.scale(-1).addConst(need))
		}
		return gs
	}}
	c.siteObl("E1.P7-libpre", key, x.Pos(), f, b, g, env, fmt.Sprintf("len(argument) %s %d proved", rel, need),
		fmt.Sprintf("%s panics unless len(argument) %s %d; not proved at this call", shortQ(q), rel, need))
}

func reachOrigin(reach map[*ssa.Function]bool, f *ssa.Function) bool {
	if reach[f] {
		return true
	}
	for g := range reach {
		if origin(g) == f {
			return true
		}
	}
	return false
}

func isSliceLike(t types.Type) bool {
	switch u := t.Underlying().(type) {
	case *types.Slice:
		return true
	case *types.Basic:
		return u.Info()&types.IsString != 0
	}
	return false
}

// isInternalFunc: cannot be called by a user of the library with arbitrary arguments.
func isInternalFunc(f *ssa.Function) bool {
	if f.Parent() != nil {
		return false // closures: call sites are not tracked
	}
	o, ok := f.Object().(*types.Func)
	if !ok {
		return false
	}
	if !o.Exported() {
		return true
	}
	sig := o.Type().(*types.Signature)
	if sig.Recv() != nil {
		t := sig.Recv().Type()
		if p, ok := t.(*types.Pointer); ok {
			t = p.Elem()
		}
		if n, ok := t.(*types.Named); ok && !n.Obj().Exported() {
			return true
		}
	}
	return false
}

// ---------------------------------------------------------------------------
// P5 recursion

func (c *Ctx) recursion(cfg e1cfg, reach map[*ssa.Function]bool) {
	cg := c.CG()
	// graph over canonical (origin) functions
	nodes := canonical(reach)
	idx := map[*ssa.Function]int{}
	for i, f := range nodes {
		idx[f] = i
	}
	adj := make([][]int, len(nodes))
	for f := range reach {
		n := cg.Nodes[f]
		if n == nil {
			continue
		}
		from, ok := idx[origin(f)]
		if !ok {
			continue
		}
		for _, e := range n.Out {
			if to, ok := idx[origin(e.Callee.Func)]; ok && reach[e.Callee.Func] {
				adj[from] = append(adj[from], to)
			}
		}
		for _, a := range f.AnonFuncs {
			if to, ok := idx[origin(a)]; ok {
				adj[from] = append(adj[from], to)
			}
		}
	}
	// Tarjan SCC
	index := 0
	indices := make([]int, len(nodes))
	low := make([]int, len(nodes))
	on := make([]bool, len(nodes))
	for i := range indices {
		indices[i] = -1
	}
	var stack []int
	var sccs [][]int
	var strong func(v int)
	strong = func(v int) {
		indices[v] = index
		low[v] = index
		index++
		stack = append(stack, v)
		on[v] = true
		for _, w := range adj[v] {
			if indices[w] < 0 {
				strong(w)
				if low[w] < low[v] {
					low[v] = low[w]
				}
			} else if on[w] && indices[w] < low[v] {
				low[v] = indices[w]
			}
		}
		if low[v] == indices[v] {
			var comp []int
			for {
				w := stack[len(stack)-1]
				stack = stack[:len(stack)-1]
				on[w] = false
				comp = append(comp, w)
				if w == v {
					break
				}
			}
			sccs = append(sccs, comp)
		}
	}
	for v := range nodes {
		if indices[v] < 0 {
			strong(v)
		}
	}
	for _, comp := range sccs {
		self := false
		if len(comp) == 1 {
			for _, w := range adj[comp[0]] {
				if w == comp[0] {
					self = true
				}
			}
			if !self {
				continue
			}
		}
		var names []string
		anyIn := false
		var fs []*ssa.Function
		for _, v := range comp {
			names = append(names, fnName(nodes[v]))
			fs = append(fs, nodes[v])
			if cfg.pkgs[pkgRel(nodes[v])] {
				anyIn = true
			}
		}
		if !anyIn {
			continue
		}
		sort.Strings(names)
		key := "recursion{" + strings.Join(names, ",") + "}"
		if len(key) > 300 {
			key = key[:300] + "…"
		}
		pos := fs[0].Pos()
		if why := c.depthGuarded(fs); why != "" {
			c.ok("E1.P5-recursion", key, pos, why)
		} else if ex, ok := matchExc(cfg.excP5, names); ok {
			if miss := c.guardsMissing(ex, nil, nil); miss != "" {
				c.bad("E1.P5-recursion", key, pos, "recursive cycle "+strings.Join(names, " -> ")+": the depth bound it relies on is no longer present: "+miss)
			} else {
				why := ex.why
				for _, g := range ex.relies {
					why += " [relies on guard " + g.cond + " in " + g.fn + ": present]"
				}
				c.exc("E1.P5-recursion", key, pos, why)
			}
		} else {
			c.bad("E1.P5-recursion", key, pos, "recursive cycle on a path from an untrusted-input entry point without a recognised depth bound: "+strings.Join(names, " -> "))
		}
	}
}

// matchExc: an exception applies when its key (a function name) is a member of the cycle.
func matchExc(exc map[string]excEntry, names []string) (excEntry, bool) {
	for _, n := range names {
		if ex, ok := exc[n]; ok {
			return ex, true
		}
	}
	return excEntry{}, false
}

// depthGuarded recognises the depth-parameter idiom: some function of the cycle has an int
// parameter d such that (a) every recursive call into the cycle made by that function passes
// d+const(>0) for it and (b) each such call is dominated by the passing edge of a comparison of
// d with a bound whose failing edge leaves the function.
func (c *Ctx) depthGuarded(fs []*ssa.Function) string {
	inCycle := map[*ssa.Function]bool{}
	for _, f := range fs {
		inCycle[f] = true
	}
	for _, f := range fs {
		for pi, prm := range f.Params {
			if !isInteger(prm.Type()) {
				continue
			}
			okAll, n := true, 0
			allInstrs(f, func(b *ssa.BasicBlock, i ssa.Instruction) {
				call, ok := i.(ssa.CallInstruction)
				if !ok {
					return
				}
				sc := call.Common().StaticCallee()
				if sc == nil || origin(sc) != f {
					return
				}
				n++
				args := call.Common().Args
				if pi >= len(args) {
					okAll = false
					return
				}
				bo, ok := args[pi].(*ssa.BinOp)
				if !ok || bo.Op != token.ADD || bo.X != prm {
					okAll = false
					return
				}
				if k, ok := constInt(bo.Y); !ok || k <= 0 {
					okAll = false
					return
				}
				// dominated by a bound on prm
				_, hi, _, hasHi := constBounds(f, b, func(v ssa.Value) bool { return v == prm })
				if !hasHi {
					_ = hi
					okAll = false
				}
			})
			if okAll && n > 0 && len(fs) == 1 {
				return fmt.Sprintf("depth parameter %q of %s is bounded by a constant before each of the %d recursive call(s), which pass %s+k", prm.Name(), fnName(f), n, prm.Name())
			}
		}
	}
	return ""
}

// dependsOnParams: do the goal's variables (transitively through shared facts) include a
// parameter of the frontier function (its value, or its len/cap)? Only then can the calling
// context contribute anything.
func dependsOnParams(p *proverCtx, g siteGoal, frontier *ssa.Function) bool {
	rel := map[lvar]bool{}
	for _, gl := range g.build(p) {
		for v := range gl.co {
			rel[v] = true
		}
	}
	for changed, rounds := true, 0; changed && rounds < 6; rounds++ {
		changed = false
		for _, ft := range p.facts {
			hit := false
			for v := range ft.e.co {
				if rel[v] {
					hit = true
				}
			}
			if hit {
				for v := range ft.e.co {
					if !rel[v] {
						rel[v] = true
						changed = true
					}
				}
			}
		}
	}
	for v := range rel {
		if prm, ok := v.v.(*ssa.Parameter); ok && prm.Parent() == frontier {
			return true
		}
	}
	return false
}

// forwardLinks (P6): wherever a parsed cell is linked to a referenced cell by indices into the
// same cell list -- a store of list[r] into list[i].refs[k] -- the prover must show r > i
// (strictly forward, hence acyclic) and r < len(list).
func (c *Ctx) forwardLinks(f *ssa.Function, env *e1env) int {
	n := 0
	allInstrs(f, func(b *ssa.BasicBlock, in ssa.Instruction) {
		st, ok := in.(*ssa.Store)
		if !ok {
			return
		}
		// value: *IndexAddr(list, r)
		ld, ok := st.Val.(*ssa.UnOp)
		if !ok || ld.Op != token.MUL {
			return
		}
		src, ok := ld.X.(*ssa.IndexAddr)
		if !ok {
			return
		}
		// address: IndexAddr(FieldAddr(*IndexAddr(list, i), refs), k)
		dst, ok := st.Addr.(*ssa.IndexAddr)
		if !ok {
			return
		}
		fa, ok := dst.X.(*ssa.FieldAddr)
		if !ok {
			return
		}
		_, fname, _ := fieldOf(fa)
		if fname != "refs" {
			return
		}
		ownerLd, ok := fa.X.(*ssa.UnOp)
		if !ok {
			return
		}
		owner, ok := ownerLd.X.(*ssa.IndexAddr)
		if !ok || owner.X != src.X {
			return
		}
		n++
		key := fnName(f) + " P6 link list[i].refs[k] = list[r]"
		g := siteGoal{desc: "r > i", build: func(p *proverCtx) []*linexp {
			r, i := p.lin(src.Index), p.lin(owner.Index)
			return []*linexp{r.sub(i).addConst(-1), p.varFor(lvar{v: src.X, kind: 'l'}).sub(r).addConst(-1)}
		}}
		c.siteObl("E1.P6-forward-refs", key, st.Pos(), f, b, g, env, "referenced index proved strictly greater than the referring index and below the list length: parsed cells form an acyclic graph", "a parsed cell can reference itself or an earlier cell (cyclic structure: hashing/printing would not terminate)")
	})
	return n
}

// condMatches: the branch condition has the shape the exception table names - modulo local names and
// unexported field names, and modulo the spelling of the comparison: a >= b, b <= a, !(a < b) and the
// same test with its branches swapped (a < b) are one guard. Which edge rejects is established
// separately (rejects / dominance), so the polarity of the spelling carries no information here.
func condMatches(cond ssa.Value, want string) bool {
	ok, _ := condMatchesPol(cond, want)
	return ok
}

// condMatchesPol: as condMatches, and whether the match is with the NEGATION of the condition (the code tests
// !(want)): a guard "reject when W" written as `if !W { go on } else { reject }` rejects on the false edge.
func condMatchesPol(cond ssa.Value, want string) (bool, bool) {
	forms := []string{shape(cond, 3)}
	negated := []bool{false}
	if bo, ok := cond.(*ssa.BinOp); ok {
		flip := map[token.Token]token.Token{token.LSS: token.GTR, token.GTR: token.LSS, token.LEQ: token.GEQ, token.GEQ: token.LEQ, token.EQL: token.EQL, token.NEQ: token.NEQ}
		neg := map[token.Token]token.Token{token.LSS: token.GEQ, token.GEQ: token.LSS, token.GTR: token.LEQ, token.LEQ: token.GTR, token.EQL: token.NEQ, token.NEQ: token.EQL}
		if _, ok := flip[bo.Op]; ok {
			x, y := shape(bo.X, 2), shape(bo.Y, 2)
			forms = append(forms,
				"("+y+flip[bo.Op].String()+x+")",
				"("+x+neg[bo.Op].String()+y+")",
				"("+y+flip[neg[bo.Op]].String()+x+")")
			negated = append(negated, false, true, true)
		}
	}
	for i, f := range forms {
		if f == want || eraseNames(f) == eraseNames(want) || eraseNamesAndPrivateFields(f) == eraseNamesAndPrivateFields(want) || eraseLoose(f) == eraseLoose(want) || wildMatch(eraseLoose(want), eraseLoose(f)) {
			return true, negated[i]
		}
	}
	return false, false
}

// rejectsOn: successor i of the If block returns a definite failure.
func rejectsOn(f *ssa.Function, b *ssa.BasicBlock, i int) bool {
	if i >= len(b.Succs) {
		return false
	}
	s := b.Succs[i]
	if len(s.Instrs) == 0 {
		return false
	}
	if r, ok := s.Instrs[len(s.Instrs)-1].(*ssa.Return); ok && len(r.Results) > 0 {
		return isFailureValue(f, retVal(r, len(r.Results)-1), s)
	}
	return false
}

// soleCaller: f is an unexported helper all of whose static call sites lie in one other function.
func soleCaller(f *ssa.Function) *ssa.Function {
	h := plainHelper(f)
	if h == nil {
		return nil
	}
	var caller *ssa.Function
	for _, site := range gCallSites[h] {
		p := site.Parent()
		for p.Parent() != nil {
			p = p.Parent()
		}
		p = origin(p)
		if p == h {
			continue
		}
		if caller != nil && caller != p {
			return nil
		}
		caller = p
	}
	return caller
}

// wildMatch: a guard shape may leave one operand open ("…"): the quantity there is whatever the
// function computes (it is the same SSA value the guarded site uses); the rest of the comparison -
// what it is compared with, and how - must match.
func wildMatch(pattern, s string) bool {
	if !strings.Contains(pattern, "…") {
		return false
	}
	parts := strings.Split(pattern, "…")
	re := ""
	for i, p := range parts {
		if i > 0 {
			re += ".+"
		}
		re += regexp.QuoteMeta(p)
	}
	ok, err := regexp.MatchString("^"+re+"$", s)
	return err == nil && ok
}

// linGuardMatches: a guard stated by what it compares, not by how it is spelt: "lin:c1,c2,...;k"
// means the two sides of the comparison differ by a linear form with the coefficient multiset
// {c1, c2, ...} and the constant k, up to an overall sign (len < 8*(2+34*n), 8*(2+n*34) > len,
// (2+34*n)<<3 > len are one guard; a changed factor or constant is another).
func (c *Ctx) linGuardMatches(f *ssa.Function, b *ssa.BasicBlock, cond ssa.Value, want string) bool {
	if !strings.HasPrefix(want, "lin:") {
		return false
	}
	bo, ok := cond.(*ssa.BinOp)
	if !ok {
		return false
	}
	switch bo.Op {
	case token.LSS, token.GTR, token.LEQ, token.GEQ:
	default:
		return false
	}
	parts := strings.Split(strings.TrimPrefix(want, "lin:"), ";")
	if len(parts) != 2 {
		return false
	}
	var coefs []int64
	for _, s := range strings.Split(parts[0], ",") {
		var v int64
		fmt.Sscan(s, &v)
		coefs = append(coefs, v)
	}
	var k int64
	fmt.Sscan(parts[1], &k)
	p := c.newProver(f, b)
	e := p.lin(bo.X).sub(p.lin(bo.Y))
	signs := []int64{1, -1}
	// The reference is "reject when form < 0" over integers. When exactly one edge of the test fails directly, the
	// operator and the failing edge fix the form: X<Y is D<0, X<=Y is D-1<0, X>Y is -D<0, X>=Y is -D-1<0 (D = X-Y);
	// failing on the false edge means "reject when not(E<0)", i.e. -E-1 < 0. `len <= limit` for `len < limit` is
	// then a different guard (it also rejects the exact length), as is the same test with the branches swapped.
	if t, fl := rejectsOn(f, b, 0), rejectsOn(f, b, 1); t != fl {
		switch bo.Op {
		case token.LEQ:
			e = e.addConst(-1)
		case token.GTR:
			e = e.scale(-1)
		case token.GEQ:
			e = e.scale(-1).addConst(-1)
		}
		if fl {
			e = e.scale(-1).addConst(-1)
		}
		signs = []int64{1}
	}
	for _, sign := range signs {
		if e.k.Cmp(ratInt(sign*k)) != 0 || len(e.co) != len(coefs) {
			continue
		}
		left := append([]int64{}, coefs...)
		okAll := true
		for _, co := range e.co {
			hit := -1
			for i, w := range left {
				if co.Cmp(ratInt(sign*w)) == 0 {
					hit = i
					break
				}
			}
			if hit < 0 {
				okAll = false
				break
			}
			left = append(left[:hit], left[hit+1:]...)
		}
		if okAll {
			return true
		}
	}
	return false
}
