package main

import (
	"fmt"
	"go/constant"
	"go/token"
	"go/types"
	"strings"

	"golang.org/x/tools/go/ssa"
)

// Rules added after the one-token mutation battery (DESIGN §8.10): each closes a family of
// surviving mutants that break C01/C07 on inputs the repository's tests never build.

// globalBytesHex: the bytes of a package-level []byte literal, as hex.
func (c *Ctx) globalBytesHex(rel string, g *ssa.Global) string {
	p := c.pkg(rel)
	if p == nil || g == nil {
		return ""
	}
	s := ""
	for _, f := range p.Syntax {
		for _, d := range f.Decls {
			for _, b := range literalInts(p, d, g.Name()) {
				s += fmt.Sprintf("%02x", b)
			}
		}
	}
	return s
}

// bocPrefixFlags: the two "lean" magic prefixes of block.tlb have no flags byte; what the generic
// prefix says with bits 7 and 6 they say by their constructor:
//
//	serialized_boc_idx#68ff65f3        index present, no CRC
//	serialized_boc_idx_crc32c#acc3a728 index present, CRC present
//
// The reader merges the three header variants into one set of booleans; the value merged in on
// the branch taken for a lean prefix must be the constant the constructor implies. The booleans
// are found by what they guard (index reading / CRC comparison), the branches by the prefix
// constant compared on them - not by any name.
func (c *Ctx) bocPrefixFlags() {
	const R = "E11.prefix-flags"
	r := c.mustFn(R, "boc", "parseBocHeader")
	if r == nil {
		return
	}
	want := map[string][2]bool{"68ff65f3": {true, false}, "acc3a728": {true, true}}
	fromMask := func(v ssa.Value, k int64) bool {
		return derivesFrom(v, func(x ssa.Value) bool {
			bo, ok := x.(*ssa.BinOp)
			if !ok || bo.Op != token.AND {
				return false
			}
			kk, ok := constInt(bo.Y)
			return ok && kk == k
		}, false)
	}
	// role phis: conditions that guard something and merge a mask test with other values
	roles := map[int64]*ssa.Phi{}
	for _, b := range r.Blocks {
		iff := lastIf(b)
		if iff == nil {
			continue
		}
		ph, ok := iff.Cond.(*ssa.Phi)
		if !ok {
			continue
		}
		for _, k := range []int64{128, 64} {
			if fromMask(ph, k) {
				roles[k] = ph
			}
		}
	}
	// the magic a predecessor block was reached under
	// eqMagic: v is bytes.Equal(x, G) with G one of the magic prefixes: the prefix and the compared value
	eqMagic := func(v ssa.Value) (string, ssa.Value) {
		cl := callOf(v)
		if cl == nil {
			return "", nil
		}
		q := callQName(&cl.Call)
		if q != "bytes.Equal" && q != "crypto/subtle.ConstantTimeCompare" {
			return "", nil
		}
		for i, a := range cl.Call.Args {
			if u, ok := a.(*ssa.UnOp); ok && u.Op == token.MUL {
				if g, ok := u.X.(*ssa.Global); ok {
					if h := c.globalBytesHex("boc", g); h != "" && len(cl.Call.Args) == 2 {
						return h, cl.Call.Args[1-i]
					}
				}
			}
		}
		return "", nil
	}
	magicOf := func(b *ssa.BasicBlock) string {
		for _, ft := range factsAt(r, b) {
			if !ft.Truth {
				continue
			}
			cl := callOf(ft.Cond)
			if cl == nil {
				continue
			}
			isEq := false
			for _, q := range []string{"bytes.Equal", "crypto/subtle.ConstantTimeCompare"} {
				if callQName(&cl.Call) == q {
					isEq = true
				}
			}
			if !isEq {
				continue
			}
			for _, a := range cl.Call.Args {
				if u, ok := a.(*ssa.UnOp); ok && u.Op == token.MUL {
					if g, ok := u.X.(*ssa.Global); ok {
						if h := c.globalBytesHex("boc", g); h != "" {
							return h
						}
					}
				}
			}
		}
		// the branch block itself may be the successor of the comparison
		return ""
	}
	n := 0
	for ri, k := range []int64{128, 64} {
		ph := roles[k]
		name := []string{"index-present", "crc-present"}[ri]
		if ph == nil {
			c.bad(R, name+" flag found", r.Pos(), "parseBocHeader: no merged boolean derived from flags&"+fmt.Sprint(k)+" guards anything (the header variants are no longer merged the way the rule knows; undecided)")
			continue
		}
		for i, e := range ph.Edges {
			pred := ph.Block().Preds[i]
			// facts at the predecessor include the comparison that selected it (pred is the then-block)
			m := magicOf(pred)
			if m == "" && len(pred.Preds) > 1 {
				// one branch for several prefixes (case A, B:): entered from the true edge of each comparison; under
				// each prefix a flag may be the constant, or "the prefix equals P" - true for P, false for the others
				for _, pp := range pred.Preds {
					iff := lastIf(pp)
					if iff == nil || pp.Succs[0] != pred {
						continue
					}
					m2, cmpd := eqMagic(iff.Cond)
					w, lean := want[m2]
					if !lean {
						continue
					}
					n++
					v, known := constBool(e)
					if !known {
						if m3, cmpd3 := eqMagic(e); m3 != "" && cmpd3 == cmpd {
							v, known = m3 == m2, true
						}
					}
					c.check(known && v == w[ri], R, name+" under prefix "+m2, ph.Pos(), fmt.Sprintf("%v under this prefix, as the constructor implies", w[ri]), fmt.Sprintf("parseBocHeader: under magic prefix %s the %s flag is %s, but the constructor of block.tlb implies %v: a bag-of-cells written by another implementation with this prefix is misread (index taken for cell data / CRC trailer not checked or demanded where there is none)", m2, name, shape(e, 2), w[ri]))
				}
				continue
			}
			w, lean := want[m]
			if !lean {
				continue
			}
			n++
			v, isConst := constBool(e)
			c.check(isConst && v == w[ri], R, name+" under prefix "+m, ph.Pos(), fmt.Sprintf("constant %v, as the constructor implies", w[ri]), fmt.Sprintf("parseBocHeader: under magic prefix %s the %s flag is %s, but the constructor of block.tlb implies %v: a bag-of-cells written by another implementation with this prefix is misread (index taken for cell data / CRC trailer not checked or demanded where there is none)", m, name, shape(e, 2), w[ri]))
		}
	}
	if n < 4 {
		c.bad(R, "both lean prefixes set both flags", r.Pos(), fmt.Sprintf("only %d of 4 (prefix, flag) assignments found on the lean-prefix branches of parseBocHeader", n))
	}
}

// constNum: numeric constant (int or float) as float64.
func constNum(v ssa.Value) (float64, bool) {
	cst, ok := v.(*ssa.Const)
	if !ok || cst.Value == nil {
		return 0, false
	}
	switch cst.Value.Kind() {
	case constant.Int, constant.Float:
		f, _ := constant.Float64Val(constant.ToFloat(cst.Value))
		return f, true
	}
	return 0, false
}

// bocWidthCeil: a field width in BYTES is computed from a bit length as ceil(bits/8). The rule
// follows the value from the width written into the header back to bits.Len and demands that the
// only scaling on the way is a division by 8 (or a shift by 3) rounded up (math.Ceil, or +7 before
// an integer division). With any other divisor the width is one byte short from 2^8 (or 2^16,
// 2^24) cells on, and every reference index is truncated.
func (c *Ctx) bocWidthCeil() {
	const R = "E5.boc-header"
	w := c.mustFn(R, "boc", "bagOfCells.serializeBoc")
	if w == nil {
		return
	}
	for _, k := range []int64{3, 8} {
		var size ssa.Value
		allInstrs(w, func(_ *ssa.BasicBlock, in ssa.Instruction) {
			if cl, ok := in.(*ssa.Call); ok && callQName(&cl.Call) == bocPath+".BitString.WriteInt" {
				if kk, ok := constInt(cl.Call.Args[2]); ok && kk == k {
					size = stripConv(cl.Call.Args[1])
				}
			}
		})
		name := map[int64]string{3: "SIZE", 8: "OFF"}[k]
		if size == nil {
			continue // reported by bocHeaderAgreement
		}
		// collect the arithmetic between bits.Len and the width
		var divs []string
		ceil, plus7, sawLen := false, false, false
		seen := map[ssa.Value]bool{}
		var walk func(v ssa.Value, cx *vctx, d int)
		walk = func(v ssa.Value, cx *vctx, d int) {
			// a parameter of a helper entered through its result stands for the argument of that call
			v, cx = resolveVal(v, cx)
			if v == nil || seen[v] || d > 30 {
				return
			}
			seen[v] = true
			switch x := v.(type) {
			case *ssa.Convert:
				walk(x.X, cx, d+1)
			case *ssa.ChangeType:
				walk(x.X, cx, d+1)
			case *ssa.Phi:
				for _, e := range x.Edges {
					walk(e, cx, d+1)
				}
			case *ssa.BinOp:
				switch x.Op {
				case token.QUO:
					if f, ok := constNum(x.Y); ok {
						divs = append(divs, fmt.Sprintf("/%g", f))
					} else {
						divs = append(divs, "/?")
					}
					walk(x.X, cx, d+1)
				case token.SHR:
					if f, ok := constNum(x.Y); ok {
						divs = append(divs, fmt.Sprintf("/%g", float64(int64(1)<<uint(f))))
					} else {
						divs = append(divs, "/?")
					}
					walk(x.X, cx, d+1)
				case token.ADD:
					if f, ok := constNum(x.Y); ok && f == 7 {
						plus7 = true
					}
					if f, ok := constNum(x.X); ok && f == 7 {
						plus7 = true
					}
					walk(x.X, cx, d+1)
					walk(x.Y, cx, d+1)
				case token.MUL, token.REM, token.SUB:
					divs = append(divs, x.Op.String()+"?")
					walk(x.X, cx, d+1)
					walk(x.Y, cx, d+1)
				default:
					walk(x.X, cx, d+1)
					walk(x.Y, cx, d+1)
				}
			case *ssa.Call:
				switch q := callQName(&x.Call); q {
				case "math.Ceil":
					ceil = true
					walk(x.Call.Args[0], cx, d+1)
				case "math.Max", "math.Min", "math.Floor":
					for _, a := range x.Call.Args {
						walk(a, cx, d+1)
					}
				case "math/bits.Len", "math/bits.Len64", "math/bits.Len32":
					sawLen = true
				default:
					if bi, ok := x.Call.Value.(*ssa.Builtin); ok && (bi.Name() == "max" || bi.Name() == "min") {
						for _, a := range x.Call.Args {
							walk(a, cx, d+1)
						}
					} else if h := plainHelper(x.Call.StaticCallee()); h != nil && h.Signature.Results().Len() == 1 {
						// the rounding arithmetic extracted into a helper: follow what the helper returns
						for _, r := range helperReturns(x, cx, nil) {
							walk(r.v, r.cx, d+1)
						}
					}
				}
			}
		}
		walk(size, nil, 0)
		if !sawLen {
			continue // the width does not come from a bit length at all: bocHeaderAgreement's width-source rule reports that
		}
		okv := len(divs) == 1 && divs[0] == "/8" && (ceil || plus7)
		c.check(okv, R, name+" bytes = ceil(bit length / 8)", w.Pos(), "bits.Len(...) scaled by exactly /8, rounded up", fmt.Sprintf("serializeBoc derives the %s width from bits.Len through %v (rounded up: %v); bytes are 8 bits: the width must be ceil(bits/8), otherwise it is one byte short once the value needs more than 8 bits and every field written with it is truncated", name, divs, ceil || plus7))
	}
}

// parserDepthBound: the parser's protection against stack exhaustion in the recursive consumers
// (hashing, printing, re-serialising) is the test depth > maxDepth - which is only worth something
// if the depth it tests is the real one. The rule finds that test by its error (ErrDepthIsTooBig),
// takes the slice and index it reads, and demands that for every linked child r
//
//	depths[i] becomes at least depths[r] + k, k >= 1
//
// i.e. a store depths[i] = depths[r] + k that is either unconditional (max builtin) or guarded by
// a comparison of exactly these two elements that is TRUE when they are equal (>=, or +1 >): with
// a strict comparison a chain of cells keeps depth 0 however long it is.
func (c *Ctx) parserDepthBound() {
	const R = "E1.P5-depth-compute"
	entry := c.mustFn(R, "boc", "DeserializeBoc")
	if entry == nil {
		return
	}
	// the limit test: in DeserializeBoc, or in the unexported helper that holds its linking loop
	f := entry
	var dIA *ssa.IndexAddr
	var acc *ssa.Phi
	for _, g := range c.helperClosure(entry, 2, func(h *ssa.Function) bool { return plainHelper(h) == nil }) {
		for _, b := range g.Blocks {
			iff := lastIf(b)
			if iff == nil {
				continue
			}
			bo, ok := iff.Cond.(*ssa.BinOp)
			if !ok {
				continue
			}
			hit := false
			for _, s := range b.Succs {
				if returnsSentinel(s, "ErrDepthIsTooBig") {
					hit = true
				}
			}
			if !hit {
				continue
			}
			for _, side := range []ssa.Value{bo.X, bo.Y} {
				if u, ok := stripConv(side).(*ssa.UnOp); ok && u.Op == token.MUL {
					if ia, ok := u.X.(*ssa.IndexAddr); ok {
						dIA = ia
						f = g
					}
				}
				// the depth accumulated in a local while the children are linked, and written to the cell's slot
				// of the depth slice: the test reads the local
				if ph, ok := stripConv(side).(*ssa.Phi); ok && inLoop(ph.Block()) {
					allInstrs(g, func(_ *ssa.BasicBlock, in ssa.Instruction) {
						if st, ok := in.(*ssa.Store); ok && stripConv(st.Val) == ssa.Value(ph) {
							if ia, ok := st.Addr.(*ssa.IndexAddr); ok {
								dIA, acc, f = ia, ph, g
							}
						}
					})
				}
			}
		}
		if dIA != nil {
			break
		}
	}
	if dIA == nil {
		c.bad(R, "depth limit reads a per-cell depth", f.Pos(), "DeserializeBoc: the ErrDepthIsTooBig test does not read an element of a depth slice (undecided)")
		return
	}
	D, I := dIA.X, dIA.Index
	elem := func(v ssa.Value) (idx ssa.Value, k int64, ok bool) {
		// load D[idx] (+ k)
		v = stripConv(v)
		if bo, isb := v.(*ssa.BinOp); isb && bo.Op == token.ADD {
			if kk, isk := constInt(bo.Y); isk {
				if ix, _, ok2 := func() (ssa.Value, int64, bool) {
					u, ok := stripConv(bo.X).(*ssa.UnOp)
					if !ok || u.Op != token.MUL {
						return nil, 0, false
					}
					ia, ok := u.X.(*ssa.IndexAddr)
					if !ok || ia.X != D {
						return nil, 0, false
					}
					return ia.Index, 0, true
				}(); ok2 {
					return ix, kk, true
				}
			}
			return nil, 0, false
		}
		u, isu := v.(*ssa.UnOp)
		if !isu || u.Op != token.MUL {
			return nil, 0, false
		}
		ia, isia := u.X.(*ssa.IndexAddr)
		if !isia || ia.X != D {
			return nil, 0, false
		}
		return ia.Index, 0, true
	}
	// the child index: the index with which the cell array element linked into refs is loaded
	children := map[ssa.Value]bool{}
	allInstrs(f, func(_ *ssa.BasicBlock, in ssa.Instruction) {
		st, ok := in.(*ssa.Store)
		if !ok {
			return
		}
		ia, ok := st.Addr.(*ssa.IndexAddr)
		if !ok {
			return
		}
		// the reference array of a cell: a struct field of array type (identified by type, not name)
		if fa, ok := ia.X.(*ssa.FieldAddr); !ok {
			return
		} else if pt, ok := fa.Type().Underlying().(*types.Pointer); !ok {
			return
		} else if _, ok := pt.Elem().Underlying().(*types.Array); !ok {
			return
		}
		if u, ok := st.Val.(*ssa.UnOp); ok && u.Op == token.MUL {
			if src, ok := u.X.(*ssa.IndexAddr); ok {
				children[src.Index] = true
			}
		}
	})
	if len(children) == 0 {
		c.bad(R, "child link found", f.Pos(), "DeserializeBoc: no store cellsArray[i].refs[k] = cellsArray[r] found (undecided)")
		return
	}
	found := false
	// the accumulator's phis (loop header and merge points)
	accSet := map[ssa.Value]bool{}
	if acc != nil {
		var grow func(p *ssa.Phi)
		grow = func(p *ssa.Phi) {
			if accSet[p] {
				return
			}
			accSet[p] = true
			for _, e := range p.Edges {
				if q, ok := stripConv(e).(*ssa.Phi); ok {
					grow(q)
				}
			}
		}
		grow(acc)
	}
	// term: a comparison operand as (parent depth | child depth) + k
	term := func(v ssa.Value, r ssa.Value) (parent bool, k int64, ok bool) {
		if accSet[stripConv(v)] {
			return true, 0, true
		}
		ix, kk, ok := elem(v)
		if !ok {
			return false, 0, false
		}
		if ix == I {
			return true, kk, true
		}
		if ix == r {
			return false, kk, true
		}
		return false, 0, false
	}
	var checkUpdate func(pos token.Pos, b *ssa.BasicBlock, r ssa.Value, k int64, viaMax bool)
	var pending []func()
	// accumulator form: every value that enters the accumulator is the cell's recorded depth (or zero), the
	// accumulator itself, or a child's depth + k taken under the same comparison
	for p := range accSet {
		ph := p.(*ssa.Phi)
		for ei, e := range ph.Edges {
			e = stripConv(e)
			if accSet[e] {
				continue
			}
			if _, isK := constInt(e); isK {
				continue
			}
			if ix, kk, ok := elem(e); ok {
				if ix == I && kk == 0 {
					continue
				}
				if children[ix] {
					pos, pb, r0, k0 := e.Pos(), ph.Block().Preds[ei], ix, kk
					pending = append(pending, func() { checkUpdate(pos, pb, r0, k0, false) })
					continue
				}
			}
			if cl := callOf(e); cl != nil {
				if bi, ok := cl.Call.Value.(*ssa.Builtin); ok && bi.Name() == "max" {
					okMax := false
					for _, a := range cl.Call.Args {
						if ix, kk, ok := elem(a); ok && children[ix] {
							okMax = true
							pos, pb, r0, k0 := e.Pos(), ph.Block().Preds[ei], ix, kk
							pending = append(pending, func() { checkUpdate(pos, pb, r0, k0, true) })
						}
					}
					if okMax {
						continue
					}
				}
			}
			c.bad(R, "depth accumulator takes only depths", e.Pos(), "DeserializeBoc: the local depth the limit tests also takes "+shape(e, 3)+", which is neither the cell's recorded depth nor a child's depth + k (undecided)")
		}
	}
	allInstrs(f, func(b *ssa.BasicBlock, in ssa.Instruction) {
		st, ok := in.(*ssa.Store)
		if !ok || acc != nil {
			return
		}
		ia, ok := st.Addr.(*ssa.IndexAddr)
		if !ok || ia.X != D || ia.Index != I {
			return
		}
		// value: D[r]+k or max(..., D[r]+k)
		cands := []ssa.Value{st.Val}
		viaMax := false
		if cl := callOf(st.Val); cl != nil {
			if bi, ok := cl.Call.Value.(*ssa.Builtin); ok && bi.Name() == "max" {
				cands = cl.Call.Args
				viaMax = true
			}
		}
		var r ssa.Value
		var k int64
		for _, cv := range cands {
			if ix, kk, ok := elem(cv); ok && children[ix] {
				r, k = ix, kk
			}
		}
		if r == nil {
			return
		}
		pending = append(pending, func() { checkUpdate(st.Pos(), b, r, k, viaMax) })
	})
	checkUpdate = func(stPos token.Pos, b *ssa.BasicBlock, r ssa.Value, k int64, viaMax bool) {
		st := posHolder{stPos}
		found = true
		c.check(k >= 1, R, "a parent is deeper than its child", st.Pos(), fmt.Sprintf("depths[i] = depths[r] + %d", k), fmt.Sprintf("DeserializeBoc: the depth of a cell is set to its child's depth + %d; it must grow by at least one per level, otherwise the maxDepth test never fires and a long chain of cells exhausts the stack of the recursive hasher/printer", k))
		if viaMax {
			c.ok(R, "depth is the maximum over the children", st.Pos(), "max builtin")
			return
		}
		// guards specific to the store (facts not shared with the block that links the child)
		okGuard, sawCmp := true, false
		desc := ""
		for _, ft := range factsAt(f, b) {
			bo, ok := ft.Cond.(*ssa.BinOp)
			if !ok {
				continue
			}
			lp, lk, ok1 := term(bo.X, r)
			rp, rk, ok2 := term(bo.Y, r)
			if !ok1 || !ok2 || lp == rp {
				continue
			}
			sawCmp = true
			// truth of the comparison when depths[r] == depths[i]
			var t bool
			switch bo.Op {
			case token.GEQ:
				t = lk >= rk
			case token.GTR:
				t = lk > rk
			case token.LEQ:
				t = lk <= rk
			case token.LSS:
				t = lk < rk
			case token.EQL:
				t = lk == rk
			case token.NEQ:
				t = lk != rk
			}
			if !ft.Truth {
				t = !t
			}
			// and it must compare in the right direction: true when the child is deeper
			// (child = parent + 5): evaluate with depths[r] = depths[i] + 5
			var lv, rv int64 = lk, rk
			if !lp {
				lv += 5
			} else {
				rv += 5
			}
			var t5 bool
			switch bo.Op {
			case token.GEQ:
				t5 = lv >= rv
			case token.GTR:
				t5 = lv > rv
			case token.LEQ:
				t5 = lv <= rv
			case token.LSS:
				t5 = lv < rv
			case token.EQL:
				t5 = lv == rv
			case token.NEQ:
				t5 = lv != rv
			}
			if !ft.Truth {
				t5 = !t5
			}
			if !t || !t5 {
				okGuard = false
				desc = shape(bo, 3)
			}
		}
		c.check(sawCmp && okGuard, R, "the update is taken whenever the child is at least as deep", st.Pos(), "guard true for depths[r] == depths[i] and for depths[r] > depths[i]", "DeserializeBoc: the depth update is "+map[bool]string{true: "guarded by " + desc + ", which is false when the child is exactly as deep as the depth recorded so far (or deeper)", false: "not guarded by a comparison of the two depths the rule can read"}[sawCmp]+": a chain of cells keeps depth 0, the maxDepth test never fires, and hashing or printing the result recurses as deep as the input is long")
	}
	for _, run := range pending {
		run()
	}
	if !found {
		c.bad(R, "depth of a cell is derived from its children", f.Pos(), "DeserializeBoc: no store depths[i] = depths[child] + k found for the slice the ErrDepthIsTooBig test reads: the limit tests a value that does not follow the tree")
	}
}

// visitMarkers: the serialiser's ordering pass walks a DAG recursively and stays linear only
// because every cell carries a phase marker (new / previsited / visited / allocated) that stops a
// second descent. A marker that is tested but never written (or written under another value than
// the one tested) disables the memo: the walk still terminates, but on a DAG with shared subtrees
// it takes time exponential in the depth. Rule: in the recursive ordering function every negative
// constant a marker field is compared with is one that is stored into that field - there, or as
// the field's initial value in the literal that creates the record.
func (c *Ctx) visitMarkers() {
	const R = "E1.P5-memo"
	f := c.mustFn(R, "boc", "bagOfCells.revisit")
	if f == nil {
		return
	}
	type fk struct {
		t   string
		fld int
	}
	keyOf := func(fa *ssa.FieldAddr) fk { return fk{fa.X.Type().String(), fa.Field} }
	tested := map[fk]map[int64]token.Pos{}
	stored := map[fk]map[int64]bool{}
	allInstrs(f, func(_ *ssa.BasicBlock, in ssa.Instruction) {
		bo, ok := in.(*ssa.BinOp)
		if !ok || (bo.Op != token.EQL && bo.Op != token.NEQ) {
			return
		}
		for _, p := range [][2]ssa.Value{{bo.X, bo.Y}, {bo.Y, bo.X}} {
			u, ok := p[0].(*ssa.UnOp)
			if !ok || u.Op != token.MUL {
				continue
			}
			fa, ok := u.X.(*ssa.FieldAddr)
			if !ok {
				continue
			}
			if k, ok := constInt(p[1]); ok && k < 0 {
				if tested[keyOf(fa)] == nil {
					tested[keyOf(fa)] = map[int64]token.Pos{}
				}
				tested[keyOf(fa)][k] = bo.Pos()
			}
		}
	})
	if len(tested) == 0 {
		c.bad(R, "phase markers found", f.Pos(), "revisit no longer compares a per-cell marker field with its phase constants (the memo the rule knows is gone; undecided)")
		return
	}
	for _, g := range c.moduleFuncs("boc") {
		allInstrs(g, func(_ *ssa.BasicBlock, in ssa.Instruction) {
			st, ok := in.(*ssa.Store)
			if !ok {
				return
			}
			fa, ok := st.Addr.(*ssa.FieldAddr)
			if !ok {
				return
			}
			if _, isMarker := tested[keyOf(fa)]; !isMarker {
				return
			}
			if k, ok := constInt(st.Val); ok {
				if stored[keyOf(fa)] == nil {
					stored[keyOf(fa)] = map[int64]bool{}
				}
				stored[keyOf(fa)][k] = true
			}
		})
	}
	for k, ts := range tested {
		for v, pos := range ts {
			c.check(stored[k][v], R, fmt.Sprintf("marker %d is written where it is tested for", v), pos, "the constant is stored into the same field (phase end or initial value)", fmt.Sprintf("revisit tests the per-cell phase marker for %d, but nothing ever stores %d into that field: the test never succeeds, a cell already walked is walked again through every path that reaches it, and ordering a DAG with shared subtrees takes exponential time", v, v))
		}
	}
}

// cellCapacity: a cell holds at most 1023 data bits. Every place that fixes the capacity of a
// Cell's bit string - the constructors' NewBitString argument, the direct store in the parser's
// setTopUppedArray, the limit NewCellWithBits tests - uses that one constant. (A parsed cell with
// capacity 1024 accepts a 1024th bit and then serialises to a descriptor no node can parse.)
func (c *Ctx) cellCapacity() {
	const R = "E11.cell-capacity"
	isCellBits := func(fa *ssa.FieldAddr) bool { // &cell.<field of type BitString>
		pt, ok := fa.Type().Underlying().(*types.Pointer)
		if !ok {
			return false
		}
		n, ok := pt.Elem().(*types.Named)
		if !ok || n.Obj().Name() != "BitString" {
			return false
		}
		bt, ok := fa.X.Type().Underlying().(*types.Pointer)
		if !ok {
			return false
		}
		bn, ok := bt.Elem().(*types.Named)
		return ok && bn.Obj().Name() == "Cell"
	}
	n := 0
	// the capacity field by role: the integer field of BitString that NewBitString sets from its parameter
	capField := "cap"
	if nb := c.fn("boc", "NewBitString"); nb != nil && len(nb.Params) == 1 {
		allInstrs(nb, func(_ *ssa.BasicBlock, in ssa.Instruction) {
			if st, ok := in.(*ssa.Store); ok && stripConv(st.Val) == ssa.Value(nb.Params[0]) {
				if fa, ok := st.Addr.(*ssa.FieldAddr); ok && isIntField(fa) {
					if _, fn, ok := fieldOf(fa); ok {
						capField = fn
					}
				}
			}
		})
	}
	for _, f := range c.moduleFuncs("boc") {
		allInstrs(f, func(_ *ssa.BasicBlock, in ssa.Instruction) {
			st, ok := in.(*ssa.Store)
			if !ok {
				return
			}
			fa, ok := st.Addr.(*ssa.FieldAddr)
			if !ok {
				return
			}
			// cell.bits.cap = K
			if base, ok := fa.X.(*ssa.FieldAddr); ok && isCellBits(base) {
				if _, fn, _ := fieldOf(fa); fn == capField {
					if k, ok := constInt(st.Val); ok {
						n++
						c.check(k == 1023, R, fnName(f)+": capacity stored into a cell's bit string", st.Pos(), "1023", fmt.Sprintf("%s sets a cell's bit capacity to %d; a cell holds at most 1023 bits", fnName(f), k))
					}
				}
			}
			// cell.bits = NewBitString(K)
			if isCellBits(fa) {
				if cl := callOf(st.Val); cl != nil && callQName(&cl.Call) == bocPath+".NewBitString" {
					if k, ok := constInt(cl.Call.Args[0]); ok {
						n++
						c.check(k == 1023, R, fnName(f)+": capacity of a new cell's bit string", st.Pos(), "NewBitString(1023)", fmt.Sprintf("%s creates a cell with a bit capacity of %d; a cell holds at most 1023 bits", fnName(f), k))
					}
				}
			}
		})
	}
	if f := c.fn("boc", "NewCellWithBits"); f != nil {
		for _, b := range f.Blocks {
			if iff := lastIf(b); iff != nil {
				if bo, ok := iff.Cond.(*ssa.BinOp); ok {
					if k, ok := constInt(bo.Y); ok {
						n++
						c.check(bo.Op == token.GTR && k == 1023, R, "NewCellWithBits refuses more than 1023 bits", bo.Pos(), "len > 1023", fmt.Sprintf("NewCellWithBits tests the length with %s %d; the limit is len > 1023", bo.Op, k))
					}
				}
			}
		}
	}
	if n < 3 {
		c.bad(R, "capacity sites found", token.NoPos, fmt.Sprintf("only %d capacity-fixing sites found in package boc (constructors, parser, NewCellWithBits); undecided", n))
	}
}

func isIntField(fa *ssa.FieldAddr) bool {
	pt, ok := fa.Type().Underlying().(*types.Pointer)
	if !ok {
		return false
	}
	b, ok := pt.Elem().Underlying().(*types.Basic)
	return ok && b.Info()&types.IsInteger != 0
}

// bigIntChunks: ReadBigUint(n) consumes n bits as (n mod 8) leading bits followed by n/8 whole
// bytes; the leading chunk is read exactly when n mod 8 != 0. One-bit signed integers are two's
// complement of width one: a set bit reads as -1 (ReadInt and ReadBigInt).
func (c *Ctx) bigIntChunks() {
	const R = "E7.bigint-chunks"
	if f := c.mustFn(R, "boc", "BitString.ReadBigUint"); f != nil {
		var lead, rest *ssa.Call
		var leadArg *ssa.BinOp
		for _, cl := range callsTo(f, bocPath+".BitString.ReadUint") {
			if bo, ok := stripConv(cl.Call.Args[1]).(*ssa.BinOp); ok && bo.Op == token.AND {
				if k, ok := constInt(bo.Y); ok && k == 7 {
					lead, leadArg = cl, bo
				}
			}
			if bo, ok := stripConv(cl.Call.Args[1]).(*ssa.BinOp); ok && bo.Op == token.REM {
				if k, ok := constInt(bo.Y); ok && k == 8 {
					lead, leadArg = cl, bo
				}
			}
		}
		for _, cl := range callsTo(f, bocPath+".BitString.ReadBytes") {
			if bo, ok := stripConv(cl.Call.Args[1]).(*ssa.BinOp); ok {
				k, _ := constInt(bo.Y)
				if (bo.Op == token.QUO && k == 8) || (bo.Op == token.SHR && k == 3) {
					rest = cl
				}
			}
		}
		if c.check(lead != nil && rest != nil, R, "ReadBigUint reads n%8 bits, then n/8 bytes", f.Pos(), "ReadUint(n&7); ReadBytes(n/8)", "ReadBigUint no longer reads its value as n%8 leading bits followed by n/8 whole bytes (undecided)") {
			okGuard := true
			desc := "unconditional"
			for _, ft := range factsAt(f, lead.Block()) {
				bo, ok := ft.Cond.(*ssa.BinOp)
				if !ok || shape(bo.X, 3) != shape(leadArg, 3) {
					continue
				}
				if k, ok := constInt(bo.Y); !ok || k != 0 {
					continue
				}
				want := (bo.Op == token.NEQ && ft.Truth) || (bo.Op == token.EQL && !ft.Truth) || (bo.Op == token.GTR && ft.Truth)
				desc = shape(bo, 3) + fmt.Sprintf(" is %v", ft.Truth)
				if !want {
					okGuard = false
				}
			}
			c.check(okGuard, R, "the leading chunk is read exactly when n%8 != 0", lead.Pos(), desc, "ReadBigUint reads the leading n%8 bits only when "+desc+": for a width that is not a multiple of 8 the leading bits are skipped and the value is taken from the wrong position")
		}
	}
	// width-one signed integers
	for _, name := range []string{"BitString.ReadInt", "BitString.ReadBigInt"} {
		f := c.mustFn(R, "boc", name)
		if f == nil {
			continue
		}
		found, okv := false, false
		for _, b := range f.Blocks {
			isOne, isSet := false, false
			for _, ft := range factsAt(f, b) {
				if bo, ok := ft.Cond.(*ssa.BinOp); ok && bo.Op == token.EQL && ft.Truth {
					if k, ok := constInt(bo.Y); ok && k == 1 {
						if _, isParam := bo.X.(*ssa.Parameter); isParam {
							isOne = true
						}
					}
				}
				if cl := callOf(ft.Cond); cl != nil && ft.Truth && callQName(&cl.Call) == bocPath+".BitString.mustReadBit" {
					isSet = true
				}
			}
			if !isOne || !isSet {
				continue
			}
			for _, in := range b.Instrs {
				r, ok := in.(*ssa.Return)
				if !ok {
					continue
				}
				found = true
				v := retVal(r, 0)
				if k, ok := constInt(v); ok && k == -1 {
					okv = true
				}
				if cl := callOf(v); cl != nil && callQName(&cl.Call) == "math/big.NewInt" {
					if k, ok := constInt(cl.Call.Args[0]); ok && k == -1 {
						okv = true
					}
				}
			}
		}
		if !found {
			c.ok(R, name+": a set bit of a 1-bit signed integer is -1", f.Pos(), "no special case for width one (handled by the general path)")
			continue
		}
		c.check(okv, R, name+": a set bit of a 1-bit signed integer is -1", f.Pos(), "return -1 under bitLen == 1 and the bit set", name+" does not return -1 for a 1-bit integer whose bit is set (two's complement of width one has the values 0 and -1; WriteInt/WriteBigInt write -1 as a set bit)")
	}
}

// magicRadix: Magic.ValidateTag parses the digits of a "$..." / "#..." tag and compares them with
// as many bits as the digits stand for: a binary digit is one bit (radix 2, width len), a hex
// digit four (radix 16, width 4*len). Radix and bits-per-digit must fit: radix == 2^(bits per digit).
func (c *Ctx) magicRadix() {
	const R = "E3a.magic-radix"
	f := c.mustFn(R, "tlb", "Magic.ValidateTag")
	if f == nil {
		return
	}
	n := 0
	// the parse-and-compare step may stand in ValidateTag once per form, or once in an unexported helper that is
	// handed the radix and the bits per digit (readPrefix(c, tag, digits, 16, 4)): then each call site is a form
	hosts := []*ssa.Function{f}
	for _, site := range callsIn(f) {
		if h := plainHelper(site.Common().StaticCallee()); h != nil && h != f && len(callsTo(h, "strconv.ParseUint")) > 0 {
			hosts = append(hosts, h)
		}
	}
	// the values a quantity takes: a constant, or - in a helper - the constant passed for that parameter at each
	// call site in ValidateTag (nil: not decidable)
	valuesOf := func(g *ssa.Function, v ssa.Value) []int64 {
		if k, ok := constInt(v); ok {
			return []int64{k}
		}
		prm, ok := stripConv(v).(*ssa.Parameter)
		if !ok || g == f {
			return nil
		}
		idx := -1
		for i, q := range g.Params {
			if q == prm {
				idx = i
			}
		}
		var out []int64
		for _, site := range callsIn(f) {
			if plainHelper(site.Common().StaticCallee()) != g || idx < 0 || idx >= len(site.Common().Args) {
				continue
			}
			k, ok := constInt(site.Common().Args[idx])
			if !ok {
				return nil
			}
			out = append(out, k)
		}
		return out
	}
	for _, g := range hosts {
		for _, pc := range callsTo(g, "strconv.ParseUint") {
			bases := valuesOf(g, pc.Call.Args[1])
			if bases == nil {
				continue
			}
			for _, rc := range callsTo(g, bocPath+".Cell.ReadUint") {
				if !pc.Block().Dominates(rc.Block()) {
					continue
				}
				// nearest: no other ParseUint in between (the two tag forms are separate branches)
				other := false
				for _, pc2 := range callsTo(g, "strconv.ParseUint") {
					if pc2 != pc && pc.Block().Dominates(pc2.Block()) && pc2.Block().Dominates(rc.Block()) {
						other = true
					}
				}
				if other {
					continue
				}
				var pers []int64
				w := stripConv(rc.Call.Args[1])
				if cl := callOf(w); cl != nil {
					if bi, ok := cl.Call.Value.(*ssa.Builtin); ok && bi.Name() == "len" {
						pers = []int64{1}
					}
				}
				if bo, ok := w.(*ssa.BinOp); ok && bo.Op == token.MUL {
					for _, o := range []ssa.Value{bo.X, bo.Y} {
						if cl := callOf(stripConv(o)); cl != nil {
							continue // the digit count
						}
						if vs := valuesOf(g, o); vs != nil {
							pers = vs
						}
					}
				}
				if bo, ok := w.(*ssa.BinOp); ok && bo.Op == token.SHL {
					if k, ok := constInt(bo.Y); ok {
						pers = []int64{1 << uint(k)}
					}
				}
				// one check per form: constants pair up one to one, a single constant goes with every site
				m := len(bases)
				if len(pers) > m {
					m = len(pers)
				}
				for i := 0; i < m; i++ {
					base, per := bases[0], int64(0)
					if i < len(bases) {
						base = bases[i]
					}
					if len(pers) == 1 {
						per = pers[0]
					} else if i < len(pers) {
						per = pers[i]
					}
					n++
					c.check(per > 0 && per < 7 && base == 1<<uint(per), R, fmt.Sprintf("radix %d digits are compared with %d bit(s) each", base, per), pc.Pos(), "radix == 2^(bits per digit)", fmt.Sprintf("Magic.ValidateTag parses the tag digits in radix %d but reads %d bit(s) per digit from the cell: the value compared is not the one the tag spells", base, per))
				}
			}
		}
	}
	if n < 2 {
		c.bad(R, "both tag forms found", f.Pos(), fmt.Sprintf("only %d (ParseUint, ReadUint) pairs found in Magic.ValidateTag; the binary and the hexadecimal form were confirmed", n))
	}
}

// hashIndexCounter: in newImmutableCell the per-level loop has two counters: the level itself and
// the number of SIGNIFICANT levels seen so far. The hashes are stored one per significant level,
// so everything that indexes or counts hashes (imm.hashes[...], the comparisons with the pruned
// offset) must use the significant-level counter - with the raw level a mask with a gap (0b10,
// 0b101) indexes past the hashes computed so far.
func (c *Ctx) hashIndexCounter() {
	const R = "E10.hash-index-counter"
	f := c.mustFn(R, "boc", "newImmutableCell")
	if f == nil {
		return
	}
	sig := map[*ssa.Phi]bool{}   // incremented only where IsSignificant held
	plain := map[*ssa.Phi]bool{} // incremented on every trip
	allInstrs(f, func(b *ssa.BasicBlock, in ssa.Instruction) {
		bo, ok := in.(*ssa.BinOp)
		if !ok || bo.Op != token.ADD {
			return
		}
		ph, ok := bo.X.(*ssa.Phi)
		if !ok {
			return
		}
		if k, ok := constInt(bo.Y); !ok || k != 1 {
			return
		}
		back := false
		for _, e := range ph.Edges {
			if e == ssa.Value(bo) {
				back = true
			}
		}
		if !back && !derivesFrom(ph, func(v ssa.Value) bool { return v == ssa.Value(bo) }, false) {
			return
		}
		guarded := false
		for _, ft := range factsAt(f, b) {
			if cl := callOf(ft.Cond); cl != nil && strings.HasSuffix(callQName(&cl.Call), "levelMask.IsSignificant") && ft.Truth {
				guarded = true
			}
		}
		if guarded {
			sig[ph] = true
		} else {
			plain[ph] = true
		}
	})
	// the closed form of that counter: popcount of the mask below the level, mask.Apply(i).HashIndex()
	closedForm := func(x ssa.Value) bool {
		cl := callOf(x)
		if cl == nil || !strings.HasSuffix(callQName(&cl.Call), "levelMask.HashIndex") {
			return false
		}
		return derivesFrom(cl.Call.Args[0], callResult(bocPath+".levelMask.Apply"), false)
	}
	hasClosed := false
	for _, ci := range callsIn(f) {
		if v, ok := ci.(*ssa.Call); ok && closedForm(v) {
			hasClosed = true
		}
	}
	if len(sig) == 0 && !hasClosed {
		c.bad(R, "a counter of significant levels exists", f.Pos(), "newImmutableCell has no counter that is incremented only for significant levels: the position of a level's hash among the stored hashes is the number of significant levels below it, not the level")
		return
	}
	fromSig := func(v ssa.Value) bool {
		return derivesFrom(v, func(x ssa.Value) bool {
			if closedForm(x) {
				return true
			}
			if ph, ok := x.(*ssa.Phi); ok && sig[ph] {
				return true
			}
			// the incremented value itself
			if bo, ok := x.(*ssa.BinOp); ok && bo.Op == token.ADD {
				if ph, ok := bo.X.(*ssa.Phi); ok && sig[ph] {
					return true
				}
			}
			return false
		}, false)
	}
	n := 0
	allInstrs(f, func(_ *ssa.BasicBlock, in ssa.Instruction) {
		ia, ok := in.(*ssa.IndexAddr)
		if !ok {
			return
		}
		if _, isConst := constInt(ia.Index); isConst {
			return
		}
		ld, ok := ia.X.(*ssa.UnOp)
		if !ok {
			return
		}
		_, fn, ok := fieldOf(ld.X)
		if !ok || fn != "hashes" {
			return
		}
		n++
		c.check(fromSig(ia.Index), R, "the previous hash is found by the significant-level counter", ia.Pos(), shape(ia.Index, 3), "newImmutableCell indexes the stored hashes with "+shape(ia.Index, 3)+", which does not come from the counter of significant levels: for a level mask with a gap the index runs ahead of the hashes computed so far (index out of range when hashing a parsed cell)")
	})
	if n == 0 {
		c.bad(R, "the previous hash is found by the significant-level counter", f.Pos(), "newImmutableCell no longer indexes imm.hashes with a computed position (undecided)")
	}
}

// posHolder gives a plain position the Pos() method the rule texts above use.
type posHolder struct{ p token.Pos }

func (h posHolder) Pos() token.Pos { return h.p }

// signedRangeByBitLen: (*big.Int).BitLen() is the length of the ABSOLUTE value. A writer of signed n-bit integers
// that refuses a value because val.BitLen() is too large refuses -2^(n-1), the most negative value of the width
// (BitLen n), although it fits; only for val >= 0 is "BitLen() <= n-1" the right test. Rule: in the signed
// big-integer writer a rejecting test on BitLen() of the value parameter itself stands where the value's sign is
// known (a fact on val.Sign() / val.Cmp). No instance on the pinned tree: WriteBigInt splits on the sign and
// delegates the range check to the unsigned writer.
func (c *Ctx) signedRangeByBitLen() {
	const R = "E8.capacity"
	for _, name := range []string{"BitString.WriteBigInt"} {
		f := c.fn("boc", name)
		if f == nil {
			continue
		}
		n := 0
		for _, g := range c.deepFns(f) {
			if g != f && !strings.Contains(g.Name(), "Int") && !strings.Contains(g.Name(), "int") {
				// helpers shared with the unsigned writer check unsigned values
				if len(gCallSites[g]) > 1 {
					continue
				}
			}
			for _, b := range g.Blocks {
				iff := lastIf(b)
				if iff == nil || !rejects(g, b) {
					continue
				}
				viaBitLen := false
				var val ssa.Value
				derivesFrom(iff.Cond, func(x ssa.Value) bool {
					cl := callOf(x)
					if cl != nil && callQName(&cl.Call) == "math/big.Int.BitLen" {
						if _, isPrm := cl.Call.Args[0].(*ssa.Parameter); isPrm {
							viaBitLen, val = true, cl.Call.Args[0]
						}
					}
					return false
				}, false)
				if !viaBitLen {
					continue
				}
				n++
				signKnown := false
				for _, ft := range factsAt(g, b) {
					if derivesFrom(ft.Cond, func(x ssa.Value) bool {
						cl := callOf(x)
						if cl == nil || len(cl.Call.Args) == 0 || cl.Call.Args[0] != val {
							return false
						}
						q := callQName(&cl.Call)
						return q == "math/big.Int.Sign" || q == "math/big.Int.Cmp"
					}, false) {
						signKnown = true
					}
				}
				c.check(signKnown, R, name+": a range test by BitLen() knows the sign", iff.Pos(), "BitLen() compared where Sign() of the same value was tested", name+" rejects a value by (*big.Int).BitLen() without knowing its sign: BitLen is the length of the absolute value, so the most negative value of every width, -2^(n-1), is refused although it fits (WriteBigInt(-1, 1), Int257 = -2^256)")
			}
		}
		c.ok(R, name+": range tests by BitLen()", f.Pos(), fmt.Sprintf("%d rejecting BitLen() test(s) on the value in the signed writer, each sign-aware", n))
	}
}
