package main

import (
	"fmt"
	"sort"
	"strconv"
	"strings"

	"golang.org/x/tools/go/ssa"
)

func init() { register("C10", propC10) }

func propC10(c *Ctx) propInfo {
	c.statelessCodecs("E17.stateless", excStateless, "tl", "liteclient")
	c.guardPolarity("tl", "liteclient")
	c.blockIDLayout()
	c.freshDecodeTargets("E2.R-staleloop", "liteclient", "tl")
	c.tlSchema()
	c.tlPrimitives()
	c.floor("E4b.tl-primitives", 25)
	c.floor("E4.tlschema", 300)
	c.intFamily(true, false, false)
	c.valueReceivers("E14.value-receivers", "MarshalTL", "liteclient", "tl", "ton", "tlb")
	c.floor("E14.value-receivers", 50)
	return propInfo{
		explanation: "Static structural clauses of C10 (DESIGN.md §4 C10): lite_api.tl is parsed by an independent parser and compared with the generated bindings (request ids, decoder table, struct shapes, MarshalTL/UnmarshalTL field and mode-bit guard lists, boxed ids), TL primitive encoder/decoder constants agree with each other and with the TL spec table, and the generated integer types have the declared widths on both codec sides. Does not decide byte identity of checked-in files with generator output. The vector decoder's loop is bounded by the decoded count itself; the encoder announces the length it iterates.",
	}
}

// blockIDLayout: tonNode.blockIdExt workchain:int shard:long seqno:int root_hash:int256
// file_hash:int256 - 80 bytes, little-endian integers, raw hashes. The hand-written TL form of
// ton.BlockIDExt (used inside every generated request and answer that names a block) has that
// layout on both sides and the reader accepts exactly 80 bytes.
func (c *Ctx) blockIDLayout() {
	const R = "E7.bytelayout"
	// a fixed-width access is determined by where it starts: PutUint64(p[4:13], x) and p[4:12] write
	// the same 8 bytes, copy into p[16:49] from a 32-byte array the same 32. The rule compares start
	// offsets and widths, and for copies demands room for the 32 bytes.
	norm := func(lo, hi, how, what string) string {
		if lo == "" {
			lo = "0"
		}
		if how == "copy" {
			l, err1 := strconv.Atoi(lo)
			h, err2 := strconv.Atoi(hi)
			room := "?"
			if err1 == nil && err2 == nil {
				room = map[bool]string{true: "ok", false: "short"}[h-l >= 32]
			}
			if hi == "" {
				room = "ok"
			}
			return fmt.Sprintf("%s@%s:room-%s", what, lo, room)
		}
		return fmt.Sprintf("%s@%s:%s", what, lo, how)
	}
	role := func(what string) string {
		for _, n := range []string{"Workchain", "Shard", "Seqno", "RootHash", "FileHash"} {
			if strings.Contains(what, n) {
				return n
			}
		}
		return "?"
	}
	want := "FileHash@48:room-ok RootHash@16:room-ok Seqno@12:LE32 Shard@4:LE64 Workchain@0:LE32"
	if f := c.mustFn(R, "ton", "BlockIDExt.MarshalTL"); f != nil {
		var got []string
		for _, w := range c.byteWrites(f) {
			got = append(got, norm(w.lo, w.hi, w.how, role(w.what)))
		}
		sort.Strings(got)
		c.check(strings.Join(got, " ") == want, R, "BlockIDExt.MarshalTL = wc LE32@0 | shard LE64@4 | seqno LE32@12 | root@16 | file@48", f.Pos(), strings.Join(got, " "), "BlockIDExt.MarshalTL writes "+strings.Join(got, " ")+"; tonNode.blockIdExt is "+want)
		sz := int64(-1)
		allInstrs(f, func(_ *ssa.BasicBlock, in ssa.Instruction) {
			if mk, ok := in.(*ssa.MakeSlice); ok {
				sz, _ = constInt(mk.Len)
			}
			// make([]byte, K) with constant K is an array allocation plus a slice in go/ssa
			if sl, ok := in.(*ssa.Slice); ok {
				if al, ok := sl.X.(*ssa.Alloc); ok && al.Heap {
					if n, ok := arrayLen(al.Type()); ok && sz < 0 {
						sz = n
					}
				}
			}
		})
		c.check(sz == 80, R, "BlockIDExt.MarshalTL yields 80 bytes", f.Pos(), "make([]byte, 80)", fmt.Sprintf("BlockIDExt.MarshalTL allocates %d bytes; tonNode.blockIdExt is 4+8+4+32+32 = 80 bytes, a longer buffer shifts everything that follows it in a request", sz))
	}
	if f := c.mustFn(R, "ton", "BlockIDExt.UnmarshalTL"); f != nil {
		var got []string
		// integers: which field receives which read
		allInstrs(f, func(_ *ssa.BasicBlock, in ssa.Instruction) {
			st, ok := in.(*ssa.Store)
			if !ok {
				return
			}
			_, fn, ok := fieldOf(st.Addr)
			if !ok || !isInteger(st.Val.Type()) {
				return // (a whole-struct store id.BlockID = BlockID{...} is read through the literal's own field stores)
			}
			derivesFrom(st.Val, func(v ssa.Value) bool {
				cl := callOf(v)
				if cl == nil {
					return false
				}
				how := map[string]string{"encoding/binary.littleEndian.Uint32": "LE32", "encoding/binary.littleEndian.Uint64": "LE64", "encoding/binary.bigEndian.Uint32": "BE32", "encoding/binary.bigEndian.Uint64": "BE64"}[callQName(&cl.Call)]
				if how == "" {
					return false
				}
				if sl, ok := cl.Call.Args[len(cl.Call.Args)-1].(*ssa.Slice); ok {
					got = append(got, norm(offShape(sl.Low), offShape(sl.High), how, fn))
				} else {
					// the whole buffer: the value is read from offset 0
					got = append(got, norm("", "", how, fn))
				}
				return true
			}, false)
		})
		allInstrs(f, func(_ *ssa.BasicBlock, in ssa.Instruction) {
			cl, ok := in.(*ssa.Call)
			if !ok {
				return
			}
			if bi, ok := cl.Call.Value.(*ssa.Builtin); ok && bi.Name() == "copy" {
				if sl, ok := cl.Call.Args[1].(*ssa.Slice); ok {
					_, fn, _ := fieldOf(sliceBase(cl.Call.Args[0]))
					got = append(got, norm(offShape(sl.Low), offShape(sl.High), "copy", fn))
				}
			}
		})
		sort.Strings(got)
		c.check(strings.Join(got, " ") == want, R, "BlockIDExt.UnmarshalTL reads the same layout", f.Pos(), strings.Join(got, " "), "BlockIDExt.UnmarshalTL reads "+strings.Join(got, " ")+"; tonNode.blockIdExt is "+want)
		c.boundsAtSuccess("E8.bounds", f, 0, "len(data)", lenOf(nil), 80, 80)
	}
}

// sliceBase: the address the sliced array lives at (x[:] of a field).
func sliceBase(v ssa.Value) ssa.Value {
	if sl, ok := v.(*ssa.Slice); ok {
		return sl.X
	}
	return v
}
