package main

func init() { register("C10", propC10) }

func propC10(c *Ctx) propInfo {
	c.guardPolarity("tl", "liteclient")
	c.tlSchema()
	c.tlPrimitives()
	c.floor("E4b.tl-primitives", 25)
	c.floor("E4.tlschema", 300)
	c.intFamily(true, false, false)
	c.valueReceivers("E14.value-receivers", "MarshalTL", "liteclient", "tl", "ton", "tlb")
	c.floor("E14.value-receivers", 50)
	return propInfo{
		explanation: "Static structural clauses of C10 (DESIGN.md §4 C10): lite_api.tl is parsed by an independent parser and compared with the generated bindings (request ids, decoder table, struct shapes, MarshalTL/UnmarshalTL field and mode-bit guard lists, boxed ids), TL primitive encoder/decoder constants agree with each other and with the TL spec table, and the generated integer types have the declared widths on both codec sides. Does not decide byte identity of checked-in files with generator output. The vector decoder's loop is bounded by the decoded count itself; the encoder announces the length it iterates.",
	}
}
