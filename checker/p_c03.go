package main

func init() { register("C03", propC03) }

func propC03(c *Ctx) propInfo {
	c.tagHygiene()
	c.floor("E3a.hygiene", 230)
	c.floor("E3a.codec-pair", 20)
	c.intFamily(true, false, true)
	c.lossyConversions(excC03Lossy, "tlb", "wallet", "ton", "tl")
	c.floor("E2.R-lossyconv", 4)
	return propInfo{
		explanation: "Static structural clauses of C03 (DESIGN.md §4 C03): tag hygiene over every struct type of the TL-B universe (tags parse under the codec's grammar, sum types fully tagged and prefix-free in first-match order, field kinds supported in both directions, no unexported field in a reflectively coded struct, custom codecs two-sided), hand-written Marshal/Unmarshal pairs emit and consume the same event sequences, generated integer family widths agree on both sides, no read result or error is dropped in codecs. Decides these necessary conditions, not value equality after a round trip.",
	}
}

var excC03Lossy = map[string]string{
	"tl.Marshal uint64->uint32 of reflect.Value.Uint()":  "inside case reflect.Uint32: Value.Uint() of a uint32 fits",
	"tl.Marshal int64->int32 of reflect.Value.Int()":    "inside case reflect.Int32: Value.Int() of an int32 fits",
	"tl.EncodeLength int->uint32 of (i<<8)":             "TL byte strings are limited to 2^24-1 bytes by the 3-byte length; callers pass len() of in-memory data",
	"tl.encodeVector int->uint32 of reflect.Value.Len()": "element count of an in-memory slice; a slice with 2^32 elements cannot be encoded anyway",
}
