package main

func init() { register("C03", propC03) }

func propC03(c *Ctx) propInfo {
	c.tagHygiene()
	c.floor("E3a.hygiene", 230)
	c.floor("E3a.codec-pair", 20)
	c.intFamily(true, false, true)
	return propInfo{
		explanation: "Static structural clauses of C03 (DESIGN.md §4 C03): tag hygiene over every struct type of the TL-B universe (tags parse under the codec's grammar, sum types fully tagged and prefix-free in first-match order, field kinds supported in both directions, no unexported field in a reflectively coded struct, custom codecs two-sided), hand-written Marshal/Unmarshal pairs emit and consume the same event sequences, generated integer family widths agree on both sides, no read result or error is dropped in codecs. Decides these necessary conditions, not value equality after a round trip.",
	}
}
