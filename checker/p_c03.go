package main

func init() { register("C03", propC03) }

func propC03(c *Ctx) propInfo {
	c.tagHygiene()
	c.magicRadix()
	c.floor("E3a.hygiene", 230)
	c.floor("E3a.codec-pair", 20)
	c.intFamily(true, false, true)
	c.codecPairs("E5.codec-pair", skipPairs, "tlb", "wallet")
	c.floor("E5.codec-pair", 20)
	c.lossyConversions(excC03Lossy, "tlb", "wallet", "ton", "tl")
	c.sumAltConsistency("E12.sum-alt", "tlb", "wallet", "abi", "ton")
	c.wholeCellValues("E14.codec-engine")
	c.partialAssign("E2.R-partial-assign", "tlb", "wallet", "ton", "abi")
	c.floor("E2.R-partial-assign", 1)
	c.freshDecodeTargets("E2.R-staleloop", "tlb", "wallet", "abi", "ton", "liteapi")
	c.floor("E2.R-staleloop", 6)
	c.copyLiterals("E12.copy-literal", map[string]string{}, "tlb", "wallet", "ton", "abi")
	c.floor("E12.copy-literal", 1)
	c.floor("E12.sum-alt", 5)
	c.bigFromUnsigned("E2.R-bigsign", excBigSign, "boc", "tlb", "wallet", "ton")
	c.floor("E2.R-bigsign", 5)
	c.cursorFreeEncoders("E10.cursor-free-encode", excCursorFree, "tlb", "wallet", "abi")
	c.floor("E10.cursor-free-encode", 1)
	c.floor("E2.R-lossyconv", 4)
	c.guardPolarity("boc", "tlb", "wallet", "ton", "tl", "tonconnect", "liteclient", "abi")
	c.enumTables("E12.enum-tables", "tlb", "wallet", "ton")
	c.statelessCodecs("E17.stateless", excStateless, "boc", "tlb", "tl", "ton", "wallet", "utils", "tonconnect")
	c.loopVarEscape("E17.loopvar-escape", "tlb", "boc", "ton", "wallet", "tl", "abi")
	c.aliasTableMixup("E12.alias-tables", "abi", "tlb", "wallet")
	c.writeWidthPreconditions("tlb", "wallet") // a length or count written into a fixed-width field is known to fit
	c.cursorPairing()                          // tlb.Any decodes "the rest of the cell" through CopyRemaining
	c.valueReceivers("E14.value-receivers", "MarshalTLB", "tlb", "wallet", "abi", "ton", "tep64")
	c.floor("E14.value-receivers", 40)
	return propInfo{
		explanation: "Static structural clauses of C03 (DESIGN.md §4 C03): tag hygiene over every struct type of the TL-B universe (tags parse under the codec's grammar, sum types fully tagged and prefix-free in first-match order, field kinds supported in both directions, no unexported field in a reflectively coded struct, custom codecs two-sided), hand-written Marshal/Unmarshal pairs emit and consume the same event sequences, generated integer family widths agree on both sides, no read result or error is dropped in codecs. Decides these necessary conditions, not value equality after a round trip.",
	}
}

var excC03Lossy = map[string]string{
	"tl.Marshal uint64->uint32 of reflect.Value.Uint()":  "inside case reflect.Uint32: Value.Uint() of a uint32 fits",
	"tl.Marshal int64->int32 of reflect.Value.Int()":     "inside case reflect.Int32: Value.Int() of an int32 fits",
	"tl.EncodeLength int->uint32 of (i<<8)":              "TL byte strings are limited to 2^24-1 bytes by the 3-byte length; callers pass len() of in-memory data",
	"tl.encodeVector int->uint32 of reflect.Value.Len()": "element count of an in-memory slice; a slice with 2^32 elements cannot be encoded anyway",
}

var skipPairs = map[string]string{
	"tlb.BinTree":              "recursive helper on both sides with different decomposition (writer not implemented for forks)",
	"tlb.Bytes":                "delegates to SnakeData after a value-dependent length split",
	"tlb.SnakeData":            "capacity-driven split into a chain of cells: the layout depends on the value's length",
	"tlb.ChunkedData":          "dictionary of chunks: writer and reader use different intermediate types",
	"tlb.Hashmap":              "recursive tree codec (encodeMap / mapInner): covered by the C05 label and recursion-shape rules, not by path comparison",
	"tlb.HashmapAug":           "recursive tree codec: see C05",
	"tlb.VmStkTuple":           "recursive tuple helpers with different decomposition on the two sides",
	"wallet.PayloadHighload":   "writer builds the dictionary by hand, reader through HashmapE: covered by the C14 dictionary-width rule",
	"wallet.PayloadV1toV4":     "loop over (mode, ^message) pairs: bits and references are independent streams, the two sides interleave them differently",
	"wallet.W5Actions":         "linked list of actions written by hand and read through W5SendMessageAction: covered by the C14 action-layout rule",
	"wallet.W5ExtendedActions": "linked list with value-dependent termination",
}

var excBigSign = map[string]string{}
var excCursorFree = map[string]string{}

var excStateless = map[string]string{}
