package main

import (
	"fmt"
	"go/ast"
	"go/token"
	"go/types"
	"sort"
	"strings"

	"golang.org/x/tools/go/ssa"
)

func init() { register("C17", propC17) }

func (c *Ctx) chainIs(rule, key string, pos token.Pos, v ssa.Value, want []string, rootDesc string, rootOK func(ssa.Value) bool) {
	ts, root := convChain(v)
	c.check(strings.Join(ts, ",") == strings.Join(want, ",") && rootOK(root), rule, key, pos, "conversion chain "+strings.Join(ts, "<-")+" from "+shape(root, 3),
		fmt.Sprintf("%s: value is converted through %v from %s; expected %v of %s", key, ts, shape(root, 3), want, rootDesc))
}

func propC17(c *Ctx) propInfo {
	c.statelessCodecs("E17.stateless", excStateless, "ton", "utils")
	c.errflow(excC17E2, "ton")
	c.radixDiscipline("E11.radix", "ton", "liteclient", "utils")
	c.addressBufferSizes()
	c.bits256Lengths()
	c.wireSizes("liteclient") // the ADNL base32 form: checksum buffer of exactly two bytes
	const R = "E8.mustcheck"
	if f := c.mustFn(R, "ton", "AccountIDFromBase64Url"); f != nil {
		c.mustDominate(R, f, 1, []requiredCheck{
			{name: "crc16(body) == stored checksum", src: callResult("github.com/snksoft/crc.CalculateCRC", modPath+"/utils.Crc16"), kind: "eq"},
		}, nil, "")
		c.boundsAtSuccess("E8.bounds", f, 1, "len(decoded)", lenOf(nil), 36, 36)
		c.readerAdmitsTags("E8.tag-set", f, 1, []int64{0x11, 0x51, 0x91, 0xd1})
	}
	if f := c.mustFn(R, "liteclient", "ParseADNLAddress"); f != nil {
		c.mustDominate(R, f, 1, []requiredCheck{
			{name: "crc16(body) == stored checksum", src: callResult("github.com/snksoft/crc.CalculateCRC", modPath+"/utils.Crc16"), kind: "eq"},
			{name: "first byte == 0x2d", src: func(v ssa.Value) bool { return isIndexLoad(0)(v) }, kind: "eq"},
		}, nil, "")
		c.boundsAtSuccess("E8.bounds", f, 1, "len(addr)", lenOf(nil), 55, 55)
	}
	if f := c.mustFn(R, "ton", "AccountIDFromRaw"); f != nil {
		c.boundsAtSuccess("E8.bounds", f, 1, "len(address bytes)", lenOf(func(v ssa.Value) bool {
			return derivesFrom(v, callResult("encoding/hex.DecodeString"), false)
		}), 32, 32)
	}
	if f := c.mustFn(R, "ton", "ParseShardID"); f != nil {
		c.mustDominate(R, f, 1, []requiredCheck{
			{name: "shard id != 0", src: func(v ssa.Value) bool { return v == ssa.Value(f.Params[0]) }, kind: "ne"},
		}, nil, "")
	}
	c.floor(R, 3)
	c.floor("E8.bounds", 3)
	c.floor("E8.tag-set", 4)
	c.accountLayouts()
	c.partialAssign("E2.R-partial-assign", "tlb")
	c.crc16Table()
	c.valueReceivers("E14.value-receivers", "MarshalJSON", "ton")
	return propInfo{
		explanation: "Static structural clauses of C17: (1) the user-friendly and ADNL address parsers can return success only through the CRC16 equality test, the exact length test and (ADNL) the 0x2d tag test; the raw parser only with a 32-byte address; ParseShardID rejects 0. (2) E7 byte layouts: ToHuman writes tag|workchain|hash[2:34]|BE16 crc over [0:34] and the parser reads the same offsets; flag bits 0x80/0x40 are controlled by testnet / !bounce over base 0x11; AccountID.MarshalTL/UnmarshalTL are LE32 workchain | 32 bytes; ADNL base32 is 0x2d|addr|BE16 crc over the 33 bytes. (3) Width/sign chains: every reader undoes the writer's truncation with the inverse chain (byte->int8->int32 etc.), as one conversion, not a case analysis. (4) E11: utils.TABLE equals the CRC-16/XMODEM table for polynomial 0x1021 and Crc16/Crc16String are the MSB-first table-driven loop with initial value 0, so that the writer's utils.Crc16 and the reader's crc.XMODEM agree. (5) JSON/TL-B forms delegate to the raw / MsgAddress forms and assign both fields. (6) E8.tag-set: for each of the four tag bytes ToHuman can write, the success return of AccountIDFromBase64Url stays reachable when every branch condition that folds to a constant under 'first decoded byte = tag' is decided (no writer tag is excluded by the reader's constant tests). NOT decided: shard prefix/mask arithmetic (shardChild/shardParent inverses, MatchAccountID prefix semantics) and the zero-fill arithmetic of the raw parser: value-level algebra over 64-bit words with no structural witness.",
		assumptions: []string{"third-party crc.XMODEM implements CRC-16/XMODEM (poly 0x1021, init 0, no reflection)", "encoding/base64, encoding/base32, encoding/hex and strconv behave as documented"},
	}
}

func (c *Ctx) accountLayouts() {
	const R = "E7.bytelayout"
	const W = "E7.width-chain"
	// ---- user-friendly form
	if f := c.mustFn(R, "ton", "AccountID.ToHuman"); f != nil {
		ws := c.byteWrites(f)
		c.layoutIs(R, "ToHuman = tag1 | workchain1 | hash32 | crc16 BE over [0:34]", f, ws, []byteField{
			{"0", "1", "byte", ""}, {"1", "2", "byte", "Workchain"}, {"2", "34", "copy", "Address"}, {"34", "36", "BE16", "Crc16"},
		})
		for _, cl := range callsTo(f, modPath+"/utils.Crc16") {
			_, lo, hi := sliceBounds(cl.Call.Args[0])
			c.check((lo == "" || lo == "0") && hi == "34", R, "ToHuman crc covers buf[0:34]", cl.Pos(), "Crc16(buf[:34])", "ToHuman computes the checksum over buf["+lo+":"+hi+"], not over the 34 bytes tag|workchain|hash")
		}
		allInstrs(f, func(_ *ssa.BasicBlock, in ssa.Instruction) {
			if st, ok := in.(*ssa.Store); ok {
				if ia, ok := st.Addr.(*ssa.IndexAddr); ok {
					if k, _ := constInt(ia.Index); k == 1 {
						c.chainIs(W, "ToHuman workchain byte = uint8(int32 Workchain)", st.Pos(), st.Val, []string{"uint8", "int32"}, "id.Workchain", isFieldLoad("Workchain"))
					}
				}
			}
		})
		// flag bits
		flags := map[string]string{}
		base := int64(-1)
		allInstrs(f, func(b *ssa.BasicBlock, in ssa.Instruction) {
			bo, ok := in.(*ssa.BinOp)
			if !ok || bo.Op != token.OR {
				return
			}
			k, ok := constInt(bo.Y)
			if !ok {
				return
			}
			// controlling branch: the unique predecessor's If
			if len(b.Preds) != 1 {
				return
			}
			iff := lastIf(b.Preds[0])
			if iff == nil {
				return
			}
			pol := b.Preds[0].Succs[0] == b
			cond := iff.Cond
			if u, ok := cond.(*ssa.UnOp); ok && u.Op == token.NOT {
				cond = u.X
				pol = !pol
			}
			if p, ok := cond.(*ssa.Parameter); ok {
				// the two flags by position in ToHuman(bounce, testnet), not by the parameters' names
				role := map[string]string{"#1": "bounce", "#2": "testnet"}[paramPos(p)]
				flags[fmt.Sprintf("0x%02x", k)] = fmt.Sprintf("%s=%v", role, pol)
			}
			if kk, ok := constInt(bo.X); ok {
				base = kk
			} else if ph, ok := bo.X.(*ssa.Phi); ok {
				for _, e := range ph.Edges {
					if kk, ok := constInt(e); ok {
						base = kk
					}
				}
			} else if ld, ok := bo.X.(*ssa.UnOp); ok && ld.Op == token.MUL {
				// the tag built in place: buf[0] = 0x11; buf[0] |= flag
				if ia, ok := ld.X.(*ssa.IndexAddr); ok {
					allInstrs(f, func(_ *ssa.BasicBlock, in2 ssa.Instruction) {
						if st, ok := in2.(*ssa.Store); ok {
							if ia2, ok := st.Addr.(*ssa.IndexAddr); ok && ia2.X == ia.X {
								i1, ok1 := constInt(ia.Index)
								i2, ok2 := constInt(ia2.Index)
								if kk, isK := constInt(st.Val); isK && ok1 && ok2 && i1 == i2 {
									base = kk
								}
							}
						}
					})
				}
			}
		})
		c.check(flags["0x80"] == "testnet=true" && flags["0x40"] == "bounce=false" && len(flags) == 2 && base == 0x11, R, "ToHuman tag = 0x11 | 0x80 if testnet | 0x40 if !bounce", f.Pos(), fmt.Sprintf("base 0x%02x flags %v", base, flags),
			fmt.Sprintf("ToHuman builds the tag byte as base 0x%02x with flags %v; the format is 0x11, |0x80 when testnet, |0x40 when not bounceable", base, flags))
		okEnc := false
		allInstrs(f, func(_ *ssa.BasicBlock, in ssa.Instruction) {
			if cl, ok := in.(*ssa.Call); ok && callQName(&cl.Call) == "encoding/base64.Encoding.EncodeToString" {
				okEnc = strings.Contains(shape(cl.Call.Args[0], 3), "URLEncoding")
			}
		})
		c.check(okEnc, R, "ToHuman uses base64.URLEncoding", f.Pos(), "URL-safe alphabet with padding (36 bytes: no padding characters arise)", "ToHuman no longer encodes with base64.URLEncoding")
	}
	c.userFriendlyReader(c.mustFn(R, "ton", "AccountIDFromBase64Url"), "FromBase64Url")
	c.userFriendlyReader(c.mustFn(R, "", "addressParser.ParseAddress"), "addressParser.ParseAddress")
	// ---- TL form
	if f := c.mustFn(R, "ton", "AccountID.MarshalTL"); f != nil {
		c.layoutIs(R, "AccountID.MarshalTL = LE32 workchain | hash32", f, c.byteWrites(f), []byteField{{"", "4", "LE32", "Workchain"}, {"4", "36", "copy", "Address"}})
		for _, q := range []string{"encoding/binary.littleEndian.PutUint32", "encoding/binary.littleEndian.AppendUint32"} {
			for _, cl := range callsTo(f, q) {
				c.chainIs(W, "AccountID.MarshalTL workchain = uint32(int32)", cl.Pos(), cl.Call.Args[2], []string{"uint32", "int32"}, "id.Workchain", isFieldLoad("Workchain"))
			}
		}
	}
	if f := c.mustFn(R, "ton", "AccountID.UnmarshalTL"); f != nil {
		rs := c.byteReads(f)
		c.check(len(rs) == 1 && rs[0].how == "LE32", R, "AccountID.UnmarshalTL reads workchain LE32", f.Pos(), fieldsString(rs), "AccountID.UnmarshalTL reads the workchain as "+fieldsString(rs)+", the writer stores LE32")
		c.widthChain(W, f, "Workchain", []string{"int32", "uint32"}, "LittleEndian.Uint32", isCallTo("encoding/binary.littleEndian.Uint32"))
		// two ReadFull: 4 bytes then Address, in that order
		rf := callsTo(f, "io.ReadFull")
		okOrd := len(rf) == 2 && strings.Contains(shape(rf[1].Call.Args[1], 3), "Address") && !strings.Contains(shape(rf[0].Call.Args[1], 3), "Address") && (rf[0].Block() != rf[1].Block() && rf[0].Block().Dominates(rf[1].Block()) || before(rf[0], rf[1]))
		c.check(okOrd, R, "AccountID.UnmarshalTL reads 4 bytes then the 32-byte hash", f.Pos(), "ReadFull(b[:4]) < ReadFull(id.Address[:])", "AccountID.UnmarshalTL no longer reads exactly the 4-byte workchain followed by the 32-byte hash with io.ReadFull")
	}
	// ---- TL-B form
	if f := c.mustFn(R, "ton", "AccountID.ToMsgAddress"); f != nil {
		c.widthChain(W, f, "WorkchainId", []string{"int8", "int32"}, "id.Workchain", isFieldLoad("Workchain"))
		sums := map[string]bool{}
		for _, st := range fieldStores(f, "SumType") {
			if s, ok := constString(stripConv(st.Val)); ok {
				sums[s] = true
			}
		}
		c.check(sums["AddrStd"] && sums["AddrNone"] && len(sums) == 2, R, "ToMsgAddress: nil -> AddrNone, otherwise AddrStd", f.Pos(), fmt.Sprint(sums), "ToMsgAddress no longer maps a nil id to AddrNone and any other id to AddrStd")
		okA := false
		for _, st := range fieldStores(f, "Address") {
			okA = okA || derivesFrom(st.Val, fieldLoadNamed("Address"), false)
		}
		c.check(okA, R, "ToMsgAddress copies the 256-bit hash", f.Pos(), "Address: id.Address", "ToMsgAddress no longer copies id.Address into the AddrStd address")
	}
	if f := c.mustFn(R, "ton", "AccountIDFromTlb"); f != nil {
		c.widthChain(W, f, "Workchain", []string{"int32", "int8"}, "a.AddrStd.WorkchainId", isFieldLoad("WorkchainId"))
	}
	// ---- raw form
	if f := c.mustFn(R, "ton", "AccountID.ToRaw"); f != nil {
		okv := false
		for _, cl := range callsTo(f, "fmt.Sprintf") {
			s, _ := constString(cl.Call.Args[0])
			okv = s == "%v:%x" || s == "%d:%x"
		}
		c.check(okv, R, "ToRaw = decimal workchain ':' lower-case hex of the 32 bytes", f.Pos(), `Sprintf("%v:%x", Workchain, Address)`, "ToRaw no longer formats as <decimal workchain>:<hex of the 32-byte hash>")
	}
	if f := c.mustFn(R, "ton", "AccountIDFromRaw"); f != nil {
		okP := false
		for _, cl := range callsTo(f, "strconv.ParseInt") {
			b, _ := constInt(cl.Call.Args[1])
			w, _ := constInt(cl.Call.Args[2])
			okP = b == 10 && w == 32
		}
		c.check(okP, R, "FromRaw parses the workchain as base-10 int32", f.Pos(), "ParseInt(_, 10, 32)", "AccountIDFromRaw no longer parses the workchain as a base-10 32-bit signed integer")
		c.widthChain(W, f, "Workchain", []string{"int32", "int64"}, "ParseInt result", isCallTo("strconv.ParseInt"))
		c.check(len(callsTo(f, "encoding/hex.DecodeString")) == 1, R, "FromRaw decodes the hash as hex", f.Pos(), "hex.DecodeString", "AccountIDFromRaw no longer hex-decodes the address part")
	}
	// ---- JSON form: delegates to the raw form / ParseAccountID and assigns both fields
	if f := c.mustFn(R, "ton", "AccountID.MarshalJSON"); f != nil {
		okv := false
		for _, cl := range callsTo(f, "encoding/json.Marshal") {
			okv = derivesFrom(cl.Call.Args[0], callResult(modPath+"/ton.AccountID.ToRaw"), false)
		}
		c.check(okv, R, "AccountID.MarshalJSON = json string of ToRaw()", f.Pos(), "json.Marshal(id.ToRaw())", "AccountID.MarshalJSON no longer marshals the raw text form")
	}
	if f := c.mustFn(R, "ton", "AccountID.UnmarshalJSON"); f != nil {
		okW, okA := false, false
		// a field is assigned by a store to it or by a store of a whole AccountID to the receiver (*id = a)
		assigning := func(fld string) []*ssa.Store {
			out := fieldStores(f, fld)
			for _, st := range storesTo(f.Params[0]) {
				out = append(out, st)
			}
			return out
		}
		for _, st := range assigning("Workchain") {
			okW = derivesFrom(st.Val, callResult(modPath+"/ton.ParseAccountID"), false)
		}
		for _, st := range assigning("Address") {
			okA = derivesFrom(st.Val, callResult(modPath+"/ton.ParseAccountID"), false)
		}
		c.check(okW && okA, R, "AccountID.UnmarshalJSON assigns workchain and hash from ParseAccountID", f.Pos(), "both fields from the parsed id", "AccountID.UnmarshalJSON no longer assigns both Workchain and Address from ParseAccountID's result")
		for _, fld := range []string{"Workchain", "Address"} {
			okD := true
			for _, sp := range successPoints(f, 0) {
				dom := false
				for _, st := range assigning(fld) {
					if st.Block().Dominates(sp.Block) {
						dom = true
					}
				}
				okD = okD && dom
			}
			c.check(okD, R, "AccountID.UnmarshalJSON assigns "+fld+" before every success return", f.Pos(), "store dominates the nil-error return", "AccountID.UnmarshalJSON can return nil without assigning "+fld)
		}
	}
	if f := c.mustFn(R, "ton", "ParseAccountID"); f != nil {
		okv := len(callsTo(f, modPath+"/ton.AccountIDFromRaw")) == 1 && len(callsTo(f, modPath+"/ton.AccountIDFromBase64Url")) == 1
		c.check(okv, R, "ParseAccountID accepts the raw and the user-friendly form", f.Pos(), "AccountIDFromRaw, then AccountIDFromBase64Url", "ParseAccountID no longer tries both text forms")
	}
	// ---- ADNL base32
	if f := c.mustFn(R, "liteclient", "ADNLAddressToBase32"); f != nil {
		ws := c.byteWrites(f)
		var be []byteField
		for _, w := range ws {
			if w.how != "byte" {
				be = append(be, w)
			}
		}
		ws = be
		okCrc := len(ws) == 1 && ws[0].how == "BE16" && strings.Contains(ws[0].what, "Crc16")
		// the same body assembled in one buffer of 35 bytes: buf[0] = tag, copy(buf[1:33], addr), BE16 crc at [33:]
		// over buf[:33], and the whole buffer encoded
		formB := false
		{
			var crcF, addrF *byteField
			other := 0
			for i := range ws {
				w := &ws[i]
				switch {
				case w.how == "BE16" && w.lo == "33" && (w.hi == "" || w.hi == "35") && strings.Contains(w.what, "Crc16"):
					crcF = w
				case w.how == "copy" && w.lo == "1" && w.hi == "33" && strings.Contains(w.what, "addr"):
					addrF = w
				default:
					other++
				}
			}
			if crcF != nil && addrF != nil && other == 0 {
				buf := fieldBase[fnName(f)+"|"+crcF.String()]
				same := buf != nil && fieldBase[fnName(f)+"|"+addrF.String()] == buf
				if k, ok := makeSliceLen(buf); !ok || k != 35 {
					same = false
				}
				for _, cl := range callsTo(f, modPath+"/utils.Crc16") {
					b, lo, hi := sliceBounds(cl.Call.Args[0])
					if bufferOf(b) != buf || !(lo == "" || lo == "0") || hi != "33" {
						same = false
					}
				}
				for _, cl := range callsTo(f, "encoding/base32.Encoding.EncodeToString") {
					b, lo, hi := sliceBounds(cl.Call.Args[1])
					if bufferOf(b) != buf || !(lo == "" || lo == "0") || !(hi == "" || hi == "35") {
						same = false
					}
				}
				formB = same
			}
		}
		okCrc = okCrc || formB
		// ... or appended in place: binary.BigEndian.AppendUint16(tag|addr, crc) as the last piece of the encoded chain
		for _, cl := range callsTo(f, "encoding/base32.Encoding.EncodeToString") {
			if ch := appendChain(cl.Call.Args[1]); len(ch) >= 3 && len(ws) == 0 {
				last := ch[len(ch)-1]
				if strings.HasPrefix(last, "BE16(") && strings.Contains(last, "Crc16") {
					okCrc = true
				}
			}
		}
		c.check(okCrc, R, "ADNL base32: crc16 stored big-endian", f.Pos(), fieldsString(ws), "ADNLAddressToBase32 stores the checksum as "+fieldsString(ws)+", the parser reads it BE16")
		var tag int64 = -1
		var chain []string
		allInstrs(f, func(_ *ssa.BasicBlock, in ssa.Instruction) {
			if cl, ok := in.(*ssa.Call); ok && callQName(&cl.Call) == "encoding/base32.Encoding.EncodeToString" {
				chain = appendChain(cl.Call.Args[1])
			}
			if st, ok := in.(*ssa.Store); ok {
				if ia, ok := st.Addr.(*ssa.IndexAddr); ok && isByte(st.Val.Type()) {
					if k, ok := constInt(ia.Index); ok && k == 0 {
						tag, _ = constInt(st.Val)
					}
				}
			}
		})
		c.check(tag == 0x2d && (len(chain) >= 2 || formB), R, "ADNL base32 body = 0x2d | addr | crc", f.Pos(), fmt.Sprintf("tag 0x%x chain %v", tag, chain), fmt.Sprintf("ADNLAddressToBase32 builds tag 0x%x with pieces %v; the body is 0x2d | 32-byte address | crc16", tag, chain))
		for _, cl := range callsTo(f, modPath+"/utils.Crc16") {
			c.check(len(appendChain(cl.Call.Args[0])) == 2 || formB, R, "ADNL crc covers 0x2d|addr", cl.Pos(), "Crc16(tag|addr)", "ADNLAddressToBase32 computes the checksum over something other than tag|address")
		}
	}
	if f := c.mustFn(R, "liteclient", "ParseADNLAddress"); f != nil {
		// the text handed to the length test and the decoder is the argument with at most the
		// literal suffix ".adnl" removed (TrimSuffix; a cutset function would eat base32 digits)
		var cut []string
		for _, cl := range callsIn(f) {
			q := callQName(cl.Common())
			switch q {
			case "strings.Trim", "strings.TrimRight", "strings.TrimLeft":
				if len(cl.Common().Args) > 0 && strings.Join(leaves(cl.Common().Args[0]), ",") == "#0" {
					cut = append(cut, q)
				}
			}
		}
		c.check(len(cut) == 0, R, "ParseADNLAddress applies no character-set trimming to the address text", f.Pos(), "suffix removed as a literal (TrimSuffix)", fmt.Sprintf("ParseADNLAddress trims its argument with %v, which takes a character SET: trailing base32 digits that occur in the set (a, d, n, l, .) are stripped from the address itself", cut))
		rs := c.byteReads(f)
		c.check(len(rs) == 1 && rs[0].how == "BE16" && rs[0].lo == "33", R, "ParseADNLAddress reads crc BE16 at [33:]", f.Pos(), fieldsString(rs), "ParseADNLAddress reads the checksum as "+fieldsString(rs)+", the writer stores it big-endian after the 33 bytes")
		for _, cl := range callsTo(f, modPath+"/utils.Crc16") {
			_, lo, hi := sliceBounds(cl.Call.Args[0])
			c.check((lo == "" || lo == "0") && hi == "33", R, "ParseADNLAddress crc covers buf[0:33]", cl.Pos(), "Crc16(buf[:33])", "ParseADNLAddress computes the checksum over buf["+lo+":"+hi+"], the writer over the 33 bytes tag|address")
		}
		ws := c.byteWrites(f)
		c.check(len(ws) == 1 && strings.Contains(ws[0].what, "[1:33]"), R, "ParseADNLAddress address = buf[1:33]", f.Pos(), fieldsString(ws), "ParseADNLAddress copies the address from "+fieldsString(ws)+", it is stored at [1:33]")
	}
	// ---- shards: the account prefix is the big-endian first 8 bytes of the hash
	if f := c.mustFn(R, "ton", "ShardID.MatchAccountID"); f != nil {
		rs := c.byteReads(f)
		c.check(len(rs) == 1 && rs[0].how == "BE64" && (rs[0].lo == "" || rs[0].lo == "0") && rs[0].hi == "8", R, "MatchAccountID prefix = BE64(Address[:8])", f.Pos(), fieldsString(rs), "MatchAccountID takes the account prefix as "+fieldsString(rs)+"; the shard prefix is the big-endian first 8 bytes of the hash")
	}
	c.floor(R, 33)
	c.floor(W, 8)
}

// userFriendlyReader: one reader of the 36-byte user-friendly form (there are two siblings: the
// ton package parser and the root package's address parser).
func (c *Ctx) userFriendlyReader(f *ssa.Function, label string) {
	const R = "E7.bytelayout"
	const W = "E7.width-chain"
	if f == nil {
		return
	}
	rs := c.byteReads(f)
	// (Uint16 reads two bytes from the start of its argument: b[34:36] and b[34:] are the same read)
	c.check(len(rs) == 1 && rs[0].how == "BE16" && rs[0].lo == "34" && (rs[0].hi == "36" || rs[0].hi == ""), R, label+" reads crc BE16 at [34:36]", f.Pos(), fieldsString(rs), fnName(f)+" reads the stored checksum as "+fieldsString(rs)+", the writer stores it big-endian at [34:36]")
	for _, q := range []string{"github.com/snksoft/crc.CalculateCRC", modPath + "/utils.Crc16"} {
		for _, cl := range callsTo(f, q) {
			_, lo, hi := sliceBounds(cl.Call.Args[len(cl.Call.Args)-1])
			c.check((lo == "" || lo == "0") && hi == "34", R, label+" crc covers b[0:34]", cl.Pos(), "crc(b[0:34])", fnName(f)+" computes the checksum over b["+lo+":"+hi+"], the writer over [0:34]")
			if q == "github.com/snksoft/crc.CalculateCRC" {
				c.check(strings.Contains(shape(cl.Call.Args[0], 2), "XMODEM"), R, label+" crc is XMODEM", cl.Pos(), "crc.XMODEM", fnName(f)+" no longer uses the CRC-16/XMODEM parameters")
			}
		}
	}
	c.widthChain(W, f, "Workchain", []string{"int32", "int8", "uint8"}, "b[1]", isIndexLoad(1))
	var cp []byteField
	for _, w := range c.byteWrites(f) {
		if w.how == "copy" {
			cp = append(cp, w)
		}
	}
	okc := len(cp) == 1 && strings.Contains(cp[0].what, "[2:34]")
	c.check(okc, R, label+" hash = b[2:34]", f.Pos(), fieldsString(cp), fnName(f)+" copies the hash from "+fieldsString(cp)+", the writer stores it at [2:34]")
	// the workchain/hash are taken only under: len == 36 and crc equal
	crcPass, _ := passingEdges(f, requiredCheck{src: callResult("github.com/snksoft/crc.CalculateCRC", modPath+"/utils.Crc16"), kind: "eq"})
	for _, st := range fieldStores(f, "Workchain") {
		dom := false
		for _, e := range crcPass {
			if edgeDominates(f, e, st.Block()) {
				dom = true
			}
		}
		c.check(dom, R, label+" uses the decoded bytes only after the checksum matched", st.Pos(), "store dominated by the crc-equal edge", fnName(f)+" assigns the workchain from bytes whose checksum has not been verified")
		lo, hi, hasLo, hasHi := constBounds(f, st.Block(), lenOf(nil))
		c.check(hasLo && hasHi && lo == 36 && hi == 36, R, label+" uses the decoded bytes only when len == 36", st.Pos(), "len(decoded) == 36 on every path to the store", fmt.Sprintf("%s reads the user-friendly fields with len(decoded) in [%d,%d] (bounded: %v,%v); the form is exactly 36 bytes", fnName(f), lo, hi, hasLo, hasHi))
	}
}

// crc16Table: utils.TABLE is the CRC-16/XMODEM table; Crc16 and Crc16String are the standard
// MSB-first table loop with initial value 0.
func (c *Ctx) crc16Table() {
	const R = "E11.crc16"
	p := c.pkg("utils")
	if p == nil {
		c.bad(R, "utils package", token.NoPos, "package utils not loaded")
		return
	}
	var vals []int64
	var pos token.Pos
	for _, file := range p.Syntax {
		for _, d := range file.Decls {
			if gd, ok := d.(*ast.GenDecl); ok {
				if v := literalInts(p, gd, "TABLE"); v != nil {
					vals = v
					pos = gd.Pos()
				}
			}
		}
	}
	okT := len(vals) == 256
	bad := -1
	for i := 0; okT && i < 256; i++ {
		crc := uint16(i) << 8
		for j := 0; j < 8; j++ {
			if crc&0x8000 != 0 {
				crc = crc<<1 ^ 0x1021
			} else {
				crc <<= 1
			}
		}
		if int64(crc) != vals[i] {
			okT = false
			bad = i
		}
	}
	c.check(okT, R, "utils.TABLE = CRC-16/XMODEM table (poly 0x1021, MSB first)", pos, "256 entries equal to the table generated from x^16+x^12+x^5+1", fmt.Sprintf("utils.TABLE has %d entries and differs from the CRC-16/XMODEM table at index %d", len(vals), bad))
	// who may write TABLE
	for _, f := range c.moduleFuncs() {
		allInstrs(f, func(_ *ssa.BasicBlock, in ssa.Instruction) {
			if st, ok := in.(*ssa.Store); ok {
				root := st.Addr
				if ia, ok := root.(*ssa.IndexAddr); ok {
					root = ia.X
					if u, ok := root.(*ssa.UnOp); ok {
						root = u.X
					}
				}
				if g, ok := root.(*ssa.Global); ok && g.Name() == "TABLE" && g.Pkg.Pkg.Name() == "utils" && f.Name() != "init" {
					c.bad(R, fnName(f)+" writes utils.TABLE", st.Pos(), fnName(f)+" writes the exported CRC table at run time")
				}
			}
		})
	}
	for _, name := range []string{"Crc16", "Crc16String"} {
		f := c.mustFn(R, "utils", name)
		if f == nil {
			continue
		}
		// the loop-carried phi: init 0; update = (TABLE[((crc>>8)^uint16(b))&0xff] ^ (crc<<8)) [&0xffff]
		var ops []string
		initOK := false
		// the per-byte step may be written in the loop or in an unexported helper both functions share
		closure := c.helperClosure(f, 1, func(h *ssa.Function) bool { return plainHelper(h) == nil })
		scan := func(fn func(b *ssa.BasicBlock, in ssa.Instruction)) {
			for _, g := range closure {
				allInstrs(g, fn)
			}
		}
		scan(func(_ *ssa.BasicBlock, in ssa.Instruction) {
			switch x := in.(type) {
			case *ssa.Phi:
				if x.Type().Underlying().String() == "uint16" {
					for _, e := range x.Edges {
						if k, ok := constInt(e); ok && k == 0 {
							initOK = true
						}
					}
				}
			case *ssa.BinOp:
				k, isK := constInt(x.Y)
				switch {
				case x.Op == token.SHR && isK:
					ops = append(ops, fmt.Sprintf("shr%d", k))
				case x.Op == token.SHL && isK:
					ops = append(ops, fmt.Sprintf("shl%d", k))
				case x.Op == token.AND && isK:
					ops = append(ops, fmt.Sprintf("and%x", k))
				case x.Op == token.XOR:
					ops = append(ops, "xor")
				case x.Op == token.LSS || x.Op == token.ADD:
				default:
					ops = append(ops, x.Op.String())
				}
			}
		})
		// (masking a uint16 with 0xffff is a no-op and may or may not be written)
		var kept []string
		for _, o := range ops {
			if o != "andffff" {
				kept = append(kept, o)
			}
		}
		ops = kept
		sort.Strings(ops)
		got := strings.Join(ops, " ")
		// the table index reduced to 8 bits by the mask, or by computing it in a byte: TABLE[byte(crc>>8)^b]
		byteIdx := false
		scan(func(_ *ssa.BasicBlock, in ssa.Instruction) {
			if ia, ok := in.(*ssa.IndexAddr); ok {
				root := ia.X
				if ld, ok := root.(*ssa.UnOp); ok && ld.Op == token.MUL {
					root = ld.X // a slice-typed table is loaded first
				}
				if _, isG := root.(*ssa.Global); isG && intBits(stripIntConv(ia.Index).Type()) == 8 {
					byteIdx = true
				}
			}
		})
		if byteIdx && got == "shl8 shr8 xor xor" {
			got = "andff shl8 shr8 xor xor"
		}
		c.check(initOK && got == "andff shl8 shr8 xor xor", R, name+" is the MSB-first table loop with init 0", f.Pos(), got, name+" is no longer crc = TABLE[((crc>>8)^b)&0xff] ^ (crc<<8) starting from 0: operators "+got+fmt.Sprintf(" init0=%v", initOK))
		// the table index derives from (crc>>8)^byte and the other xor operand is crc<<8
		okIdx := false
		scan(func(_ *ssa.BasicBlock, in ssa.Instruction) {
			if ia, ok := in.(*ssa.IndexAddr); ok {
				s := shape(ia.Index, 5)
				okIdx = okIdx || (strings.Contains(s, ">>8") && strings.Contains(s, "^") && (strings.Contains(s, "&255") || intBits(stripIntConv(ia.Index).Type()) == 8))
			}
		})
		c.check(okIdx, R, name+" indexes the table with ((crc>>8)^b)&0xff", f.Pos(), "index shape", name+" no longer indexes the table with ((crc>>8)^byte)&0xff")
	}
	c.floor(R, 5)
}

var excC17E2 = map[string]string{
	"(*ton.Bits256).FromUnknownString R-ignored ton.Bits256.FromBase64":                              "format probe: the text is tried as base64, then URL-safe base64, then hex; a form that does not parse is not an error as long as a later one does, and the error of the last attempt is returned",
	"(*ton.Bits256).FromUnknownString R-ignored ton.Bits256.FromBase64URL":                           "format probe: the text is tried as base64, then URL-safe base64, then hex; a form that does not parse is not an error as long as a later one does, and the error of the last attempt is returned",
	"ton.ParseAccountID R-ignored ton.AccountIDFromRaw":                                              "format probe: raw form first, then the user-friendly form; the error of the second attempt is returned",
	"(*ton.Bits256).FromUnknownString R-swallow return nil under ton.Bits256.FromBase64() != nil":    "format probe: the text is tried as base64, then URL-safe base64, then hex; a form that does not parse is not an error as long as a later one does, and the error of the last attempt is returned",
	"(*ton.Bits256).FromUnknownString R-swallow return nil under ton.Bits256.FromBase64() != nil#2":  "format probe: the text is tried as base64, then URL-safe base64, then hex; a form that does not parse is not an error as long as a later one does, and the error of the last attempt is returned",
	"(*ton.Bits256).FromUnknownString R-swallow return nil under ton.Bits256.FromBase64URL() != nil": "format probe: the text is tried as base64, then URL-safe base64, then hex; a form that does not parse is not an error as long as a later one does, and the error of the last attempt is returned",
}

// madeSizes: constant sizes of the byte buffers a function makes (make([]byte, K) is an array
// allocation plus a slice in go/ssa).
func madeSizes(f *ssa.Function) []int64 {
	var out []int64
	seen := map[*ssa.Alloc]bool{}
	allInstrs(f, func(_ *ssa.BasicBlock, in ssa.Instruction) {
		if mk, ok := in.(*ssa.MakeSlice); ok {
			if k, ok := constInt(mk.Len); ok {
				out = append(out, k)
			}
		}
		if sl, ok := in.(*ssa.Slice); ok {
			if al, ok := sl.X.(*ssa.Alloc); ok && al.Heap && al.Comment == "makeslice" && !seen[al] {
				seen[al] = true
				if n, ok := arrayLen(al.Type()); ok {
					out = append(out, n)
				}
			}
		}
	})
	return out
}

// addressBufferSizes: what is encoded is exactly the 36 bytes of the form, not a longer buffer
// whose tail would be encoded (base64) or sent (TL) along.
func (c *Ctx) addressBufferSizes() {
	const R = "E7.bytelayout"
	for _, n := range []string{"AccountID.ToHuman", "AccountID.MarshalTL"} {
		if f := c.fn("ton", n); f != nil {
			sz := madeSizes(f)
			c.check(len(sz) == 1 && sz[0] == 36, R, n+" builds exactly 36 bytes", f.Pos(), "make([]byte, 36)", fmt.Sprintf("%s builds its output in buffer(s) of %v bytes; the form is 36 bytes (tag/workchain, 32-byte hash, checksum or 4-byte workchain + hash) and everything in the buffer is emitted", n, sz))
		}
	}
}

// bits256Lengths: every way of filling a Bits256 from text or bytes succeeds only for exactly 32
// bytes (a 256-bit value); a 33-byte input must not be accepted and cut, a 32-byte one not refused.
func (c *Ctx) bits256Lengths() {
	const R = "E8.bounds"
	p := c.pkg("ton")
	if p == nil {
		return
	}
	obj, ok := p.Types.Scope().Lookup("Bits256").(*types.TypeName)
	if !ok {
		return
	}
	named, ok := obj.Type().(*types.Named)
	if !ok {
		return
	}
	n := 0
	for i := 0; i < named.NumMethods(); i++ {
		f := c.Prog.FuncValue(named.Method(i))
		if f == nil || len(f.Blocks) == 0 {
			continue
		}
		// only the fillers: pointer receiver, an error result, and a length comparison of their own
		if f.Signature.Results().Len() != 1 || !isErrorType(f.Signature.Results().At(0).Type()) {
			continue
		}
		has := false
		for _, b := range f.Blocks {
			if iff := lastIf(b); iff != nil {
				if bo, ok := iff.Cond.(*ssa.BinOp); ok && lenOf(nil)(bo.X) {
					if _, ok := constInt(bo.Y); ok {
						has = true
					}
				}
			}
		}
		if !has {
			continue
		}
		n++
		c.boundsAtSuccess(R, f, 0, "len(decoded)", lenOf(nil), 32, 32)
	}
	if n < 3 {
		c.bad(R, "Bits256 fillers with a length test found", token.NoPos, fmt.Sprintf("only %d methods of ton.Bits256 compare a decoded length with a constant; FromHex/FromBase64/FromBase64URL/FromBytes were confirmed", n))
	}
}

// stripIntConv: v without widening integer conversions (the value as it was computed).
func stripIntConv(v ssa.Value) ssa.Value {
	for {
		cv, ok := v.(*ssa.Convert)
		if !ok || !isInteger(cv.Type()) || !isInteger(cv.X.Type()) || intBits(cv.Type()) < intBits(cv.X.Type()) {
			return v
		}
		v = cv.X
	}
}

// makeSliceLen: the constant length of the make([]byte, n) behind a buffer value.
func makeSliceLen(v ssa.Value) (int64, bool) {
	switch x := v.(type) {
	case *ssa.MakeSlice:
		return constInt(x.Len)
	case *ssa.Slice:
		// make with a constant size is an array allocation sliced whole
		if al, ok := x.X.(*ssa.Alloc); ok {
			if at, ok := al.Type().Underlying().(*types.Pointer).Elem().Underlying().(*types.Array); ok {
				return at.Len(), true
			}
		}
	case *ssa.Alloc:
		if at, ok := x.Type().Underlying().(*types.Pointer).Elem().Underlying().(*types.Array); ok {
			return at.Len(), true
		}
	}
	return 0, false
}
