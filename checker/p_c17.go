package main

import "golang.org/x/tools/go/ssa"

func init() { register("C17", propC17) }

func propC17(c *Ctx) propInfo {
	const R = "E8.mustcheck"
	if f := c.mustFn(R, "ton", "AccountIDFromBase64Url"); f != nil {
		c.mustDominate(R, f, 1, []requiredCheck{
			{name: "crc16(body) == stored checksum", src: callResult("github.com/snksoft/crc.CalculateCRC", modPath+"/utils.Crc16"), kind: "eq"},
		}, nil, "")
		c.boundsAtSuccess("E8.bounds", f, 1, "len(decoded)", lenOf(nil), 36, 36)
	}
	if f := c.mustFn(R, "liteclient", "ParseADNLAddress"); f != nil {
		c.mustDominate(R, f, 1, []requiredCheck{
			{name: "crc16(body) == stored checksum", src: callResult("github.com/snksoft/crc.CalculateCRC", modPath+"/utils.Crc16"), kind: "eq"},
		}, nil, "")
		c.boundsAtSuccess("E8.bounds", f, 1, "len(addr)", lenOf(nil), 55, 55)
	}
	if f := c.mustFn(R, "ton", "AccountIDFromRaw"); f != nil {
		c.boundsAtSuccess("E8.bounds", f, 1, "len(address bytes)", lenOf(func(v ssa.Value) bool {
			return derivesFrom(v, callResult("encoding/hex.DecodeString"), false)
		}), 32, 32)
	}
	c.floor(R, 2)
	c.floor("E8.bounds", 3)
	return propInfo{
		explanation: "Static structural clauses of C17 (DESIGN.md §4 C17): user-friendly and ADNL address parsers succeed only through the CRC16 equality and the exact length check; raw parser only with a 32-byte address; byte layouts of writer/reader equal the spec; workchain byte is sign-extended on read; CRC16 table equals the XMODEM polynomial table. Decides these necessary conditions, not the shard prefix/mask arithmetic.",
		assumptions: []string{"third-party crc.XMODEM implements CRC-16/XMODEM", "encoding/base64, base32 behave as documented"},
	}
}
