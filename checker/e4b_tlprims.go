package main

import (
	"fmt"
	"go/token"
	"reflect"
	"sort"
	"strings"

	"golang.org/x/tools/go/ssa"
)

// E4b: TL primitive encoding constants, agreement between encoder, decoder, the lite-client's
// private length codec and the TL specification:
//   bytes: len < 254 -> 1 length byte; otherwise 0xfe + 3-byte little-endian length; zero padded to 4
//   int/# 4 bytes LE, long 8 bytes LE, Bool = boolTrue#997275b5 / boolFalse#bc799737 (LE), vector: 4-byte LE count

// thresholds returns, for every comparison of a non-constant with a constant in 250..256 in f,
// the canonical bound B such that the comparison separates v < B from v >= B, plus equality markers.
func thresholds(f *ssa.Function) (bounds []int64, eqs []int64) {
	allInstrs(f, func(_ *ssa.BasicBlock, i ssa.Instruction) {
		bo, ok := i.(*ssa.BinOp)
		if !ok {
			return
		}
		k, okY := constInt(bo.Y)
		op := bo.Op
		if !okY {
			kk, okX := constInt(bo.X)
			if !okX {
				return
			}
			k = kk
			switch op {
			case token.LSS:
				op = token.GTR
			case token.LEQ:
				op = token.GEQ
			case token.GTR:
				op = token.LSS
			case token.GEQ:
				op = token.LEQ
			}
		}
		if k < 250 || k > 256 {
			return
		}
		switch op {
		case token.GEQ, token.LSS:
			bounds = append(bounds, k)
		case token.GTR, token.LEQ:
			bounds = append(bounds, k+1)
		case token.EQL, token.NEQ:
			eqs = append(eqs, k)
		}
	})
	sort.Slice(bounds, func(i, j int) bool { return bounds[i] < bounds[j] })
	sort.Slice(eqs, func(i, j int) bool { return eqs[i] < eqs[j] })
	return
}

func (c *Ctx) tlPrimitives() {
	const R = "E4b.tl-primitives"
	type site struct {
		rel, name string
		bounds    []int64
		eqs       []int64
	}
	sites := []site{
		{"tl", "EncodeLength", []int64{254}, nil},
		{"liteclient", "encodeLength", []int64{254}, nil},
		{"tl", "readByteSlice", []int64{254}, []int64{254}},
		{"liteclient", "decodeLength", []int64{254}, []int64{254, 255}},
	}
	for _, s := range sites {
		f := c.mustFn(R, s.rel, s.name)
		if f == nil {
			continue
		}
		b, e := thresholds(f)
		// the reader may name both special first bytes (254 long form, 255 invalid) or only one of them: with
		// "below 254 is the short form" the other one is what remains
		if s.name == "decodeLength" && fmt.Sprint(b) == fmt.Sprint(s.bounds) && (fmt.Sprint(e) == "[255]" || fmt.Sprint(e) == "[254]") {
			e = s.eqs
		}
		c.check(fmt.Sprint(b) == fmt.Sprint(s.bounds) && fmt.Sprint(e) == fmt.Sprint(s.eqs), R, s.rel+"."+s.name+" short/long threshold", f.Pos(),
			"length < 254 uses the 1-byte form, 254 is the escape marker",
			fmt.Sprintf("%s.%s separates short and long byte-string lengths at %v (equality markers %v); the TL encoding requires the 1-byte form for length < 254 and the 0xfe escape from 254 on (expected bounds %v, markers %v)", s.rel, s.name, b, e, s.bounds, s.eqs))
	}
	// long form: the writers store 254 into byte 0 and the length shifted by 8; the readers shift back by 8 / read 3 bytes
	for _, s := range []struct{ rel, name string }{{"tl", "EncodeLength"}, {"liteclient", "encodeLength"}} {
		f := c.fn(s.rel, s.name)
		if f == nil {
			continue
		}
		shl, le, marker := false, false, false
		allInstrs(f, func(_ *ssa.BasicBlock, i ssa.Instruction) {
			switch x := i.(type) {
			case *ssa.BinOp:
				if x.Op == token.SHL {
					if k, ok := constInt(x.Y); ok && k == 8 {
						shl = true
					}
				}
			case *ssa.Call:
				if callQName(&x.Call) == "encoding/binary.littleEndian.PutUint32" {
					le = true
				}
			case *ssa.Store:
				if k, ok := constInt(x.Val); ok && k == 254 {
					if ia, ok := x.Addr.(*ssa.IndexAddr); ok {
						if z, ok := constInt(ia.Index); ok && z == 0 {
							marker = true
						}
					}
				}
			}
		})
		c.check(shl && le && marker, R, s.rel+"."+s.name+" long form", f.Pos(), "0xfe marker in byte 0, length<<8 little-endian in the 4-byte word", s.rel+"."+s.name+": long form is no longer 0xfe followed by the 3-byte little-endian length")
	}
	if f := c.fn("tl", "readByteSlice"); f != nil {
		three, le := false, false
		allInstrs(f, func(_ *ssa.BasicBlock, i ssa.Instruction) {
			switch x := i.(type) {
			case *ssa.Slice:
				if x.High != nil {
					if k, ok := constInt(x.High); ok && k == 3 {
						three = true
					}
				}
			case *ssa.Call:
				if callQName(&x.Call) == "encoding/binary.littleEndian.Uint32" {
					le = true
				}
			}
		})
		c.check(three && le, R, "tl.readByteSlice long form", f.Pos(), "reads 3 length bytes into a zeroed 4-byte word, little-endian", "tl.readByteSlice no longer reads a 3-byte little-endian length after the 0xfe marker")
	}
	if f := c.fn("liteclient", "decodeLength"); f != nil {
		shr, le := false, false
		allInstrs(f, func(_ *ssa.BasicBlock, i ssa.Instruction) {
			switch x := i.(type) {
			case *ssa.BinOp:
				if x.Op == token.SHR {
					if k, ok := constInt(x.Y); ok && k == 8 {
						shr = true
					}
				}
			case *ssa.Call:
				if callQName(&x.Call) == "encoding/binary.littleEndian.Uint32" {
					le = true
				}
			}
		})
		c.check(shr && le, R, "liteclient.decodeLength long form", f.Pos(), "little-endian word >> 8", "liteclient.decodeLength no longer decodes the long form as little-endian word >> 8")
	}
	// padding modulus 4 on all three sides
	for _, s := range []struct{ rel, name string }{{"tl", "zeroPadding"}, {"tl", "readByteSlice"}, {"liteclient", "alignBytes"}} {
		f := c.mustFn(R, s.rel, s.name)
		if f == nil {
			continue
		}
		var mods []int64
		// the alignment arithmetic may sit in the function or in a helper it calls (skipPadding, padTo4, ...)
		closure := c.helperClosure(f, 2, nil)
		for _, g := range closure {
			allInstrs(g, func(_ *ssa.BasicBlock, i ssa.Instruction) {
				if bo, ok := i.(*ssa.BinOp); ok {
					if m, ok := modulus(bo); ok {
						mods = append(mods, m)
					}
				}
			})
		}
		c.check(len(mods) >= 1 && allEq(mods, 4), R, s.rel+"."+s.name+" pads to 4", f.Pos(), "padding modulus 4", fmt.Sprintf("%s.%s pads to a multiple of %v, TL requires 4", s.rel, s.name, mods))
		// a writer that appends make([]byte, K - len%M) pads by the complement: K == M, and only
		// when the remainder is not zero (otherwise a whole extra word is added)
		for _, g := range closure {
			g := g
			allInstrs(g, func(b *ssa.BasicBlock, i ssa.Instruction) {
				mk, ok := i.(*ssa.MakeSlice)
				if !ok {
					return
				}
				sub, ok := mk.Len.(*ssa.BinOp)
				if !ok || sub.Op != token.SUB {
					return
				}
				k, ok1 := constInt(sub.X)
				rem, ok2 := sub.Y.(*ssa.BinOp)
				if !ok1 || !ok2 {
					return
				}
				m, okM := modulus(rem)
				if !okM {
					return
				}
				guarded := false
				for _, ft := range factsAt(g, b) {
					if cmp, ok := ft.Cond.(*ssa.BinOp); ok && cmp.X == ssa.Value(rem) {
						if z, ok := constInt(cmp.Y); ok && z == 0 && (cmp.Op == token.NEQ) == ft.Truth {
							guarded = true
						}
					}
				}
				c.check(k == m && guarded, R, s.rel+"."+s.name+" pads by the complement of the remainder", mk.Pos(), fmt.Sprintf("make(%d - len%%%d) under remainder != 0", k, m), fmt.Sprintf("%s.%s appends %d - len%%%d zero bytes (under remainder != 0: %v): the padding must be modulus minus remainder, and only when the remainder is not zero, otherwise the string does not end on a 4-byte boundary", s.rel, s.name, k, m, guarded))
			})
		}
	}
	// tags are written in the schema as big-endian hex and travel little-endian: both helpers of
	// the reflection codec reverse the four decoded bytes, each exactly once
	for _, name := range []string{"encodeTag", "compareWithTag"} {
		f := c.fn("tl", name)
		if f == nil {
			continue
		}
		perm := map[int64]int64{}
		// (compareWithTag may reuse encodeTag for the decoding and reversal: read through the helper)
		c.allInstrsDeep(f, func(_ *ssa.BasicBlock, i ssa.Instruction) {
			st, ok := i.(*ssa.Store)
			if !ok {
				return
			}
			dst, ok := st.Addr.(*ssa.IndexAddr)
			if !ok {
				return
			}
			di, ok := constInt(dst.Index)
			if !ok {
				return
			}
			ld, ok := st.Val.(*ssa.UnOp)
			if !ok {
				return
			}
			src, ok := ld.X.(*ssa.IndexAddr)
			if !ok {
				return
			}
			if si, ok := constInt(src.Index); ok {
				perm[di] = si
			}
		})
		okv := len(perm) == 4
		for i := int64(0); i < 4; i++ {
			if perm[i] != 3-i {
				okv = false
			}
		}
		c.check(okv, R, "tl."+name+" reverses the four tag bytes", f.Pos(), "out[i] = in[3-i]", fmt.Sprintf("tl.%s arranges the decoded tag bytes as %v (out index -> in index); a constructor id written big-endian in the schema is sent little-endian, i.e. out[i] = in[3-i]", name, perm))
	}
	c.tlKindTable()
}

func allEq(xs []int64, k int64) bool {
	for _, x := range xs {
		if x != k {
			return false
		}
	}
	return true
}

// tlKindTable: per reflect.Kind, width and byte order on both sides of the reflective TL codec.
func (c *Ctx) tlKindTable() {
	const R = "E4b.tl-primitives"
	if c.pkg("tl") == nil {
		return
	}
	want := map[string]string{"Uint32": "4 LE", "Int32": "4 LE", "Uint64": "8 LE", "Int64": "8 LE"}
	kinds := map[string]reflect.Kind{"Uint32": reflect.Uint32, "Int32": reflect.Int32, "Uint64": reflect.Uint64, "Int64": reflect.Int64}
	// Decided by partial evaluation (E18): the code reachable only for kind K makes one buffer of W bytes and
	// moves it through encoding/binary in one byte order; switch / if-chain / helpers make no difference.
	bswap := func(v int64) int64 {
		u := uint32(v)
		return int64(u>>24 | (u>>8)&0xff00 | (u<<8)&0xff0000 | u<<24)
	}
	for _, fname := range []string{"Marshal", "decode"} {
		f := c.fn("tl", fname)
		if f == nil {
			c.bad(R, "tl."+fname+" kind switch", token.NoPos, "function not found")
			continue
		}
		for _, k := range []string{"Uint32", "Int32", "Uint64", "Int64"} {
			orders, widths := map[string]bool{}, map[int64]bool{}
			seenAl := map[*ssa.Alloc]bool{}
			for _, oi := range c.kindSpecific(f, int64(kinds[k])) {
				switch x := oi.in.(type) {
				case *ssa.Call:
					if o, w, ok := binCall(callQName(&x.Call)); ok {
						orders[o] = true
						widths[w] = true
					}
				case *ssa.MakeSlice:
					if n, ok := oi.owner.val(x.Len); ok {
						widths[n] = true
					} else {
						widths[-1] = true
					}
				case *ssa.Slice:
					if al, ok := x.X.(*ssa.Alloc); ok && al.Heap && al.Comment == "makeslice" && !seenAl[al] {
						seenAl[al] = true
						if n, ok := arrayLen(al.Type()); ok {
							widths[n] = true
						}
					}
				}
			}
			got := ""
			if len(widths) == 1 && len(orders) == 1 {
				for w := range widths {
					for o := range orders {
						got = fmt.Sprintf("%d %s", w, o)
					}
				}
			} else {
				got = fmt.Sprintf("widths %v orders %v", keysOfInt(widths), keysOfBool(orders))
			}
			c.check(got == want[k], R, "tl."+fname+" kind "+k, f.Pos(), k+" is "+want[k]+" (partial evaluation for this kind)", fmt.Sprintf("tl.%s handles reflect.%s as %q, TL requires %s", fname, k, got, want[k]))
		}
		// Bool ids after folding byte order: wire bytes must be LE(0x997275b5) / LE(0xbc799737), and the id
		// named boolTrue stands for true on both sides
		wire := map[string]bool{}
		val := map[string]string{}
		addWire := func(order string, id int64, truth string) {
			if order == "LE" {
				id = bswap(id)
			}
			w := fmt.Sprintf("%08x", uint32(id))
			wire[w] = true
			if truth != "" {
				if old, ok := val[w]; ok && old != truth {
					truth = "both"
				}
				val[w] = truth
			}
		}
		for _, oi := range c.kindSpecific(f, int64(reflect.Bool)) {
			cl, ok := oi.in.(*ssa.Call)
			if !ok {
				continue
			}
			q := callQName(&cl.Call)
			if o, w, ok := binCall(q); ok && w == 4 && strings.Contains(q, "Put") {
				id, ok := oi.owner.val(cl.Call.Args[len(cl.Call.Args)-1])
				if !ok {
					wire["?"] = true
					continue
				}
				truth := ""
				for _, ft := range factsAt(oi.owner.fn, cl.Block()) {
					if ic := callOf(ft.Cond); ic != nil && callQName(&ic.Call) == "reflect.Value.Bool" {
						truth = fmt.Sprint(ft.Truth)
					}
				}
				addWire(o, id, truth)
			}
			if q == "reflect.Value.SetBool" {
				v, ok := constBool(cl.Call.Args[1])
				if !ok {
					continue
				}
				for _, ft := range factsAt(oi.owner.fn, cl.Block()) {
					bo, ok := ft.Cond.(*ssa.BinOp)
					if !ok || bo.Op != token.EQL || !ft.Truth {
						continue
					}
					x, y := bo.X, bo.Y
					if _, isC := oi.owner.val(x); isC {
						x, y = y, x
					}
					id, ok := oi.owner.val(y)
					srcQ, okSrc := wireWordRead(x, 0)
					if !ok || !okSrc {
						continue
					}
					if o, w, ok := binCall(srcQ); ok && w == 4 {
						addWire(o, id, fmt.Sprint(v))
					}
				}
			}
		}
		okBool := wire["b5757299"] && wire["379779bc"] && len(wire) == 2
		c.check(okBool, R, "tl."+fname+" Bool constructor ids", f.Pos(), "boolTrue#997275b5 / boolFalse#bc799737 little-endian on the wire", fmt.Sprintf("tl.%s uses Bool wire bytes %v; TL requires b5757299 (true) and 379779bc (false)", fname, keysOfBool(wire)))
		okVal := val["b5757299"] == "true" && val["379779bc"] == "false"
		key := "tl." + fname + ": boolTrue#997275b5 <-> true, boolFalse#bc799737 <-> false"
		if fname == "decode" {
			key = "tl.decode: boolTrue#997275b5 -> true, boolFalse#bc799737 -> false"
		}
		c.check(okVal, R, key, f.Pos(), "both ids, right values", fmt.Sprintf("tl.%s pairs Bool wire ids with values as %v; lite_api.tl has boolTrue#997275b5 and boolFalse#bc799737", fname, val))
	}
	// vector count: 4 bytes little-endian on both sides
	for _, fn := range []string{"encodeVector", "decodeVector"} {
		f := c.mustFn(R, "tl", fn)
		if f == nil {
			continue
		}
		n32 := len(callsTo(f, "encoding/binary.littleEndian.PutUint32")) + len(callsTo(f, "encoding/binary.littleEndian.Uint32"))
		// ... or one call of an unexported reader helper that returns binary.LittleEndian.Uint32 of what it read
		allInstrs(f, func(_ *ssa.BasicBlock, in ssa.Instruction) {
			if ex, ok := in.(*ssa.Extract); ok && ex.Index == 0 {
				if cl, ok := ex.Tuple.(*ssa.Call); ok && plainHelper(cl.Call.StaticCallee()) != nil {
					if q, ok := wireWordRead(ex, 0); ok && q == "encoding/binary.littleEndian.Uint32" {
						n32++
					}
				}
			}
		})
		ok32 := n32 == 1
		c.check(ok32, R, "tl."+fn+" count", f.Pos(), "32-bit little-endian element count", "tl."+fn+" no longer uses a 32-bit little-endian element count")
	}
	// element loops run to exactly the count on the wire: the decoder's bound is the decoded 32-bit count
	// itself (not a clamped copy), the encoder's count is the length of the slice it then iterates
	if f := c.mustFn(R, "tl", "decodeVector"); f != nil {
		okv, n := true, 0
		desc := ""
		for _, b := range f.Blocks {
			iff := lastIf(b)
			if iff == nil || !inLoop(b) {
				continue
			}
			bo, ok := iff.Cond.(*ssa.BinOp)
			if !ok {
				continue
			}
			phi, isPhi := bo.X.(*ssa.Phi)
			if !isPhi {
				continue
			}
			// counting up to the count (i < n), or down from it (left > 0 with left starting at n)
			bound := bo.Y
			if z, isZ := constInt(bo.Y); isZ && z == 0 && (bo.Op == token.GTR || bo.Op == token.NEQ) {
				bound = nil
				for _, e := range phi.Edges {
					if _, isOp := e.(*ssa.BinOp); !isOp {
						bound = e
					}
				}
			} else if bo.Op != token.LSS {
				continue
			}
			n++
			srcQ := ""
			if bound != nil {
				_, root := convChain(bound)
				srcQ, _ = wireWordRead(root, 0)
			}
			if srcQ != "encoding/binary.littleEndian.Uint32" {
				okv = false
				desc = shape(bo.Y, 3)
			}
		}
		c.check(okv && n == 1, R, "tl.decodeVector reads exactly the announced number of elements", f.Pos(), "loop bound = the decoded 32-bit count", "tl.decodeVector's element loop is bounded by "+desc+", not by the element count read from the wire: longer vectors are silently truncated and the rest of the stream is parsed from the wrong offset")
	}
	if f := c.mustFn(R, "tl", "decodeVector"); f != nil {
		// the result holds one element per decoded item: built from an empty slice by one Append per
		// iteration (a slice pre-sized in chunks keeps zero-valued padding unless it is cut back to the count)
		nApp, nAppSlice, okLen0 := 0, 0, true
		for _, ci := range callsIn(f) {
			switch callQName(ci.Common()) {
			case "reflect.Append":
				if inLoop(ci.(*ssa.Call).Block()) {
					nApp++
				}
			case "reflect.AppendSlice":
				nAppSlice++
			case "reflect.MakeSlice":
				if k, ok := constInt(ci.Common().Args[1]); !ok || k != 0 {
					okLen0 = false
				}
			}
		}
		c.check(nApp == 1 && nAppSlice == 0 && okLen0, R, "tl.decodeVector yields exactly the decoded elements", f.Pos(), "MakeSlice(len 0) + one reflect.Append per item", fmt.Sprintf("tl.decodeVector no longer builds the result by one Append per decoded item from an empty slice (Append in loop: %d, AppendSlice: %d, initial length 0: %v): the decoded vector can be longer than the announced count (zero-valued padding), and re-encoding it gives different bytes", nApp, nAppSlice, okLen0))
	}
	if f := c.mustFn(R, "tl", "encodeVector"); f != nil {
		okv := false
		for _, cl := range callsTo(f, "encoding/binary.littleEndian.PutUint32") {
			_, root := convChain(cl.Call.Args[2])
			if c2 := callOf(root); c2 != nil && c2.Call.Value.Name() == "Len" {
				okv = true
			}
		}
		c.check(okv, R, "tl.encodeVector announces the number of elements it writes", f.Pos(), "count = val.Len()", "tl.encodeVector no longer writes val.Len() as the element count")
	}
	// constructor tags: 4 bytes, byte-reversed hex on both sides
	for _, fn := range []string{"encodeTag", "compareWithTag"} {
		f := c.mustFn(R, "tl", fn)
		if f == nil {
			continue
		}
		_, _, hasLo, _ := int64(0), int64(0), false, false
		_ = hasLo
		four := false
		var fblocks []*ssa.BasicBlock
		for _, g := range c.deepFns(f) {
			fblocks = append(fblocks, g.Blocks...)
		}
		for _, b := range fblocks {
			if ifi := lastIf(b); ifi != nil {
				if bo, ok := ifi.Cond.(*ssa.BinOp); ok && (bo.Op == token.NEQ || bo.Op == token.EQL) {
					if k, ok := constInt(bo.Y); ok && k == 4 && lenOf(nil)(bo.X) {
						four = true
					}
				}
			}
		}
		c.check(four, R, "tl."+fn+" requires a 4-byte id", f.Pos(), "hex tag must decode to exactly 4 bytes", "tl."+fn+" no longer insists on a 4-byte constructor id")
	}
}

func contains(xs []string, s string) bool {
	for _, x := range xs {
		if x == s {
			return true
		}
	}
	return false
}

func keysOfBool(m map[string]bool) []string {
	var ks []string
	for k := range m {
		ks = append(ks, k)
	}
	sort.Strings(ks)
	return ks
}

func fmtBoolMap(m map[int64]bool) string {
	var ks []int64
	for k := range m {
		ks = append(ks, k)
	}
	sort.Slice(ks, func(i, j int) bool { return ks[i] < ks[j] })
	var out []string
	for _, k := range ks {
		out = append(out, fmt.Sprintf("%08x->%v", k, m[k]))
	}
	return strings.Join(out, " ")
}

func keysOfInt(m map[int64]bool) []int64 {
	var ks []int64
	for k := range m {
		ks = append(ks, k)
	}
	sort.Slice(ks, func(i, j int) bool { return ks[i] < ks[j] })
	return ks
}

// modulus: x % M, or x & (M-1) for a power of two M (the same remainder for the non-negative lengths
// involved): returns M.
func modulus(bo *ssa.BinOp) (int64, bool) {
	k, ok := constInt(bo.Y)
	if !ok {
		return 0, false
	}
	switch bo.Op {
	case token.REM:
		return k, true
	case token.AND:
		m := k + 1
		if m >= 2 && m <= 64 && m&(m-1) == 0 {
			return m, true
		}
	}
	return 0, false
}

// wireWordRead: v is the result of an encoding/binary read (Uint16/32/64 of either byte order), directly or as
// the value an unexported reader helper returns on every successful return (readUint32(r) = ReadFull + Uint32).
// Returns the qualified name of the binary call.
func wireWordRead(v ssa.Value, depth int) (string, bool) {
	v = stripConv(v)
	if depth > 2 {
		return "", false
	}
	var cl *ssa.Call
	idx := 0
	if ex, ok := v.(*ssa.Extract); ok {
		cl, _ = ex.Tuple.(*ssa.Call)
		idx = ex.Index
	} else {
		cl, _ = v.(*ssa.Call)
	}
	if cl == nil {
		return "", false
	}
	q := callQName(&cl.Call)
	if _, _, ok := binCall(q); ok {
		return q, true
	}
	h := plainHelper(cl.Call.StaticCallee())
	if h == nil {
		return "", false
	}
	ei := errIndex(h.Signature)
	got := ""
	for _, r := range returnsOf(h) {
		if idx >= len(r.Results) {
			return "", false
		}
		if ei >= 0 && ei < len(r.Results) && isFailureValue(h, retVal(r, ei), r.Block()) {
			continue
		}
		rq, ok := wireWordRead(retVal(r, idx), depth+1)
		if !ok || (got != "" && got != rq) {
			return "", false
		}
		got = rq
	}
	return got, got != ""
}

// binCall: an encoding/binary accessor, as (byte order, width in bytes).
func binCall(q string) (order string, width int64, ok bool) {
	for _, o := range [][2]string{{"encoding/binary.littleEndian.", "LE"}, {"encoding/binary.bigEndian.", "BE"}} {
		if strings.HasPrefix(q, o[0]) {
			m := strings.TrimPrefix(strings.TrimPrefix(q, o[0]), "Put")
			switch m {
			case "Uint16":
				return o[1], 2, true
			case "Uint32":
				return o[1], 4, true
			case "Uint64":
				return o[1], 8, true
			}
		}
	}
	return "", 0, false
}
