package main

func init() { register("C20", propC20) }

func propC20(c *Ctx) propInfo {
	c.statelessCodecs("E17.stateless", excStateless, "boc", "tlb", "ton")
	c.bits256Lengths()
	c.fieldwiseCopy("E2.R-partial-assign", "boc", "tlb", "ton")
	c.partialAssign("E2.R-partial-assign", "tlb", "ton", "boc")
	c.bocDescriptors()      // ... and the parser must read back the descriptor bytes the serialiser writes (d1 fields, data length d2)
	c.bocDepthLimitsAgree() // a cell's JSON form goes through the serialiser AND the hasher: they must accept the same depths
	c.intFamily(false, true, false)
	c.jsonPairs("boc", "tlb", "ton", "tl", "abi")
	c.floor("E13.jsonpair", 9)
	// malformed JSON must be an error, not a panic: every UnmarshalJSON of the listed packages is a root
	roots := c.methodsNamed([]string{"UnmarshalJSON"}, "boc", "tlb", "ton", "tl")
	trav := map[string]bool{"boc": true, "tlb": true, "ton": true, "tl": true, "utils": true}
	c.panicFree(e1cfg{roots: roots, pkgs: map[string]bool{"boc": true, "tlb": true, "ton": true, "tl": true}, traverse: trav, maxDepth: c.e1Depth(), exc: mergeExc(excC07, excC08, excC20), excP5: mergeExc(excC07P5, excC08P5)})
	c.floor("E1.P2-bounds", 100)
	c.bocHeaderAgreement() // Cell / Any JSON is the hex of the serialised bag of cells
	c.valueReceivers("E14.value-receivers", "MarshalJSON", "boc", "tlb", "ton", "tl", "wallet", "abi")
	c.floor("E14.value-receivers", 20)
	c.bocDedup() // Cell JSON is the serialised bag of cells: two different cells must not be merged
	return propInfo{
		explanation: "Static structural clauses of C20 (DESIGN.md §4 C20): for every type with both MarshalJSON and UnmarshalJSON the writer/reader descriptors (quoting, base, signedness and bit size of integer parsing, fift/boc/hex forms, length checks for fixed-size hex) agree; generated integer/bits JSON methods use the declared width and the right parser; no crash construct is reachable from any UnmarshalJSON. Decides these necessary conditions, not value equality after a round trip nor JSON syntactic validity of hand-rolled Sprintf output.",
	}
}

var excC20 = map[string]excEntry{
	"(*tlb.MsgAddress).UnmarshalJSON P2 slice *strings.Split()[2][8:(len(_)-1)]": {"guarded by HasPrefix(s, \"Anycast(\") && HasSuffix(s, \")\"): the 8-byte prefix ends in '(' and the suffix is ')', so they cannot overlap and len(s) >= 9", nil},
}

func mergeExc(ms ...map[string]excEntry) map[string]excEntry {
	out := map[string]excEntry{}
	for _, m := range ms {
		for k, v := range m {
			out[k] = v
		}
	}
	return out
}
