package main

import (
	"fmt"
	"go/token"
	"go/types"
	"golang.org/x/tools/go/ssa"
	"sort"
	"strings"
)

func init() { register("C20", propC20) }

func propC20(c *Ctx) propInfo {
	c.statelessCodecs("E17.stateless", excStateless, "boc", "tlb", "ton")
	c.bits256Lengths()
	c.fieldwiseCopy("E2.R-partial-assign", "boc", "tlb", "ton")
	c.partialAssign("E2.R-partial-assign", "tlb", "ton", "boc")
	c.bocDescriptors()      // ... and the parser must read back the descriptor bytes the serialiser writes (d1 fields, data length d2)
	c.bocDepthLimitsAgree() // a cell's JSON form goes through the serialiser AND the hasher: they must accept the same depths
	c.intFamily(false, true, false)
	c.jsonPairs("boc", "tlb", "ton", "tl", "abi")
	c.floor("E13.jsonpair", 9)
	c.jsonTablePairs("abi", "tlb", "ton")
	// malformed JSON must be an error, not a panic: every UnmarshalJSON of the listed packages is a root
	roots := c.methodsNamed([]string{"UnmarshalJSON"}, "boc", "tlb", "ton", "tl")
	trav := map[string]bool{"boc": true, "tlb": true, "ton": true, "tl": true, "utils": true}
	c.panicFree(e1cfg{roots: roots, pkgs: map[string]bool{"boc": true, "tlb": true, "ton": true, "tl": true}, traverse: trav, maxDepth: c.e1Depth(), exc: mergeExc(excC07, excC08, excC20), excP5: mergeExc(excC07P5, excC08P5)})
	c.floor("E1.P2-bounds", 100)
	c.bocHeaderAgreement() // Cell / Any JSON is the hex of the serialised bag of cells
	c.valueReceivers("E14.value-receivers", "MarshalJSON", "boc", "tlb", "ton", "tl", "wallet", "abi")
	c.floor("E14.value-receivers", 20)
	c.bocDedup() // Cell JSON is the serialised bag of cells: two different cells must not be merged
	return propInfo{
		explanation: "Static structural clauses of C20 (DESIGN.md §4 C20): for every type with both MarshalJSON and UnmarshalJSON the writer/reader descriptors (quoting, base, signedness and bit size of integer parsing, fift/boc/hex forms, length checks for fixed-size hex) agree; generated integer/bits JSON methods use the declared width and the right parser; no crash construct is reachable from any UnmarshalJSON. Decides these necessary conditions, not value equality after a round trip nor JSON syntactic validity of hand-rolled Sprintf output.",
	}
}

var excC20 = map[string]excEntry{
	"(*tlb.MsgAddress).UnmarshalJSON P2 slice *strings.Split()[2][8:(len(_)-1)]": {"guarded by HasPrefix(s, \"Anycast(\") && HasSuffix(s, \")\"): the 8-byte prefix ends in '(' and the suffix is ')', so they cannot overlap and len(s) >= 9", nil},
}

func mergeExc(ms ...map[string]excEntry) map[string]excEntry {
	out := map[string]excEntry{}
	for _, m := range ms {
		for k, v := range m {
			out[k] = v
		}
	}
	return out
}

// jsonTablePairs: a type whose JSON form names one of several registered Go types (the message-body envelopes of
// abi: {"SumType": ..., "Value": ...}) looks the name up in a package-level table on both sides. Writer and reader
// must consult the SAME table: the internal-message table and the external-out table share names ("DedustSwap")
// that stand for different Go types, and most names of one are unknown to the other. Rule: for every type with
// both MarshalJSON and UnmarshalJSON, the package-level maps the two methods read - themselves, or by handing them
// to an unexported helper - are the same set (when the writer reads any).
func (c *Ctx) jsonTablePairs(rels ...string) {
	const R = "E13.jsonpair"
	tables := func(f *ssa.Function) map[string]bool {
		out := map[string]bool{}
		for _, g := range c.helperClosure(f, 1, func(h *ssa.Function) bool { return plainHelper(h) == nil }) {
			if g != f {
				// a helper's own table reads count; tables it receives as parameters are read at the call site
			}
			allInstrs(g, func(_ *ssa.BasicBlock, in ssa.Instruction) {
				ld, ok := in.(*ssa.UnOp)
				if !ok || ld.Op != token.MUL {
					return
				}
				gl, ok := ld.X.(*ssa.Global)
				if !ok || gl.Pkg == nil || !strings.HasPrefix(gl.Pkg.Pkg.Path(), modPath) {
					return
				}
				if _, isMap := gl.Type().(*types.Pointer).Elem().Underlying().(*types.Map); isMap {
					out[gl.Name()] = true
				}
			})
		}
		return out
	}
	n := 0
	byRecv := map[string][2]*ssa.Function{}
	for _, f := range c.methodsNamed([]string{"MarshalJSON", "UnmarshalJSON"}, rels...) {
		recv := f.Signature.Recv().Type()
		if pt, ok := recv.(*types.Pointer); ok {
			recv = pt.Elem()
		}
		k := recv.String()
		e := byRecv[k]
		if f.Name() == "MarshalJSON" {
			e[0] = f
		} else {
			e[1] = f
		}
		byRecv[k] = e
	}
	var keys []string
	for k := range byRecv {
		keys = append(keys, k)
	}
	sort.Strings(keys)
	for _, k := range keys {
		w, r := byRecv[k][0], byRecv[k][1]
		if w == nil || r == nil {
			continue
		}
		tw, tr := tables(w), tables(r)
		if len(tw) == 0 {
			continue
		}
		n++
		names := func(m map[string]bool) string {
			var xs []string
			for x := range m {
				xs = append(xs, x)
			}
			sort.Strings(xs)
			return strings.Join(xs, ", ")
		}
		c.check(names(tw) == names(tr), R, fnName(w)+" and its reader consult the same table", r.Pos(), "both sides look the type name up in "+names(tw), fmt.Sprintf("%s looks the type name up in {%s}, %s in {%s}: a value the writer prints is unknown to the reader, or is read back as a different Go type that happens to share the name", fnName(w), names(tw), fnName(r), names(tr)))
	}
	c.ok(R, "JSON envelopes with a type table", token.NoPos, fmt.Sprintf("%d writer/reader pair(s) that consult a package-level table", n))
}
