package main

import (
	"go/token"
	"go/types"
	"strings"

	"golang.org/x/tools/go/ssa"
)

// E20: roles. An unexported function, method or struct field is an implementation detail: its
// name is not part of any property, and a rename must not change a verdict. Rules name such
// anchors by their current name for readability; when the name no longer resolves, the anchor is
// found again by what it does (the effect that made it an anchor in the first place). Exported
// names are API and are looked up by name only.

var roleResolvers = map[string]func(c *Ctx) *ssa.Function{
	// the hex digit decoder of boc: the function that turns an ASCII hex digit into its value - it subtracts 'a'
	// from a byte and fails with ErrInvalidHex (the helper, or the parser it was folded into)
	"boc:hexToInt": func(c *Ctx) *ssa.Function {
		var found []*ssa.Function
		for _, f := range c.moduleFuncs("boc") {
			subA, errHex := false, false
			allInstrs(f, func(_ *ssa.BasicBlock, in ssa.Instruction) {
				switch x := in.(type) {
				case *ssa.BinOp:
					if k, ok := constInt(x.Y); ok && x.Op == token.SUB && k == 'a' {
						subA = true
					}
				case *ssa.UnOp:
					if g, ok := x.X.(*ssa.Global); ok && g.Name() == "ErrInvalidHex" {
						errHex = true
					}
				}
			})
			if subA && errHex {
				found = append(found, f)
			}
		}
		if len(found) == 1 {
			return found[0]
		}
		return nil
	},
	// the answer dispatcher of the lite client: the method of Client, called from the reader loop, that hands a
	// packet to the waiting caller - it (or a helper it calls) looks the query id up in the map of reply channels
	"liteclient:Client.processQueryAnswer": func(c *Ctx) *ssa.Function {
		q := c.fieldByType("liteclient", "Client", isMapOfChan)
		if q == "" {
			return nil
		}
		var lookupFn *ssa.Function
		for _, f := range c.moduleFuncs("liteclient") {
			allInstrs(f, func(_ *ssa.BasicBlock, in ssa.Instruction) {
				if lk, ok := in.(*ssa.Lookup); ok {
					if ld, ok := lk.X.(*ssa.UnOp); ok {
						if of, ok := ownerField(ld.X); ok && of == q {
							lookupFn = f
						}
					}
				}
			})
		}
		if lookupFn == nil {
			return nil
		}
		hasSend := func(f *ssa.Function) bool {
			n := 0
			allInstrs(f, func(_ *ssa.BasicBlock, in ssa.Instruction) {
				if _, ok := in.(*ssa.Send); ok {
					n++
				}
			})
			return n > 0
		}
		if hasSend(lookupFn) {
			return lookupFn
		}
		if caller := soleCaller(lookupFn); caller != nil && hasSend(caller) {
			return caller
		}
		return nil
	},
	// the descriptor-byte function: the unexported helper of boc, called by the hasher, that takes a level mask and
	// returns byte(s) (d1, or d1 and d2 merged into one function)
	"boc:d1": func(c *Ctx) *ssa.Function {
		nic := c.fnByName("boc", "newImmutableCell")
		if nic == nil {
			return nil
		}
		var found *ssa.Function
		for _, ci := range callsIn(nic) {
			h := plainHelper(ci.Common().StaticCallee())
			if h == nil || h.Signature.Results().Len() == 0 {
				continue
			}
			isByte := func(t types.Type) bool {
				b, ok := t.Underlying().(*types.Basic)
				return ok && b.Kind() == types.Uint8
			}
			takesMask := false
			for i := 0; i < h.Signature.Params().Len(); i++ {
				if strings.HasSuffix(h.Signature.Params().At(i).Type().String(), "boc.levelMask") {
					takesMask = true
				}
			}
			if takesMask && isByte(h.Signature.Results().At(0).Type()) {
				found = h
			}
		}
		return found
	},
	// the one hashing entry of a cell: the unexported method of Cell that builds the immutable cell and takes its top-level hash
	"boc:Cell.hash": func(c *Ctx) *ssa.Function {
		var found *ssa.Function
		for _, f := range c.moduleFuncs("boc") {
			if f.Signature.Recv() == nil || f.Parent() != nil || !strings.HasSuffix(f.Signature.Recv().Type().String(), "boc.Cell") || plainHelper(f) == nil {
				continue
			}
			if len(callsTo(f, bocPath+".newImmutableCell")) > 0 && len(callsTo(f, bocPath+".immutableCell.Hash")) > 0 {
				if found != nil {
					return nil // ambiguous
				}
				found = f
			}
		}
		return found
	},
}

// qn: the qualified name (as callQName prints it) of the anchor rel.name, resolved by role when renamed.
func (c *Ctx) qn(rel, name string) string {
	if f := c.fn(rel, name); f != nil {
		if obj, ok := f.Object().(*types.Func); ok {
			return qname(obj)
		}
	}
	if rel == "" {
		return modPath + "." + name
	}
	return modPath + "/" + rel + "." + name
}

// fieldByType: the unique field of struct rel.typ whose type satisfies pred, as "rel.typ.field" ("" when none or several).
func (c *Ctx) fieldByType(rel, typ string, pred func(types.Type) bool) string {
	p := c.pkg(rel)
	if p == nil {
		return ""
	}
	tn, ok := p.Types.Scope().Lookup(typ).(*types.TypeName)
	if !ok {
		return ""
	}
	st, ok := tn.Type().Underlying().(*types.Struct)
	if !ok {
		return ""
	}
	found := ""
	for i := 0; i < st.NumFields(); i++ {
		if pred(st.Field(i).Type()) {
			if found != "" {
				return ""
			}
			found = lastSeg(rel) + "." + typ + "." + st.Field(i).Name()
		}
	}
	return found
}

func lastSeg(rel string) string {
	if i := strings.LastIndex(rel, "/"); i >= 0 {
		return rel[i+1:]
	}
	return rel
}

func isMapOfChan(t types.Type) bool {
	m, ok := t.Underlying().(*types.Map)
	if !ok {
		return false
	}
	_, ok = m.Elem().Underlying().(*types.Chan)
	return ok
}

// heldAt: the write-held lock (field name "pkg.Type.field") at an instruction when exactly one is held.
func heldAt(la *lockAnalysis, in ssa.Instruction) string {
	found := ""
	for l, m := range la.at(in) {
		if m == 'W' {
			if found != "" {
				return ""
			}
			found = l
		}
	}
	return found
}
