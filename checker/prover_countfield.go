package main

import (
	"fmt"
	"go/token"
	"go/types"

	"golang.org/x/tools/go/ssa"
)

// Derived data-structure invariant "count field <= N" (no trusted axiom, no name):
// an int field of an unexported struct is bounded by N when EVERY store to it in its package is
//   - a constant, or
//   - a counter of a loop over a fixed-size array: a loop-header phi [c0, self+1] in the header
//     of a loop whose own induction variable R = phi[-1, R+1] is tested R+1 < N with N constant
//     (the shape go/ssa gives `for i := range array`): the counter grows by at most one per trip
//     and there are at most N trips, or a merge of such values,
// its address never escapes, and whole-struct stores only copy a locally built literal or zero.
// With it the prover can bound j in `for j := 0; j < ci.refsNumber; j++ { ci.refsIndex[j] }`
// against the [4]int array - and reports the loop that starts one too high.

type countKey struct {
	t   string
	fld int
}

var countMemo = map[*ssa.Program]map[countKey][2]int64{}

func (c *Ctx) countFieldMax(fa *ssa.FieldAddr) (int64, bool) {
	pt, ok := fa.X.Type().Underlying().(*types.Pointer)
	if !ok {
		return 0, false
	}
	named, ok := pt.Elem().(*types.Named)
	if !ok || named.Obj().Pkg() == nil {
		return 0, false
	}
	st, ok := named.Underlying().(*types.Struct)
	if !ok || fa.Field >= st.NumFields() {
		return 0, false
	}
	fld := st.Field(fa.Field)
	if fld.Exported() && named.Obj().Exported() {
		return 0, false // writable from other packages
	}
	if b, ok := fld.Type().Underlying().(*types.Basic); !ok || b.Info()&types.IsInteger == 0 {
		return 0, false
	}
	prog := fa.Parent().Prog
	if countMemo[prog] == nil {
		countMemo[prog] = map[countKey][2]int64{}
	}
	key := countKey{named.String(), fa.Field}
	if v, ok := countMemo[prog][key]; ok {
		return v[0], v[1] == 1
	}
	countMemo[prog][key] = [2]int64{0, 0} // recursion guard
	sp := prog.Package(named.Obj().Pkg())
	if sp == nil {
		return 0, false
	}
	var fns []*ssa.Function
	seen := map[*ssa.Function]bool{}
	var addF func(f *ssa.Function)
	addF = func(f *ssa.Function) {
		if f == nil || seen[f] || len(f.Blocks) == 0 {
			return
		}
		seen[f] = true
		fns = append(fns, f)
		for _, a := range f.AnonFuncs {
			addF(a)
		}
	}
	for _, m := range sp.Members {
		switch x := m.(type) {
		case *ssa.Function:
			addF(x)
		case *ssa.Type:
			for _, t := range []types.Type{x.Type(), types.NewPointer(x.Type())} {
				ms := prog.MethodSets.MethodSet(t)
				for i := 0; i < ms.Len(); i++ {
					addF(prog.MethodValue(ms.At(i)))
				}
			}
		}
	}
	max, okAll, stores := int64(0), true, 0
	for _, f := range fns {
		allInstrs(f, func(_ *ssa.BasicBlock, in ssa.Instruction) {
			switch x := in.(type) {
			case *ssa.FieldAddr:
				if x.Field != fa.Field || !types.Identical(x.X.Type(), fa.X.Type()) {
					return
				}
				if refs := x.Referrers(); refs != nil {
					for _, r := range *refs {
						switch y := r.(type) {
						case *ssa.Store:
							if y.Addr != ssa.Value(x) {
								okAll = false // the address itself is stored somewhere
								return
							}
							stores++
							if hi, ok := counterMax(y.Val, 0); ok {
								if hi > max {
									max = hi
								}
							} else {
								okAll = false
							}
						case *ssa.UnOp:
							if y.Op != token.MUL {
								okAll = false
							}
						case *ssa.DebugRef:
						default:
							okAll = false // address escapes
						}
					}
				}
			case *ssa.Store:
				// whole-struct store
				if p, ok := x.Addr.Type().Underlying().(*types.Pointer); ok && types.Identical(p.Elem(), named) {
					switch v := x.Val.(type) {
					case *ssa.Const:
					case *ssa.UnOp:
						if _, isAlloc := v.X.(*ssa.Alloc); !(v.Op == token.MUL && isAlloc) {
							okAll = false
						}
					default:
						okAll = false
					}
				}
			}
		})
	}
	if !okAll || stores == 0 {
		return 0, false
	}
	countMemo[prog][key] = [2]int64{max, 1}
	c.note("derived invariant: 0 <= %s.%s <= %d (every store in package %s is a constant or a counter of a loop over a fixed-size array; %d store(s), address never escapes)", named.Obj().Name(), fmt.Sprintf("#%d", fa.Field), max, named.Obj().Pkg().Name(), stores)
	return max, true
}

// counterMax: an upper bound of v when v is a non-negative constant, a bounded-loop counter, or a merge of those.
func counterMax(v ssa.Value, d int) (int64, bool) {
	if d > 6 {
		return 0, false
	}
	if k, ok := constInt(v); ok {
		return k, k >= 0
	}
	switch x := v.(type) {
	case *ssa.Phi:
		// loop counter at the header of a bounded loop
		if hi, ok := boundedLoopCounter(x); ok {
			return hi, true
		}
		max := int64(0)
		for _, e := range x.Edges {
			if e == ssa.Value(x) {
				continue
			}
			hi, ok := counterMax(e, d+1)
			if !ok {
				return 0, false
			}
			if hi > max {
				max = hi
			}
		}
		return max, true
	case *ssa.BinOp:
		if x.Op == token.ADD {
			if k, ok := constInt(x.Y); ok && k == 1 {
				if ph, ok := x.X.(*ssa.Phi); ok {
					if hi, ok := boundedLoopCounter(ph); ok {
						return hi + 1, true
					}
				}
			}
		}
	}
	return 0, false
}

// boundedLoopCounter: ph = phi[c0, ph+1] in a block that also holds R = phi[-1, R+1] and ends in
// `if R+1 < N` (N constant): ph <= c0 + N everywhere.
func boundedLoopCounter(ph *ssa.Phi) (int64, bool) {
	c0, hasInit, hasStep := int64(0), false, false
	for _, e := range ph.Edges {
		if k, ok := constInt(e); ok && k >= 0 {
			if hasInit && k != c0 {
				return 0, false
			}
			c0, hasInit = k, true
			continue
		}
		if e == ssa.Value(ph) {
			continue
		}
		bo, ok := e.(*ssa.BinOp)
		if !ok || bo.Op != token.ADD || bo.X != ssa.Value(ph) {
			return 0, false
		}
		if k, ok := constInt(bo.Y); !ok || k != 1 {
			return 0, false
		}
		hasStep = true
	}
	if !hasInit || !hasStep {
		return 0, false
	}
	b := ph.Block()
	iff := lastIf(b)
	if iff == nil {
		return 0, false
	}
	cmp, ok := iff.Cond.(*ssa.BinOp)
	if !ok || cmp.Op != token.LSS {
		return 0, false
	}
	n, ok := constInt(cmp.Y)
	if !ok || n < 0 {
		return 0, false
	}
	inc, ok := cmp.X.(*ssa.BinOp)
	if !ok || inc.Op != token.ADD {
		return 0, false
	}
	if k, ok := constInt(inc.Y); !ok || k != 1 {
		return 0, false
	}
	r, ok := inc.X.(*ssa.Phi)
	if !ok || r.Block() != b {
		return 0, false
	}
	for _, e := range r.Edges {
		if k, ok := constInt(e); ok && k == -1 {
			continue
		}
		if e == ssa.Value(inc) {
			continue
		}
		return 0, false
	}
	// the loop body is entered on the true edge only; the counter's increment lives in the loop
	return c0 + n, true
}

// earlierSameLoad: an earlier load of the same field of the same base whose value this load must
// repeat, because nothing that could write the field (a store to that field of any value of the
// struct type, a store through a plain pointer of the field's type, any non-builtin call, a
// deferred or spawned call) lies on any path between the two. The prover then uses one variable
// for both, so `if c.refCursor > 3 { return }; c.refs[c.refCursor]` is provable although the
// function stores the field later.
func earlierSameLoad(ld *ssa.UnOp) *ssa.UnOp { return earlierSameLoadD(ld, 0) }

func earlierSameLoadD(ld *ssa.UnOp, depth int) *ssa.UnOp {
	if depth > 2 {
		return nil
	}
	fa, ok := ld.X.(*ssa.FieldAddr)
	if !ok || ld.Block() == nil {
		return nil
	}
	f := ld.Parent()
	// the base is an object this function allocated and has not handed out yet at the load (no use of the
	// pointer other than field accesses can run before the load): no callee can write its fields
	unpublished := false
	if al, ok := fa.X.(*ssa.Alloc); ok && al.Heap {
		unpublished = true
		for _, r := range *al.Referrers() {
			if _, isFA := r.(*ssa.FieldAddr); isFA {
				continue
			}
			if _, isDbg := r.(*ssa.DebugRef); isDbg {
				continue
			}
			rb := r.Block()
			if rb == ld.Block() || reachableFrom(rb, nil)[ld.Block()] {
				unpublished = false
			}
		}
	}
	interferes := func(in ssa.Instruction) bool {
		switch x := in.(type) {
		case *ssa.Store:
			if fa2, ok := x.Addr.(*ssa.FieldAddr); ok {
				return fa2.Field == fa.Field && types.Identical(fa2.X.Type(), fa.X.Type())
			}
			switch x.Addr.(type) {
			case *ssa.IndexAddr, *ssa.Alloc, *ssa.Global:
				return false
			}
			if p, ok := x.Addr.Type().Underlying().(*types.Pointer); ok {
				if fp, ok := fa.Type().Underlying().(*types.Pointer); ok && types.Identical(p.Elem(), fp.Elem()) {
					return true
				}
				// whole-struct store
				if bp, ok := fa.X.Type().Underlying().(*types.Pointer); ok && types.Identical(p.Elem(), bp.Elem()) {
					return true
				}
			}
			return false
		case *ssa.Call:
			_, isBuiltin := x.Call.Value.(*ssa.Builtin)
			return !isBuiltin && !unpublished
		case *ssa.Go, *ssa.Defer, *ssa.RunDefers:
			return !unpublished
		}
		return false
	}
	idx := func(b *ssa.BasicBlock, in ssa.Instruction) int {
		for i, x := range b.Instrs {
			if x == in {
				return i
			}
		}
		return -1
	}
	succReach := func(b *ssa.BasicBlock) map[*ssa.BasicBlock]bool { // blocks reachable by >= 1 edge
		seen := map[*ssa.BasicBlock]bool{}
		stack := append([]*ssa.BasicBlock{}, b.Succs...)
		for len(stack) > 0 {
			x := stack[len(stack)-1]
			stack = stack[:len(stack)-1]
			if seen[x] {
				continue
			}
			seen[x] = true
			stack = append(stack, x.Succs...)
		}
		return seen
	}
	b2 := ld.Block()
	var best *ssa.UnOp
	allInstrs(f, func(b1 *ssa.BasicBlock, in ssa.Instruction) {
		l1, ok := in.(*ssa.UnOp)
		if !ok || l1 == ld || l1.Op != token.MUL || best != nil {
			return
		}
		fa1, ok := l1.X.(*ssa.FieldAddr)
		if !ok || fa1.Field != fa.Field || !sameBase(fa1.X, fa.X, depth) {
			return
		}
		if !b1.Dominates(b2) {
			return
		}
		from1 := succReach(b1)
		if b1 == b2 {
			i1, i2 := idx(b1, l1), idx(b2, ld)
			if i1 > i2 || from1[b1] { // later in the block, or the block repeats
				return
			}
			for _, x := range b1.Instrs[i1:i2] {
				if interferes(x) {
					return
				}
			}
			best = l1
			return
		}
		// (b1 may lie in a cycle: the blocks examined below are then all those of the cycle that can run
		// between an execution of the first load and the second one, a superset of the real paths)
		if from1[b1] {
			for _, x := range b1.Instrs[:idx(b1, l1)] {
				if interferes(x) {
					return
				}
			}
		}
		for _, x := range b1.Instrs[idx(b1, l1):] {
			if interferes(x) {
				return
			}
		}
		whole2 := succReach(b2)[b2]
		for i, x := range b2.Instrs {
			if !whole2 && i >= idx(b2, ld) {
				break
			}
			if interferes(x) {
				return
			}
		}
		for _, x := range f.Blocks {
			if x == b1 || x == b2 || !from1[x] || !succReach(x)[b2] {
				continue
			}
			for _, y := range x.Instrs {
				if interferes(y) {
					return
				}
			}
		}
		best = l1
	})
	return best
}

// sameBase: two struct pointers denote the same object: the same SSA value, or loads of the same
// field that repeat each other (m.A.B read twice).
func sameBase(a, b ssa.Value, depth int) bool {
	if a == b {
		return true
	}
	if depth > 2 {
		return false
	}
	la, ok1 := a.(*ssa.UnOp)
	lb, ok2 := b.(*ssa.UnOp)
	if !ok1 || !ok2 || la.Op != token.MUL || lb.Op != token.MUL {
		return false
	}
	fa, ok1 := la.X.(*ssa.FieldAddr)
	fb, ok2 := lb.X.(*ssa.FieldAddr)
	if !ok1 || !ok2 || fa.Field != fb.Field || !sameBase(fa.X, fb.X, depth+1) {
		return false
	}
	// both repeat a common earlier load (or one repeats the other)
	ca, cb := ssa.Value(la), ssa.Value(lb)
	if e := earlierSameLoadD(la, depth+1); e != nil {
		ca = e
	}
	if e := earlierSameLoadD(lb, depth+1); e != nil {
		cb = e
	}
	return ca == cb || ca == ssa.Value(lb) || cb == ssa.Value(la)
}
