package main

import (
	"fmt"
	"go/token"
	"go/types"

	"golang.org/x/tools/go/ssa"
)

func init() { register("C07", propC07) }

// rootsByName resolves "pkg:Name" / "pkg:Recv.Name" roots; unresolved names are violations.
func (c *Ctx) rootsByName(rule string, names ...string) []*ssa.Function {
	var out []*ssa.Function
	for _, n := range names {
		i := 0
		for i < len(n) && n[i] != ':' {
			i++
		}
		f := c.mustFn(rule, n[:i], n[i+1:])
		if f != nil {
			out = append(out, f)
		}
	}
	return out
}

func propC07(c *Ctx) propInfo {
	roots := c.rootsByName("E1.roots",
		"boc:DeserializeBoc", "boc:DeserializeSingleRootBoc", "boc:DeserializeBocBase64", "boc:DeserializeSinglRootBase64",
		"boc:DeserializeBocHex", "boc:DeserializeSinglRootHex", "boc:Cell.UnmarshalJSON",
		// operations on the parser's result that the property names
		"boc:Cell.Hash", "boc:Cell.Hash256", "boc:Cell.HashString", "boc:Hasher.Hash", "boc:Hasher.HashString",
		"boc:Cell.ToBoc", "boc:Cell.ToBocCustom", "boc:Cell.ToBocString", "boc:Cell.ToBocBase64", "boc:SerializeBoc",
		"boc:Cell.ToString", "boc:Cell.Level", "boc:Cell.MarshalJSON")
	depth := 2
	if c.Tier == "thorough" {
		depth = 3
	}
	c.panicFree(e1cfg{roots: roots, pkgs: map[string]bool{"boc": true}, maxDepth: depth,
		exc: excC07, excP5: excC07P5})
	if f := c.mustFn("E1.P6-forward-refs", "boc", "DeserializeBoc"); f != nil {
		env := &e1env{cfg: e1cfg{maxDepth: 0, exc: excC07}, ci: &callIndex{}, reach: map[*ssa.Function]bool{}}
		// the linking loop may sit in an unexported helper of DeserializeBoc
		for _, g := range c.helperClosure(f, 2, func(h *ssa.Function) bool { return plainHelper(h) == nil }) {
			c.forwardLinks(g, env)
		}
	}
	c.floor("E1.P6-forward-refs", 1)
	c.parserDepthBound()
	c.hashIndexCounter()
	c.visitMarkers()
	c.floor("E1.P5-memo", 2)
	c.floor("E1.P5-depth-compute", 2)
	c.workBudget()
	c.cacheOnlyComplete()
	c.hasherState()
	c.bufferSizing() // the bounds proofs of the bit-level readers/writers lean on 8*len(buf) >= cap
	c.floor("E1.P2-bounds", 150)
	c.floor("E1.P4-alloc", 15)
	c.floor("E1.P5-recursion", 5)
	c.floor("E1.P7-libpre", 4)
	return propInfo{
		explanation: "Static structural clauses of C07 (DESIGN.md §4 C07): on every function of package boc reachable from the BOC parsing entry points and from Hash/ToBoc/ToString of their result: no explicit panic (P1), every index/slice proved in bounds by a linear-arithmetic prover from dominating checks (P2), no unchecked type assertion (P3), every data-sized allocation bounded by a constant or the input size (P4), every recursive cycle depth-bounded (P5), references linked strictly forward and in range (P6), library preconditions that panic (P7). Decides absence of these crash constructs, not running time.",
		assumptions: []string{"integer overflow of int/uint arithmetic on sizes is not modelled", "BitString invariant 8*len(buf) >= cap >= len >= rCursor >= 0 is trusted (who-may-write rule under C06)", "nil dereference is not modelled"},
	}
}

// Per-construct exceptions of C07, each confirmed by reading. A key names one construct (shape
// based, not line based); "fn:" keys cover the index expressions of one function.
var bsInv = "BitString invariant 8*len(buf) >= cap >= len >= rCursor >= 0 (trusted axiom; the writers of buf/cap/len are frozen by the C06 who-may-write rule)"

var gCheckRange = guardRef{"boc:BitString.checkRange", "(n>=*s.cap)"}
var gSizeLo = guardRef{"boc:parseBocHeader", "(φsizeBytes<1)"}
var gSizeHi = guardRef{"boc:parseBocHeader", "(φsizeBytes>4)"}

// (the count comes from the integer reader directly, or as the first result of an unexported "read and advance" helper)
var gCells = guardRef{"boc:parseBocHeader", "(boc.readNBytesUIntFromArray()>len(_[_:])) ∥ (boc.…()#0>len(boc.…()#1))"}

// (stated as what is compared: bits.len against 8*(2+34*offset) = 16 + 272*offset)
var gPruned = guardRef{"boc:newImmutableCell", "lin:1,-272;-16"}
var gCellLen = guardRef{"boc:deserializeCellData", "(len(φcellData)<(…+(referenceIndexSize*_)))"}
var gImportDepth = guardRef{"boc:bagOfCells.importCell", "(depth>1024)"}

// the parser's depth limit: the test of a cell's slot in the depth slice, or of the local that the slot is written
// from (E1.P5-depth-compute decides that the tested quantity is the cell's real depth in either form)
var gParseDepth = guardRef{"boc:DeserializeBoc", "(*make[φi]>1024) ∥ (φdepth>1024)"}

var excC07 = map[string]excEntry{
	// ---- BitString internals: index n/8 with n < cap (checkRange) or n = len/rCursor
	"(*boc.BitString).On P2 index *s.buf[(n/8)]":                                 {"n < s.cap is established by checkRange (its error return dominates the store, C06 rule) and " + bsInv, []guardRef{gCheckRange}},
	"(*boc.BitString).On P2 index *s.buf[(n/8)]#2":                               {"same element, read-modify-write", []guardRef{gCheckRange}},
	"(*boc.BitString).Off P2 index *s.buf[(n/8)]":                                {"n < s.cap is established by checkRange and " + bsInv, []guardRef{gCheckRange}},
	"(*boc.BitString).Off P2 index *s.buf[(n/8)]#2":                              {"same element, read-modify-write", []guardRef{gCheckRange}},
	"(*boc.BitString).mustGetBit P2 index *s.buf[(n/8)]":                         {"unexported; every caller passes a position < len (availability checks of the readers, C06 rule) and " + bsInv, nil},
	"(*boc.BitString).GetTopUppedArray P2 slice *&ret.buf[0:((_&-8)/8)]":         {"ceil(len/8) <= len(buf) by " + bsInv, nil},
	"(*boc.BitString).ToFiftHex P2 slice *s.buf[0:((_+7)/8)]":                    {"ceil(len/8) <= len(buf) by " + bsInv, nil},
	"(*boc.BitString).ToFiftHex P2 slice strings.ToUpper()[0:(len(_)-1)]":        {"reached only when len%8 != 0 and len%4 == 0, so at least one byte (two hex digits) was encoded", nil},
	"(*boc.BitString).Grow P4 make []byte len=((bitLen/8)+1) cap=((bitLen/8)+1)": {"callers pass 4-len%4 (ToFiftHex) or the bit length of an in-memory BitString (Append); not derived from input bytes", nil},
	"boc.NewBitString P4 make []byte len=((_&-8)/8) cap=((_&-8)/8)":              {"bitLen is a constant (CellBits, 264) or the size of an in-memory object at every in-module call on a decode path", nil},
	"(*boc.Cell).bocReprWithoutRefs P4 make []byte len=((_/8)+2) cap=((_/8)+2)":  {"BitSize() is the written length of an in-memory cell (<= 1023 for parsed cells)", nil},
	// ---- serializer bookkeeping: indices are positions handed out by orderState.add / counts of a [4]*Cell array
	"(*boc.bagOfCells).importCell P2 index *state.cellList[*state.cells[boc.Hasher.HashString()#0]#0]": {"positions in state.cellList are handed out by orderState.add (the index of the element it appends) and recorded in state.cells / refsIndex / rootInfo.index only for cells already added; the list only grows", nil},
	"(*boc.bagOfCells).importCell P2 index *state.cellList[boc.bagOfCells.importCell()#0]":             {"positions in state.cellList are handed out by orderState.add (the index of the element it appends) and recorded in state.cells / refsIndex / rootInfo.index only for cells already added; the list only grows", nil},
	"(*boc.bagOfCells).reorderCells P2 index *state.cellList[**roots[_].index]":                        {"positions in state.cellList are handed out by orderState.add (the index of the element it appends) and recorded in state.cells / refsIndex / rootInfo.index only for cells already added; the list only grows", nil},
	"(*boc.bagOfCells).reorderCells P2 index *state.cellList[**roots[_].index]#2":                      {"positions in state.cellList are handed out by orderState.add (the index of the element it appends) and recorded in state.cells / refsIndex / rootInfo.index only for cells already added; the list only grows", nil},
	"(*boc.bagOfCells).reorderCells P2 index *state.cellList[*_.refsIndex[φj]]":                        {"positions in state.cellList are handed out by orderState.add (the index of the element it appends) and recorded in state.cells / refsIndex / rootInfo.index only for cells already added; the list only grows; j < refsNumber is proved (derived count-field invariant)", nil},
	"(*boc.bagOfCells).reorderCells P2 index *state.cellList[*_.refsIndex[φj]]#2":                      {"positions in state.cellList are handed out by orderState.add (the index of the element it appends) and recorded in state.cells / refsIndex / rootInfo.index only for cells already added; the list only grows", nil},
	"(*boc.bagOfCells).reorderCells P2 index *state.cellList[*_.refsIndex[φj]]#3":                      {"positions in state.cellList are handed out by orderState.add (the index of the element it appends) and recorded in state.cells / refsIndex / rootInfo.index only for cells already added; the list only grows", nil},
	"(*boc.bagOfCells).reorderCells P2 index *state.cellList[φi]":                                      {"i counts down from len(state.cellList)-1; nothing in the loop shrinks the list (the field is re-loaded each trip, which the prover does not identify)", nil},
	"(*boc.bagOfCells).revisit P2 index *state.cellList[*_.refsIndex[φj]]":                             {"positions in state.cellList are handed out by orderState.add (the index of the element it appends) and recorded in state.cells / refsIndex / rootInfo.index only for cells already added; the list only grows", nil},
	"(*boc.bagOfCells).revisit P2 index *state.cellList[cellIndex]":                                    {"positions in state.cellList are handed out by orderState.add (the index of the element it appends) and recorded in state.cells / refsIndex / rootInfo.index only for cells already added; the list only grows; callers pass root.index or a refsIndex entry", nil},
	"(*boc.bagOfCells).serializeBoc P2 slice &b[(8-math.Max()):]":                                      {"refByteSize = max(ceil(bits.Len(n)/8), 1) lies in 1..8 because bits.Len <= 64 (the /8 and the rounding are checked by the C01 width rule)", nil},
	// ---- hashing
	// (patterns: the accessors may index through one phi or once per branch; the index is the hash index of a sub-mask or 0)
	`re:^\(\*boc\.immutableCell\)\.(Hash|Depth) P2 index \*\w+\.(hashes|depths)\[(φ|0|boc\.levelMask\.HashIndex\(\))\]`: {"newImmutableCell appends one hash and one depth per significant level >= offset; the index is HashIndex of a sub-mask of the cell's own mask (pruned cells use index 0 for their own level)", nil},
	`re:^\(\*boc\.immutableCell\)\.(Hash|Depth) P2 slice \*\w+\.bitsBuf\[`:                                              {"index < offset = popcount(mask); newImmutableCell rejects a pruned branch whose data is shorter than 2+34*offset bytes (the offsets themselves are decided by E7.pruned-accessors)", []guardRef{gPruned}},
	"boc.readNBytesUIntFromArray P2 index arr[φi] @ (*boc.immutableCell).Depth call(2,*ic.bitsBuf[(_+_):])":             {"2 bytes remain after 2+32*offset+2*index by the pruned-branch length check", []guardRef{gPruned}},
	"boc.newImmutableCell P2 index *&complit.hashes[((_-_)-1)]":                                                         {"taken only when hashIndex > offset, i.e. at least one hash was appended before", nil},
	"boc.newImmutableCell P4 make []*github.com/tonkeeper/tongo/boc.immutableCell len=0 cap=boc.Cell.RefsSize()":        {"RefsSize counts the non-nil entries of a [4]*Cell array", nil},
	// ---- cell parser
	// (pattern: the data part cellData[0:n] and the rest cellData[n:], n = ceil(d2/2) however it is spelt)
	`re:^boc\.deserializeCellData P2 slice φ\w*\[(0:)?\([^\]]*\):?\]$`:                                                                                                                  {"guard len(cellData) >= dataBytesSize + referenceIndexSize*refNum with referenceIndexSize = header.sizeBytes in 1..4 and refNum = d1%8 >= 0", []guardRef{gCellLen, gSizeLo}},
	"boc.deserializeCellData P2 slice φcellData[referenceIndexSize:] @ boc.DeserializeBoc call(φcellsData,*boc.parseBocHeader()#0.sizeBytes)":                                           {"consuming loop over refNum references under the same guard; referenceIndexSize validated 1..4 by parseBocHeader", []guardRef{gCellLen, gSizeLo, gSizeHi}},
	"boc.readNBytesUIntFromArray P2 index arr[φi] @ boc.deserializeCellData call(referenceIndexSize,φcellData) @ boc.DeserializeBoc call(φcellsData,*boc.parseBocHeader()#0.sizeBytes)": {"same consuming loop", []guardRef{gCellLen, gSizeLo}},
	// (the same two constructs when "read an index, advance the buffer" is an unexported helper called from the
	// reference loop with (referenceIndexSize, cellData): the helper's buf[n:] is that loop's cellData[size:])
	`re:^boc\.\w+ P2 slice [^\[]*\[[^\]]*:\] @ boc\.deserializeCellData call\([^,)]*,φ\w*\) @ boc\.DeserializeBoc call\(φ\w*,\*boc\.parseBocHeader\(\)#0\.sizeBytes\)$`: {"consuming loop over refNum references under the same guard, written through a read-and-advance helper; referenceIndexSize validated 1..4 by parseBocHeader", []guardRef{gCellLen, gSizeLo, gSizeHi}},
	`re:^boc\.readNBytesUIntFromArray P2 index [^\[]*\[φ\w*\] @ boc\.\w+ call\([^,)]*,[^,)]*\) @ boc\.deserializeCellData call\([^,)]*,φ\w*\)`:                          {"same consuming loop, through the helper", []guardRef{gCellLen, gSizeLo}},
	"boc.DeserializeBoc P2 index φrefsArray[φi]": {"refsArray receives exactly one append per iteration of the first loop (cellCount iterations, early exits leave the function), so len(refsArray) = cellCount > i", nil},
	"boc.DeserializeBoc P2 index make[φi]":       {"depths has len(cellsArray) = cellCount elements by the same append-count argument", nil},
	"boc.DeserializeBoc P4 make []*github.com/tonkeeper/tongo/boc.Cell len=0 cap=*boc.parseBocHeader()#0.cellCount": {"parseBocHeader rejects cellCount > remaining input length", []guardRef{gCells}},
	"boc.DeserializeBoc P4 make [][]int len=0 cap=*boc.parseBocHeader()#0.cellCount":                                {"parseBocHeader rejects cellCount > remaining input length", []guardRef{gCells}},
}

var excC07P5 = map[string]excEntry{
	"(*boc.BitString).ToFiftHex": {"recurses exactly once, on a copy padded to a multiple of 4 bits (the recursive call takes the len%4 == 0 branch)", nil},
	"(*boc.Cell).toStringImpl":   {"depth is the depth of the cell tree, which the parser bounds by maxDepth; the total work is bounded by the iterationsLimit counter", []guardRef{gParseDepth}},
	"(*boc.bagOfCells).revisit":  {"recursion follows cell references; importCell (run first by importRoots) rejects trees deeper than maxDepth", []guardRef{gImportDepth}},
	"boc.newImmutableCell":       {"recursion follows cell references of an acyclic tree (references strictly forward, P6) whose depth the parser bounds by maxDepth", []guardRef{gParseDepth}},
}

// workBudget: the printing recursion is bounded in total work by a countdown passed by pointer.
// The countdown idiom is sound when the stop test and the decrement fit together: a test for
// equality with zero needs a decrement of exactly one (otherwise the counter can step over zero and
// the limit never fires); an inequality test (<= 0) works with any positive decrement. The recursive
// call must be behind the failing edge of the stop test.
func (c *Ctx) workBudget() {
	const R = "E1.P5-budget"
	f := c.mustFn(R, "boc", "Cell.toStringImpl")
	if f == nil {
		return
	}
	var lim *ssa.Parameter
	for _, p := range f.Params {
		if pt, ok := p.Type().(*types.Pointer); ok && isInteger(pt.Elem()) {
			lim = p
		}
	}
	if lim == nil {
		c.bad(R, "toStringImpl has a work budget", f.Pos(), "Cell.toStringImpl no longer takes a countdown by pointer: its total work on a DAG-shaped input is unbounded")
		return
	}
	isLoad := func(v ssa.Value) bool {
		u, ok := v.(*ssa.UnOp)
		return ok && u.Op == token.MUL && u.X == ssa.Value(lim)
	}
	var stop []edge
	eqTest := false
	for _, b := range f.Blocks {
		iff := lastIf(b)
		if iff == nil {
			continue
		}
		bo, ok := iff.Cond.(*ssa.BinOp)
		if !ok || !isLoad(bo.X) {
			continue
		}
		if k, ok := constInt(bo.Y); !ok || k != 0 {
			continue
		}
		switch bo.Op {
		case token.EQL:
			eqTest = true
			stop = append(stop, edge{b, 1}) // continuing edge
		case token.LEQ, token.LSS:
			stop = append(stop, edge{b, 1})
		case token.NEQ, token.GTR:
			if bo.Op == token.NEQ {
				eqTest = true
			}
			stop = append(stop, edge{b, 0})
		}
	}
	unit := true
	nDec := 0
	for _, st := range storesTo(lim) {
		bo, ok := st.Val.(*ssa.BinOp)
		if !ok || bo.Op != token.SUB || !isLoad(bo.X) {
			unit = false
			continue
		}
		nDec++
		if k, ok := constInt(bo.Y); !ok || k != 1 {
			unit = false
		}
	}
	recOK := true
	nRec := 0
	allInstrs(f, func(b *ssa.BasicBlock, in ssa.Instruction) {
		if cl, ok := in.(*ssa.Call); ok {
			if sc := cl.Call.StaticCallee(); sc != nil && origin(sc) == origin(f) {
				nRec++
				d := false
				for _, e := range stop {
					if edgeDominates(f, e, b) {
						d = true
					}
				}
				if !d {
					recOK = false
				}
				// the same counter is handed down
				passes := false
				for _, a := range cl.Call.Args {
					if a == ssa.Value(lim) {
						passes = true
					}
				}
				if !passes {
					recOK = false
				}
			}
		}
	})
	okv := len(stop) > 0 && nDec > 0 && recOK && nRec > 0 && (!eqTest || unit)
	c.check(okv, R, "toStringImpl: countdown test and decrement fit together, recursion behind the test", f.Pos(), "*limit == 0 -> stop; *limit -= 1; recursive calls pass the same counter",
		fmt.Sprintf("Cell.toStringImpl's work budget is not a sound countdown (stop tests: %d, equality test: %v, decrements: %d, all by exactly 1: %v, recursive calls behind the test with the same counter: %v): with a decrement other than 1 the counter steps over zero and a small DAG-shaped BOC prints for ever", len(stop), eqTest, nDec, unit, recOK))
	c.floor(R, 1)
}
