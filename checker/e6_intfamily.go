package main

import (
	"fmt"
	"go/token"
	"go/types"
	"regexp"
	"strconv"

	"golang.org/x/tools/go/ssa"
)

// E6 intfamily: the generated integer / bits types of tlb/integers.go.

var intNameRe = regexp.MustCompile(`^(VarUInteger|Uint|Int|Bits)([0-9]+)$`)

const bocPath = modPath + "/boc"

// callsTo lists the calls in f (in block order) to the given qualified callee.
func callsTo(f *ssa.Function, q string) []*ssa.Call {
	var out []*ssa.Call
	if f == nil {
		return nil
	}
	allInstrs(f, func(_ *ssa.BasicBlock, i ssa.Instruction) {
		if cl, ok := i.(*ssa.Call); ok && callQName(&cl.Call) == q {
			out = append(out, cl)
		}
	})
	return out
}

// argsOf returns the explicit arguments of a call (without the receiver for static method calls).
func argsOf(cl *ssa.Call) []ssa.Value {
	if cl.Call.IsInvoke() {
		return cl.Call.Args
	}
	if f := calleeFunc(&cl.Call); f != nil {
		if sig, ok := f.Type().(*types.Signature); ok && sig.Recv() != nil && len(cl.Call.Args) > 0 {
			return cl.Call.Args[1:]
		}
	}
	return cl.Call.Args
}

// singleConstArg: f makes exactly one call to callee and its argument #idx is the constant want.
func (c *Ctx) singleConstArg(rule, tname, role string, f *ssa.Function, callee string, idx int, want int64) bool {
	key := fmt.Sprintf("%s %s %s arg%d=%d", tname, role, shortQ(callee), idx, want)
	if f == nil {
		c.bad(rule, key, token.NoPos, "method missing: "+role)
		return false
	}
	cs := callsTo(f, callee)
	if len(cs) != 1 {
		c.bad(rule, key, f.Pos(), fmt.Sprintf("%s: expected exactly one call to %s, found %d", fnName(f), shortQ(callee), len(cs)))
		return false
	}
	a := argsOf(cs[0])
	if idx >= len(a) {
		c.bad(rule, key, cs[0].Pos(), "argument missing")
		return false
	}
	got, ok := constInt(a[idx])
	if !ok || got != want {
		c.bad(rule, key, cs[0].Pos(), fmt.Sprintf("%s calls %s with width/bound %v (constant=%v), schema width requires %d", fnName(f), shortQ(callee), got, ok, want))
		return false
	}
	c.ok(rule, key, cs[0].Pos(), "constant argument equals the declared width")
	return true
}

func constReturn(f *ssa.Function) (int64, bool) {
	if f == nil {
		return 0, false
	}
	rs := returnsOf(f)
	if len(rs) != 1 || len(rs[0].Results) != 1 {
		return 0, false
	}
	return constInt(retVal(rs[0], 0))
}

func (c *Ctx) method(named *types.Named, name string) *ssa.Function {
	for i := 0; i < named.NumMethods(); i++ {
		if named.Method(i).Name() == name {
			return c.Prog.FuncValue(named.Method(i))
		}
	}
	return nil
}

// intFamily checks all generated integer types. withJSON adds the JSON descriptor clauses (C20).
func (c *Ctx) intFamily(withTLB, withJSON, withKeys bool) int {
	const R = "E6.intfamily"
	p := c.pkg("tlb")
	if p == nil {
		c.bad(R, "package tlb", token.NoPos, "package tlb not loaded")
		return 0
	}
	n := 0
	scope := p.Types.Scope()
	for _, name := range scope.Names() {
		m := intNameRe.FindStringSubmatch(name)
		if m == nil {
			continue
		}
		tn, ok := scope.Lookup(name).(*types.TypeName)
		if !ok {
			continue
		}
		named, ok := tn.Type().(*types.Named)
		if !ok {
			continue
		}
		fam := m[1]
		N, _ := strconv.Atoi(m[2])
		n++
		under := named.Underlying()
		N64 := int64(N)
		if withTLB {
			// FixedSize (not for VarUInteger)
			if fam != "VarUInteger" {
				fs := c.method(named, "FixedSize")
				v, ok := constReturn(fs)
				c.check(ok && v == N64, R, name+" FixedSize", tn.Pos(), "FixedSize() returns the declared width", fmt.Sprintf("%s.FixedSize() returns %d (const=%v), declared width %d", name, v, ok, N))
			}
			switch fam {
			case "Uint", "Int":
				signed := fam == "Int"
				if N <= 64 {
					b, ok := under.(*types.Basic)
					want := smallestKind(N, signed)
					c.check(ok && b.Kind() == want, R, name+" underlying kind", tn.Pos(), "underlying Go kind is the smallest that holds the width with the right signedness",
						fmt.Sprintf("%s has underlying type %s; a %d-bit %s needs %s", name, under, N, fam, types.Typ[want]))
					w, r := "WriteUint", "ReadUint"
					if signed {
						w, r = "WriteInt", "ReadInt"
					}
					c.singleConstArg(R, name, "MarshalTLB", c.method(named, "MarshalTLB"), bocPath+".Cell."+w, 1, N64)
					c.singleConstArg(R, name, "UnmarshalTLB", c.method(named, "UnmarshalTLB"), bocPath+".Cell."+r, 0, N64)
				} else {
					c.check(isBigInt(under), R, name+" underlying kind", tn.Pos(), "underlying type is big.Int", fmt.Sprintf("%s: %d-bit integer must be a big.Int, is %s", name, N, under))
					w, r := "WriteBigUint", "ReadBigUint"
					if signed {
						w, r = "WriteBigInt", "ReadBigInt"
					}
					c.singleConstArg(R, name, "MarshalTLB", c.method(named, "MarshalTLB"), bocPath+".Cell."+w, 1, N64)
					c.singleConstArg(R, name, "UnmarshalTLB", c.method(named, "UnmarshalTLB"), bocPath+".Cell."+r, 0, N64)
				}
			case "VarUInteger":
				c.check(isBigInt(under), R, name+" underlying kind", tn.Pos(), "underlying type is big.Int", fmt.Sprintf("%s must be a big.Int, is %s", name, under))
				mf, uf := c.method(named, "MarshalTLB"), c.method(named, "UnmarshalTLB")
				c.singleConstArg(R, name, "MarshalTLB", mf, bocPath+".Cell.WriteLimUint", 1, N64-1)
				c.singleConstArg(R, name, "UnmarshalTLB", uf, bocPath+".Cell.ReadLimUint", 0, N64-1)
				// the length written is len(bytes) of the value and the same bytes follow
				okW := false
				if mf != nil {
					wl := callsTo(mf, bocPath+".Cell.WriteLimUint")
					wb := callsTo(mf, bocPath+".Cell.WriteBytes")
					if len(wl) == 1 && len(wb) == 1 {
						lenArg := argsOf(wl[0])[0]
						bytesArg := argsOf(wb[0])[0]
						okW = lenOf(func(v ssa.Value) bool { return v == bytesArg })(stripConv(lenArg)) && callOf(bytesArg) != nil && callQName(&callOf(bytesArg).Call) == "math/big.Int.Bytes" &&
							wl[0].Block().Dominates(wb[0].Block())
					}
				}
				c.check(okW, R, name+" MarshalTLB length-then-bytes", tn.Pos(), "writes len(v.Bytes()) then exactly those bytes (minimal big-endian magnitude)", name+".MarshalTLB no longer writes len(Bytes()) followed by the same Bytes()")
				okR := false
				if uf != nil {
					rl := callsTo(uf, bocPath+".Cell.ReadLimUint")
					rb := callsTo(uf, bocPath+".Cell.ReadBigUint")
					if len(rl) == 1 && len(rb) == 1 {
						a := stripConv(argsOf(rb[0])[0])
						if bo, ok := a.(*ssa.BinOp); ok && bo.Op == token.MUL {
							k, isK := constInt(bo.Y)
							x := stripConv(bo.X)
							if !isK {
								k, isK = constInt(bo.X)
								x = stripConv(bo.Y)
							}
							okR = isK && k == 8 && callOf(x) == rl[0]
						}
					}
				}
				c.check(okR, R, name+" UnmarshalTLB reads len*8 bits", tn.Pos(), "reads exactly 8*len bits after the length", name+".UnmarshalTLB no longer reads 8*length bits where length is the ReadLimUint result")
			case "Bits":
				arr, ok := under.(*types.Array)
				c.check(ok && N%8 == 0 && arr.Len() == int64(N/8) && isByte(arr.Elem()), R, name+" underlying kind", tn.Pos(), "underlying type is [N/8]byte (reflect codec writes/reads N/8 bytes)",
					fmt.Sprintf("%s must be [%d]byte, is %s", name, N/8, under))
				c.check(c.method(named, "MarshalTLB") == nil && c.method(named, "UnmarshalTLB") == nil, R, name+" uses reflect array codec", tn.Pos(), "no custom TL-B methods: array path of the reflect codec applies on both sides", name+" gained a one-sided custom TL-B codec")
			}
		}
		if withKeys && fam != "VarUInteger" && !(isBigInt(under)) {
			for _, mn := range []string{"Equal", "Compare", "FixedSize"} {
				c.check(c.method(named, mn) != nil, R, name+" key method "+mn, tn.Pos(), "dictionary key method present", name+" lacks "+mn+" needed for dictionary keys")
			}
			// Compare must be a total order consistent with the key-bit order used by the encoder
			c.compareShape(R, name, named, fam)
		}
		if withJSON {
			c.intJSON(R, name, named, fam, N)
		}
	}
	c.floor(R, 174)
	c.note("intfamily: %d generated integer/bits types examined", n)
	return n
}

func smallestKind(n int, signed bool) types.BasicKind {
	switch {
	case n <= 8:
		if signed {
			return types.Int8
		}
		return types.Uint8
	case n <= 16:
		if signed {
			return types.Int16
		}
		return types.Uint16
	case n <= 32:
		if signed {
			return types.Int32
		}
		return types.Uint32
	}
	if signed {
		return types.Int64
	}
	return types.Uint64
}

func isBigInt(t types.Type) bool {
	// underlying of big.Int is a struct {neg bool; abs nat}
	st, ok := t.(*types.Struct)
	return ok && st.NumFields() == 2 && st.Field(0).Name() == "neg" && st.Field(1).Name() == "abs"
}

func isByte(t types.Type) bool {
	b, ok := t.Underlying().(*types.Basic)
	return ok && b.Kind() == types.Uint8
}

// compareShape: Compare returns 0 on ==, -1 on <, 1 otherwise (ints) or bytes.Compare (bits).
func (c *Ctx) compareShape(rule, name string, named *types.Named, fam string) {
	f := c.method(named, "Compare")
	if f == nil {
		return
	}
	key := name + " Compare is the natural order"
	if fam == "Bits" {
		cs := callsTo(f, "bytes.Compare")
		okc := len(cs) == 1
		if okc {
			// arguments are (receiver, other) in this order
			a := cs[0].Call.Args
			okc = derivesFrom(a[0], func(v ssa.Value) bool { p, ok := v.(*ssa.Parameter); return ok && p == f.Params[0] }, false) &&
				!derivesFrom(a[1], func(v ssa.Value) bool { p, ok := v.(*ssa.Parameter); return ok && p == f.Params[0] }, false)
		}
		c.check(okc, rule, key, f.Pos(), "bytes.Compare(receiver, other)", name+".Compare is not bytes.Compare(receiver, other)")
		return
	}
	// integers: find If on (u < other) whose true edge returns -1, and If on (u == other) whose true edge returns 0
	okLt, okEq := false, false
	for _, b := range f.Blocks {
		ifi := lastIf(b)
		if ifi == nil {
			continue
		}
		bo, ok := ifi.Cond.(*ssa.BinOp)
		if !ok {
			continue
		}
		recvLeft := derivesFrom(bo.X, func(v ssa.Value) bool { p, ok := v.(*ssa.Parameter); return ok && p == f.Params[0] }, false)
		ret := func(bb *ssa.BasicBlock) (int64, bool) {
			if len(bb.Instrs) == 0 {
				return 0, false
			}
			r, ok := bb.Instrs[len(bb.Instrs)-1].(*ssa.Return)
			if !ok || len(r.Results) != 2 {
				return 0, false
			}
			return constInt(retVal(r, 0))
		}
		switch bo.Op {
		case token.LSS:
			if v, ok := ret(b.Succs[0]); ok && recvLeft && v == -1 {
				okLt = true
			}
		case token.EQL:
			if v, ok := ret(b.Succs[0]); ok && v == 0 {
				okEq = true
			}
		}
	}
	c.check(okLt && okEq, rule, key, f.Pos(), "== -> 0, receiver < other -> -1, else 1", name+".Compare no longer implements the natural order (== -> 0, < -> -1)")
}

// intJSON: JSON writer/reader descriptor agreement for the generated types.
func (c *Ctx) intJSON(rule, name string, named *types.Named, fam string, N int) {
	mj, uj := c.method(named, "MarshalJSON"), c.method(named, "UnmarshalJSON")
	if mj == nil || uj == nil {
		c.bad(rule, name+" JSON methods", named.Obj().Pos(), name+" lacks MarshalJSON or UnmarshalJSON")
		return
	}
	// writer format string
	var wfmt string
	for _, cl := range callsTo(mj, "fmt.Sprintf") {
		if s, ok := constString(cl.Call.Args[0]); ok {
			wfmt = s
		}
	}
	under := named.Underlying()
	switch {
	case fam == "Bits":
		okW := wfmt == "\"%x\""
		ds := callsTo(uj, "encoding/hex.DecodeString")
		okR := len(ds) == 1 && trimsQuotes(uj)
		c.check(okW && okR, rule, name+" JSON hex pair", mj.Pos(), "writer quotes lower-case hex; reader unquotes and hex-decodes", fmt.Sprintf("%s JSON: writer format %q, reader hex.DecodeString calls=%d unquote=%v", name, wfmt, len(ds), trimsQuotes(uj)))
		// length check
		found := false
		for _, b := range uj.Blocks {
			if ifi := lastIf(b); ifi != nil {
				if bo, ok := ifi.Cond.(*ssa.BinOp); ok && (bo.Op == token.NEQ || bo.Op == token.EQL) {
					if k, ok := constInt(bo.Y); ok && k == int64(N/8) && lenOf(nil)(bo.X) {
						found = true
					}
				}
			}
		}
		c.check(found, rule, name+" JSON length check", uj.Pos(), "reader checks the decoded length equals N/8", name+".UnmarshalJSON does not compare the decoded length with the width")
	case isBigInt(under):
		okW := wfmt == "\"%s\"" && len(callsTo(mj, "math/big.Int.String")) == 1
		ss := callsTo(uj, "math/big.Int.SetString")
		okR := len(ss) == 1 && trimsQuotes(uj)
		if okR {
			b, ok := constInt(argsOf(ss[0])[1])
			okR = ok && b == 10
		}
		c.check(okW && okR, rule, name+" JSON decimal big pair", mj.Pos(), "writer quotes decimal String(); reader unquotes and SetString(.,10)", fmt.Sprintf("%s JSON big-int pair mismatch: writer format %q, reader SetString base-10=%v", name, wfmt, okR))
		// SetString's ok result must be tested
		tested := false
		if len(ss) == 1 {
			for _, b := range uj.Blocks {
				if ifi := lastIf(b); ifi != nil && derivesFrom(ifi.Cond, func(v ssa.Value) bool { return callOf(v) == ss[0] }, false) {
					tested = true
				}
			}
		}
		c.check(tested, rule, name+" JSON SetString ok tested", uj.Pos(), "reader fails when SetString reports failure", name+".UnmarshalJSON ignores SetString's ok result")
	default:
		signed := fam == "Int"
		okW := wfmt == "%d" || wfmt == "\"%d\""
		parser := "strconv.ParseUint"
		if signed {
			parser = "strconv.ParseInt"
		}
		ps := callsTo(uj, parser)
		okR := len(ps) == 1
		if okR {
			base, ok1 := constInt(ps[0].Call.Args[1])
			bits, ok2 := constInt(ps[0].Call.Args[2])
			okR = ok1 && ok2 && base == 10 && bits == int64(N)
		}
		if wfmt == "\"%d\"" {
			okR = okR && trimsQuotes(uj)
		}
		other := "strconv.ParseInt"
		if signed {
			other = "strconv.ParseUint"
		}
		okR = okR && len(callsTo(uj, other)) == 0
		c.check(okW && okR, rule, name+" JSON decimal pair", mj.Pos(), fmt.Sprintf("writer %%d; reader %s(s,10,%d)", parser, N), fmt.Sprintf("%s JSON pair mismatch: writer format %q; reader must call %s(s, 10, %d) exactly once", name, wfmt, parser, N))
	}
}

func trimsQuotes(f *ssa.Function) bool {
	for _, q := range []string{"strings.Trim", "bytes.Trim"} {
		for _, cl := range callsTo(f, q) {
			if s, ok := constString(cl.Call.Args[1]); ok && s == "\"" {
				return true
			}
		}
	}
	return false
}
