package main

import "strings"

func init() { register("C04", propC04) }

func propC04(c *Ctx) propInfo {
	c.statelessCodecs("E17.stateless", excStateless, "tlb", "boc")
	c.layoutVsSpec(func(k string) bool { return strings.HasPrefix(k, "tlb.") || strings.HasPrefix(k, "wallet.") })
	c.floor("E3b.layout=spec", 40)
	c.intFamily(true, false, false)
	c.codecEngine()
	c.magicRadix()
	c.signedRangeByBitLen() // Int128/256/257 are written through the signed big-integer writer
	c.lossyConversions(excC03Lossy, "tlb", "wallet", "ton", "tl")
	c.cursorFreeEncoders("E10.cursor-free-encode", excCursorFree, "tlb", "wallet", "abi")
	c.externalEnvelope()
	c.copyLiterals("E12.copy-literal", map[string]string{}, "tlb", "wallet", "ton", "abi", "liteapi")
	c.floor("E12.copy-literal", 1)
	c.valueReceivers("E14.value-receivers", "MarshalTLB", "tlb", "wallet", "abi", "ton", "tep64")
	return propInfo{
		explanation: "Static structural clauses of C04 (DESIGN.md §4 C04): for every block.tlb / wallet structure in /verif/spec/tlb_layouts.spec the wire layout that the reflection codec derives from the Go struct (field order, widths, tags, refs, Maybe/Either, dictionary key widths) equals the schema term; generated integer types write the declared width. Decides layout agreement, not the bit-level behaviour of the primitive writers.",
		assumptions: []string{"the spec table is a faithful transcription of block.tlb / wallet contracts", "bit-level primitive writers are covered by C06 clauses"},
	}
}
