package main

import (
	"fmt"
	"go/ast"
	"go/constant"
	"go/token"
	"go/types"
	"golang.org/x/tools/go/ssa"
	"os"
	"path/filepath"
	"reflect"
	"sort"
	"strconv"
	"strings"

	"golang.org/x/tools/go/packages"
)

// E4 tlschema: liteclient/lite_api.tl (parsed by an independent parser) against the bindings.

type tlField struct {
	name    string
	typ     string // int long int256 bytes string Bool # true, or a constructor/type name; vectors: elem in vecOf
	vecOf   string
	flagVar string // "mode" when conditional
	flagBit int
	cond    bool
}

type tlDecl struct {
	name   string
	id     uint32
	idText string
	fields []tlField
	result string
	isFunc bool
	line   int
}

func parseTLSchema(path string) ([]tlDecl, error) {
	b, err := os.ReadFile(path)
	if err != nil {
		return nil, err
	}
	var out []tlDecl
	isFunc := false
	for ln, line := range strings.Split(string(b), "\n") {
		line = strings.TrimSpace(line)
		if i := strings.Index(line, "//"); i >= 0 {
			line = strings.TrimSpace(line[:i])
		}
		if line == "" {
			continue
		}
		if strings.HasPrefix(line, "---functions---") {
			isFunc = true
			continue
		}
		if strings.HasPrefix(line, "---types---") {
			isFunc = false
			continue
		}
		if !strings.HasSuffix(line, ";") {
			return nil, fmt.Errorf("lite_api.tl:%d: declaration does not end with ';'", ln+1)
		}
		line = strings.TrimSuffix(line, ";")
		eq := strings.LastIndex(line, "=")
		if eq < 0 {
			return nil, fmt.Errorf("lite_api.tl:%d: no '='", ln+1)
		}
		lhs, rhs := strings.TrimSpace(line[:eq]), strings.TrimSpace(line[eq+1:])
		toks := splitTL(lhs)
		if len(toks) == 0 {
			return nil, fmt.Errorf("lite_api.tl:%d: empty declaration", ln+1)
		}
		d := tlDecl{result: rhs, isFunc: isFunc, line: ln + 1}
		head := toks[0]
		h := strings.Index(head, "#")
		if h < 0 {
			return nil, fmt.Errorf("lite_api.tl:%d: constructor without explicit #id", ln+1)
		}
		d.name, d.idText = head[:h], head[h+1:]
		v, err := strconv.ParseUint(d.idText, 16, 32)
		if err != nil {
			return nil, fmt.Errorf("lite_api.tl:%d: bad id %q", ln+1, d.idText)
		}
		d.id = uint32(v)
		for _, t := range toks[1:] {
			c := strings.Index(t, ":")
			if c < 0 {
				return nil, fmt.Errorf("lite_api.tl:%d: field %q without type", ln+1, t)
			}
			f := tlField{name: t[:c]}
			ty := t[c+1:]
			if q := strings.Index(ty, "?"); q >= 0 {
				fl := ty[:q]
				dot := strings.Index(fl, ".")
				if dot < 0 {
					return nil, fmt.Errorf("lite_api.tl:%d: bad conditional %q", ln+1, ty)
				}
				f.cond = true
				f.flagVar = fl[:dot]
				f.flagBit, err = strconv.Atoi(fl[dot+1:])
				if err != nil {
					return nil, fmt.Errorf("lite_api.tl:%d: bad flag bit in %q", ln+1, ty)
				}
				ty = ty[q+1:]
			}
			if strings.HasPrefix(ty, "(vector ") && strings.HasSuffix(ty, ")") {
				f.typ = "vector"
				f.vecOf = strings.TrimSpace(ty[len("(vector ") : len(ty)-1])
			} else {
				f.typ = ty
			}
			d.fields = append(d.fields, f)
		}
		out = append(out, d)
	}
	return out, nil
}

// splitTL splits on spaces outside parentheses.
func splitTL(s string) []string {
	var out []string
	depth := 0
	cur := ""
	for _, r := range s {
		switch {
		case r == '(':
			depth++
			cur += string(r)
		case r == ')':
			depth--
			cur += string(r)
		case (r == ' ' || r == '\t') && depth == 0:
			if cur != "" {
				out = append(out, cur)
				cur = ""
			}
		default:
			cur += string(r)
		}
	}
	if cur != "" {
		out = append(out, cur)
	}
	return out
}

func camel(s string) string {
	var out strings.Builder
	up := true
	for _, r := range s {
		if r == '.' || r == '_' {
			up = true
			continue
		}
		if up {
			out.WriteString(strings.ToUpper(string(r)))
			up = false
		} else {
			out.WriteRune(r)
		}
	}
	return out.String()
}

// fieldOp is one (field, guard) step extracted from a generated MarshalTL/UnmarshalTL body.
type fieldOp struct {
	field string // Go field name ("" for an empty guarded block)
	guard int    // mode bit or -1
	gvar  string // Go name of the flags field used by the guard
	ptr   bool   // assigned through a pointer (&temp) / dereferenced
}

func (o fieldOp) String() string {
	g := ""
	if o.guard >= 0 {
		g = fmt.Sprintf("?%s.%d", o.gvar, o.guard)
	}
	p := ""
	if o.ptr {
		p = "*"
	}
	return p + o.field + g
}

type tlBindings struct {
	c         *Ctx
	pkg       *packages.Package
	funcs     map[string]*ast.FuncDecl // "Recv.Name" or "Name"
	decls     []tlDecl
	byRes     map[string][]tlDecl // result type -> constructors (types section only)
	byCon     map[string]tlDecl   // constructor name -> decl
	boxedUsed map[string]bool
}

func (c *Ctx) tlSchema() {
	const R = "E4.tlschema"
	decls, err := parseTLSchema(filepath.Join(c.RepoDir, "liteclient", "lite_api.tl"))
	if err != nil {
		c.bad(R, "schema parse", token.NoPos, err.Error())
		return
	}
	pkg := c.pkg("liteclient")
	if pkg == nil {
		c.bad(R, "package liteclient", token.NoPos, "not loaded")
		return
	}
	tb := &tlBindings{c: c, pkg: pkg, funcs: map[string]*ast.FuncDecl{}, decls: decls, byRes: map[string][]tlDecl{}, byCon: map[string]tlDecl{}, boxedUsed: map[string]bool{}}
	for _, f := range pkg.Syntax {
		for _, d := range f.Decls {
			fd, ok := d.(*ast.FuncDecl)
			if !ok {
				continue
			}
			name := fd.Name.Name
			if fd.Recv != nil && len(fd.Recv.List) == 1 {
				t := fd.Recv.List[0].Type
				if st, ok := t.(*ast.StarExpr); ok {
					t = st.X
				}
				if id, ok := t.(*ast.Ident); ok {
					name = id.Name + "." + name
				}
			}
			tb.funcs[name] = fd
		}
	}
	nT, nF := 0, 0
	for _, d := range decls {
		if d.isFunc {
			nF++
		} else {
			nT++
			tb.byRes[d.result] = append(tb.byRes[d.result], d)
			tb.byCon[d.name] = d
		}
	}
	c.note("lite_api.tl: %d type constructors, %d functions", nT, nF)
	// unique ids
	seen := map[uint32]string{}
	for _, d := range decls {
		if o, dup := seen[d.id]; dup {
			c.bad(R, "schema id "+d.idText+" unique", token.NoPos, "constructor id used by both "+o+" and "+d.name)
		}
		seen[d.id] = d.name
	}
	for _, d := range decls {
		if d.isFunc {
			tb.checkFunction(d)
		}
	}
	var results []string
	for r := range tb.byRes {
		results = append(results, r)
	}
	sort.Strings(results)
	for _, r := range results {
		cons := tb.byRes[r]
		if len(cons) == 1 {
			tb.checkStructCodec(R, cons[0], camel(cons[0].name)+"C", "")
		} else {
			tb.checkSumType(r, cons)
		}
	}
	tb.checkDecoderTable()
	// boxed single-constructor types used as field types: a wrapper that writes / checks the constructor id
	for t := range tb.boxedUsed {
		cons := tb.byRes[t]
		if len(cons) != 1 {
			continue
		}
		d := cons[0]
		goName := camel(t)
		key := "boxed " + t + " -> " + goName
		for _, dir := range []string{"MarshalTL", "UnmarshalTL"} {
			fd := tb.funcs[goName+"."+dir]
			if fd == nil {
				c.bad(R, key+" "+dir, token.NoPos, "boxed wrapper "+goName+"."+dir+" not found")
				continue
			}
			idOK, innerOK := false, false
			var info *types.Info
			if lp := c.pkg("liteclient"); lp != nil {
				info = lp.TypesInfo
			}
			ast.Inspect(fd.Body, func(n ast.Node) bool {
				switch x := n.(type) {
				case *ast.BasicLit:
					if v, err := strconv.ParseUint(strings.TrimPrefix(x.Value, "0x"), 16, 32); err == nil && x.Kind == token.INT && uint32(v) == d.id {
						idOK = true
					}
				case *ast.Ident:
					if x.Name == camel(d.name)+"C" {
						innerOK = true
					}
					// the id spelt as a named constant
					if info != nil {
						if tv, ok := info.Types[x]; ok && tv.Value != nil && tv.Value.Kind() == constant.Int {
							if v, ok := constant.Uint64Val(tv.Value); ok && uint32(v) == d.id && v>>32 == 0 {
								idOK = true
							}
						}
					}
				}
				return true
			})
			c.check(idOK && innerOK, R, key+" "+dir, fd.Pos(), "wrapper carries constructor id "+d.idText+" and delegates to "+camel(d.name)+"C", fmt.Sprintf("boxed wrapper %s.%s does not use constructor id %s of %s", goName, dir, d.idText, d.name))
		}
	}
}

// goTypeFor maps a TL field type to the expected Go type string (package-local names).
func (tb *tlBindings) goTypeFor(f tlField) string {
	base := func(t string) string {
		switch t {
		case "int", "#":
			return "uint32"
		case "long":
			return "uint64"
		case "int256":
			return "tl.Int256"
		case "bytes":
			return "[]byte"
		case "string":
			return "string"
		case "Bool":
			return "bool"
		}
		if d, ok := tb.byCon[t]; ok { // bare constructor
			if len(tb.byRes[d.result]) == 1 {
				return camel(t) + "C"
			}
			return camel(d.result)
		}
		if _, ok := tb.byRes[t]; ok { // boxed type: carries its constructor id on the wire
			tb.boxedUsed[t] = true
			return camel(t)
		}
		return "?" + t
	}
	if f.typ == "vector" {
		return "[]" + base(f.vecOf)
	}
	t := base(f.typ)
	if f.cond && !strings.HasPrefix(t, "[]") && f.typ != "int" && f.typ != "long" && f.typ != "int256" && f.typ != "Bool" && f.typ != "string" {
		return "*" + t
	}
	if f.cond && (f.typ == "int" || f.typ == "long" || f.typ == "int256") {
		return "*" + t
	}
	return t
}

func (tb *tlBindings) lookupStruct(name string) (*types.Struct, token.Pos) {
	o := tb.pkg.Types.Scope().Lookup(name)
	if o == nil {
		return nil, token.NoPos
	}
	st, ok := o.Type().Underlying().(*types.Struct)
	if !ok {
		return nil, o.Pos()
	}
	return st, o.Pos()
}

func relType(t types.Type) string {
	return types.TypeString(t, func(p *types.Package) string {
		if p.Path() == modPath+"/liteclient" {
			return ""
		}
		return p.Name()
	})
}

// expectedOps derives the (field, guard) list a codec must have from the schema.
func expectedOps(d tlDecl) []fieldOp {
	var out []fieldOp
	for _, f := range d.fields {
		op := fieldOp{field: camel(f.name), guard: -1}
		if f.cond {
			op.guard = f.flagBit
			op.gvar = camel(f.flagVar)
			if f.typ == "true" {
				op.field = ""
			}
		}
		out = append(out, op)
	}
	return out
}

func opsString(ops []fieldOp) string {
	var s []string
	for _, o := range ops {
		x := o
		x.ptr = false
		s = append(s, x.String())
	}
	return strings.Join(s, " ")
}

// checkStructCodec compares struct shape and MarshalTL/UnmarshalTL op lists of goName with the schema.
// alt is the sum-type alternative prefix ("" for plain structs).
func (tb *tlBindings) checkStructCodec(R string, d tlDecl, goName, alt string) {
	c := tb.c
	st, pos := tb.lookupStruct(goName)
	key := d.name + "#" + d.idText + " -> " + goName
	if st == nil {
		c.bad(R, key+" struct", pos, fmt.Sprintf("Go type %s for schema declaration %s (lite_api.tl:%d) not found", goName, d.name, d.line))
		return
	}
	// struct shape
	var want []string
	for _, f := range d.fields {
		if f.typ == "true" {
			continue
		}
		want = append(want, camel(f.name)+" "+tb.goTypeFor(f))
	}
	var got []string
	for i := 0; i < st.NumFields(); i++ {
		got = append(got, st.Field(i).Name()+" "+relType(st.Field(i).Type()))
	}
	c.check(strings.Join(got, "; ") == strings.Join(want, "; "), R, key+" struct shape", pos, "fields, order and Go types match the schema: "+strings.Join(want, "; "),
		fmt.Sprintf("struct %s does not match lite_api.tl:%d\n      have: %s\n      want: %s", goName, d.line, strings.Join(got, "; "), strings.Join(want, "; ")))
	exp := expectedOps(d)
	for _, dir := range []string{"MarshalTL", "UnmarshalTL"} {
		fd := tb.funcs[goName+"."+dir]
		if fd == nil {
			if len(d.fields) == 0 && dir == "MarshalTL" {
				continue
			}
			c.bad(R, key+" "+dir, pos, goName+" has no "+dir)
			continue
		}
		ops, problems := tb.extractOps(fd, dir == "MarshalTL")
		if len(problems) > 0 {
			c.bad(R, key+" "+dir, fd.Pos(), "undecided: "+strings.Join(problems, "; "))
			continue
		}
		if dir == "MarshalTL" {
			ops, exp = dropEmpty(ops), dropEmpty(exp)
		} else {
			exp = expectedOps(d)
		}
		c.check(opsString(ops) == opsString(exp), R, key+" "+dir, fd.Pos(), "field/guard sequence equals the schema: "+opsString(exp),
			fmt.Sprintf("%s.%s does not follow lite_api.tl:%d\n      have: %s\n      want: %s", goName, dir, d.line, opsString(ops), opsString(exp)))
	}
}

// extractOps walks a generated codec body.
func (tb *tlBindings) extractOps(fd *ast.FuncDecl, marshal bool) ([]fieldOp, []string) {
	var ops []fieldOp
	var problems []string
	recv := ""
	if fd.Recv != nil && len(fd.Recv.List) == 1 && len(fd.Recv.List[0].Names) == 1 {
		recv = fd.Recv.List[0].Names[0].Name
	}
	temps := map[string]bool{}
	pending := map[string]bool{} // temp vars unmarshalled but not yet assigned
	var walk func(stmts []ast.Stmt, guard int, gvar string)
	fieldOf := func(e ast.Expr) (string, bool, bool) { // name, isPtrForm, ok
		ptr := false
		if u, ok := e.(*ast.UnaryExpr); ok && u.Op == token.AND {
			e = u.X
		}
		if s, ok := e.(*ast.StarExpr); ok {
			e = s.X
			ptr = true
		}
		sel, ok := e.(*ast.SelectorExpr)
		if !ok {
			return "", false, false
		}
		// t.Field or t.Alt.Field
		switch x := sel.X.(type) {
		case *ast.Ident:
			if x.Name == recv {
				return sel.Sel.Name, ptr, true
			}
		case *ast.SelectorExpr:
			if id, ok := x.X.(*ast.Ident); ok && id.Name == recv {
				return sel.Sel.Name, ptr, true
			}
		}
		return "", false, false
	}
	isTLCall := func(call *ast.CallExpr, name string) bool {
		sel, ok := call.Fun.(*ast.SelectorExpr)
		if !ok || sel.Sel.Name != name {
			return false
		}
		obj := tb.pkg.TypesInfo.Uses[sel.Sel]
		return obj != nil && obj.Pkg() != nil && obj.Pkg().Path() == modPath+"/tl"
	}
	walk = func(stmts []ast.Stmt, guard int, gvar string) {
		for _, s := range stmts {
			switch x := s.(type) {
			case *ast.AssignStmt:
				if len(x.Rhs) == 1 {
					if call, ok := x.Rhs[0].(*ast.CallExpr); ok {
						if marshal && isTLCall(call, "Marshal") && len(call.Args) == 1 {
							if name, ptr, ok := fieldOf(call.Args[0]); ok {
								ops = append(ops, fieldOp{name, guard, gvar, ptr})
							} else if _, isConv := call.Args[0].(*ast.CallExpr); isConv {
								// tl.Marshal(uint32(0x...)) - constructor id of a sum type, handled by the caller
							} else {
								problems = append(problems, "tl.Marshal of an unrecognised operand at "+tb.c.rel(call.Pos()))
							}
							continue
						}
						if !marshal && isTLCall(call, "Unmarshal") && len(call.Args) == 2 {
							arg := call.Args[1]
							if name, _, ok := fieldOf(arg); ok {
								ops = append(ops, fieldOp{name, guard, gvar, false})
							} else if u, ok := arg.(*ast.UnaryExpr); ok && u.Op == token.AND {
								if id, ok := u.X.(*ast.Ident); ok && temps[id.Name] {
									pending[id.Name] = true
								} else {
									problems = append(problems, "tl.Unmarshal into an unrecognised target at "+tb.c.rel(call.Pos()))
								}
							} else {
								problems = append(problems, "tl.Unmarshal into an unrecognised target at "+tb.c.rel(call.Pos()))
							}
							continue
						}
					}
					// t.Field = temp / &temp
					if !marshal && len(x.Lhs) == 1 {
						if name, _, ok := fieldOf(x.Lhs[0]); ok {
							rhs := x.Rhs[0]
							ptr := false
							if u, ok := rhs.(*ast.UnaryExpr); ok && u.Op == token.AND {
								rhs, ptr = u.X, true
							}
							if id, ok := rhs.(*ast.Ident); ok && pending[id.Name] {
								delete(pending, id.Name)
								ops = append(ops, fieldOp{name, guard, gvar, ptr})
								continue
							}
							if name == "SumType" {
								continue
							}
							problems = append(problems, "assignment to "+name+" from an unrecognised source at "+tb.c.rel(x.Pos()))
						}
					}
				}
			case *ast.DeclStmt:
				if gd, ok := x.Decl.(*ast.GenDecl); ok && gd.Tok == token.VAR {
					for _, sp := range gd.Specs {
						for _, n := range sp.(*ast.ValueSpec).Names {
							temps[n.Name] = true
						}
					}
				}
			case *ast.IfStmt:
				if bit, gv, ok := modeGuard(x.Cond, recv); ok {
					if guard >= 0 {
						problems = append(problems, "nested mode guards at "+tb.c.rel(x.Pos()))
					}
					before := len(ops)
					walk(x.Body.List, bit, gv)
					if len(ops) == before {
						ops = append(ops, fieldOp{"", bit, gv, false})
					}
					if x.Else != nil {
						problems = append(problems, "mode guard with else branch at "+tb.c.rel(x.Pos()))
					}
					continue
				}
				// "if err != nil { return ... }" - error propagation
				if isErrCheck(x) {
					continue
				}
				problems = append(problems, "unrecognised if statement at "+tb.c.rel(x.Pos()))
			case *ast.ReturnStmt, *ast.ExprStmt:
			case *ast.SwitchStmt:
				problems = append(problems, "switch in a plain struct codec at "+tb.c.rel(x.Pos()))
			}
		}
	}
	walk(fd.Body.List, -1, "")
	for t := range pending {
		problems = append(problems, "temporary "+t+" decoded but never assigned to a field")
	}
	return ops, problems
}

func isErrCheck(x *ast.IfStmt) bool {
	b, ok := x.Cond.(*ast.BinaryExpr)
	if !ok || b.Op != token.NEQ {
		return false
	}
	id, ok := b.X.(*ast.Ident)
	nl, ok2 := b.Y.(*ast.Ident)
	return ok && ok2 && id.Name == "err" && nl.Name == "nil"
}

// modeGuard recognises (recv.Flags>>N)&1 == 1.
func modeGuard(e ast.Expr, recv string) (int, string, bool) {
	b, ok := e.(*ast.BinaryExpr)
	if !ok || b.Op != token.EQL {
		return 0, "", false
	}
	one, ok := b.Y.(*ast.BasicLit)
	if !ok || one.Value != "1" {
		return 0, "", false
	}
	and, ok := b.X.(*ast.BinaryExpr)
	if !ok || and.Op != token.AND {
		return 0, "", false
	}
	if m, ok := and.Y.(*ast.BasicLit); !ok || m.Value != "1" {
		return 0, "", false
	}
	p, ok := and.X.(*ast.ParenExpr)
	if !ok {
		return 0, "", false
	}
	sh, ok := p.X.(*ast.BinaryExpr)
	if !ok || sh.Op != token.SHR {
		return 0, "", false
	}
	n, ok := sh.Y.(*ast.BasicLit)
	if !ok {
		return 0, "", false
	}
	bit, err := strconv.Atoi(n.Value)
	if err != nil {
		return 0, "", false
	}
	sel, ok := sh.X.(*ast.SelectorExpr)
	if !ok {
		return 0, "", false
	}
	switch x := sel.X.(type) {
	case *ast.Ident:
		if x.Name != recv {
			return 0, "", false
		}
	case *ast.SelectorExpr:
		if id, ok := x.X.(*ast.Ident); !ok || id.Name != recv {
			return 0, "", false
		}
	default:
		return 0, "", false
	}
	return bit, sel.Sel.Name, true
}

// checkSumType: boxed type with several constructors.
func (tb *tlBindings) checkSumType(result string, cons []tlDecl) {
	const R = "E4.tlschema"
	c := tb.c
	goName := camel(result)
	st, pos := tb.lookupStruct(goName)
	key := result + " (sum of " + strconv.Itoa(len(cons)) + ") -> " + goName
	if st == nil {
		c.bad(R, key, pos, "Go sum type "+goName+" not found")
		return
	}
	for _, dir := range []string{"MarshalTL", "UnmarshalTL"} {
		fd := tb.funcs[goName+"."+dir]
		if fd == nil {
			c.bad(R, key+" "+dir, pos, goName+" has no "+dir)
			continue
		}
		// find the switch; each case: alternative name (marshal) or id (unmarshal)
		var sw *ast.SwitchStmt
		ast.Inspect(fd.Body, func(n ast.Node) bool {
			if s, ok := n.(*ast.SwitchStmt); ok && sw == nil {
				sw = s
			}
			return true
		})
		if sw == nil {
			c.bad(R, key+" "+dir, fd.Pos(), "undecided: no switch over constructors")
			continue
		}
		for _, d := range cons {
			alt := camel(d.name)
			var body []ast.Stmt
			found := false
			for _, cc := range sw.Body.List {
				cl := cc.(*ast.CaseClause)
				for _, e := range cl.List {
					if lit, ok := e.(*ast.BasicLit); ok {
						if dir == "MarshalTL" && lit.Kind == token.STRING && strings.Trim(lit.Value, "\"") == alt {
							found, body = true, cl.Body
						}
						if dir == "UnmarshalTL" && lit.Kind == token.INT {
							if v, err := strconv.ParseUint(strings.TrimPrefix(lit.Value, "0x"), 16, 32); err == nil && uint32(v) == d.id {
								found, body = true, cl.Body
							}
						}
					}
				}
			}
			k2 := key + " " + dir + " " + d.name + "#" + d.idText
			if !found {
				c.bad(R, k2, sw.Pos(), fmt.Sprintf("%s.%s has no case for constructor %s#%s", goName, dir, d.name, d.idText))
				continue
			}
			// id written (marshal) / SumType set to the alternative (unmarshal)
			idOK := false
			for _, s := range body {
				ast.Inspect(s, func(n ast.Node) bool {
					switch x := n.(type) {
					case *ast.CallExpr:
						if id, ok := x.Fun.(*ast.Ident); ok && id.Name == "uint32" && len(x.Args) == 1 {
							if lit, ok := x.Args[0].(*ast.BasicLit); ok {
								if v, err := strconv.ParseUint(strings.TrimPrefix(lit.Value, "0x"), 16, 32); err == nil && uint32(v) == d.id {
									idOK = true
								}
							}
						}
					case *ast.AssignStmt:
						if dir == "UnmarshalTL" && len(x.Lhs) == 1 && len(x.Rhs) == 1 {
							if sel, ok := x.Lhs[0].(*ast.SelectorExpr); ok && sel.Sel.Name == "SumType" {
								if lit, ok := x.Rhs[0].(*ast.BasicLit); ok && strings.Trim(lit.Value, "\"") == alt {
									idOK = true
								}
							}
						}
					}
					return true
				})
			}
			fake := &ast.FuncDecl{Recv: fd.Recv, Name: fd.Name, Type: fd.Type, Body: &ast.BlockStmt{List: body}}
			ops, problems := tb.extractOps(fake, dir == "MarshalTL")
			exp := expectedOps(d)
			switch {
			case len(problems) > 0:
				c.bad(R, k2, sw.Pos(), "undecided: "+strings.Join(problems, "; "))
			case !idOK:
				c.bad(R, k2, sw.Pos(), fmt.Sprintf("case for %s does not carry the schema's constructor id %s / alternative name", d.name, d.idText))
			default:
				c.check(opsString(ops) == opsString(exp), R, k2, sw.Pos(), "constructor id and field sequence equal the schema: "+opsString(exp),
					fmt.Sprintf("%s.%s case %s does not follow lite_api.tl:%d\n      have: %s\n      want: %s", goName, dir, d.name, d.line, opsString(ops), opsString(exp)))
			}
		}
		// the alternative's struct shape
	}
	for _, d := range cons {
		alt := camel(d.name)
		for i := 0; i < st.NumFields(); i++ {
			if st.Field(i).Name() != alt {
				continue
			}
			as, ok := st.Field(i).Type().Underlying().(*types.Struct)
			if !ok {
				continue
			}
			var want, got []string
			for _, f := range d.fields {
				if f.typ != "true" {
					want = append(want, camel(f.name)+" "+tb.goTypeFor(f))
				}
			}
			for j := 0; j < as.NumFields(); j++ {
				got = append(got, as.Field(j).Name()+" "+relType(as.Field(j).Type()))
			}
			c.check(strings.Join(got, "; ") == strings.Join(want, "; "), R, key+" alternative "+alt+" shape", st.Field(i).Pos(), "alternative's fields match the schema",
				fmt.Sprintf("alternative %s of %s: have %s; want %s", alt, goName, strings.Join(got, "; "), strings.Join(want, "; ")))
		}
	}
}

// checkFunction: request struct codec, request id, accepted response ids.
func (tb *tlBindings) checkFunction(d tlDecl) {
	const R = "E4.tlschema"
	c := tb.c
	base := camel(d.name)
	reqName := base + "Request"
	key := "function " + d.name + "#" + d.idText
	tb.checkStructCodec(R, d, reqName, "")
	fd := tb.funcs["Client."+base]
	if fd == nil {
		c.bad(R, key+" method", token.NoPos, "client method Client."+base+" not found")
		return
	}
	// request id: struct tag tlSumType of the envelope, or constant stored into the payload
	var ids []string
	ast.Inspect(fd.Body, func(n ast.Node) bool {
		switch x := n.(type) {
		case *ast.Field:
			if x.Tag != nil {
				tg := reflect.StructTag(strings.Trim(x.Tag.Value, "`")).Get("tlSumType")
				if tg != "" {
					ids = append(ids, "tag:"+tg)
				}
			}
		case *ast.CallExpr:
			if sel, ok := x.Fun.(*ast.SelectorExpr); ok && sel.Sel.Name == "PutUint32" && len(x.Args) == 2 {
				if lit, ok := x.Args[1].(*ast.BasicLit); ok {
					le := false
					if inner, ok := sel.X.(*ast.SelectorExpr); ok && inner.Sel.Name == "LittleEndian" {
						le = true
					}
					if v, err := strconv.ParseUint(strings.TrimPrefix(lit.Value, "0x"), 16, 32); err == nil && le {
						ids = append(ids, fmt.Sprintf("tag:%08x", v))
					} else {
						ids = append(ids, "tag:?"+lit.Value)
					}
				}
			}
		}
		return true
	})
	want := fmt.Sprintf("tag:%08x", d.id)
	c.check(len(ids) == 1 && ids[0] == want, R, key+" request id", fd.Pos(), "the request is prefixed with the schema's constructor id (8 hex digits, little-endian on the wire)",
		fmt.Sprintf("Client.%s sends request id %v, lite_api.tl:%d says %s (an id that is not exactly 8 hex digits cannot be encoded by tl.encodeTag)", base, ids, d.line, want))
	// accepted response ids: comparisons "tag == 0x..."
	var accepted []uint32
	ast.Inspect(fd.Body, func(n ast.Node) bool {
		if b, ok := n.(*ast.BinaryExpr); ok && b.Op == token.EQL {
			if id, ok := b.X.(*ast.Ident); ok && id.Name == "tag" {
				if lit, ok := b.Y.(*ast.BasicLit); ok {
					if v, err := strconv.ParseUint(strings.TrimPrefix(lit.Value, "0x"), 16, 32); err == nil {
						accepted = append(accepted, uint32(v))
					}
				}
			}
		}
		return true
	})
	wantIDs := []uint32{}
	if e, ok := tb.byCon["liteServer.error"]; ok {
		wantIDs = append(wantIDs, e.id)
	}
	for _, rc := range tb.byRes[d.result] {
		wantIDs = append(wantIDs, rc.id)
	}
	c.check(fmt.Sprint(accepted) == fmt.Sprint(wantIDs), R, key+" response ids", fd.Pos(), fmt.Sprintf("accepts liteServer.error and the constructor(s) of %s", d.result),
		fmt.Sprintf("Client.%s accepts response ids %x, schema result %s has %x", base, accepted, d.result, wantIDs))
	// result Go type
	if fd.Type.Results != nil && len(fd.Type.Results.List) >= 1 {
		rt := types.ExprString(fd.Type.Results.List[0].Type)
		wantRT := camel(d.result)
		if cons := tb.byRes[d.result]; len(cons) == 1 {
			wantRT = camel(cons[0].name) + "C"
		}
		c.check(rt == wantRT, R, key+" result type", fd.Pos(), "decodes into "+wantRT, fmt.Sprintf("Client.%s returns %s, schema result %s maps to %s", base, rt, d.result, wantRT))
	}
}

// checkDecoderTable: taggedRequestDecodeFunctions maps every function id to a decoder built with the same id and request type.
func (tb *tlBindings) checkDecoderTable() {
	const R = "E4.tlschema"
	c := tb.c
	// var decodeFuncX = decodeRequest(0xID, XName, XRequest{})
	type dec struct {
		id  uint32
		typ string
		pos token.Pos
	}
	decs := map[string]dec{}
	table := map[uint32]string{}
	var tablePos token.Pos
	for _, f := range tb.pkg.Syntax {
		ast.Inspect(f, func(n ast.Node) bool {
			vs, ok := n.(*ast.ValueSpec)
			if !ok {
				return true
			}
			for i, name := range vs.Names {
				if i >= len(vs.Values) {
					continue
				}
				if call, ok := vs.Values[i].(*ast.CallExpr); ok {
					if id, ok := call.Fun.(*ast.Ident); ok && id.Name == "decodeRequest" && len(call.Args) == 3 {
						d := dec{pos: call.Pos()}
						if lit, ok := call.Args[0].(*ast.BasicLit); ok {
							v, _ := strconv.ParseUint(strings.TrimPrefix(lit.Value, "0x"), 16, 32)
							d.id = uint32(v)
						}
						if cl, ok := call.Args[2].(*ast.CompositeLit); ok {
							d.typ = types.ExprString(cl.Type)
						}
						decs[name.Name] = d
					}
				}
				if name.Name == "taggedRequestDecodeFunctions" {
					if cl, ok := vs.Values[i].(*ast.CompositeLit); ok {
						tablePos = cl.Pos()
						for _, e := range cl.Elts {
							kv := e.(*ast.KeyValueExpr)
							if lit, ok := kv.Key.(*ast.BasicLit); ok {
								v, _ := strconv.ParseUint(strings.TrimPrefix(lit.Value, "0x"), 16, 32)
								if id, ok := kv.Value.(*ast.Ident); ok {
									if _, dup := table[uint32(v)]; dup {
										c.bad(R, fmt.Sprintf("decoder table duplicate key %08x", v), kv.Pos(), "duplicate request id in taggedRequestDecodeFunctions")
									}
									table[uint32(v)] = id.Name
								}
							}
						}
					}
				}
			}
			return true
		})
	}
	n := 0
	for _, d := range tb.decls {
		if !d.isFunc {
			continue
		}
		n++
		key := "decoder table " + d.name + "#" + d.idText
		fn, ok := table[d.id]
		if !ok {
			c.bad(R, key, tablePos, fmt.Sprintf("taggedRequestDecodeFunctions has no entry for %s (id %s)", d.name, d.idText))
			continue
		}
		dd := decs[fn]
		c.check(dd.id == d.id && dd.typ == camel(d.name)+"Request", R, key, dd.pos, "table key, decoder tag and request type agree with the schema",
			fmt.Sprintf("table entry %08x -> %s decodes tag %08x into %s; schema says %s#%s -> %sRequest", d.id, fn, dd.id, dd.typ, d.name, d.idText, camel(d.name)))
	}
	// the per-request decoder and the dispatcher accept a request that is only its 4-byte id (four of the
	// schema's functions have no fields): the minimum length they insist on is exactly 4
	for _, fn := range []string{"decodeRequest", "LiteapiRequestDecoder"} {
		f := c.mustFn(R, "liteclient", fn)
		if f == nil {
			continue
		}
		targets := []*ssa.Function{f}
		targets = append(targets, f.AnonFuncs...)
		okv, seen := true, 0
		var got int64 = -1
		for _, g := range targets {
			for _, cl := range callsTo(g, "encoding/binary.littleEndian.Uint32") {
				seen++
				lo, _, hasLo, _ := constBounds(g, cl.Block(), lenOf(nil))
				got = lo
				if !hasLo || lo != 4 {
					okv = false
				}
			}
		}
		c.check(okv && seen == 1, R, "liteclient."+fn+" requires exactly 4 bytes before it reads the id", f.Pos(), "len(b) >= 4", fmt.Sprintf("liteclient.%s reads the 4-byte request id behind a length guard whose lower bound is %d, not 4: a request that is only its constructor id (getMasterchainInfo, getTime, getVersion, getRequestRateLimit) is rejected / an unguarded slice", fn, got))
	}
	c.check(len(table) == n, R, "decoder table size", tablePos, fmt.Sprintf("%d entries, one per schema function", n), fmt.Sprintf("taggedRequestDecodeFunctions has %d entries, the schema has %d functions", len(table), n))
}

// dropEmpty removes "mode.N?true" steps, which carry no bytes and which the encoder may omit.
func dropEmpty(ops []fieldOp) []fieldOp {
	var out []fieldOp
	for _, o := range ops {
		if o.field != "" {
			out = append(out, o)
		}
	}
	return out
}
