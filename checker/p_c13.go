package main

import (
	"fmt"
	"go/token"
	"go/types"
	"strings"

	"golang.org/x/tools/go/ssa"
)

func init() { register("C13", propC13) }

var guardedPool = map[string]string{
	"pool.ConnPool.conns":        "pool.ConnPool.mu",
	"pool.ConnPool.bestConn":     "pool.ConnPool.mu",
	"pool.ConnPool.waitListID":   "pool.ConnPool.mu",
	"pool.ConnPool.waitList":     "pool.ConnPool.mu",
	"pool.connection.masterHead": "pool.connection.mu",
	"pool.connection.isArchive":  "pool.connection.mu",
}

// poolGuarded: the guarded-by table with the wait list and its id counter named by role (the
// map-of-channels field of ConnPool; its only unsigned-integer field), so a rename keeps them covered.
func (c *Ctx) poolGuarded() map[string]string {
	out := map[string]string{}
	for k, v := range guardedPool {
		out[k] = v
	}
	if wl := c.fieldByType("liteapi/pool", "ConnPool", isMapOfChan); wl != "" && wl != "pool.ConnPool.waitList" {
		delete(out, "pool.ConnPool.waitList")
		out[wl] = "pool.ConnPool.mu"
	}
	isUint := func(t types.Type) bool {
		b, ok := t.(*types.Basic) // a plain integer, not a named type (Strategy, time.Duration)
		return ok && b.Info()&types.IsInteger != 0
	}
	if id := c.fieldByType("liteapi/pool", "ConnPool", isUint); id != "" && id != "pool.ConnPool.waitListID" {
		delete(out, "pool.ConnPool.waitListID")
		out[id] = "pool.ConnPool.mu"
	}
	return out
}

func (c *Ctx) poolWaitList() string {
	if wl := c.fieldByType("liteapi/pool", "ConnPool", isMapOfChan); wl != "" {
		return wl
	}
	return "pool.ConnPool.waitList"
}

func propC13(c *Ctx) propInfo {
	c.errflow(excC13E2, "liteapi/pool")
	la := c.newLockAnalysis("liteapi/pool")
	la.guardedBy("E9.K1-guarded-by", c.poolGuarded(), map[string]string{})
	la.pairing("E9.K2-pairing")
	la.noBlockingUnderLock("E9.K3-no-blocking-under-lock", map[string]string{})
	la.lockOrder("E9.K4-lock-order")
	c.boundedWaits()
	c.selectionRules()
	c.losslessPublication()
	c.waitListIDs()
	c.waitPolarity()
	c.loopVarEscape("E17.loopvar-escape", "liteapi/pool")
	c.nilContradictions("E1.P8-nil-contradiction", "liteapi/pool")
	c.floor("E9.K1-guarded-by", 20)
	c.floor("E9.K2-pairing", 10)
	c.floor("E9.K6-bounded-waits", 2)
	c.floor("E12.selection", 7)
	c.floor("E9.K7-waitlist-ids", 2)
	return propInfo{
		explanation: "Static structural clauses of C13 (DESIGN.md §4 C13): guarded-by table for ConnPool and connection under a must-lockset dataflow, pairing, no blocking operation under a lock, acyclic lock order, every wait of the exported wait functions is a select with a ctx.Done() case (and a timer case for WaitMasterchainSeqno), both selection functions reject a connection under exactly the same two predicates and update their running best only behind both filters, the refresh stores bestConn only when a candidate was found, and registered wait-list ids can never equal the id returned on the fast path. Decides these necessary conditions, not optimality over all configurations or wait latency. The best-ping replacement compares with the running best's own round-trip time or a copy updated on the same edges; accepted heads are published with one blocking send (K8).",
		assumptions: []string{"lock identity is type based", "sync primitives behave as documented"},
	}
}

// boundedWaits (K6): every blocking select of the exported wait functions has a ctx.Done() case;
// WaitMasterchainSeqno additionally a timer case; no bare channel receive.
func (c *Ctx) boundedWaits() {
	const R = "E9.K6-bounded-waits"
	for _, name := range []string{"ConnPool.WaitMasterchainSeqno", "ConnPool.BestMasterchainClient"} {
		f := c.mustFn(R, "liteapi/pool", name)
		if f == nil {
			continue
		}
		nSel := 0
		okAll := true
		var why []string
		allInstrs(f, func(_ *ssa.BasicBlock, i ssa.Instruction) {
			switch x := i.(type) {
			case *ssa.UnOp:
				if x.Op == token.ARROW {
					okAll = false
					why = append(why, "bare channel receive at "+c.rel(x.Pos()))
				}
			case *ssa.Select:
				if !x.Blocking {
					return
				}
				nSel++
				hasDone, hasTimer := false, false
				for _, st := range x.States {
					if cl, ok := st.Chan.(*ssa.Call); ok {
						if cl.Call.IsInvoke() && cl.Call.Method.Name() == "Done" && isContext(cl.Call.Value.Type()) {
							hasDone = true
						}
						if callQName(&cl.Call) == "time.After" {
							hasTimer = true
						}
					}
					if derivesFrom(st.Chan, callResult("time.NewTimer", "time.After"), false) {
						hasTimer = true
					}
				}
				if !hasDone {
					okAll = false
					why = append(why, "select without ctx.Done() at "+c.rel(x.Pos()))
				}
				if strings.HasSuffix(name, "WaitMasterchainSeqno") && !hasTimer {
					okAll = false
					why = append(why, "select without a timeout case at "+c.rel(x.Pos()))
				}
			}
		})
		c.check(okAll && nSel > 0, R, name+" waits are bounded", f.Pos(), fmt.Sprintf("%d blocking select(s), each with ctx.Done()%s", nSel, map[bool]string{true: " and a timer", false: ""}[strings.HasSuffix(name, "WaitMasterchainSeqno")]),
			name+": "+strings.Join(why, "; ")+" (a waiter could hang forever)")
	}
}

func isContext(t types.Type) bool {
	n, ok := t.(*types.Named)
	return ok && n.Obj().Pkg() != nil && n.Obj().Pkg().Path() == "context" && n.Obj().Name() == "Context"
}

// selectionRules: sibling filter agreement of the two find* functions and the nil-guarded store of bestConn.
func (c *Ctx) selectionRules() {
	const R = "E12.selection"
	ub := c.mustFn(R, "liteapi/pool", "ConnPool.updateBest")
	if ub == nil {
		return
	}
	// the two selection scans: the bodies of findBestPingConnection / findFirstWorkingConnection, or - when the
	// scans are written out in updateBest - its loop that compares round-trip times and its other loop over IsOK
	bu, fu := c.selectionUnits(R, ub)
	if bu == nil || fu == nil {
		return
	}
	fb := bu.f
	// reject predicates of a scan: the If conditions in its range loop, normalised so that the
	// "rejecting" polarity is explicit: (shape, rejectWhenTrue)
	pa, pb := dedup(rejectPredicates(bu)), dedup(rejectPredicates(fu))
	c.check(len(pa) == 2 && equalStrings(pa, pb), R, "both selection functions reject under the same predicates", fb.Pos(),
		"reject predicates: "+strings.Join(pa, " ; "), fmt.Sprintf("the two selection strategies no longer skip a connection under the same conditions: best-ping {%s} vs first-working {%s}", strings.Join(pa, " ; "), strings.Join(pb, " ; ")))
	// the staleness predicate tolerates exactly one block: seqno+1 compared with maxSeqno
	tol := false
	for _, p := range pa {
		if l, op, _, ok := topSplit(p); ok && strings.HasSuffix(l, "+1)") && strings.Contains(l, "Seqno") && (op == "<" || op == ">=") {
			tol = true
		}
	}
	c.check(tol, R, "staleness filter is head+1 < max", fb.Pos(), "a connection at most one block behind the newest head is eligible", "the staleness filter no longer compares head seqno + 1 with the newest known seqno: reject predicates "+strings.Join(pa, " ; "))
	// in findBestPing every value that flows into the loop-carried candidate / threshold is defined
	// behind both reject filters
	c.updatesBehindFilters(R, bu)
	c.replacementKey(R, bu)
	// "first working" means first in configuration order: the list both scans iterate is kept sorted by
	// connection id by the only function that adds to it (connections finish their handshakes in any order)
	if ad := c.mustFn(R, "liteapi/pool", "ConnPool.addConnection"); ad != nil {
		okSort := false
		for _, ci := range callsIn(ad) {
			q := callQName(ci.Common())
			if q == "sort.Slice" || q == "sort.SliceStable" || strings.HasPrefix(q, "slices.SortFunc") || strings.HasPrefix(q, "slices.SortStableFunc") {
				if strings.Contains(strings.Join(leaves(ci.Common().Args[0]), ","), "#0.conns") {
					// the comparison is on the connection id
					for _, an := range ad.AnonFuncs {
						ids := 0
						for _, c2 := range callsIn(an) {
							if fn := calleeFunc(c2.Common()); fn != nil && fn.Name() == "ID" {
								ids++
							}
						}
						allInstrs(an, func(_ *ssa.BasicBlock, in ssa.Instruction) {
							if _, n, ok := fieldOfLoad(valueOf(in)); ok && n == "id" {
								ids++
							}
						})
						if ids >= 2 {
							okSort = true
						}
					}
				}
			}
		}
		la := &lockAnalysis{c: c, funcs: c.moduleFuncs("liteapi/pool")}
		la.whoMayWrite(R, "pool.ConnPool.conns", map[string]string{
			"(*liteapi/pool.ConnPool).addConnection": "the only writer: appends and re-sorts by id",
		})
		c.check(okSort, R, "the connection list is kept in configuration order (sorted by id after every append)", ad.Pos(), "sort.Slice(p.conns, by ID)", "ConnPool.addConnection no longer sorts the connection list by id after appending: connections are added as their handshakes finish, so the list is not in configuration order and first-working (and the archive scan) pick a later-configured server although an earlier one qualifies")
	}
	// the pool's current choice: the field of ConnPool that holds one connection (interface type), whatever it is called
	bestField := "pool.ConnPool.bestConn"
	if pp := c.pkg("liteapi/pool"); pp != nil {
		if tn, ok := pp.Types.Scope().Lookup("ConnPool").(*types.TypeName); ok {
			if st, ok := tn.Type().Underlying().(*types.Struct); ok {
				for i := 0; i < st.NumFields(); i++ {
					if nt, ok := st.Field(i).Type().(*types.Named); ok && nt.Obj().Name() == "conn" {
						bestField = "pool.ConnPool." + st.Field(i).Name()
					}
				}
			}
		}
	}
	// updateBest: each store to ConnPool.bestConn is dominated by "candidate != nil", and between them the stores
	// take the result of both selection functions (one store per strategy, or one store of a candidate variable)
	nSt := 0
	okSt := true
	fromBest, fromFirst := false, false
	allInstrs(ub, func(b *ssa.BasicBlock, i ssa.Instruction) {
		st, ok := i.(*ssa.Store)
		if !ok {
			return
		}
		if of, ok := ownerField(st.Addr); !ok || of != bestField {
			return
		}
		nSt++
		guarded := false
		for _, ft := range factsAt(ub, b) {
			if isNil, eq := nilTest(ft.Cond, st.Val); isNil && eq != ft.Truth {
				guarded = true
			}
		}
		if !guarded {
			okSt = false
		}
		if derivesFrom(st.Val, bu.result(c, "ConnPool.findBestPingConnection"), false) {
			fromBest = true
		}
		if derivesFrom(st.Val, fu.result(c, "ConnPool.findFirstWorkingConnection"), false) {
			fromFirst = true
		}
	})
	c.check(okSt && nSt >= 1 && fromBest && fromFirst, R, "bestConn replaced only by a non-nil candidate", ub.Pos(), fmt.Sprintf("%d store(s) to bestConn, each dominated by candidate != nil, carrying the result of either selection function: otherwise the previous choice is kept", nSt), "updateBest can overwrite bestConn with nil (or no longer stores the candidate of one of the strategies): the previous choice is not kept when no connection qualifies")
	// maximum over all connections: the threshold handed to the selection functions is a loop-carried max over
	// c.MasterHead().Seqno of the range over p.conns (accumulated in updateBest or in a helper it calls)
	isLoopMax := func(v ssa.Value) bool {
		phi, ok := v.(*ssa.Phi)
		return ok && inLoop(phi.Block()) && derivesFrom(phi, func(x ssa.Value) bool {
			cl := callOf(x)
			return cl != nil && cl.Call.IsInvoke() && cl.Call.Method.Name() == "MasterHead"
		}, false)
	}
	okMax, nSel := true, 0
	for i, q := range []string{"ConnPool.findBestPingConnection", "ConnPool.findFirstWorkingConnection"} {
		u := []*selUnit{bu, fu}[i]
		if !u.whole {
			// the scan is a loop of updateBest: the seqno its staleness filter compares the head with
			for b := range u.body {
				iff := lastIf(b)
				if iff == nil {
					continue
				}
				bo, ok := iff.Cond.(*ssa.BinOp)
				if !ok {
					continue
				}
				// the head: computed in the loop from the element's MasterHead(); the threshold: defined before it
				headOf := func(v ssa.Value) bool {
					in, ok := v.(ssa.Instruction)
					return ok && u.body[in.Block()] && strings.Contains(opTree(v, 0), "MasterHead")
				}
				var other ssa.Value
				switch {
				case headOf(bo.X) && !headOf(bo.Y):
					other = bo.Y
				case headOf(bo.Y) && !headOf(bo.X):
					other = bo.X
				default:
					continue
				}
				nSel++
				if !derivesFrom(other, isLoopMax, false) {
					okMax = false
				}
			}
			continue
		}
		for _, cl := range callsTo(ub, c.qn("liteapi/pool", q)) {
			nSel++
			if len(cl.Call.Args) < 2 || !derivesFrom(cl.Call.Args[1], isLoopMax, false) {
				okMax = false
			}
		}
	}
	c.check(okMax && nSel >= 2, R, "newest head is the maximum over all connections", ub.Pos(), "the seqno given to both selection functions is accumulated in a loop over p.conns", "updateBest no longer accumulates the newest head seqno over all connections (or no longer hands it to the selection functions)")
}

func equalStrings(a, b []string) bool {
	if len(a) != len(b) {
		return false
	}
	for i := range a {
		if a[i] != b[i] {
			return false
		}
	}
	return true
}

// rejectPredicates lists, in order, the conditions under which the loop body of a selection
// function skips the current element (jumps back to the loop header without accepting it).
func rejectPredicates(u *selUnit) []string {
	var out []string
	hdr := u.hdr
	if hdr == nil {
		return nil
	}
	for _, b := range u.f.Blocks {
		ifi := lastIf(b)
		if ifi == nil || b == hdr || !u.body[b] {
			continue
		}
		// an edge straight back to the loop header is a "continue"
		for k, s := range b.Succs {
			if s == hdr {
				sh := opTree(ifi.Cond, 0)
				if k == 1 {
					sh = "!" + sh
				}
				// only filters on the element: must mention a method call on the range element
				if strings.Contains(sh, "IsOK") || strings.Contains(sh, "MasterHead") {
					out = append(out, normPred(sh))
				}
			}
		}
		// accept-style: "if cond { return c }" is the negation of a reject
		for k, s := range b.Succs {
			if len(s.Instrs) > 0 {
				accept := false
				if r, ok := s.Instrs[len(s.Instrs)-1].(*ssa.Return); ok && len(r.Results) == 1 && !isNilConst(retVal(r, 0)) && len(s.Instrs) <= 2 {
					accept = true
				}
				// ... and so is "if cond { best = c; break }" when the scan is a loop of a larger function
				if !u.whole && !u.body[s] {
					accept = true
				}
				if accept {
					sh := opTree(ifi.Cond, 0)
					if k == 0 {
						sh = "!" + sh
					}
					if strings.Contains(sh, "IsOK") || strings.Contains(sh, "MasterHead") {
						out = append(out, normPred(sh))
					}
				}
			}
		}
	}
	return out
}

// topSplit splits "(L op R)" at its top-level comparison operator.
func topSplit(s string) (l, op, r string, ok bool) {
	if len(s) < 2 || s[0] != '(' || s[len(s)-1] != ')' {
		return
	}
	depth := 0
	for i := 1; i < len(s)-1; i++ {
		switch s[i] {
		case '(', '[':
			depth++
		case ')', ']':
			depth--
		case '<', '>':
			if depth == 0 {
				j := i + 1
				if j < len(s) && s[j] == '=' {
					j++
				}
				if j < len(s) && (s[j] == '<' || s[j] == '>') {
					continue // a shift
				}
				if i > 0 && (s[i-1] == '<' || s[i-1] == '>') {
					continue
				}
				return s[1:i], s[i:j], s[j : len(s)-1], true
			}
		}
	}
	return
}

// normPred normalises !(a>=b) to (a<b) etc., with the connection's head on the left.
func normPred(s string) string {
	s = normPred0(s)
	headSide := func(x string) bool { return strings.Contains(x, "MasterHead") && strings.HasSuffix(x, "+1)") }
	if l, op, r, ok := topSplit(s); ok && ((strings.Contains(r, "MasterHead") && !strings.Contains(l, "MasterHead")) || (headSide(r) && !headSide(l))) {
		mirror := map[string]string{"<": ">", "<=": ">=", ">": "<", ">=": "<="}
		return "(" + r + mirror[op] + l + ")"
	}
	return s
}

func normPred0(s string) string {
	neg := strings.HasPrefix(s, "!")
	if neg {
		s = s[1:]
	}
	if neg {
		for _, p := range [][2]string{{">=", "<"}, {"<=", ">"}} {
			if strings.Contains(s, p[0]) {
				return strings.Replace(s, p[0], p[1], 1)
			}
		}
		for _, p := range [][2]string{{"<", ">="}, {">", "<="}} {
			if strings.Contains(s, p[0]) && !strings.Contains(s, p[0]+"=") {
				return strings.Replace(s, p[0], p[1], 1)
			}
		}
		return "!" + s
	}
	return s
}

// updatesBehindFilters: an iteration that is rejected by a filter leaves the loop-carried state
// unchanged: on every edge from a rejecting filter block back to the loop header, each header phi
// receives its own previous value.
func (c *Ctx) updatesBehindFilters(rule string, u *selUnit) {
	f, hdr := u.f, u.hdr
	if hdr == nil {
		c.bad(rule, u.label()+" selection loop", f.Pos(), "selection loop not found")
		return
	}
	nFilters := 0
	var offenders []string
	for pi, pred := range hdr.Preds {
		ifi := lastIf(pred)
		if ifi == nil {
			continue
		}
		sh := opTree(ifi.Cond, 0)
		if !(strings.Contains(sh, "IsOK") || strings.Contains(sh, "MasterHead")) {
			continue
		}
		nFilters++
		for _, in := range hdr.Instrs {
			phi, ok := in.(*ssa.Phi)
			if !ok || strings.Contains(phi.Comment, "rangeindex") {
				continue
			}
			if phi.Edges[pi] != ssa.Value(phi) {
				offenders = append(offenders, fmt.Sprintf("%q changes on the reject edge of the filter at %s", phi.Comment, c.rel(condPos(ifi))))
			}
		}
	}
	c.check(len(offenders) == 0 && nFilters == 2, rule, u.label()+" rejected iterations leave the running best unchanged", f.Pos(),
		"on both reject edges every loop-carried value keeps its previous value", fmt.Sprintf("selection loop (%d reject filters found, 2 expected): %s", nFilters, strings.Join(offenders, "; ")))
}

// waitListIDs (K7): the id under which a waiter is registered can never equal the id returned on
// the fast path of subscribe (whose deferred unsubscribe would otherwise delete another waiter).
func (c *Ctx) waitListIDs() {
	const R = "E9.K7-waitlist-ids"
	f := c.mustFn(R, "liteapi/pool", "ConnPool.subscribe")
	if f == nil {
		return
	}
	// fast-path ids: constant first results of returns; registered keys: MapUpdate keys on waitList
	var fast []int64
	for _, r := range returnsOf(f) {
		if k, ok := constInt(retVal(r, 0)); ok {
			fast = append(fast, k)
		}
	}
	n := 0
	allInstrs(f, func(b *ssa.BasicBlock, i ssa.Instruction) {
		mu, ok := i.(*ssa.MapUpdate)
		if !ok {
			return
		}
		ld, ok := mu.Map.(*ssa.UnOp)
		if !ok {
			return
		}
		if of, ok := ownerField(ld.X); !ok || of != c.poolWaitList() {
			return
		}
		n++
		p := c.newProver(f, b)
		key := p.lin(mu.Key)
		okAll := true
		for _, k := range fast {
			// key > k  or key < k
			if !(p.prove(key.addConst(-k-1)) || p.prove(key.scale(-1).addConst(k-1))) {
				okAll = false
			}
		}
		c.check(okAll, R, "registered wait-list id differs from the fast-path id", mu.Pos(), fmt.Sprintf("key proved different from the constant id(s) %v returned without registration", fast),
			fmt.Sprintf("a waiter can be registered under id %v, the id subscribe returns on its fast path: the fast-path caller's deferred unsubscribe deletes that waiter, which then never gets notified", fast))
	})
	// ids are unique over the pool's lifetime: the key is the incremented value of a counter FIELD
	// that is stored back (it only grows); an id computed from the current size of the wait list is
	// handed out again as soon as an earlier waiter has left, and the newcomer overwrites a waiter
	// that is still registered
	allInstrs(f, func(b *ssa.BasicBlock, i ssa.Instruction) {
		mu, ok := i.(*ssa.MapUpdate)
		if !ok {
			return
		}
		ld, ok := mu.Map.(*ssa.UnOp)
		if !ok {
			return
		}
		if of, ok := ownerField(ld.X); !ok || of != c.poolWaitList() {
			return
		}
		fromLen := derivesFrom(mu.Key, func(v ssa.Value) bool {
			cl := callOf(v)
			if cl == nil {
				return false
			}
			bi, ok := cl.Call.Value.(*ssa.Builtin)
			return ok && bi.Name() == "len"
		}, false)
		// counter: key derives from a load of an integer field that the function also stores an
		// incremented value into
		counter := false
		derivesFrom(mu.Key, func(v ssa.Value) bool {
			l2, ok := v.(*ssa.UnOp)
			if !ok || l2.Op != token.MUL {
				return false
			}
			fa, ok := l2.X.(*ssa.FieldAddr)
			if !ok || !isInteger(l2.Type()) {
				return false
			}
			allInstrs(f, func(_ *ssa.BasicBlock, j ssa.Instruction) {
				if st, ok := j.(*ssa.Store); ok {
					if fa2, ok := st.Addr.(*ssa.FieldAddr); ok && fa2.Field == fa.Field && fa2.X == fa.X {
						if bo, ok := st.Val.(*ssa.BinOp); ok && bo.Op == token.ADD {
							counter = true
						}
					}
				}
			})
			return false
		}, false)
		c.check(counter && !fromLen, R, "wait-list ids come from a counter that only grows", mu.Pos(), "key derives from an incremented, stored-back counter field", "subscribe registers a waiter under an id that does not come from a monotonically growing counter (it depends on the current size of the wait list): after an earlier waiter has left, the next subscriber gets the id of a waiter that is still registered and replaces its channel - that waiter is never notified")
	})
	// the non-fast return hands out the same id that was used as key
	c.check(n == 1, R, "one registration site", f.Pos(), "subscribe registers the channel exactly once", fmt.Sprintf("expected one waitList registration in subscribe, found %d", n))
}

// phiSources: the non-phi values that can enter the loop-carried phi ph from inside the loop, with
// the block each one comes from (nested join phis are expanded; the phi itself = "unchanged").
func phiSources(ph *ssa.Phi) map[*ssa.BasicBlock]ssa.Value {
	out := map[*ssa.BasicBlock]ssa.Value{}
	seen := map[*ssa.Phi]bool{}
	var rec func(p *ssa.Phi)
	rec = func(p *ssa.Phi) {
		if seen[p] {
			return
		}
		seen[p] = true
		for i, e := range p.Edges {
			if e == ssa.Value(ph) {
				continue
			}
			if q, ok := e.(*ssa.Phi); ok && q.Block() != ph.Block() && ph.Block().Dominates(q.Block()) {
				rec(q) // a join inside the loop body; a phi of the header itself is a value (e.g. the counter)
				continue
			}
			if _, isConst := e.(*ssa.Const); isConst {
				continue // initial value
			}
			out[p.Block().Preds[i]] = e
		}
	}
	rec(ph)
	return out
}

// replacementKey: in the best-ping scan the candidate's round-trip time is compared with the
// round-trip time of the CURRENT best: either obtained from the running best itself, or from a
// loop-carried copy that is updated on exactly the edges on which the running best is.
func (c *Ctx) replacementKey(R string, u *selUnit) {
	f := u.f
	var best *ssa.Phi
	allInstrs(f, func(_ *ssa.BasicBlock, in ssa.Instruction) {
		// the running best: the loop-carried value of the connection interface type that the function returns
		// (or, for a scan written out in updateBest, the loop-carried connection of that loop)
		ph, ok := in.(*ssa.Phi)
		if !ok || best != nil {
			return
		}
		if u.whole && inLoop(ph.Block()) && types.Identical(ph.Type(), f.Signature.Results().At(0).Type()) {
			best = ph
		}
		if !u.whole && ph.Block() == u.hdr && types.IsInterface(ph.Type()) {
			best = ph
		}
	})
	if best == nil {
		c.bad(R, "best-ping replacement compares with the current best", f.Pos(), "no loop-carried bestConn found in findBestPingConnection (anchor moved?)")
		return
	}
	isRTT := func(v ssa.Value, recv func(ssa.Value) bool) bool {
		cl := callOf(v)
		return cl != nil && cl.Call.IsInvoke() && cl.Call.Method.Name() == "AverageRoundTrip" && recv(cl.Call.Value)
	}
	isBest := func(v ssa.Value) bool {
		return derivesFrom(v, func(x ssa.Value) bool { return x == ssa.Value(best) }, false)
	}
	n := 0
	okv := true
	why := ""
	for _, b := range f.Blocks {
		iff := lastIf(b)
		if iff == nil || !u.body[b] {
			continue
		}
		bo, ok := iff.Cond.(*ssa.BinOp)
		if !ok || (bo.Op != token.LSS && bo.Op != token.GTR && bo.Op != token.LEQ && bo.Op != token.GEQ) {
			continue
		}
		// one side is the candidate's RTT
		var other ssa.Value
		notBest := func(v ssa.Value) bool { return !isBest(v) }
		if isRTT(bo.X, notBest) || derivesFrom(bo.X, func(x ssa.Value) bool { return isRTT(x, notBest) }, false) {
			other = bo.Y
		} else if isRTT(bo.Y, notBest) || derivesFrom(bo.Y, func(x ssa.Value) bool { return isRTT(x, notBest) }, false) {
			other = bo.X
		} else {
			continue
		}
		n++
		if isRTT(other, isBest) {
			continue // compared with the current best's own value
		}
		ph, isPhi := other.(*ssa.Phi)
		if !isPhi {
			okv = false
			why = "the candidate's round-trip time is compared with " + shape(other, 3) + ", which is neither the current best's round-trip time nor a loop-carried copy of it"
			continue
		}
		a, bsrc := phiSources(best), phiSources(ph)
		for blk := range a {
			if _, ok := bsrc[blk]; !ok {
				okv = false
				why = fmt.Sprintf("the running best is replaced on the edge from block %d (%s) but the cached round-trip time %s it is compared with is not updated there: later candidates are compared with an earlier connection's time", blk.Index, c.rel(iffPos(blk)), ph.Comment)
			}
		}
		for blk := range bsrc {
			if _, ok := a[blk]; !ok {
				okv = false
				why = fmt.Sprintf("the cached round-trip time %s is updated on an edge (block %d) where the running best is not", ph.Comment, blk.Index)
			}
		}
	}
	c.check(okv && n >= 1, R, "best-ping replacement compares with the current best", f.Pos(), fmt.Sprintf("%d comparison(s) of the candidate's AverageRoundTrip with that of the running best", n), "findBestPingConnection: "+why)
}

func iffPos(b *ssa.BasicBlock) token.Pos {
	for _, in := range b.Instrs {
		if in.Pos().IsValid() {
			return in.Pos()
		}
	}
	return token.NoPos
}

// losslessPublication: when a connection's head advances, the update is handed to the pool with
// a blocking send (a non-blocking send with a default case drops it when the shared channel is
// full, and the waiters for that seqno are never woken).
func (c *Ctx) losslessPublication() {
	const R = "E9.K8-lossless-publication"
	f := c.mustFn(R, "liteapi/pool", "connection.SetMasterHead")
	if f == nil {
		return
	}
	var sends []*ssa.Send
	nonBlocking := 0
	allInstrs(f, func(_ *ssa.BasicBlock, in ssa.Instruction) {
		switch x := in.(type) {
		case *ssa.Send:
			if _, n, ok := fieldOfLoad(x.Chan); ok && n == "masterHeadUpdatedCh" {
				sends = append(sends, x)
			}
		case *ssa.Select:
			for _, st := range x.States {
				if _, n, ok := fieldOfLoad(st.Chan); ok && n == "masterHeadUpdatedCh" && st.Dir == types.SendOnly && !x.Blocking {
					nonBlocking++
				}
			}
		}
	})
	okv := len(sends) == 1 && nonBlocking == 0
	if okv {
		// the send happens exactly when the head was stored: same condition value
		var stBlk *ssa.BasicBlock
		for _, st := range fieldStores(f, "masterHead") {
			stBlk = st.Block()
		}
		okv = stBlk != nil
		if okv {
			fa, fb := factsAt(f, stBlk), factsAt(f, sends[0].Block())
			okv = len(fa) == 1 && len(fb) == 1 && fa[0].Cond == fb[0].Cond && fa[0].Truth == fb[0].Truth
		}
		// and the message carries the new head and this connection
		if okv {
			lv := strings.Join(leaves(sends[0].X), ",")
			okv = lv == "#0,#1"
		}
	}
	// consumer side: every update taken off the channel is handed to notifySubscribers as it is.
	// Updates come from different connections and notifySubscribers ignores those that are not from
	// the best one, so "keeping only the newest" of several queued updates can throw the best one's away.
	if g := c.mustFn(R, "liteapi/pool", "ConnPool.Run"); g != nil {
		nRecv := 0
		var sel *ssa.Select
		allInstrs(g, func(_ *ssa.BasicBlock, in ssa.Instruction) {
			switch x := in.(type) {
			case *ssa.UnOp:
				if x.Op == token.ARROW {
					if _, n, ok := fieldOfLoad(x.X); ok && n == "masterHeadUpdatedCh" {
						nRecv++
					}
				}
			case *ssa.Select:
				for _, st := range x.States {
					if _, n, ok := fieldOfLoad(st.Chan); ok && n == "masterHeadUpdatedCh" && st.Dir == types.RecvOnly {
						nRecv++
						sel = x
					}
				}
			}
		})
		okR := nRecv == 1 && sel != nil
		nCall := 0
		for _, cl := range callsTo(g, modPath+"/liteapi/pool.ConnPool.notifySubscribers") {
			nCall++
			ex, isEx := cl.Call.Args[1].(*ssa.Extract)
			if !isEx || ex.Tuple != ssa.Value(sel) {
				okR = false
			}
		}
		c.check(okR && nCall == 1, R, "Run hands every received head update to notifySubscribers unmerged", g.Pos(), "one receive, passed on as received", fmt.Sprintf("ConnPool.Run receives from masterHeadUpdatedCh at %d site(s) and passes a merged/selected value on: an update of the best connection can be replaced by a later one of another connection, which notifySubscribers ignores, and the waiter is never woken", nRecv))
	}
	// the decision "is this head newer" and the store are one critical section: the comparison reads
	// masterHead under the write lock that is still held at the store (two concurrent reports may not
	// both pass the test and then store in the wrong order: the head would move backwards)
	{
		la := c.newLockAnalysis("liteapi/pool")
		atomic := true
		nLoads := 0
		var stores []*ssa.Store
		stores = fieldStores(f, "masterHead")
		allInstrs(f, func(b *ssa.BasicBlock, in ssa.Instruction) {
			u, ok := in.(*ssa.UnOp)
			if !ok || u.Op != token.MUL {
				return
			}
			// a load of c.masterHead.Seqno (or c.masterHead)
			ls := strings.Join(leaves(u), ",")
			if !strings.HasPrefix(ls, "#0.masterHead") || strings.HasPrefix(ls, "#0.masterHeadUpdatedCh") {
				return
			}
			nLoads++
			if la.at(u)["pool.connection.mu"] != 'W' {
				atomic = false
			}
		})
		for _, st := range stores {
			if la.at(st)["pool.connection.mu"] != 'W' {
				atomic = false
			}
		}
		// one Lock only: check and store in the same acquisition
		nLock := 0
		for _, ci := range callsIn(f) {
			q := callQName(ci.Common())
			if q == "sync.RWMutex.Lock" || q == "sync.Mutex.Lock" || q == "sync.RWMutex.RLock" {
				nLock++
			}
		}
		c.check(atomic && nLoads >= 1 && len(stores) == 1 && nLock == 1, R, "SetMasterHead compares and stores the head in one critical section", f.Pos(), "Lock; if newer { store }; Unlock", fmt.Sprintf("SetMasterHead reads the current head for its 'newer?' test outside the write-locked section that stores the new head (loads under W: %v, lock acquisitions: %d): two concurrent reports can both pass the test and the older one be stored last, so a connection's head moves backwards and a waiter for a seqno already reported times out", atomic, nLock))
	}
	c.check(okv, R, "SetMasterHead publishes every accepted head with a blocking send", f.Pos(), "one send of {Head: head, Conn: c} under the same condition as the store", fmt.Sprintf("SetMasterHead no longer hands every accepted head to the pool (blocking sends: %d, non-blocking sends that drop when the channel is full: %d): a waiter for that seqno is not woken although the best connection reported it in time", len(sends), nonBlocking))
	c.floor(R, 3)
}

func valueOf(in ssa.Instruction) ssa.Value {
	if v, ok := in.(ssa.Value); ok {
		return v
	}
	return nil
}

var excC13E2 = map[string]string{
	"(*liteapi/pool.ConnPool).InitializeConnections$1$1 R-drop liteapi/pool.connect": "explicit '_': a server that cannot be reached yields a nil client, which the collecting loop skips (wrapper.cli == nil); the pool reports an error only when no server at all could be reached",
}

// waitPolarity (after the mutation battery): "a head AT or beyond the seqno" - the two places that
// decide a waiter is done compare head.Seqno >= seqno (not >); and head updates are forwarded to
// the waiters exactly when they come from the best connection.
func (c *Ctx) waitPolarity() {
	const R = "E12.selection"
	rel := func(f *ssa.Function, b *ssa.BasicBlock, seq ssa.Value) string {
		for _, ft := range factsAt(f, b) {
			bo, ok := ft.Cond.(*ssa.BinOp)
			if !ok {
				continue
			}
			var op token.Token
			switch {
			case bo.Y == seq:
				op = bo.Op
			case bo.X == seq:
				op = map[token.Token]token.Token{token.LSS: token.GTR, token.GTR: token.LSS, token.LEQ: token.GEQ, token.GEQ: token.LEQ, token.EQL: token.EQL, token.NEQ: token.NEQ}[bo.Op]
			default:
				continue
			}
			if !ft.Truth {
				op = map[token.Token]token.Token{token.LSS: token.GEQ, token.GEQ: token.LSS, token.GTR: token.LEQ, token.LEQ: token.GTR, token.EQL: token.NEQ, token.NEQ: token.EQL}[op]
			}
			return op.String()
		}
		return "?"
	}
	if f := c.fn("liteapi/pool", "ConnPool.WaitMasterchainSeqno"); f != nil && len(f.Params) >= 3 {
		seq := ssa.Value(f.Params[2])
		n := 0
		for _, r := range returnsOf(f) {
			if r.Block().Comment == "recover" {
				continue
			}
			if !isNilConst(retVal(r, 0)) {
				continue
			}
			n++
			op := rel(f, r.Block(), seq)
			c.check(op == ">=", R, "a waiter succeeds for a head at or beyond its seqno", r.Pos(), "head.Seqno >= seqno", "WaitMasterchainSeqno returns success where head.Seqno "+op+" seqno is established; the contract is 'at or beyond' (>=): with > a waiter for exactly the current block waits for the next one, or times out")
		}
		if n == 0 {
			c.bad(R, "a waiter succeeds for a head at or beyond its seqno", f.Pos(), "WaitMasterchainSeqno has no success return the rule can read (undecided)")
		}
	}
	if f := c.fn("liteapi/pool", "ConnPool.subscribe"); f != nil && len(f.Params) >= 2 {
		seq := ssa.Value(f.Params[1])
		// the immediate answer: a send on the fresh channel behind the comparison
		allInstrs(f, func(b *ssa.BasicBlock, in ssa.Instruction) {
			if _, ok := in.(*ssa.Send); !ok {
				return
			}
			op := rel(f, b, seq)
			c.check(op == ">=", R, "subscribe answers at once for a head at or beyond the seqno", in.Pos(), "head.Seqno >= seqno", "subscribe hands the current head to the waiter where head.Seqno "+op+" seqno; the contract is >=")
		})
	}
	if f := c.fn("liteapi/pool", "ConnPool.notifySubscribers"); f != nil {
		allInstrs(f, func(b *ssa.BasicBlock, in ssa.Instruction) {
			if _, ok := in.(*ssa.Send); !ok {
				return
			}
			same := false
			for _, ft := range factsAt(f, b) {
				bo, ok := ft.Cond.(*ssa.BinOp)
				if !ok || (bo.Op != token.EQL && bo.Op != token.NEQ) {
					continue
				}
				cx, cy := callOf(bo.X), callOf(bo.Y)
				if cx == nil || cy == nil || !strings.HasSuffix(callQName(&cx.Call), ".ID") || !strings.HasSuffix(callQName(&cy.Call), ".ID") {
					continue
				}
				if (bo.Op == token.EQL) == ft.Truth {
					same = true
				}
			}
			c.check(same, R, "waiters are told about heads of the best connection only", in.Pos(), "send behind update.Conn.ID() == bestConn.ID()", "notifySubscribers forwards a head update to the waiters on the path where it does NOT come from the best connection (and drops those that do): waiters are woken by a server that may be ahead of the one requests go to, or never woken")
		})
	}
}

// selUnit: one selection scan of the pool - a whole helper function (its range loop), or one loop of updateBest.
type selUnit struct {
	f     *ssa.Function
	hdr   *ssa.BasicBlock
	body  map[*ssa.BasicBlock]bool
	whole bool
	name  string
}

func (u *selUnit) label() string {
	if u.whole {
		return fnName(u.f)
	}
	return fnName(u.f) + " " + u.name
}

// result: the predicate "this value is what the scan selected".
func (u *selUnit) result(c *Ctx, helper string) func(ssa.Value) bool {
	if u.whole {
		return callResult(c.qn("liteapi/pool", helper))
	}
	return func(v ssa.Value) bool {
		in, ok := v.(ssa.Instruction)
		return ok && u.body[in.Block()]
	}
}

// naturalLoop: the blocks dominated by hdr from which hdr is reachable.
func naturalLoop(hdr *ssa.BasicBlock) map[*ssa.BasicBlock]bool {
	out := map[*ssa.BasicBlock]bool{}
	for _, b := range hdr.Parent().Blocks {
		if hdr.Dominates(b) && reachableFrom(b, nil)[hdr] {
			out[b] = true
		}
	}
	return out
}

func (c *Ctx) selectionUnits(R string, ub *ssa.Function) (best, first *selUnit) {
	wholeUnit := func(f *ssa.Function) *selUnit {
		u := &selUnit{f: f, whole: true, body: map[*ssa.BasicBlock]bool{}}
		for _, b := range f.Blocks {
			u.body[b] = true
			if b.Comment == "rangeindex.loop" {
				u.hdr = b
			}
		}
		return u
	}
	if f := c.fn("liteapi/pool", "ConnPool.findBestPingConnection"); f != nil {
		best = wholeUnit(f)
	}
	if f := c.fn("liteapi/pool", "ConnPool.findFirstWorkingConnection"); f != nil {
		first = wholeUnit(f)
	}
	if best != nil && first != nil {
		return
	}
	// written out in updateBest: its loops that test IsOK on the element
	invokes := func(body map[*ssa.BasicBlock]bool, name string) bool {
		for b := range body {
			for _, in := range b.Instrs {
				if cl, ok := in.(*ssa.Call); ok && cl.Call.IsInvoke() && cl.Call.Method.Name() == name {
					return true
				}
			}
		}
		return false
	}
	for _, b := range ub.Blocks {
		isHdr := false
		for _, p := range b.Preds {
			if b.Dominates(p) && p != b {
				isHdr = true
			}
		}
		if !isHdr {
			continue
		}
		body := naturalLoop(b)
		if !invokes(body, "IsOK") && !invokes(body, "AverageRoundTrip") {
			continue
		}
		u := &selUnit{f: ub, hdr: b, body: body}
		if invokes(body, "AverageRoundTrip") {
			if best == nil {
				u.name = "best-ping loop"
				best = u
			}
		} else if first == nil {
			u.name = "first-working loop"
			first = u
		}
	}
	if best == nil {
		c.bad(R, "anchor liteapi/pool.ConnPool.findBestPingConnection", token.NoPos, "the best-ping scan was found neither as ConnPool.findBestPingConnection nor as a loop of updateBest over IsOK and AverageRoundTrip (renamed/removed?) - property cannot be decided")
	}
	if first == nil {
		c.bad(R, "anchor liteapi/pool.ConnPool.findFirstWorkingConnection", token.NoPos, "the first-working scan was found neither as ConnPool.findFirstWorkingConnection nor as a loop of updateBest over IsOK (renamed/removed?) - property cannot be decided")
	}
	return
}
