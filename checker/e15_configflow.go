package main

import (
	"fmt"
	"go/token"
	"go/types"
	"sort"
	"strconv"
	"strings"

	"golang.org/x/tools/go/ssa"
)

// E15 configflow: which inputs (receiver fields, parameters, parameter fields) a value is
// computed from ("leaves"), and the per-field sources of struct literals. Used for liveness
// rules: every configured quantity reaches the signed body / the data cell / the constructor.

// paramRoot: v is a parameter, or the local copy go/ssa makes of a parameter that is captured or
// whose address is taken.
func paramRoot(v ssa.Value) (string, bool) {
	switch x := v.(type) {
	case *ssa.Parameter:
		return paramPos(x), true
	case *ssa.FreeVar:
		if fn := x.Parent(); fn != nil {
			for i, fv := range fn.FreeVars {
				if fv == x {
					return fmt.Sprintf("^%d", i), true
				}
			}
		}
		return "^?", true
	case *ssa.Alloc:
		sts := storesTo(x)
		if len(sts) == 1 {
			if p, ok := sts[0].Val.(*ssa.Parameter); ok {
				return paramPos(p), true
			}
		}
	case *ssa.UnOp:
		if x.Op == token.MUL {
			return paramRoot(x.X)
		}
	}
	return "", false
}

// paramPos names a parameter by position ("#0" is the receiver of a method), so that rules do not
// depend on what a parameter is called.
func paramPos(p *ssa.Parameter) string {
	if fn := p.Parent(); fn != nil {
		for i, q := range fn.Params {
			if q == p {
				return fmt.Sprintf("#%d", i)
			}
		}
	}
	return "#?"
}

// accessPath: v is (a load of) a chain of field selections rooted at a parameter: "w.subWalletID",
// "msgConfig.ValidUntil".
func accessPath(v ssa.Value) (string, bool) {
	switch x := v.(type) {
	case *ssa.UnOp:
		if x.Op == token.MUL {
			if fa, ok := x.X.(*ssa.FieldAddr); ok {
				return accessPath(fa)
			}
			if n, ok := paramRoot(x.X); ok {
				return n, true
			}
		}
	case *ssa.FieldAddr:
		_, fn, ok := fieldOf(x)
		if !ok {
			return "", false
		}
		if n, ok := paramRoot(x.X); ok {
			return n + "." + fn, true
		}
		if p, ok := accessPath(x.X); ok {
			return p + "." + fn, true
		}
	case *ssa.Field:
		_, fn, ok := fieldOf(x)
		if !ok {
			return "", false
		}
		if n, ok := paramRoot(x.X); ok {
			return n + "." + fn, true
		}
		if p, ok := accessPath(x.X); ok {
			return p + "." + fn, true
		}
	case *ssa.Parameter, *ssa.FreeVar:
		return paramRoot(v)
	}
	return "", false
}

// leaves returns the sorted set of inputs v is computed from. Constants are omitted; calls
// without arguments appear as "call:<name>".
func leaves(v ssa.Value) []string {
	set := map[string]bool{}
	seen := map[ssa.Value]bool{}
	var rec func(v ssa.Value, d int)
	rec = func(v ssa.Value, d int) {
		if v == nil || seen[v] || d > 60 {
			return
		}
		seen[v] = true
		if p, ok := accessPath(v); ok {
			set[p] = true
			return
		}
		switch x := v.(type) {
		case *ssa.Const, *ssa.Function, *ssa.Global, *ssa.Builtin:
		case *ssa.ChangeType:
			rec(x.X, d+1)
		case *ssa.Convert:
			rec(x.X, d+1)
		case *ssa.MakeInterface:
			rec(x.X, d+1)
		case *ssa.ChangeInterface:
			rec(x.X, d+1)
		case *ssa.SliceToArrayPointer:
			rec(x.X, d+1)
		case *ssa.UnOp:
			if x.Op == token.MUL {
				rec(x.X, d+1)
				return
			}
			rec(x.X, d+1)
		case *ssa.BinOp:
			rec(x.X, d+1)
			rec(x.Y, d+1)
		case *ssa.Extract:
			rec(x.Tuple, d+1)
		case *ssa.Phi:
			for _, e := range x.Edges {
				rec(e, d+1)
			}
		case *ssa.Slice:
			rec(x.X, d+1)
		case *ssa.Alloc:
			for _, st := range storesTo(x) {
				rec(st.Val, d+1)
			}
			if refs := x.Referrers(); refs != nil {
				for _, r := range *refs {
					switch y := r.(type) {
					case *ssa.UnOp:
						// a slice variable filled by index through loads of the variable: xs[i].f = v
						if y.Op == token.MUL && y.Referrers() != nil {
							for _, r2 := range *y.Referrers() {
								ia, ok := r2.(*ssa.IndexAddr)
								if !ok {
									continue
								}
								for _, st := range storesTo(ia) {
									rec(st.Val, d+1)
								}
								if rr := ia.Referrers(); rr != nil {
									for _, r3 := range *rr {
										if fa, ok := r3.(*ssa.FieldAddr); ok {
											for _, st := range storesTo(fa) {
												rec(st.Val, d+1)
											}
										}
									}
								}
							}
						}
					case *ssa.IndexAddr:
						for _, st := range storesTo(y) {
							rec(st.Val, d+1)
						}
					case *ssa.Slice:
						for _, src := range copiedInto(y) {
							rec(src, d+1)
						}
					case *ssa.FieldAddr:
						for _, st := range storesTo(y) {
							rec(st.Val, d+1)
						}
						// nested struct literal fields
						if rr := y.Referrers(); rr != nil {
							for _, r2 := range *rr {
								if fa2, ok := r2.(*ssa.FieldAddr); ok {
									for _, st := range storesTo(fa2) {
										rec(st.Val, d+1)
									}
								}
							}
						}
					}
				}
			}
		case *ssa.FieldAddr:
			rec(x.X, d+1)
		case *ssa.Field:
			rec(x.X, d+1)
		case *ssa.IndexAddr:
			rec(x.X, d+1)
			rec(x.Index, d+1)
		case *ssa.Index:
			rec(x.X, d+1)
		case *ssa.Lookup:
			rec(x.X, d+1)
			rec(x.Index, d+1)
		case *ssa.TypeAssert:
			rec(x.X, d+1)
		case *ssa.MakeSlice:
			// a slice made to size and filled by index (xs := make(T, n); xs[i].f = v): what its elements hold
			if refs := x.Referrers(); refs != nil {
				for _, r := range *refs {
					ia, ok := r.(*ssa.IndexAddr)
					if !ok {
						continue
					}
					for _, st := range storesTo(ia) {
						rec(st.Val, d+1)
					}
					if rr := ia.Referrers(); rr != nil {
						for _, r2 := range *rr {
							if fa, ok := r2.(*ssa.FieldAddr); ok {
								for _, st := range storesTo(fa) {
									rec(st.Val, d+1)
								}
							}
						}
					}
				}
			}
		case *ssa.MakeMap:
		case *ssa.MakeClosure:
			for _, b := range x.Bindings {
				rec(b, d+1)
			}
		case *ssa.Range:
			rec(x.X, d+1)
		case *ssa.Next:
			rec(x.Iter, d+1)
		case *ssa.Call:
			n := 0
			for _, a := range x.Call.Args {
				rec(a, d+1)
				n++
			}
			if x.Call.IsInvoke() {
				rec(x.Call.Value, d+1)
				n++
			} else if _, isFn := x.Call.Value.(*ssa.Function); !isFn {
				if _, isB := x.Call.Value.(*ssa.Builtin); !isB {
					rec(x.Call.Value, d+1)
				}
			}
			if n == 0 {
				set["call:"+shortQ(callQName(&x.Call))] = true
			}
		}
	}
	rec(v, 0)
	var out []string
	for k := range set {
		out = append(out, k)
	}
	sort.Strings(out)
	return out
}

// literalFields: for every struct literal (local Alloc or value built field by field) of named
// type typeName in f, the stores per field path.
func literalFields(f *ssa.Function, typeName string) []map[string][]ssa.Value {
	var out []map[string][]ssa.Value
	allInstrs(f, func(_ *ssa.BasicBlock, in ssa.Instruction) {
		al, ok := in.(*ssa.Alloc)
		if !ok {
			return
		}
		pt, ok := al.Type().(*types.Pointer)
		if !ok {
			return
		}
		n, ok := pt.Elem().(*types.Named)
		if !ok || n.Obj().Name() != typeName {
			return
		}
		// skip local copies of parameters / results of calls (not literals)
		whole := storesTo(al)
		for _, st := range whole {
			if ld, ok := st.Val.(*ssa.UnOp); ok && ld.Op == token.MUL && ld.X == ssa.Value(al) {
				continue // `return x, nil` with a named result x: the result variable assigned to itself
			}
			if !isZeroStruct(st.Val) {
				return
			}
			// (a named result reset to T{} on the error paths and filled field by field on the success path)
		}
		m := map[string][]ssa.Value{}
		var walk func(base ssa.Value, prefix string)
		walk = func(base ssa.Value, prefix string) {
			refs := base.Referrers()
			if refs == nil {
				return
			}
			for _, r := range *refs {
				fa, ok := r.(*ssa.FieldAddr)
				if !ok {
					continue
				}
				_, fn, ok := fieldOf(fa)
				if !ok {
					continue
				}
				for _, st := range storesTo(fa) {
					// a struct-valued field set from an unexported helper that returns one literal built from its
					// own parameters (w.walletID()): the helper's literal, field by field - when the helper's
					// parameters are this function's parameters of the same position, so that "#i" means the same
					if sub, ok := helperLiteral(f, st.Val); ok {
						for k, vs := range sub {
							m[prefix+fn+"."+k] = append(m[prefix+fn+"."+k], vs...)
						}
						continue
					}
					m[prefix+fn] = append(m[prefix+fn], st.Val)
				}
				// an array field filled by copy(lit.f[:], src) instead of lit.f = value
				if rr := fa.Referrers(); rr != nil {
					for _, r2 := range *rr {
						if sl, ok := r2.(*ssa.Slice); ok {
							for _, src := range copiedInto(sl) {
								m[prefix+fn] = append(m[prefix+fn], src)
							}
						}
					}
				}
				walk(fa, prefix+fn+".")
			}
		}
		walk(al, "")
		out = append(out, m)
	})
	return out
}

// literalIs checks that f contains exactly `count` literals of typeName and that in each, the set of
// assigned fields and their leaves are as in want (field -> leaves joined by ","; "" = only constants / zero).
func (c *Ctx) literalIs(rule string, f *ssa.Function, typeName string, count int, want map[string]string) {
	if f == nil {
		return
	}
	lits := literalFields(f, typeName)
	key := fmt.Sprintf("%s: %s literal", fnName(f), typeName)
	if len(lits) != count {
		c.bad(rule, key, f.Pos(), fmt.Sprintf("%s builds %d %s values, %d confirmed", fnName(f), len(lits), typeName, count))
		return
	}
	for i, m := range lits {
		got := map[string]string{}
		for fld, vals := range m {
			var ls []string
			zero := true
			for _, v := range vals {
				ls = append(ls, leaves(v)...)
				if k, ok := v.(*ssa.Const); !ok || !(k.Value == nil || k.IsNil() || isZeroConst(k)) {
					zero = false
				}
			}
			if zero && len(ls) == 0 {
				continue // explicit zero value = omitted field
			}
			sort.Strings(ls)
			got[fld] = strings.Join(ls, ",")
		}
		var diffs []string
		for fld, w := range want {
			if g, ok := got[fld]; !ok {
				diffs = append(diffs, fmt.Sprintf("field %s is not set (expected from %s)", fld, orConst(w)))
			} else if g != w {
				diffs = append(diffs, fmt.Sprintf("field %s is computed from {%s}, expected {%s}", fld, g, w))
			}
		}
		for fld, g := range got {
			if _, ok := want[fld]; !ok {
				// nested parents (e.g. WalletId when WalletId.X are set) do not appear: only leaf stores do
				diffs = append(diffs, fmt.Sprintf("field %s is set from {%s} but the confirmed literal leaves it zero", fld, g))
			}
		}
		sort.Strings(diffs)
		k := key
		if count > 1 {
			k = fmt.Sprintf("%s #%d", key, i+1)
		}
		c.check(len(diffs) == 0, rule, k, f.Pos(), fmt.Sprintf("fields %v", sortedKV(got)), fnName(f)+": "+typeName+" literal: "+strings.Join(diffs, "; "))
	}
}

func orConst(s string) string {
	if s == "" {
		return "a constant"
	}
	return s
}

func isZeroConst(k *ssa.Const) bool {
	if k.Value == nil {
		return true
	}
	s := k.Value.ExactString()
	return s == "0" || s == "false" || s == `""`
}

func sortedKV(m map[string]string) []string {
	var out []string
	for k, v := range m {
		out = append(out, k+"<-{"+v+"}")
	}
	sort.Strings(out)
	return out
}

// ---- finite-domain evaluation of a function over an enum-valued call result

// enumEval: for each value s of the enumeration, follow f's control flow with every comparison
// `call == const` / `call != const` (call = a call to callee) decided by s, and return the
// reached Return instructions. Branches that do not depend on the enum are followed both ways.
func enumEval(f *ssa.Function, callee string, s string) []*ssa.Return {
	isEnumCall := func(v ssa.Value) bool {
		cl := callOf(v)
		return cl != nil && callQName(&cl.Call) == callee
	}
	var evalCond func(v ssa.Value, from *ssa.BasicBlock, d int) (bool, bool)
	evalCond = func(v ssa.Value, from *ssa.BasicBlock, d int) (bool, bool) {
		if d > 10 {
			return false, false
		}
		switch x := v.(type) {
		case *ssa.Const:
			return constBool(x)
		case *ssa.UnOp:
			if x.Op == token.NOT {
				b, ok := evalCond(x.X, from, d+1)
				return !b, ok
			}
		case *ssa.Phi:
			if from != nil {
				for i, p := range x.Block().Preds {
					if p == from && i < len(x.Edges) {
						return evalCond(x.Edges[i], nil, d+1)
					}
				}
			}
		case *ssa.BinOp:
			if x.Op == token.EQL || x.Op == token.NEQ {
				for _, pr := range [][2]ssa.Value{{x.X, x.Y}, {x.Y, x.X}} {
					if isEnumCall(pr[0]) {
						if k, ok := constString(stripConv(pr[1])); ok {
							return (k == s) == (x.Op == token.EQL), true
						}
					}
				}
			}
		}
		return false, false
	}
	var rets []*ssa.Return
	type st struct {
		b    *ssa.BasicBlock
		pred *ssa.BasicBlock
	}
	seen := map[st]bool{}
	var walk func(b, pred *ssa.BasicBlock)
	walk = func(b, pred *ssa.BasicBlock) {
		k := st{b, pred}
		if seen[k] {
			return
		}
		seen[k] = true
		last := b.Instrs[len(b.Instrs)-1]
		switch x := last.(type) {
		case *ssa.Return:
			rets = append(rets, x)
		case *ssa.If:
			cond := x.Cond
			if v, ok := evalCond(cond, pred, 0); ok {
				if v {
					walk(b.Succs[0], b)
				} else {
					walk(b.Succs[1], b)
				}
				return
			}
			walk(b.Succs[0], b)
			walk(b.Succs[1], b)
		default:
			for _, sc := range b.Succs {
				walk(sc, b)
			}
		}
	}
	if len(f.Blocks) > 0 {
		walk(f.Blocks[0], nil)
	}
	// the blocks that can run for this enum value (for rules that must not credit a store made on another case's path)
	enumBlocks = map[*ssa.BasicBlock]bool{}
	for k := range seen {
		enumBlocks[k.b] = true
	}
	return rets
}

// enumBlocks: set by the last enumEval call - the blocks reachable for the evaluated enum value.
var enumBlocks map[*ssa.BasicBlock]bool

// opTree renders the operator tree of a value with parameter and local names erased, so that the
// same computation in sibling functions compares equal.
func opTree(v ssa.Value, d int) string {
	if d > 8 || v == nil {
		return "…"
	}
	switch x := v.(type) {
	case *ssa.Const:
		if x.Value == nil {
			return "nil"
		}
		return x.Value.ExactString()
	case *ssa.Parameter, *ssa.FreeVar:
		return "$"
	case *ssa.Convert:
		return "conv:" + normBasic(x.Type().Underlying().String()) + "(" + opTree(x.X, d+1) + ")"
	case *ssa.ChangeType:
		return opTree(x.X, d+1)
	case *ssa.BinOp:
		return "(" + opTree(x.X, d+1) + x.Op.String() + opTree(x.Y, d+1) + ")"
	case *ssa.UnOp:
		if x.Op == token.MUL {
			if _, n, ok := fieldOf(x.X); ok {
				return "." + n
			}
			if al, ok := x.X.(*ssa.Alloc); ok {
				for _, st := range storesTo(al) {
					return opTree(st.Val, d+1)
				}
			}
			return "*" + opTree(x.X, d+1)
		}
		return x.Op.String() + opTree(x.X, d+1)
	case *ssa.Field:
		if _, n, ok := fieldOf(x); ok {
			if base := opTree(x.X, d+1); base != "$" && !strings.HasPrefix(base, ".") {
				return base + "." + n // a field of a computed value (e.g. a call result)
			}
			return "." + n
		}
	case *ssa.FieldAddr:
		if _, n, ok := fieldOf(x); ok {
			return "&." + n
		}
	case *ssa.Alloc:
		for _, st := range storesTo(x) {
			return "&(" + opTree(st.Val, d+1) + ")"
		}
		return "&local"
	case *ssa.Call:
		name := "call"
		if fn := calleeFunc(&x.Call); fn != nil {
			name = fn.Name()
		}
		var as []string
		for _, a := range x.Call.Args {
			as = append(as, opTree(a, d+1))
		}
		return name + "(" + strings.Join(as, ",") + ")"
	case *ssa.Phi:
		var es []string
		for _, e := range x.Edges {
			es = append(es, opTree(e, d+1))
		}
		sort.Strings(es)
		return "phi[" + strings.Join(es, "|") + "]"
	case *ssa.Extract:
		return opTree(x.Tuple, d+1) + "#" + fmt.Sprint(x.Index)
	}
	return "?" + v.Name()
}

// px translates an expectation written with the parameter names the function had when the rule was
// written ("msgConfig.Seqno", "w.subWalletID,internalMessages") into the positional form leaves()
// produces ("#3.Seqno", "#0.subWalletID,#2"): sig is that parameter list, receiver first. Rules thus
// read naturally and do not depend on what the parameters are called today.
func px(sig, expr string) string {
	names := strings.Split(sig, ",")
	var out []string
	for _, tok := range strings.Split(expr, ",") {
		if tok == "" || strings.HasPrefix(tok, "call:") {
			out = append(out, tok)
			continue
		}
		root, rest := tok, ""
		if i := strings.Index(tok, "."); i >= 0 {
			root, rest = tok[:i], tok[i:]
		}
		done := false
		for i, n := range names {
			if n == root {
				out = append(out, fmt.Sprintf("#%d%s", i, rest))
				done = true
			}
		}
		if !done {
			out = append(out, tok)
		}
	}
	sort.Strings(out)
	return strings.Join(out, ",")
}

// pxMap applies px to every value of an expectation table.
func pxMap(sig string, m map[string]string) map[string]string {
	out := map[string]string{}
	for k, v := range m {
		out[k] = px(sig, v)
	}
	return out
}

// leavesCx: leaves(v) for a value seen inside a helper reached through the call chain cx, named by
// the positions of the ROOT function: a leaf rooted at parameter #i of the helper is replaced by the
// leaves of the i-th argument of the call that entered it (with the field path kept).
func leavesCx(v ssa.Value, cx *vctx) []string {
	ls := leaves(v)
	if cx == nil || cx.site == nil {
		return ls
	}
	set := map[string]bool{}
	for _, l := range ls {
		if !strings.HasPrefix(l, "#") {
			set[l] = true
			continue
		}
		j := 1
		for j < len(l) && l[j] >= '0' && l[j] <= '9' {
			j++
		}
		idx, err := strconv.Atoi(l[1:j])
		if err != nil || idx >= len(cx.site.Call.Args) {
			set[l] = true
			continue
		}
		for _, pl := range leavesCx(cx.site.Call.Args[idx], cx.parent) {
			set[pl+l[j:]] = true
		}
	}
	var out []string
	for l := range set {
		out = append(out, l)
	}
	sort.Strings(out)
	return out
}

// isZeroStruct: v is the zero value of a struct type: a nil-valued constant, or the load of a local
// literal none of whose fields is assigned (T{}).
func isZeroStruct(v ssa.Value) bool {
	switch x := v.(type) {
	case *ssa.Const:
		return x.Value == nil
	case *ssa.UnOp:
		al, ok := x.X.(*ssa.Alloc)
		if !ok || x.Op != token.MUL || al.Referrers() == nil {
			return false
		}
		for _, r := range *al.Referrers() {
			switch y := r.(type) {
			case *ssa.UnOp, *ssa.DebugRef:
			case *ssa.Store:
				if y.Addr == ssa.Value(al) && !isZeroStruct(y.Val) {
					return false
				}
			default:
				return false
			}
		}
		return true
	}
	return false
}

// helperLiteral: v is a call, made in f, of an unexported helper whose single result is a named struct built as
// one literal, every argument being f's own parameter of the same index: the literal's fields.
func helperLiteral(f *ssa.Function, v ssa.Value) (map[string][]ssa.Value, bool) {
	cl, ok := v.(*ssa.Call)
	if !ok {
		return nil, false
	}
	h := plainHelper(cl.Call.StaticCallee())
	if h == nil || h == f || h.Signature.Results().Len() != 1 {
		return nil, false
	}
	n, ok := h.Signature.Results().At(0).Type().(*types.Named)
	if !ok {
		return nil, false
	}
	if _, isStruct := n.Underlying().(*types.Struct); !isStruct {
		return nil, false
	}
	for i, a := range cl.Call.Args {
		prm, ok := a.(*ssa.Parameter)
		if !ok || i >= len(f.Params) || f.Params[i] != prm {
			return nil, false
		}
	}
	lits := literalFields(h, n.Obj().Name())
	if len(lits) != 1 || len(returnsOf(h)) != 1 {
		return nil, false
	}
	return lits[0], true
}
