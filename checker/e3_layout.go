package main

import (
	"fmt"
	"go/token"
	"go/types"
	"reflect"
	"strconv"
	"strings"
)

// E3 tlblayout: derive the wire layout the reflection codec gives a Go type.

const tlbPath = modPath + "/tlb"

type layoutCtx struct {
	noExpand bool // audit aid: print @Name for named struct types instead of expanding them
	c        *Ctx
	stack    map[string]bool
	problem  []string // hygiene problems found while deriving (E3a)
	custom   map[string]bool
}

func (c *Ctx) newLayout() *layoutCtx {
	return &layoutCtx{c: c, stack: map[string]bool{}, custom: map[string]bool{}}
}

func namedOf(t types.Type) *types.Named {
	if a, ok := t.(*types.Alias); ok {
		t = types.Unalias(a)
	}
	n, _ := t.(*types.Named)
	return n
}

func typeKey(n *types.Named) string {
	o := n.Obj()
	if o.Pkg() == nil {
		return o.Name()
	}
	return o.Pkg().Name() + "." + o.Name()
}

func hasMethod(t types.Type, name string) bool {
	n := namedOf(t)
	if n == nil {
		return false
	}
	n = n.Origin()
	for i := 0; i < n.NumMethods(); i++ {
		if n.Method(i).Name() == name {
			return true
		}
	}
	return false
}

// parseFieldTag mirrors tlb/tags.go:parseTag.
func parseFieldTag(s string) (maybeRef, maybe, ref bool, rest string, err error) {
	if strings.HasPrefix(s, "maybe^") {
		maybeRef = true
		s = s[len("maybe^"):]
	}
	if strings.HasPrefix(s, "maybe") {
		maybe = true
		s = s[len("maybe"):]
	}
	if len(s) > 0 && s[0] == '^' {
		ref = true
		s = strings.TrimSpace(s[1:])
	}
	if len(s) == 0 {
		return
	}
	if strings.Contains(s, "#") || strings.Contains(s, "$") {
		rest = s
		return
	}
	if strings.Contains(s, "bits") || strings.Contains(s, "bytes") {
		err = fmt.Errorf("deprecated tag %q", s)
		return
	}
	rest = s
	return
}

// parseConsTag mirrors tlb/tags.go:ParseTag; returns the tag as a bit string.
func parseConsTag(s string) (bits string, err error) {
	i := strings.IndexAny(s, "$#")
	if i < 0 || i == len(s)-1 {
		return "", fmt.Errorf("invalid constructor tag %q", s)
	}
	body := s[i+1:]
	if body == "_" {
		return "", nil
	}
	if s[i] == '$' {
		for _, ch := range body {
			if ch != '0' && ch != '1' {
				return "", fmt.Errorf("invalid binary tag %q", s)
			}
		}
		if len(body) > 32 {
			return "", fmt.Errorf("tag longer than 32 bits %q", s)
		}
		return body, nil
	}
	v, e := strconv.ParseUint(body, 16, 32)
	if e != nil {
		return "", fmt.Errorf("invalid hex tag %q", s)
	}
	n := len(body) * 4
	b := strconv.FormatUint(v, 2)
	for len(b) < n {
		b = "0" + b
	}
	return b, nil
}

func (l *layoutCtx) prob(f string, a ...any) { l.problem = append(l.problem, fmt.Sprintf(f, a...)) }

// fixedSizeOf returns the dictionary key width of a key type.
func (l *layoutCtx) fixedSizeOf(t types.Type) string {
	n := namedOf(t)
	if n == nil {
		return "?"
	}
	if m := intNameRe.FindStringSubmatch(n.Obj().Name()); m != nil && n.Obj().Pkg() != nil && n.Obj().Pkg().Path() == tlbPath && m[1] != "VarUInteger" {
		return m[2]
	}
	if f := l.c.method(n.Origin(), "FixedSize"); f != nil {
		if v, ok := constReturn(f); ok {
			return strconv.FormatInt(v, 10)
		}
	}
	return "?"
}

// layout derives the term for type t under field tag.
func (l *layoutCtx) layout(t types.Type, tag string) string {
	mref, mb, ref, rest, err := parseFieldTag(tag)
	if err != nil {
		l.prob("%v", err)
	}
	inner := l.layoutNoTag(t, rest)
	switch {
	case mref:
		return "maybe(ref{" + inner + "})"
	case mb && ref:
		// "maybe" followed by "^" cannot be produced by parseTag without maybe^ ... kept for completeness
		return "maybe(ref{" + inner + "})"
	case mb:
		return "maybe(" + inner + ")"
	case ref:
		return "ref{" + inner + "}"
	}
	return inner
}

func (l *layoutCtx) layoutNoTag(t types.Type, consTag string) string {
	if a, ok := t.(*types.Alias); ok {
		t = types.Unalias(a)
	}
	if n, ok := t.(*types.Named); ok {
		obj := n.Obj()
		pk := ""
		if obj.Pkg() != nil {
			pk = obj.Pkg().Path()
		}
		name := obj.Name()
		if pk == tlbPath {
			targs := n.TypeArgs()
			arg := func(i int) types.Type { return targs.At(i) }
			switch name {
			case "Magic":
				if consTag == "" {
					l.prob("Magic field without a #/$ tag")
					return "tag(?)"
				}
				b, err := parseConsTag(consTag)
				if err != nil {
					l.prob("%v", err)
					return "tag(?)"
				}
				return "tag(" + b + ")"
			case "SumType":
				return ""
			case "Maybe":
				return "maybe(" + l.layout(arg(0), "") + ")"
			case "Either":
				return "either(" + l.layout(arg(0), "") + "," + l.layout(arg(1), "") + ")"
			case "EitherRef":
				return "eitherref(" + l.layout(arg(0), "") + ")"
			case "Ref":
				return "ref{" + l.layout(arg(0), "") + "}"
			case "Unary":
				return "unary"
			case "Any":
				return "any"
			case "Hashmap":
				return "hashmap(" + l.fixedSizeOf(arg(0)) + "," + l.layout(arg(1), "") + ")"
			case "HashmapE":
				return "hashmape(" + l.fixedSizeOf(arg(0)) + "," + l.layout(arg(1), "") + ")"
			case "HashmapAug":
				return "hashmapaug(" + l.fixedSizeOf(arg(0)) + "," + l.layout(arg(1), "") + "," + l.layout(arg(2), "") + ")"
			case "HashmapAugE":
				return "hashmapauge(" + l.fixedSizeOf(arg(0)) + "," + l.layout(arg(1), "") + "," + l.layout(arg(2), "") + ")"
			}
			if m := intNameRe.FindStringSubmatch(name); m != nil {
				switch m[1] {
				case "Uint", "Int":
					return "n" + m[2]
				case "VarUInteger":
					return "varuint" + m[2]
				case "Bits":
					N, _ := strconv.Atoi(m[2])
					return "bytes" + strconv.Itoa(N/8)
				}
			}
		}
		if pk == bocPath {
			switch name {
			case "Cell":
				return "cell"
			case "BitString":
				return "bits*"
			}
		}
		hm, hu := hasMethod(n, "MarshalTLB"), hasMethod(n, "UnmarshalTLB")
		if hm || hu {
			k := typeKey(n)
			if targs := n.TypeArgs(); targs != nil && targs.Len() > 0 {
				var as []string
				for i := 0; i < targs.Len(); i++ {
					as = append(as, l.layout(targs.At(i), ""))
				}
				k += "<" + strings.Join(as, ",") + ">"
			}
			l.custom[typeKey(n)] = true
			return "custom(" + k + ")"
		}
		k := typeKey(n)
		if l.noExpand {
			if _, isStruct := n.Underlying().(*types.Struct); isStruct {
				return "@" + k
			}
		}
		if l.stack[k] {
			return "rec(" + k + ")"
		}
		l.stack[k] = true
		defer delete(l.stack, k)
		return l.layoutUnder(n.Underlying(), k)
	}
	return l.layoutUnder(t, "")
}

func (l *layoutCtx) layoutUnder(t types.Type, owner string) string {
	switch u := t.(type) {
	case *types.Basic:
		switch u.Kind() {
		case types.Uint8, types.Int8:
			return "n8"
		case types.Uint16, types.Int16:
			return "n16"
		case types.Uint32, types.Int32:
			return "n32"
		case types.Uint64, types.Int64:
			return "n64"
		case types.Bool:
			return "bit"
		case types.String:
			return "string*"
		}
		l.prob("%s: basic kind %s is not supported by the TL-B codec", owner, u)
		return "unsupported(" + u.String() + ")"
	case *types.Pointer:
		return l.layout(u.Elem(), "")
	case *types.Array:
		if isByte(u.Elem()) {
			return "bytes" + strconv.FormatInt(u.Len(), 10)
		}
		l.prob("%s: array of %s not supported", owner, u.Elem())
		return "unsupported(array)"
	case *types.Slice:
		if isByte(u.Elem()) {
			return "bytes*"
		}
		l.prob("%s: slice of %s not supported", owner, u.Elem())
		return "unsupported(slice)"
	case *types.Struct:
		return l.layoutStruct(u, owner)
	case *types.TypeParam:
		return "param(" + u.Obj().Name() + ")"
	case *types.Interface:
		return "iface"
	}
	l.prob("%s: type %s not supported by the TL-B codec", owner, t)
	return "unsupported(" + t.String() + ")"
}

func (l *layoutCtx) layoutStruct(st *types.Struct, owner string) string {
	isSum := false
	for i := 0; i < st.NumFields(); i++ {
		if st.Field(i).Name() == "SumType" {
			isSum = true
		}
	}
	if isSum {
		var alts []string
		var tags []string
		for i := 0; i < st.NumFields(); i++ {
			f := st.Field(i)
			if n := namedOf(f.Type()); n != nil && n.Obj().Name() == "SumType" {
				continue
			}
			if !f.Exported() {
				l.prob("[panic] %s: unexported alternative %s in a sum type (reflect cannot set/read it)", owner, f.Name())
			}
			tg := reflect.StructTag(st.Tag(i)).Get("tlbSumType")
			if tg == "" {
				l.prob("%s.%s: sum-type alternative without tlbSumType tag", owner, f.Name())
				alts = append(alts, "?→"+l.layout(f.Type(), ""))
				continue
			}
			b, err := parseConsTag(tg)
			if err != nil {
				l.prob("%s.%s: %v", owner, f.Name(), err)
				b = "?"
			}
			tags = append(tags, b)
			body := l.layout(f.Type(), "")
			if body == "" {
				body = "seq[]"
			}
			bb := b
			if bb == "" {
				bb = "_"
			}
			alts = append(alts, bb+"→"+body)
		}
		// first-match dispatch: no tag may be a bit-prefix of a LATER one... (any prefix makes one of the two undecodable)
		for i := range tags {
			for j := range tags {
				if i < j && tags[i] != "?" && tags[j] != "?" && strings.HasPrefix(tags[j], tags[i]) {
					l.prob("[ambig] %s: constructor tag %q (alternative %d) is a bit-prefix of tag %q (alternative %d): first-match decoding can never select the later one", owner, tags[i], i, tags[j], j)
				}
				if i < j && tags[i] != "?" && tags[j] != "?" && tags[i] != tags[j] && strings.HasPrefix(tags[i], tags[j]) {
					// longer tag first, shorter later: decodable (first match wins on the longer), fine
					_ = i
				}
			}
		}
		return "alt[" + strings.Join(alts, " ") + "]"
	}
	var parts []string
	for i := 0; i < st.NumFields(); i++ {
		f := st.Field(i)
		if !f.Exported() {
			l.prob("[panic] %s: unexported field %s in a reflectively encoded struct (reflect.Value.Interface panics on encode; decode reports 'can't set field')", owner, f.Name())
		}
		tg := reflect.StructTag(st.Tag(i)).Get("tlb")
		p := l.layout(f.Type(), tg)
		if p != "" {
			parts = append(parts, p)
		}
	}
	return "seq[" + strings.Join(parts, " ") + "]"
}

// ---------------------------------------------------------------------------
// term normalisation (shared by derived layouts and spec entries)

type termTok struct {
	s string
}

// normTerm flattens nested seq[...] and removes whitespace differences.
func normTerm(s string) string {
	toks := tokenize(s)
	for i, t := range toks {
		toks[i] = hexToBits(t)
	}
	p := &termParser{toks: toks}
	n := p.parse()
	return n.String()
}

type tnode struct {
	head string // atom text, or "seq", "alt", or functor name
	open string // "[", "(", "{" or ""
	kids []*tnode
	tag  string // for alt children: "bits→"
}

func (n *tnode) String() string {
	if n.open == "" {
		return n.tag + n.head
	}
	cl := map[string]string{"[": "]", "(": ")", "{": "}"}[n.open]
	sep := " "
	if n.open == "(" {
		sep = ","
	}
	var ks []string
	for _, k := range n.kids {
		ks = append(ks, k.String())
	}
	return n.tag + n.head + n.open + strings.Join(ks, sep) + cl
}

func tokenize(s string) []string {
	var out []string
	cur := ""
	flush := func() {
		if cur != "" {
			out = append(out, cur)
			cur = ""
		}
	}
	for _, r := range s {
		switch r {
		case '[', ']', '(', ')', '{', '}', ',':
			flush()
			out = append(out, string(r))
		case ' ', '\t', '\n', '\r':
			flush()
		default:
			cur += string(r)
		}
	}
	flush()
	return out
}

type termParser struct {
	toks []string
	i    int
}

func (p *termParser) peek() string {
	if p.i < len(p.toks) {
		return p.toks[p.i]
	}
	return ""
}

func (p *termParser) parse() *tnode {
	t := p.peek()
	p.i++
	n := &tnode{}
	if k := strings.Index(t, "→"); k >= 0 {
		n.tag = t[:k+len("→")]
		t = t[k+len("→"):]
		if t == "" {
			t = p.peek()
			p.i++
		}
	}
	n.head = t
	nx := p.peek()
	if nx == "[" || nx == "(" || nx == "{" {
		n.open = nx
		p.i++
		cl := map[string]string{"[": "]", "(": ")", "{": "}"}[nx]
		for p.peek() != cl && p.peek() != "" {
			if p.peek() == "," {
				p.i++
				continue
			}
			k := p.parse()
			n.kids = append(n.kids, k)
		}
		p.i++
		if n.head == "seq" {
			var flat []*tnode
			for _, k := range n.kids {
				if k.head == "seq" && k.tag == "" {
					flat = append(flat, k.kids...)
				} else {
					flat = append(flat, k)
				}
			}
			n.kids = flat
			if len(n.kids) == 1 && n.kids[0].tag == "" {
				only := n.kids[0]
				only.tag = n.tag
				return only
			}
		}
	}
	return n
}

func posOfType(c *Ctx, rel, name string) token.Pos {
	p := c.pkg(rel)
	if p == nil {
		return token.NoPos
	}
	o := p.Types.Scope().Lookup(name)
	if o == nil {
		return token.NoPos
	}
	return o.Pos()
}

// hexToBits rewrites a spec token "0xAB" / "0xAB→..." into its bit string (4 bits per digit).
func hexToBits(t string) string {
	if !strings.HasPrefix(t, "0x") {
		return t
	}
	rest := ""
	h := t[2:]
	if k := strings.Index(h, "→"); k >= 0 {
		rest = h[k:]
		h = h[:k]
	}
	out := ""
	for _, ch := range h {
		v, err := strconv.ParseUint(string(ch), 16, 8)
		if err != nil {
			return t
		}
		b := strconv.FormatUint(v, 2)
		for len(b) < 4 {
			b = "0" + b
		}
		out += b
	}
	return out + rest
}
