package main

import (
	"fmt"
	"go/token"
	"go/types"
	"sort"
	"strings"

	"golang.org/x/tools/go/ssa"
)

func init() { register("C01", propC01) }

func propC01(c *Ctx) propInfo {
	c.bocCRC()
	c.bocMagic()
	c.bocDedup()
	c.bocHeaderAgreement()
	c.bocDescriptors()
	c.storedHashCount()
	c.parserOwnsBytes()
	c.hasherState()
	c.levelMaskAlgebra() // hashes stored by other serialisers are indexed by the same mask functions
	c.bocDepthLimitsAgree()
	c.bocPrefixFlags()
	c.bocWidthCeil()
	c.parserDepthBound()
	c.visitMarkers()
	if f := c.mustFn("E1.P6-forward-refs", "boc", "DeserializeBoc"); f != nil {
		env := &e1env{cfg: e1cfg{maxDepth: 0, exc: excC07}, ci: &callIndex{}, reach: map[*ssa.Function]bool{}}
		// the linking loop may sit in an unexported helper of DeserializeBoc
		for _, g := range c.helperClosure(f, 2, func(h *ssa.Function) bool { return plainHelper(h) == nil }) {
			c.forwardLinks(g, env)
		}
	}
	c.floor("E8.crc", 3)
	c.floor("E11.magic", 2)
	c.floor("E10.dedup", 3)
	c.floor("E5.boc-header", 9)
	c.floor("E11.prefix-flags", 4)
	c.floor("E1.P5-depth-compute", 2)
	c.floor("E1.P5-memo", 2)
	c.floor("E7.descriptors", 5)
	c.floor("E1.P6-forward-refs", 1)
	return propInfo{
		explanation: "Static structural clauses of C01 (DESIGN.md §4 C01): with the CRC flag set every success exit of the header parser lies behind the equality of the stored and the computed CRC32C (Castagnoli on both sides, computed over everything before the trailer); the prefix the writer emits is one the reader accepts and the three prefixes equal the specification; a cell is appended to the output list only after a miss in the hash-keyed map and its position is recorded under the same hash; the writer's header field sequence (flags, size, off_bytes, cells, roots, absent, tot_cells_size, root list, optional index) and the reader's consumption sequence agree on order and on the width role (size / off_bytes) of each field, the three flag bits are tested where they are written, and the index is halved exactly under the cache-bits flag; descriptor bytes place refs / exotic / level mask where the reader extracts them, the writer passes the cell's level mask (not its level) to the representation; the parser's depth limit equals the hasher's and the serialiser's; references are linked strictly forward. Decides these necessary conditions, not equality of the parsed DAG, canonical bytes or the reordering heuristic. Also: the SIZE/OFF widths are computed from the values written into the cells / tot_cells_size fields, and the stored-hash count is popcount(mask)+1 on the parser side as in the hasher.",
	}
}

// bocCRC: conditional dominance of the CRC comparison.
func (c *Ctx) bocCRC() {
	const R = "E8.crc"
	f := c.mustFn(R, "boc", "parseBocHeader")
	if f == nil {
		return
	}
	// the flag: the If whose condition is (a phi of) the has_crc32c flag = derives from (flags & 64) > 0
	var flagIf *ssa.If
	for _, b := range f.Blocks {
		ifi := lastIf(b)
		if ifi == nil {
			continue
		}
		if derivesFrom(ifi.Cond, func(v ssa.Value) bool {
			bo, ok := v.(*ssa.BinOp)
			if !ok || bo.Op != token.AND {
				return false
			}
			k, ok := constInt(bo.Y)
			return ok && k == 64
		}, false) {
			if _, isPhi := ifi.Cond.(*ssa.Phi); isPhi {
				flagIf = ifi
			}
		}
	}
	if flagIf == nil {
		c.bad(R, "crc flag branch", f.Pos(), "the branch on the has_crc32c flag (bit 64 of the flags byte) was not found")
		return
	}
	extra := map[edge]bool{{flagIf.Block(), 1}: true} // assume the flag is set
	c.mustDominate(R, f, 1, []requiredCheck{{name: "stored crc32c == computed crc32c", src: callResult("hash/crc32.Checksum"), kind: "eq"}}, extra, " when has_crc32c is set")
	// Castagnoli on both sides
	for _, n := range []string{"parseBocHeader", "bagOfCells.serializeBoc"} {
		g := c.fn("boc", n)
		if g == nil {
			continue
		}
		okv := false
		for _, cl := range callsTo(g, "hash/crc32.Checksum") {
			okv = derivesFrom(cl.Call.Args[1], func(v ssa.Value) bool {
				if mk := callOf(v); mk != nil && callQName(&mk.Call) == "hash/crc32.MakeTable" {
					k, ok := constInt(mk.Call.Args[0])
					return ok && uint32(k) == 0x82f63b78
				}
				if u, ok := v.(*ssa.UnOp); ok {
					if gl, ok := u.X.(*ssa.Global); ok && gl.Name() == "crcTable" {
						return c.globalInitFrom(gl, "hash/crc32.MakeTable", 0x82f63b78)
					}
				}
				return false
			}, false)
		}
		c.check(okv, R, n+" uses CRC-32C (Castagnoli)", g.Pos(), "crc32.MakeTable(crc32.Castagnoli)", n+" no longer computes the checksum with the Castagnoli polynomial")
	}
	// the checksum covers everything but the 4-byte trailer
	okCover := false
	for _, cl := range callsTo(f, "hash/crc32.Checksum") {
		if sl, ok := cl.Call.Args[0].(*ssa.Slice); ok && sl.High != nil {
			p := c.newProver(f, cl.Block())
			hi := p.lin(sl.High)
			ln := p.varFor(lvar{v: sl.X, kind: 'l'})
			lo := linConst(0)
			if sl.Low != nil {
				lo = p.lin(sl.Low)
			}
			okCover = p.prove(hi.sub(ln).addConst(4)) && p.prove(ln.sub(hi).addConst(-4)) && p.prove(lo) && p.prove(lo.scale(-1))
		}
	}
	c.check(okCover, R, "checksum covers all bytes before the trailer", f.Pos(), "crc32.Checksum(boc[0:len(boc)-4])", "the checksum is no longer computed over exactly the bytes before the 4-byte trailer")
}

// globalInitFrom: package initialiser stores into gl the result of callee(k).
func (c *Ctx) globalInitFrom(gl *ssa.Global, callee string, k uint32) bool {
	init := gl.Pkg.Func("init")
	if init == nil {
		return false
	}
	found := false
	allInstrs(init, func(_ *ssa.BasicBlock, in ssa.Instruction) {
		if st, ok := in.(*ssa.Store); ok && st.Addr == ssa.Value(gl) {
			if cl := callOf(st.Val); cl != nil && callQName(&cl.Call) == callee {
				if v, ok := constInt(cl.Call.Args[0]); ok && uint32(v) == k {
					found = true
				}
			}
		}
	})
	return found
}

func (c *Ctx) bocMagic() {
	const R = "E11.magic"
	p := c.pkg("boc")
	if p == nil {
		return
	}
	want := map[string]string{"reachBocMagicPrefix": "b5ee9c72", "leanBocMagicPrefix": "68ff65f3", "leanBocMagicPrefixCRC": "acc3a728"}
	okAll := true
	var got []string
	for name, w := range want {
		var ints []int64
		for _, f := range p.Syntax {
			for _, d := range f.Decls {
				ints = append(ints, literalInts(p, d, name)...)
			}
		}
		s := ""
		for _, b := range ints {
			s += fmt.Sprintf("%02x", b)
		}
		got = append(got, name+"="+s)
		if s != w {
			okAll = false
		}
	}
	c.check(okAll, R, "magic prefixes equal the specification", token.NoPos, "serialized_boc#b5ee9c72, serialized_boc_idx#68ff65f3, serialized_boc_idx_crc32c#acc3a728", "a BOC magic prefix differs from the specification: "+strings.Join(got, " "))
	// the writer emits the generic prefix, the reader compares against all three
	w := c.fn("boc", "bagOfCells.serializeBoc")
	r := c.fn("boc", "parseBocHeader")
	if w != nil && r != nil {
		uses := func(f *ssa.Function, name string) bool {
			found := false
			allInstrs(f, func(_ *ssa.BasicBlock, in ssa.Instruction) {
				if u, ok := in.(*ssa.UnOp); ok {
					if g, ok := u.X.(*ssa.Global); ok && g.Name() == name {
						found = true
					}
				}
			})
			return found
		}
		c.check(uses(w, "reachBocMagicPrefix") && uses(r, "reachBocMagicPrefix") && uses(r, "leanBocMagicPrefix") && uses(r, "leanBocMagicPrefixCRC"), R, "the writer's prefix is accepted by the reader", w.Pos(), "writer: generic prefix; reader: all three", "the prefix written by serializeBoc is not among the prefixes parseBocHeader accepts (or a prefix is no longer accepted)")
	}
}

// bocDedup: append to the cell list only after a miss in the hash-keyed map; the position is stored under the same key.
func (c *Ctx) bocDedup() {
	const R = "E10.dedup"
	f := c.mustFn(R, "boc", "bagOfCells.importCell")
	if f == nil {
		return
	}
	var lookup *ssa.Lookup
	var update *ssa.MapUpdate
	allInstrs(f, func(_ *ssa.BasicBlock, in ssa.Instruction) {
		switch x := in.(type) {
		case *ssa.Lookup:
			if x.CommaOk {
				lookup = x
			}
		case *ssa.MapUpdate:
			update = x
		}
	})
	if lookup == nil || update == nil {
		c.bad(R, "hash-keyed map present", f.Pos(), "importCell no longer looks cells up in / records them into a map")
		return
	}
	// EVERY value the key can be is a hash (a helper that returns the hash on one path and raw data on another does not qualify)
	keyIsHash := true
	for _, src := range valueSources(lookup.Index, 3) {
		if cst, ok := src.(*ssa.Const); ok && cst.Value != nil && isErrorPathZero(src) {
			continue
		}
		if !derivesFrom(src, callResult(bocPath+".Hasher.HashString", bocPath+".Cell.HashString", bocPath+".Hasher.Hash"), false) {
			keyIsHash = false
		}
	}
	c.check(keyIsHash && update.Key == lookup.Index, R, "cells are identified by their hash", lookup.Pos(), "lookup and insertion use the same key, derived from the cell's hash", "importCell no longer keys its de-duplication map by the cell hash (or inserts under a different key than it looks up)")
	// the call that appends (state.add) is reachable only on the miss edge
	var hit *ssa.If
	for _, b := range f.Blocks {
		if ifi := lastIf(b); ifi != nil {
			if ex, ok := ifi.Cond.(*ssa.Extract); ok && ex.Tuple == ssa.Value(lookup) && ex.Index == 1 {
				hit = ifi
			}
		}
	}
	adds := callsTo(f, bocPath+".orderState.add")
	var addBlocks []*ssa.BasicBlock
	for _, a := range adds {
		addBlocks = append(addBlocks, a.Block())
	}
	if len(adds) == 0 {
		// orderState.add inlined: the append to the cell list itself (a store to the list field of the order state)
		allInstrs(f, func(b *ssa.BasicBlock, in ssa.Instruction) {
			if st, ok := in.(*ssa.Store); ok {
				if tn, fn, ok := fieldOf(st.Addr); ok && strings.HasSuffix(tn, "orderState") && fn == "cellList" {
					addBlocks = append(addBlocks, b)
				}
			}
		})
	}
	okv := hit != nil && len(addBlocks) == 1
	if okv {
		okv = edgeDominates(f, edge{hit.Block(), 1}, addBlocks[0]) && edgeDominates(f, edge{hit.Block(), 1}, update.Block())
	}
	c.check(okv, R, "a cell is added only after a miss", f.Pos(), "state.add and the map insertion are dominated by the miss edge of the lookup", "importCell can append a cell that is already in the map (shared subtrees would be stored more than once)")
	// on a hit the recorded position is returned
	okHit := false
	if hit != nil {
		s := hit.Block().Succs[0]
		if len(s.Instrs) > 0 {
			if r, ok := s.Instrs[len(s.Instrs)-1].(*ssa.Return); ok {
				if ex, ok := retVal(r, 0).(*ssa.Extract); ok && ex.Tuple == ssa.Value(lookup) && ex.Index == 0 {
					okHit = true
				}
			}
		}
	}
	c.check(okHit, R, "a hit returns the recorded position", f.Pos(), "return pos, nil with pos from the map", "on a map hit importCell does not return the recorded position")
}

// bocHeaderAgreement: writer field sequence vs reader consumption sequence with width roles.
func (c *Ctx) bocHeaderAgreement() {
	const R = "E5.boc-header"
	w := c.mustFn(R, "boc", "bagOfCells.serializeBoc")
	r := c.mustFn(R, "boc", "parseBocHeader")
	if w == nil || r == nil {
		return
	}
	// writer: ordered writes on the output bit string up to the cell data; widths classified by role
	var refSize, offSize ssa.Value
	allInstrs(w, func(_ *ssa.BasicBlock, in ssa.Instruction) {
		if cl, ok := in.(*ssa.Call); ok && callQName(&cl.Call) == bocPath+".BitString.WriteInt" {
			if k, ok := constInt(cl.Call.Args[2]); ok {
				if k == 3 {
					refSize = stripConv(cl.Call.Args[1])
				}
				if k == 8 {
					offSize = stripConv(cl.Call.Args[1])
				}
			}
		}
	})
	role := func(v ssa.Value) string {
		if k, ok := constInt(v); ok {
			return fmt.Sprint(k)
		}
		if bo, ok := v.(*ssa.BinOp); ok && bo.Op == token.MUL {
			if k, ok := constInt(bo.Y); ok && k == 8 {
				switch stripConv(bo.X) {
				case refSize:
					return "SIZE*8"
				case offSize:
					return "OFF*8"
				}
			}
		}
		return "?"
	}
	var wseq []string
	allInstrs(w, func(b *ssa.BasicBlock, in ssa.Instruction) {
		cl, ok := in.(*ssa.Call)
		if !ok {
			return
		}
		loop := ""
		if inLoop(b) {
			loop = "*"
		}
		switch callQName(&cl.Call) {
		case bocPath + ".BitString.WriteBytes":
			if u, ok := cl.Call.Args[1].(*ssa.UnOp); ok {
				if g, ok := u.X.(*ssa.Global); ok && strings.Contains(g.Name(), "Magic") {
					wseq = append(wseq, "MAGIC")
					return
				}
			}
			wseq = append(wseq, "DATA"+loop)
		case bocPath + ".BitString.WriteBitArray":
			wseq = append(wseq, "FLAGS3")
		case bocPath + ".BitString.WriteUint", bocPath + ".BitString.WriteInt":
			wseq = append(wseq, "U("+role(cl.Call.Args[2])+")"+loop)
		}
	})
	wgot := strings.Join(wseq, " ")
	wwant := "MAGIC FLAGS3 U(2) U(3) U(8) U(SIZE*8) U(SIZE*8) U(SIZE*8) U(OFF*8) U(SIZE*8)* U(OFF*8)* DATA*"
	c.check(wgot == wwant, R, "writer field sequence", w.Pos(), wgot, "serializeBoc writes the header as ["+wgot+"]; the BagOfCells scheme is ["+wwant+"]")
	// the width of a class of fields is computed from the largest value written with it: SIZE from the
	// cell count (counts and indices are <= it), OFF from the total size of the cell data
	widthSrc := func(size ssa.Value) ssa.Value {
		var src ssa.Value
		derivesFrom(size, func(v ssa.Value) bool {
			if cl := callOf(v); cl != nil && callQName(&cl.Call) == "math/bits.Len" {
				_, src = convChain(cl.Call.Args[0])
			}
			return false
		}, true)
		return src
	}
	firstWritten := func(size ssa.Value) ssa.Value {
		var first ssa.Value
		allInstrs(w, func(_ *ssa.BasicBlock, in ssa.Instruction) {
			if first != nil {
				return
			}
			if cl, ok := in.(*ssa.Call); ok && callQName(&cl.Call) == bocPath+".BitString.WriteUint" {
				if bo, ok := cl.Call.Args[2].(*ssa.BinOp); ok && bo.Op == token.MUL && stripConv(bo.X) == size {
					_, first = convChain(cl.Call.Args[1])
				}
			}
		})
		return first
	}
	if refSize != nil && offSize != nil {
		sSrc, sFirst := widthSrc(refSize), firstWritten(refSize)
		oSrc, oFirst := widthSrc(offSize), firstWritten(offSize)
		okS := sSrc != nil && sSrc == sFirst
		okO := oSrc != nil && oSrc == oFirst
		desc := func(v ssa.Value) string {
			if v == nil {
				return "?"
			}
			return shape(v, 3)
		}
		c.check(okS, R, "SIZE is the byte width of the cell count", w.Pos(), "bits.Len(cell count) -> SIZE; the cells field holds the same value", "serializeBoc computes the reference/count width from "+desc(sSrc)+" but writes "+desc(sFirst)+" into the cells field with it: at 2^8 or 2^16 cells the count does not fit its own field")
		c.check(okO, R, "OFF is the byte width of the total cell-data size", w.Pos(), "bits.Len(total size) -> OFF; tot_cells_size holds the same value", "serializeBoc computes the offset width from "+desc(oSrc)+" but writes "+desc(oFirst)+" into tot_cells_size with it")
	} else {
		c.bad(R, "SIZE/OFF width sources", w.Pos(), "size/offset width writes not found in serializeBoc")
	}
	// reader: calls readNBytesUIntFromArray(width, boc) in order with width role sizeBytes/offsetBytes
	var sizeV, offV ssa.Value
	// the size width: the width argument of the first fixed-width read (the cell count)
	// (read with the unexported helpers of parseBocHeader inlined: a loop of reads may sit in a helper, its
	// width parameter standing for the argument of the call)
	rview := c.inlineView(r, 2, func(h *ssa.Function) bool { return h.Name() == "readNBytesUIntFromArray" })
	widthOf := func(vi vinstr) ssa.Value {
		v, _ := resolveDeep(vi.in.(*ssa.Call).Call.Args[0], vi.cx)
		return stripConv(v)
	}
	for _, vi := range rview {
		if cl, ok := vi.in.(*ssa.Call); ok && callQName(&cl.Call) == bocPath+".readNBytesUIntFromArray" && sizeV == nil {
			sizeV = widthOf(vi)
		}
	}
	// offsetBytes := int(boc[0]) right after the size check: the Convert of a byte load that is not sizeBytes
	var rseq []string
	first := true
	for _, vi := range rview {
		in := vi.in
		b := in.Block()
		cl, ok := in.(*ssa.Call)
		if !ok || callQName(&cl.Call) != bocPath+".readNBytesUIntFromArray" {
			continue
		}
		wv := widthOf(vi)
		loop := ""
		if inLoop(b) || inLoop(vi.top().Block()) {
			loop = "*"
		}
		switch {
		case wv == sizeV:
			rseq = append(rseq, "SIZE"+loop)
		default:
			if offV == nil || wv == offV {
				if offV == nil && !first {
					offV = wv
				}
				if wv == offV {
					rseq = append(rseq, "OFF"+loop)
					continue
				}
			}
			rseq = append(rseq, "?"+loop)
		}
		first = false
	}
	rgot := strings.Join(rseq, " ")
	rwant := "SIZE SIZE SIZE OFF SIZE* OFF*"
	c.check(rgot == rwant, R, "reader consumption sequence", r.Pos(), "cells, roots, absent (size bytes), tot_cells_size (off bytes), roots*, index*", "parseBocHeader reads the counters as ["+rgot+"]; the scheme order is ["+rwant+"] (cells, roots, absent with size bytes; tot_cells_size with off_bytes; root list; index)")
	// flag bit positions, by ROLE (not by what the variables are called): on the reader side the bool tested
	// with mask 128 guards the reading of the index, the one with mask 64 the CRC comparison, the one with 32 the
	// halving of index entries; on the writer side the three bools are emitted most significant first and the
	// first is the one that guards writing the index, the second the CRC, the third the doubling.
	fromMask := func(v ssa.Value, k int64) bool {
		return derivesFrom(v, func(x ssa.Value) bool {
			bo, ok := x.(*ssa.BinOp)
			if !ok || bo.Op != token.AND {
				return false
			}
			kk, ok := constInt(bo.Y)
			return ok && kk == k
		}, false)
	}
	guardMask := func(b *ssa.BasicBlock) int64 {
		for _, ft := range factsAt(r, b) {
			if !ft.Truth {
				continue
			}
			for _, k := range []int64{128, 64, 32} {
				if fromMask(ft.Cond, k) {
					return k
				}
			}
		}
		return 0
	}
	var mIdx, mCrc, mCache int64
	allInstrs(r, func(b *ssa.BasicBlock, in ssa.Instruction) {
		switch x := in.(type) {
		case *ssa.Call:
			if bi, ok := x.Call.Value.(*ssa.Builtin); ok && bi.Name() == "append" && inLoop(b) {
				// the index list: appended in a loop whose element comes from an OFF-width read
				if derivesFrom(x.Call.Args[1], func(v ssa.Value) bool {
					c2 := callOf(v)
					return c2 != nil && callQName(&c2.Call) == bocPath+".readNBytesUIntFromArray" && stripConv(c2.Call.Args[0]) != sizeV
				}, true) {
					if k := guardMask(b); k != 0 {
						mIdx = k
					}
				}
			}
		case *ssa.BinOp:
			if isHalving(x) {
				if g := guardMask(b); g != 0 {
					mCache = g
				}
			}
		}
	})
	// the CRC comparison: the branch whose condition depends on the computed checksum
	for _, b := range r.Blocks {
		if iff := lastIf(b); iff != nil && derivesFrom(iff.Cond, callResult("hash/crc32.Checksum"), true) {
			if k := guardMask(b); k != 0 {
				mCrc = k
			}
		}
	}
	okFlags := mIdx == 128 && mCrc == 64 && mCache == 32
	// writer: which parameter guards what
	guardParam := func(b *ssa.BasicBlock) *ssa.Parameter {
		for _, ft := range factsAt(w, b) {
			if p, ok := ft.Cond.(*ssa.Parameter); ok && ft.Truth {
				return p
			}
		}
		return nil
	}
	var pIdx, pCrc, pCache *ssa.Parameter
	allInstrs(w, func(b *ssa.BasicBlock, in ssa.Instruction) {
		switch x := in.(type) {
		case *ssa.Call:
			q := callQName(&x.Call)
			if q == "hash/crc32.Checksum" {
				pCrc = guardParam(b)
			}
			if q == bocPath+".BitString.WriteUint" && inLoop(b) && role(x.Call.Args[2]) == "OFF*8" {
				if g := guardParam(b); g != nil {
					pIdx = g
				}
			}
		case *ssa.BinOp:
			if isDoubling(x) {
				if g := guardParam(b); g != nil {
					pCache = g
				}
			}
		}
	})
	var wflags []*ssa.Parameter
	allInstrs(w, func(_ *ssa.BasicBlock, in ssa.Instruction) {
		if cl, ok := in.(*ssa.Call); ok && callQName(&cl.Call) == bocPath+".BitString.WriteBitArray" {
			if sl, ok := cl.Call.Args[1].(*ssa.Slice); ok {
				if al, ok := sl.X.(*ssa.Alloc); ok {
					elems := map[int64]*ssa.Parameter{}
					for _, ref := range *al.Referrers() {
						if ia, ok := ref.(*ssa.IndexAddr); ok {
							if k, ok := constInt(ia.Index); ok {
								for _, st := range storesTo(ia) {
									if p, ok := st.Val.(*ssa.Parameter); ok {
										elems[k] = p
									}
								}
							}
						}
					}
					wflags = []*ssa.Parameter{elems[0], elems[1], elems[2]}
				}
			}
		}
	})
	okW := len(wflags) == 3 && pIdx != nil && pCrc != nil && pCache != nil && wflags[0] == pIdx && wflags[1] == pCrc && wflags[2] == pCache
	c.check(okFlags && okW, R, "flag bits: idx=bit7, crc32c=bit6, cache=bit5 on both sides", r.Pos(), "reader: mask 128 guards the index, 64 the CRC, 32 the halving; writer emits [index flag, CRC flag, cache flag] most significant first", fmt.Sprintf("flag bit placement differs: on the reader the index is read under mask %d, the CRC checked under mask %d, entries halved under mask %d (expected 128/64/32); writer emits the flags in the order index/CRC/cache: %v", mIdx, mCrc, mCache, okW))
	// the index entry is halved exactly under hasCacheBits (reader) and doubled under cacheBits (writer)
	halve := false
	allInstrs(r, func(b *ssa.BasicBlock, in ssa.Instruction) {
		if bo, ok := in.(*ssa.BinOp); ok {
			if isHalving(bo) {
				for _, ft := range factsAt(r, b) {
					// the cache-bits flag: a bool merged from the header variants, one of whose sources is flags&32
					if ph, ok := ft.Cond.(*ssa.Phi); ok && ft.Truth && derivesFrom(ph, func(v ssa.Value) bool {
						bo, ok := v.(*ssa.BinOp)
						if !ok || bo.Op != token.AND {
							return false
						}
						k, ok := constInt(bo.Y)
						return ok && k == 32
					}, false) {
						halve = true
					}
				}
			}
		}
	})
	double := false
	allInstrs(w, func(b *ssa.BasicBlock, in ssa.Instruction) {
		if bo, ok := in.(*ssa.BinOp); ok {
			if isDoubling(bo) {
				for _, ft := range factsAt(w, b) {
					if p, ok := ft.Cond.(*ssa.Parameter); ok && p.Name() == "cacheBits" && ft.Truth {
						double = true
					}
				}
			}
		}
	})
	c.check(halve && double, R, "index entries carry the cache bit exactly when the flag is set", r.Pos(), "writer: offset*2(+1) under cacheBits; reader: /2 under hasCacheBits", "the index entry is not doubled/halved under the cache-bits flag on both sides")
	// trailer: little-endian on both sides
	c.check(len(callsTo(w, "encoding/binary.littleEndian.PutUint32")) == 1 && len(callsTo(r, "encoding/binary.littleEndian.Uint32")) == 1, R, "CRC trailer is little-endian on both sides", w.Pos(), "PutUint32 / Uint32 little-endian", "the CRC trailer is not written and read little-endian")
}

// inLoop: block belongs to a natural loop (some successor path leads back to a dominator).
func inLoop(b *ssa.BasicBlock) bool {
	seen := reachableFrom(b, nil)
	for _, p := range b.Preds {
		if seen[p] && p != b {
			return true
		}
	}
	for _, s := range b.Succs {
		if s == b {
			return true
		}
	}
	return false
}

// bocDescriptors: d1/d2 bit-field placement vs the reader's extraction.
func (c *Ctx) bocDescriptors() {
	const R = "E7.descriptors"
	rd := c.mustFn(R, "boc", "deserializeCellData")
	// the descriptor writer: d1 / d2, a function merging both, or the representation builder they were inlined
	// into - whatever bocReprWithoutRefs computes the two bytes with
	d1 := c.fn("boc", "d1")
	if d1 == nil {
		d1 = c.mustFn(R, "boc", "Cell.bocReprWithoutRefs")
	}
	if d1 == nil || rd == nil {
		return
	}
	// an operation with a constant, in any of its equivalent spellings for the unsigned quantities involved:
	// x%2^j = x&(2^j-1), x*2^j = x<<j, x/2^j = x>>j
	pow2 := func(k int64) (int64, bool) {
		j := int64(0)
		for v := k; v > 1 && v%2 == 0; v /= 2 {
			j++
		}
		return j, k > 0 && int64(1)<<uint(j) == k
	}
	has := func(f *ssa.Function, op token.Token, k int64) bool {
		type ok struct {
			op token.Token
			k  int64
		}
		forms := []ok{{op, k}}
		switch op {
		case token.REM:
			if _, p := pow2(k); p {
				forms = append(forms, ok{token.AND, k - 1})
			}
		case token.MUL:
			if j, p := pow2(k); p {
				forms = append(forms, ok{token.SHL, j})
			}
		case token.QUO:
			if j, p := pow2(k); p {
				forms = append(forms, ok{token.SHR, j})
			}
		}
		found := false
		c.allInstrsDeep(f, func(_ *ssa.BasicBlock, in ssa.Instruction) {
			bo, isB := in.(*ssa.BinOp)
			if !isB {
				return
			}
			for _, fm := range forms {
				if bo.Op != fm.op {
					continue
				}
				if v, ok := constInt(bo.Y); ok && v == fm.k {
					found = true
				}
				if v, ok := constInt(bo.X); ok && v == fm.k {
					found = true
				}
			}
		})
		return found
	}
	// the exotic flag is worth 8: a variable that is 0 or 8, or a conditional += 8
	spec8 := has(d1, token.ADD, 8)
	c.allInstrsDeep(d1, func(_ *ssa.BasicBlock, in ssa.Instruction) {
		if ph, ok := in.(*ssa.Phi); ok {
			for _, e := range ph.Edges {
				if k, ok := constInt(e); ok && k == 8 {
					spec8 = true
				}
			}
		}
	})
	c.check(spec8 && has(d1, token.MUL, 32), R, "d1 = refs + 8*exotic + 32*levelmask", d1.Pos(), "exotic flag is bit 3, level mask occupies bits 5-7", "the writer's d1 no longer places the exotic flag at bit 3 and the level mask at bits 5-7")
	c.check(has(rd, token.REM, 8) && has(rd, token.AND, 8) && has(rd, token.AND, 16) && has(rd, token.SHR, 5), R, "reader extracts refs=d1%8, exotic=d1&8, hashes=d1&16, mask=d1>>5", rd.Pos(), "same bit fields as the writer", "the reader no longer extracts refs / exotic / with-hashes / level mask from d1 with %8, &8, &16, >>5")
	// ... and the level mask the reader extracts keeps all three bits: the value shifted down by 5 is the byte
	// itself or the byte under a mask that contains 0xE0, and what is kept of the result contains 0b111
	okBits, nShift := true, 0
	whyBits := ""
	c.allInstrsDeep(rd, func(_ *ssa.BasicBlock, in ssa.Instruction) {
		bo, isB := in.(*ssa.BinOp)
		if !isB {
			return
		}
		k, isK := constInt(bo.Y)
		if !isK || !((bo.Op == token.SHR && k == 5) || (bo.Op == token.QUO && k == 32)) || intBits(bo.X.Type()) != 8 {
			return
		}
		nShift++
		if src, ok := stripConv(bo.X).(*ssa.BinOp); ok && src.Op == token.AND {
			for _, o := range []ssa.Value{src.X, src.Y} {
				if m, ok := constInt(o); ok && m&0xE0 != 0xE0 {
					okBits = false
					whyBits = fmt.Sprintf("the descriptor byte is masked with %#x before the shift", m)
				}
			}
		}
		for _, r := range realRefs(bo) {
			if and, ok := r.(*ssa.BinOp); ok && and.Op == token.AND {
				for _, o := range []ssa.Value{and.X, and.Y} {
					if m, ok := constInt(o); ok && m&7 != 7 {
						okBits = false
						whyBits = fmt.Sprintf("the shifted value is masked with %#x", m)
					}
				}
			}
		}
	})
	if nShift > 0 {
		c.check(okBits, R, "the reader keeps all three bits of the level mask", rd.Pos(), "d1>>5 unmasked, or masked with 0xE0 / 0b111", "the reader drops a bit of the level mask ("+whyBits+"): a cell of level 3 is parsed with a smaller mask, its stored hashes are miscounted and its hash differs from the one the serialiser computed")
	}
	// d2: ceil(bits/8) + floor(bits/8) on the writer; (d2>>1)+(d2%2) bytes and d2%2 == 0 <=> full bytes on the reader
	d2 := c.fn("boc", "d2")
	if d2 == nil {
		d2 = d1
	}
	okd2 := d2 != nil && has(d2, token.QUO, 8) && has(d2, token.ADD, 7)
	// the reader's byte count ceil(d2/2): (d2>>1)+(d2%2), or (d2+1)>>1
	// the reader's byte count is the upper bound of the first data slice cellData[0:n]; n must be ceil(d2/2):
	// (d2>>1)+(d2%2) (or &1), or (d2+1)>>1 with the addition done in a type wider than the byte (in uint8 it
	// wraps at d2 = 255)
	wideInc := false
	c.allInstrsDeep(rd, func(_ *ssa.BasicBlock, in ssa.Instruction) {
		sl, ok := in.(*ssa.Slice)
		if !ok || sl.High == nil || wideInc {
			return
		}
		if sl.Low != nil {
			if z, ok := constInt(sl.Low); !ok || z != 0 {
				return
			}
		}
		n := stripConv(sl.High)
		isHalf := func(v ssa.Value) bool {
			bo, ok := stripConv(v).(*ssa.BinOp)
			if !ok {
				return false
			}
			k, isK := constInt(bo.Y)
			return isK && ((bo.Op == token.SHR && k == 1) || (bo.Op == token.QUO && k == 2))
		}
		isOdd := func(v ssa.Value) bool {
			bo, ok := stripConv(v).(*ssa.BinOp)
			if !ok {
				return false
			}
			k, isK := constInt(bo.Y)
			return isK && ((bo.Op == token.REM && k == 2) || (bo.Op == token.AND && k == 1))
		}
		if bo, ok := n.(*ssa.BinOp); ok {
			switch {
			case bo.Op == token.ADD && ((isHalf(bo.X) && isOdd(bo.Y)) || (isHalf(bo.Y) && isOdd(bo.X))):
				wideInc = true
			case isHalf(bo):
				if inc, ok := stripConv(bo.X).(*ssa.BinOp); ok && inc.Op == token.ADD && intBits(inc.Type()) > 8 {
					if k, ok := constInt(inc.Y); ok && k == 1 {
						wideInc = true
					}
				}
			}
		}
	})
	c.check(okd2 && wideInc, R, "d2 = ceil(bits/8)+floor(bits/8) vs (d2>>1)+(d2%2)", rd.Pos(), "length descriptor agrees between writer and reader", "the data-length descriptor d2 is no longer computed / decoded as ceil(bits/8)+floor(bits/8)")
	// the serialiser passes the cell's level MASK (field) to the representation, not its level
	w := c.fn("boc", "bagOfCells.serializeBoc")
	if w != nil {
		okMask := false
		for _, cl := range callsTo(w, bocPath+".Cell.bocReprWithoutRefs") {
			okMask = derivesFrom(cl.Call.Args[1], fieldLoadOf("boc.Cell.mask"), false) && !derivesFrom(cl.Call.Args[1], callResult(bocPath+".Cell.Level", bocPath+".levelMask.Level"), false)
		}
		c.check(okMask, R, "the serialiser writes the cell's level mask", w.Pos(), "bocReprWithoutRefs(ci.cell.mask)", "serializeBoc no longer passes the cell's level mask to the representation (a level is not a mask: masks 3..7 would be written wrongly)")
	}
	// completion tag in the representation: set bit 7-(bits%8) of the last byte when bits%8 != 0
	br := c.fn("boc", "Cell.bocReprWithoutRefs")
	if br != nil {
		c.check(has(br, token.REM, 8) && has(br, token.SUB, 7) && has(br, token.SHL, 1), R, "completion tag is 1 << (7 - bits%8) on the last byte", br.Pos(), "padding bit placed right after the data bits", "bocReprWithoutRefs no longer sets the completion tag at bit 7-(bits%8) of the last byte")
	}
}

// storedHashCount: the number of (hash, depth) pairs a with-hashes cell carries - which the parser
// skips - is the number of hashes the hasher computes: one per significant level, i.e. popcount(mask)+1.
// Both sides must count through HashIndex/popcount; the level (bit length) is a different quantity
// for masks with a gap.
func (c *Ctx) storedHashCount() {
	const R = "E7.descriptors"
	f := c.mustFn(R, "boc", "levelMask.HashesCount")
	if f == nil {
		return
	}
	viaPop, viaLevel, plus1 := false, false, false
	for _, r := range returnsOf(f) {
		v := retVal(r, 0)
		if bo, ok := v.(*ssa.BinOp); ok && bo.Op == token.ADD {
			if k, ok := constInt(bo.Y); ok && k == 1 {
				plus1 = true
			}
		}
		derivesFrom(v, func(x ssa.Value) bool {
			if cl := callOf(x); cl != nil {
				switch callQName(&cl.Call) {
				case bocPath + ".levelMask.HashIndex", "math/bits.OnesCount32", "math/bits.OnesCount":
					viaPop = true
				case bocPath + ".levelMask.Level", "math/bits.LeadingZeros32", "math/bits.Len32", "math/bits.Len":
					viaLevel = true
				}
			}
			return false
		}, true)
	}
	c.check(viaPop && !viaLevel && plus1, R, "stored-hash count = number of significant levels + 1 (popcount), as the hasher indexes them", f.Pos(), "HashesCount = HashIndex() + 1", "levelMask.HashesCount is no longer popcount(mask)+1 (it uses the level, i.e. the bit length): for a mask with a gap (0b10, 0b101) the parser skips a different number of stored hashes than a serialiser writes, and misreads the cell data")
	// the parser's skip uses HashesCount * (hashSize + depthSize)
	if g := c.mustFn(R, "boc", "deserializeCellData"); g != nil {
		okv := false
		allInstrs(g, func(_ *ssa.BasicBlock, in ssa.Instruction) {
			if bo, ok := in.(*ssa.BinOp); ok && bo.Op == token.MUL {
				for _, pr := range [][2]ssa.Value{{bo.X, bo.Y}, {bo.Y, bo.X}} {
					if cl := callOf(pr[0]); cl != nil && callQName(&cl.Call) == bocPath+".levelMask.HashesCount" {
						if k, ok := constInt(pr[1]); ok && k == 34 {
							okv = true
						}
					}
				}
			}
		})
		c.check(okv, R, "the parser skips HashesCount x (32+2) bytes of stored hashes and depths", g.Pos(), "mask.HashesCount() * (hashSize + depthSize)", "deserializeCellData no longer skips HashesCount()*(32+2) bytes for a cell with stored hashes")
	}
}

// bocDepthLimitsAgree: parser, hasher and serialiser accept the same maximal depth.
func (c *Ctx) bocDepthLimitsAgree() {
	const R = "E7.descriptors"
	// parser: depths[i] > maxDepth rejects (max accepted depth = maxDepth); serialiser importCell: depth > maxDepth rejects;
	// hasher: child depth >= maxDepth rejects (node depth = child+1 <= maxDepth).
	type lim struct {
		lo  int64 // rejected from this value on
		inc bool  // the compared value has already been incremented for this node
	}
	find := func(fn, sentinel string) *lim {
		f := c.fn("boc", fn)
		if f == nil {
			return nil
		}
		// the test may sit in the function or in an unexported helper it calls
		for _, g := range c.helperClosure(f, 2, func(h *ssa.Function) bool { return plainHelper(h) == nil }) {
			for _, b := range g.Blocks {
				ifi := lastIf(b)
				if ifi == nil {
					continue
				}
				for i, s := range b.Succs {
					if !returnsSentinel(s, sentinel) {
						continue
					}
					x, lo, ok := rejectLowerBound(ifi, i)
					if !ok || lo < 1000 {
						continue
					}
					inc := derivesFrom(x, func(v ssa.Value) bool {
						a, ok := v.(*ssa.BinOp)
						if !ok || a.Op != token.ADD {
							return false
						}
						one, ok := constInt(a.Y)
						return ok && one == 1
					}, false)
					return &lim{lo, inc}
				}
			}
		}
		return nil
	}
	p, s, h := find("DeserializeBoc", "ErrDepthIsTooBig"), find("bagOfCells.importCell", "ErrDepthIsTooBig"), find("newImmutableCell", "ErrDepthIsTooBig")
	maxOf := func(l *lim, childBased bool) int64 {
		if l == nil {
			return -1
		}
		m := l.lo - 1
		if childBased {
			m++
		}
		return m
	}
	// the hasher tests the CHILD's depth before adding one for the node - unless the increment has
	// been moved in front of the test, in which case it tests the node's own depth
	mp, ms, mh := maxOf(p, false), maxOf(s, false), maxOf(h, h != nil && !h.inc)
	c.check(mp == ms && ms == mh && mp > 0, R, "parser, serialiser and hasher accept the same maximal depth", token.NoPos, fmt.Sprintf("all three accept depth <= %d", mp), fmt.Sprintf("depth limits disagree: parser accepts <= %d, serialiser <= %d, hasher <= %d: the library could serialise a tree it cannot parse back (or vice versa)", mp, ms, mh))
}

// parserOwnsBytes: the cells produced by the parser do not alias the caller's input: the cell data is
// copied into a buffer made by SetTopUppedArray before the completion tag is cleared in place.
func (c *Ctx) parserOwnsBytes() {
	const R = "E10.parser-owns-bytes"
	f := c.mustFn(R, "boc", "BitString.SetTopUppedArray")
	if f == nil {
		return
	}
	sts := fieldStores(f, "buf")
	okv := len(sts) > 0
	copiedByClone := false
	for _, st := range sts {
		fresh, cloned := freshBytes(st.Val)
		if cloned {
			copiedByClone = true
		}
		if !fresh {
			okv = false // every path: also a copy made only for some inputs leaves the others aliased
		}
	}
	copied := false
	for _, cl := range callsIn(f) {
		if b, ok := cl.Common().Value.(*ssa.Builtin); ok && b.Name() == "copy" {
			copied = strings.Join(leaves(cl.Common().Args[1]), ",") == "#1"
		}
	}
	c.check(okv && (copied || copiedByClone), R, "SetTopUppedArray copies the caller's bytes into its own buffer", f.Pos(), "s.buf = make(len(arr)); copy(s.buf, arr)", "SetTopUppedArray keeps the caller's slice as the bit string's buffer: clearing the completion tag then modifies the bag-of-cells bytes the caller passed in (a second parse of the same bytes yields different cells, the CRC no longer matches)")
	c.floor(R, 1)
}

// hasherState: (a) the two caches of a Hasher describe the same set of cells: a function that replaces
// or clears one of its map fields does so for all of them (a partially reset hasher answers HashString
// for a mutated cell from the stale hex cache - and the serialiser de-duplicates by that string);
// (b) every hash is computed with a hash state created for it (no pooled or shared state that an error
// path could leave dirty).
func (c *Ctx) hasherState() {
	const R = "E10.hasher-state"
	var mapFields []string
	if n := c.lookupType("boc.Hasher"); n != nil {
		if st, ok := n.Underlying().(*types.Struct); ok {
			for i := 0; i < st.NumFields(); i++ {
				if _, ok := st.Field(i).Type().Underlying().(*types.Map); ok {
					mapFields = append(mapFields, st.Field(i).Name())
				}
			}
		}
	}
	sort.Strings(mapFields)
	nf := 0
	for _, f := range c.moduleFuncs("boc") {
		touched := map[string]bool{}
		allInstrs(f, func(_ *ssa.BasicBlock, in ssa.Instruction) {
			switch x := in.(type) {
			case *ssa.Store:
				if tn, fn, ok := fieldOf(x.Addr); ok && tn == "boc.Hasher" {
					if _, isMap := x.Val.Type().Underlying().(*types.Map); isMap {
						touched[fn] = true
					}
				}
			case *ssa.Call:
				if bi, ok := x.Call.Value.(*ssa.Builtin); ok && (bi.Name() == "clear" || bi.Name() == "delete") {
					if tn, fn, ok := fieldOfLoad(x.Call.Args[0]); ok && tn == "boc.Hasher" {
						touched[fn] = true
					}
				}
			}
		})
		if len(touched) == 0 {
			continue
		}
		nf++
		var got []string
		for k := range touched {
			got = append(got, k)
		}
		sort.Strings(got)
		c.check(fmt.Sprint(got) == fmt.Sprint(mapFields), R, fnName(f)+" (re)initialises every cache of the Hasher together", f.Pos(), fmt.Sprint(got), fmt.Sprintf("%s replaces or clears the Hasher maps %v but the Hasher has %v: the caches no longer describe the same cells (a cell mutated between uses keeps its old hash string, and the serialiser merges it with a cell equal to its old content)", fnName(f), got, mapFields))
	}
	c.check(nf >= 1 && len(mapFields) == 2, R, "Hasher has two caches, initialised together", 0, fmt.Sprint(mapFields), fmt.Sprintf("Hasher map fields %v, %d initialising function(s)", mapFields, nf))
	if f := c.mustFn(R, "boc", "newImmutableCell"); f != nil {
		okv, n := true, 0
		allInstrs(f, func(_ *ssa.BasicBlock, in ssa.Instruction) {
			cl, ok := in.(*ssa.Call)
			if !ok || !cl.Call.IsInvoke() || cl.Call.Method.Name() != "Sum" {
				return
			}
			n++
			fresh := derivesFrom(cl.Call.Value, callResult("crypto/sha256.New"), false)
			shared := derivesFrom(cl.Call.Value, func(v ssa.Value) bool {
				if _, ok := v.(*ssa.Global); ok {
					return true
				}
				c2 := callOf(v)
				return c2 != nil && strings.HasPrefix(callQName(&c2.Call), "sync.Pool.")
			}, true)
			if !fresh || shared {
				okv = false
			}
		})
		c.check(okv && n == 1, R, "every level hash is computed with its own sha256 state", f.Pos(), "x := sha256.New() per hash", "newImmutableCell takes the hash state from a pool or a shared variable: an error exit that returns it without Reset (or concurrent hashing) makes the next, unrelated cell hash to a wrong value")
	}
	c.floor(R, 3)
}

// freshBytes: v is a byte slice made by this function: make(...), or one of the clone idioms
// (append([]byte(nil), x...), append([]byte{}, x...), bytes.Clone(x), slices.Clone(x)); cloned reports
// that the idiom also copies the source.
func freshBytes(v ssa.Value) (fresh, cloned bool) {
	switch x := v.(type) {
	case *ssa.MakeSlice:
		return true, false
	case *ssa.Slice:
		if a, ok := x.X.(*ssa.Alloc); ok && a.Comment == "makeslice" {
			return true, false
		}
	case *ssa.Call:
		if bi, ok := x.Call.Value.(*ssa.Builtin); ok && bi.Name() == "append" {
			first := x.Call.Args[0]
			if k, ok := first.(*ssa.Const); ok && k.IsNil() {
				return true, true
			}
			if sl, ok := first.(*ssa.Slice); ok {
				if a, ok := sl.X.(*ssa.Alloc); ok && (a.Comment == "slicelit" || a.Comment == "makeslice") {
					return true, true
				}
			}
			if cv, ok := first.(*ssa.Convert); ok {
				if k, ok := cv.X.(*ssa.Const); ok && k.IsNil() {
					return true, true
				}
			}
		}
		switch q := callQName(&x.Call); {
		case q == "bytes.Clone" || strings.HasPrefix(q, "slices.Clone"):
			return true, true
		}
	}
	return false, false
}

// isErrorPathZero: the zero value ("" / 0) a function returns next to a non-nil error.
func isErrorPathZero(v ssa.Value) bool {
	cst, ok := v.(*ssa.Const)
	if !ok || cst.Value == nil {
		return false
	}
	if s, ok := constString(cst); ok {
		return s == ""
	}
	if k, ok := constInt(cst); ok {
		return k == 0
	}
	return false
}

// firstUser: the first instruction that uses v (nil when none).
func firstUser(v ssa.Value) ssa.Instruction {
	if refs := v.Referrers(); refs != nil {
		for _, r := range *refs {
			if _, dbg := r.(*ssa.DebugRef); !dbg {
				return r
			}
		}
	}
	return nil
}

// isHalving / isDoubling: x/2 or, on an unsigned value, x>>1; x*2 or x<<1.
func isHalving(bo *ssa.BinOp) bool {
	k, ok := constInt(bo.Y)
	if !ok {
		return false
	}
	if bo.Op == token.QUO && k == 2 {
		return true
	}
	if bt, isB := bo.X.Type().Underlying().(*types.Basic); isB && bt.Info()&types.IsUnsigned != 0 {
		return bo.Op == token.SHR && k == 1
	}
	return false
}

func isDoubling(bo *ssa.BinOp) bool {
	k, ok := constInt(bo.Y)
	return ok && ((bo.Op == token.MUL && k == 2) || (bo.Op == token.SHL && k == 1))
}
