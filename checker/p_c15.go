package main

func init() { register("C15", propC15) }

func propC15(c *Ctx) propInfo {
	c.errflow(excC15E2, "wallet")
	c.floor("E2.R-drop", 100)
	return propInfo{
		explanation: "Static structural clauses of C15 (DESIGN.md §4 C15): error discipline of package wallet (no dropped error, no result used where its error is non-nil, no nil error returned on a failure path, no stale nil error returned with a zero value), data-cell layouts equal the wallet contracts' layouts, every configuration field flows into the state-init, all address APIs reach one implementation, sibling agreement of NextMessageParams, send path addresses the wallet itself, mnemonic version check dominates key derivation. Decides these necessary conditions, not address inequality or polling outcomes.",
	}
}

var excC15E2 = map[string]string{
	"(*wallet.PayloadV1toV4).UnmarshalTLB R-swallow return nil under boc.Cell.NextRef()#1 != nil": "loop-termination idiom: NextRef fails only with ErrNotEnoughRefs, which marks the end of the message list",
}
