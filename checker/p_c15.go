package main

import (
	"fmt"
	"go/token"
	"go/types"
	"regexp"
	"sort"
	"strings"

	"golang.org/x/tools/go/ssa"
)

func init() { register("C15", propC15) }

func propC15(c *Ctx) propInfo {
	c.walletConstants() // the v5r1 wallet id enters the address
	c.confirmationReach()
	c.pollingLoopShape()
	c.signedWorkchain()
	c.errflow(excC15E2, "wallet")
	c.floor("E2.R-drop", 100)
	c.walletConfigFlow()
	c.walletAddressUnity()
	c.nextMessageParams()
	c.sendPipeline()
	c.seedRules()
	c.walletDataLayouts()
	c.wholeCellValues("E14.codec-engine")
	return propInfo{
		explanation: "Static structural clauses of C15: (E15 config-flow) every parameter of GenerateStateInit / GenerateWalletAddress / New reaches newWallet through the matching With* option, every option closure writes its own Options field, every constructor copies the options it is documented to use into the wallet struct, and every data-cell literal is built from exactly those fields (so key, version, workchain, sub-wallet id and network id are live in the hashed state-init); (address unity) every address API reaches generateAddress(w.workchain, own generateStateInit()) and the common generateAddress puts the state-init hash and the workchain into the id; Wallet.address is written only by New. (NextMessageParams) finite-domain evaluation over the four account statuses: for nonexist and uninit every reachable return carries a state-init from generateStateInit, for active none does and (seqno wallets) the seqno comes from the decoded on-chain data of the same data type the wallet marshals. (send pipeline) SendV2 forwards params.Seqno/params.Init and asks for the state of its own address; RawSendV2 addresses the message to w.address, attaches the init it was given, sends the serialised external message and returns nil after a confirmation wait only on the newSeqno > seqno edge. (seed) SeedToPrivateKey succeeds only through the version-byte test. (layouts) data-cell layouts equal the wallet contracts' storage layouts in spec/tlb_layouts.spec. Error discipline of package wallet (E2). NOT decided: address inequality for different inputs (hash collision freedom), the timing of the polling loop.",
		assumptions: []string{"SHA-256 / ed25519 / pbkdf2 behave as documented", "the embedded contract code strings are the published ones (not checked)"},
	}
}

var excC15E2 = map[string]string{
	"(*wallet.PayloadV1toV4).UnmarshalTLB R-ignored boc.Cell.NextRef":                             "loop-termination idiom: NextRef fails only with ErrNotEnoughRefs, which marks the end of the message list",
	"(*wallet.Wallet).RawSendV2 R-ignored wallet.blockchain.GetSeqno":                             "polling loop: a failed seqno query is retried at the next tick; the loop ends with a timeout error when no query ever shows the seqno advanced",
	"(*wallet.PayloadV1toV4).UnmarshalTLB R-swallow return nil under boc.Cell.NextRef()#1 != nil": "loop-termination idiom: NextRef fails only with ErrNotEnoughRefs, which marks the end of the message list",
}

// walletConfigFlow: parameters -> options -> constructor fields -> data literal.
func (c *Ctx) walletConfigFlow() {
	const R = "E15.config-flow"
	// 1. option closures
	for fn, fld := range map[string]string{"WithNetworkGlobalID": "NetworkGlobalID", "WithWorkchain": "Workchain", "WithSubWalletID": "SubWalletID", "WithMessageLifetime": "MsgLifetime"} {
		f := c.mustFn(R, "wallet", fn)
		if f == nil {
			continue
		}
		var got []string
		okSrc := false
		for _, an := range f.AnonFuncs {
			allInstrs(an, func(_ *ssa.BasicBlock, in ssa.Instruction) {
				if st, ok := in.(*ssa.Store); ok {
					if tn, n, ok := fieldOf(st.Addr); ok && tn == "wallet.Options" {
						got = append(got, n)
						for _, l := range leaves(st.Val) {
							if l == "^0" {
								okSrc = true // the closure's only captured variable: the option's argument
							}
						}
						if _, ok := st.Val.(*ssa.FreeVar); ok {
							okSrc = true
						}
					}
				}
			})
		}
		c.check(len(got) == 1 && got[0] == fld && okSrc, R, fn+" sets Options."+fld+" from its argument", f.Pos(), fmt.Sprint(got), fmt.Sprintf("%s writes Options fields %v (from its argument: %v); it must set exactly %s", fn, got, okSrc, fld))
	}
	if f := c.mustFn(R, "wallet", "applyOptions"); f != nil {
		okCall := false
		allInstrs(f, func(_ *ssa.BasicBlock, in ssa.Instruction) {
			if cl, ok := in.(*ssa.Call); ok && !cl.Call.IsInvoke() {
				if _, isFn := cl.Call.Value.(*ssa.Function); !isFn {
					if _, isB := cl.Call.Value.(*ssa.Builtin); !isB && len(cl.Call.Args) == 1 {
						ls := leaves(cl.Call.Value)
						if len(ls) == 1 && ls[0] == "#0" {
							if _, isAl := cl.Call.Args[0].(*ssa.Alloc); isAl {
								okCall = true
							}
						}
					}
				}
			}
		})
		c.check(okCall, R, "applyOptions applies every option to the returned Options", f.Pos(), "for o in opts: o(&options)", "applyOptions no longer calls each option on the Options value it returns")
	}
	// 1b. defaultOr: the explicit value is used whenever one was given (nil is the only "unset")
	if f := c.mustFn(R, "wallet", "defaultOr"); f != nil {
		okv := false
		for _, r := range returnsOf(f) {
			v := retVal(r, 0)
			u, isLoad := v.(*ssa.UnOp)
			if !isLoad || u.Op != token.MUL || u.X != ssa.Value(f.Params[0]) {
				continue
			}
			fs := factsAt(f, r.Block())
			okv = len(fs) == 1
			if okv {
				isN, eq := nilTest(fs[0].Cond, ssa.Value(f.Params[0]))
				okv = isN && eq != fs[0].Truth
			}
		}
		other := false
		for _, r := range returnsOf(f) {
			if retVal(r, 0) == ssa.Value(f.Params[1]) {
				other = true
			}
		}
		c.check(okv && other, R, "defaultOr(v, d) = *v whenever v != nil, else d", f.Pos(), "the only condition is the nil test", "wallet.defaultOr no longer returns the given value for every non-nil pointer (an explicit zero is treated as unset): WithSubWalletID(0) / WithNetworkGlobalID(0) silently become the defaults, so distinct configurations share an address")
	}
	// 2. public entry points pass every parameter on
	for _, name := range []string{"GenerateWalletAddress", "GenerateStateInit"} {
		f := c.mustFn(R, "wallet", name)
		if f == nil {
			continue
		}
		// the options may be assembled in the entry point or in an unexported helper both entry points share; in
		// the helper the parameters are named by their position there and translated back through the call
		tr := func(s string) string { return s }
		if len(callsTo(f, modPath+"/wallet.newWallet")) == 0 {
			for _, ci := range callsIn(f) {
				cl, ok := ci.(*ssa.Call)
				if !ok {
					continue
				}
				h := plainHelper(cl.Call.StaticCallee())
				if h == nil || len(callsTo(h, modPath+"/wallet.newWallet")) == 0 {
					continue
				}
				m := map[string]string{}
				for i, a := range cl.Call.Args {
					if pp, ok := stripConv(a).(*ssa.Parameter); ok && pp.Parent() == f {
						m[fmt.Sprintf("#%d", i)] = paramPos(pp)
					} else {
						m[fmt.Sprintf("#%d", i)] = "#?"
					}
				}
				tr = func(s string) string {
					return regexp.MustCompile(`#\d+`).ReplaceAllStringFunc(s, func(t string) string {
						if v, ok := m[t]; ok {
							return v
						}
						return "#?"
					})
				}
				f = h
				break
			}
		}
		trAll := func(xs []string) string {
			var out []string
			for _, x := range xs {
				out = append(out, tr(x))
			}
			sort.Strings(out)
			return strings.Join(out, ",")
		}
		for _, cl := range callsTo(f, modPath+"/wallet.newWallet") {
			got := []string{trAll(leaves(cl.Call.Args[0])), trAll(leaves(cl.Call.Args[1])), trAll(leaves(cl.Call.Args[2]))}
			want := []string{px("key,ver,networkGlobalID,workchain,subWalletId", "key"), px("key,ver,networkGlobalID,workchain,subWalletId", "ver"), px("key,ver,networkGlobalID,workchain,subWalletId", "networkGlobalID,subWalletId,workchain")}
			c.check(fmt.Sprint(got) == fmt.Sprint(want), R, name+" passes key, version and all three options to newWallet", cl.Pos(), fmt.Sprint(got),
				fmt.Sprintf("%s calls newWallet(key<-{%s}, ver<-{%s}, options<-{%s}); every one of key, ver, networkGlobalID, workchain, subWalletId must reach it", name, got[0], got[1], got[2]))
		}
		// which option constructor receives which parameter
		pairs := map[string]string{}
		for _, q := range []string{"WithWorkchain", "WithNetworkGlobalID", "WithSubWalletID"} {
			for _, cl := range callsTo(f, modPath+"/wallet."+q) {
				pairs[q] = trAll(leaves(cl.Call.Args[0]))
			}
		}
		// an option is applied exactly when its pointer parameter is non-nil (no further condition on the value)
		for _, q := range []string{"WithWorkchain", "WithNetworkGlobalID", "WithSubWalletID"} {
			for _, cl := range callsTo(f, modPath+"/wallet."+q) {
				// the argument's parameter, by position
				argPos := strings.Join(leaves(cl.Call.Args[0]), ",")
				var conds []string
				okG := true
				nNil := 0
				for _, ft := range factsAt(f, cl.Block()) {
					conds = append(conds, fmt.Sprintf("%s=%v", shape(ft.Cond, 3), ft.Truth))
					bo, isBo := ft.Cond.(*ssa.BinOp)
					if !isBo || !(isNilConst(bo.Y) || isNilConst(bo.X)) {
						okG = false
						continue
					}
					v := bo.X
					if isNilConst(bo.X) {
						v = bo.Y
					}
					pp, isP := v.(*ssa.Parameter)
					nonNil := (bo.Op == token.NEQ) == ft.Truth
					if !isP || paramPos(pp) != argPos || !nonNil {
						okG = false
						continue
					}
					nNil++
				}
				wantNil := 1
				if q == "WithWorkchain" {
					wantNil = 0 // a value parameter: always applied
				}
				c.check(okG && nNil == wantNil, R, name+" applies "+q+" exactly when its parameter is given", cl.Pos(), fmt.Sprint(conds), fmt.Sprintf("%s applies %s under %v; every address API applies an option exactly when its own pointer parameter is non-nil (no condition on the value), otherwise the APIs disagree for some parameter values", name, q, conds))
			}
		}
		wantP := pxMap("key,ver,networkGlobalID,workchain,subWalletId", map[string]string{"WithWorkchain": "workchain", "WithNetworkGlobalID": "networkGlobalID", "WithSubWalletID": "subWalletId"})
		c.check(fmt.Sprint(pairs) == fmt.Sprint(wantP), R, name+" wraps each parameter in its own option", f.Pos(), fmt.Sprint(pairs), fmt.Sprintf("%s builds options %v, expected %v", name, pairs, wantP))
	}
	if f := c.mustFn(R, "wallet", "New"); f != nil {
		for _, cl := range callsTo(f, modPath+"/wallet.newWallet") {
			got := []string{strings.Join(leaves(cl.Call.Args[0]), ","), strings.Join(leaves(cl.Call.Args[1]), ","), strings.Join(leaves(cl.Call.Args[2]), ",")}
			c.check(fmt.Sprint(got) == "[#0 #1 #3]", R, "New passes the public key of its key, the version and the options to newWallet", cl.Pos(), fmt.Sprint(got), fmt.Sprintf("New calls newWallet with arguments computed from %v, expected [key ver opts]", got))
		}
		okA := false
		for _, m := range literalFields(f, "Wallet") {
			for _, v := range m["address"] {
				okA = derivesFrom(v, func(v ssa.Value) bool {
					c2 := callOf(v)
					return c2 != nil && c2.Call.IsInvoke() && c2.Call.Method.Name() == "generateAddress"
				}, false)
			}
		}
		c.check(okA, R, "New stores the address generated by the implementation it built", f.Pos(), "address: w.generateAddress()", "New no longer stores w.generateAddress() as the wallet address")
		c.literalIs(R, f, "Wallet", 1, pxMap("key,ver,blockchain,opts", map[string]string{"address": "key,opts,ver", "key": "key", "ver": "ver", "intWallet": "key,opts,ver", "blockchain": "blockchain", "msgDefaultLifetime": "opts"}))
	}
	// 3. newWallet: version -> implementation
	if f := c.mustFn(R, "wallet", "newWallet"); f != nil {
		got := switchTable(f, f.Params[1])
		want := map[string]string{
			"0": "newWalletV1V2", "1": "newWalletV1V2", "2": "newWalletV1V2", "3": "newWalletV1V2", "4": "newWalletV1V2",
			"5": "newWalletV3", "6": "newWalletV3", "8": "newWalletV4", "9": "newWalletV4", "10": "NewWalletV5Beta", "11": "NewWalletV5R1", "16": "newWalletHighloadV2",
		}
		c.check(fmt.Sprint(got) == fmt.Sprint(want), R, "newWallet: version -> implementation table", f.Pos(), fmt.Sprint(got), fmt.Sprintf("newWallet maps versions to implementations as %v, confirmed table is %v", got, want))
		for _, q := range []string{"newWalletV1V2", "newWalletV3", "newWalletV4", "NewWalletV5Beta", "newWalletHighloadV2"} {
			for _, cl := range callsTo(f, modPath+"/wallet."+q) {
				a := []string{strings.Join(leaves(cl.Call.Args[0]), ","), strings.Join(leaves(cl.Call.Args[1]), ","), strings.Join(leaves(cl.Call.Args[2]), ",")}
				c.check(fmt.Sprint(a) == "[#1 #0 #2]", R, "newWallet forwards (version, key, options) to "+q, cl.Pos(), fmt.Sprint(a), fmt.Sprintf("newWallet calls %s with arguments from %v", q, a))
			}
		}
		for _, cl := range callsTo(f, modPath+"/wallet.NewWalletV5R1") {
			a := []string{strings.Join(leaves(cl.Call.Args[0]), ","), strings.Join(leaves(cl.Call.Args[1]), ",")}
			c.check(fmt.Sprint(a) == "[#0 #2]", R, "newWallet forwards (key, options) to NewWalletV5R1", cl.Pos(), fmt.Sprint(a), fmt.Sprintf("newWallet calls NewWalletV5R1 with arguments from %v", a))
		}
	}
	// 4. constructors
	ctor := []struct {
		fn, typ string
		want    map[string]string
	}{
		{"newWalletV1V2", "walletV1V2", map[string]string{"version": "ver", "publicKey": "key", "workchain": "options.Workchain"}},
		{"newWalletV3", "walletV3", map[string]string{"version": "ver", "publicKey": "key", "workchain": "options.Workchain", "subWalletID": "options.SubWalletID,options.Workchain"}},
		{"newWalletV4", "walletV4", map[string]string{"version": "version", "publicKey": "publicKey", "workchain": "opts.Workchain", "subWalletID": "opts.SubWalletID,opts.Workchain"}},
		{"newWalletHighloadV2", "walletHighloadV2", map[string]string{"version": "ver", "publicKey": "key", "workchain": "options.Workchain", "subWalletID": "options.SubWalletID,options.Workchain"}},
		{"NewWalletV5Beta", "walletV5Beta", map[string]string{"version": "version", "publicKey": "publicKey", "workchain": "opts.Workchain", "subWalletID": "opts.SubWalletID", "networkGlobalID": "opts.NetworkGlobalID"}},
		{"NewWalletV5R1", "walletV5R1", map[string]string{"publicKey": "publicKey", "workchain": "opts.Workchain", "walletID": "opts.NetworkGlobalID,opts.Workchain", "isSignatureAllowed": ""}},
	}
	sigs := map[string]string{"newWalletV1V2": "ver,key,options", "newWalletV3": "ver,key,options", "newWalletV4": "version,publicKey,opts", "newWalletHighloadV2": "ver,key,options", "NewWalletV5Beta": "version,publicKey,opts", "NewWalletV5R1": "publicKey,opts"}
	for _, k := range ctor {
		c.literalIs(R, c.mustFn(R, "wallet", k.fn), k.typ, 1, pxMap(sigs[k.fn], k.want))
	}
	c.subWalletSiblings(R)
	// 4c. wallet implementations are immutable after construction
	impl := map[string]string{"wallet.walletV1V2": "newWalletV1V2", "wallet.walletV3": "newWalletV3", "wallet.walletV4": "newWalletV4", "wallet.walletHighloadV2": "newWalletHighloadV2", "wallet.walletV5Beta": "NewWalletV5Beta", "wallet.walletV5R1": "NewWalletV5R1"}
	nImm := 0
	for _, f := range c.moduleFuncs("wallet") {
		allInstrs(f, func(_ *ssa.BasicBlock, in ssa.Instruction) {
			st, ok := in.(*ssa.Store)
			if !ok {
				return
			}
			tn, fld, ok := fieldOf(st.Addr)
			if !ok {
				return
			}
			ctor, isImpl := impl[tn]
			if !isImpl {
				return
			}
			nImm++
			c.check(f.Name() == ctor, R, fnName(f)+" writes "+tn+"."+fld, st.Pos(), "constructor", fnName(f)+" modifies "+tn+"."+fld+" after construction: the wallet implementations are values fixed at construction (a cached or shared state-init/address can be changed by one caller for all others)")
		})
	}
	c.check(nImm >= 19, R, "wallet implementation structs are written only by their constructors", 0, fmt.Sprintf("%d field stores, all in constructors", nImm), fmt.Sprintf("only %d constructor field stores found (19 confirmed)", nImm))
	// 5. data literals
	data := []struct {
		recv, typ string
		want      map[string]string
	}{
		{"walletV1V2", "DataV1V2", map[string]string{"PublicKey": "w.publicKey"}},
		{"walletV3", "DataV3", map[string]string{"SubWalletId": "w.subWalletID", "PublicKey": "w.publicKey"}},
		{"walletV4", "DataV4", map[string]string{"SubWalletId": "w.subWalletID", "PublicKey": "w.publicKey"}},
		{"walletHighloadV2", "DataHighloadV2", map[string]string{"SubWalletId": "w.subWalletID", "PublicKey": "w.publicKey"}},
		{"walletV5Beta", "DataV5Beta", map[string]string{"WalletID.NetworkGlobalID": "w.networkGlobalID", "WalletID.Workchain": "w.workchain", "WalletID.SubWalletID": "w.subWalletID", "PublicKey": "w.publicKey"}},
		{"walletV5R1", "DataV5R1", map[string]string{"IsSignatureAllowed": "w.isSignatureAllowed", "WalletID": "w.walletID", "PublicKey": "w.publicKey"}},
	}
	for _, k := range data {
		f := c.mustFn(R, "wallet", k.recv+".generateStateInit")
		c.literalIs(R, f, k.typ, 1, pxMap("w", k.want))
		if f == nil {
			continue
		}
		// the literal is what is marshalled with the wallet's own version
		for _, cl := range callsTo(f, modPath+"/wallet.generateStateInit") {
			ver := strings.Join(leaves(cl.Call.Args[0]), ",")
			wantVer := "#0.version"
			if k.recv == "walletV5R1" {
				wantVer = ""
			}
			okData := false
			if mi, ok := cl.Call.Args[1].(*ssa.MakeInterface); ok {
				okData = strings.HasSuffix(mi.X.Type().String(), "."+k.typ)
			}
			if k.recv == "walletV5R1" {
				kv, _ := constInt(stripConv(cl.Call.Args[0]))
				c.check(kv == 11, R, k.recv+" state-init uses the V5R1 code", cl.Pos(), "V5R1", "walletV5R1.generateStateInit no longer selects the V5R1 code")
			}
			c.check(ver == wantVer && okData, R, k.recv+": state-init = code(own version) + "+k.typ, cl.Pos(), "generateStateInit("+wantVer+", data)", fmt.Sprintf("%s.generateStateInit marshals %s with version from {%s}", k.recv, cl.Call.Args[1].Type(), ver))
		}
	}
	// 6. common generateStateInit: code from GetCodeByVer(ver), data from Marshal(data); both set and marked existing
	if f := c.mustFn(R, "wallet", "generateStateInit"); f != nil {
		lits := literalFields(f, "StateInit")
		okv := false
		if len(lits) == 1 {
			m := lits[0]
			code := vals2leaves(m["Code.Value.Value"])
			data := vals2leaves(m["Data.Value.Value"])
			ce := len(m["Code.Exists"]) == 1 && isTrue(m["Code.Exists"][0])
			de := len(m["Data.Exists"]) == 1 && isTrue(m["Data.Exists"][0])
			okv = code == "#0" && strings.Contains(data, "call:boc.NewCell") && ce && de && len(m["Library.Exists"]) == 0
			if !okv {
				c.bad(R, "state-init = {code(ver), data}", f.Pos(), fmt.Sprintf("generateStateInit builds StateInit with code<-{%s} data<-{%s} code.Exists=%v data.Exists=%v", code, data, ce, de))
			}
		}
		if okv {
			c.ok(R, "state-init = {code(ver), data}", f.Pos(), "Code = GetCodeByVer(ver), Data = marshalled data, both present")
		} else if len(lits) != 1 {
			c.bad(R, "state-init = {code(ver), data}", f.Pos(), fmt.Sprintf("generateStateInit builds %d StateInit literals", len(lits)))
		}
		okM := false
		for _, cl := range callsTo(f, modPath+"/tlb.Marshal") {
			okM = strings.Join(leaves(cl.Call.Args[1]), ",") == "#1"
		}
		c.check(okM, R, "the data cell is the marshalled data argument", f.Pos(), "tlb.Marshal(dataCell, data)", "generateStateInit no longer marshals its data argument into the data cell")
	}
	c.floor(R, 60)
}

func vals2leaves(vs []ssa.Value) string {
	var ls []string
	for _, v := range vs {
		ls = append(ls, leaves(v)...)
	}
	sort.Strings(ls)
	return strings.Join(ls, ",")
}

func isTrue(v ssa.Value) bool {
	b, ok := constBool(v)
	return ok && b
}

// switchTable: for a switch on value v with constant cases in f, map "case constant" -> name of the
// module function called in the block that case leads to.
func switchTable(f *ssa.Function, v ssa.Value) map[string]string {
	out := map[string]string{}
	for _, b := range f.Blocks {
		iff := lastIf(b)
		if iff == nil {
			continue
		}
		bo, ok := iff.Cond.(*ssa.BinOp)
		if !ok || bo.Op.String() != "==" {
			continue
		}
		var k int64
		if bo.X == v {
			kk, ok := constInt(bo.Y)
			if !ok {
				continue
			}
			k = kk
		} else if bo.Y == v {
			kk, ok := constInt(bo.X)
			if !ok {
				continue
			}
			k = kk
		} else {
			continue
		}
		tgt := b.Succs[0]
		name := firstModuleCall(tgt.Instrs, 0)
		out[fmt.Sprint(k)] = name
	}
	return out
}

// walletAddressUnity: one address function.
func (c *Ctx) walletAddressUnity() {
	const R = "E15.address-unity"
	for _, recv := range []string{"walletV1V2", "walletV3", "walletV4", "walletHighloadV2", "walletV5Beta", "walletV5R1"} {
		f := c.mustFn(R, "wallet", recv+".generateAddress")
		if f == nil {
			continue
		}
		okv := false
		for _, cl := range callsTo(f, modPath+"/wallet.generateAddress") {
			wc := strings.Join(leaves(cl.Call.Args[0]), ",")
			si := derivesFrom(cl.Call.Args[1], callResult(modPath+"/wallet."+recv+".generateStateInit"), false)
			okv = wc == "#0.workchain" && si
		}
		c.check(okv, R, recv+".generateAddress = generateAddress(w.workchain, own state-init)", f.Pos(), "hash of own generateStateInit() in w.workchain", recv+".generateAddress no longer hashes its own state-init in its own workchain")
		c.delegatesTo(R, f, 1, []string{modPath + "/wallet.generateAddress"})
	}
	if f := c.mustFn(R, "wallet", "generateAddress"); f != nil {
		lits := literalFields(f, "AccountID")
		okv := false
		for _, m := range lits {
			if len(m) == 0 {
				continue // zero value on error paths
			}
			wc := vals2leaves(m["Workchain"])
			okA := false
			for _, v := range m["Address"] {
				okA = derivesFrom(v, callResult(modPath+"/boc.Cell.Hash"), false)
			}
			okv = wc == "#0" && okA
		}
		okM := false
		for _, cl := range callsTo(f, modPath+"/tlb.Marshal") {
			okM = strings.Join(leaves(cl.Call.Args[1]), ",") == "#1"
		}
		c.check(okv && okM, R, "address = (workchain, representation hash of the marshalled state-init)", f.Pos(), "AccountID{Workchain: workchain, Address: Hash(Marshal(stateInit))}", "generateAddress no longer returns the workchain argument with the representation hash of the marshalled state-init")
	}
	// Wallet.address: written only in New, from generateAddress; GetAddress returns it
	la := &lockAnalysis{c: c, funcs: c.moduleFuncs("wallet")}
	la.whoMayWrite(R, "wallet.Wallet.address", map[string]string{})
	if f := c.mustFn(R, "wallet", "Wallet.GetAddress"); f != nil {
		okv := false
		for _, r := range returnsOf(f) {
			okv = strings.Join(leaves(retVal(r, 0)), ",") == "#0.address"
		}
		c.check(okv, R, "GetAddress returns the stored address", f.Pos(), "w.address", "Wallet.GetAddress no longer returns w.address")
	}
	if f := c.mustFn(R, "wallet", "GenerateWalletAddress"); f != nil {
		c.delegatesTo(R, f, 1, []string{modPath + "/wallet.wallet.generateAddress"})
	}
	if f := c.mustFn(R, "wallet", "Wallet.StateInit"); f != nil {
		c.delegatesTo(R, f, 1, []string{modPath + "/wallet.wallet.generateStateInit"})
	}
	c.floor(R, 12)
}

// nextMessageParams: evaluate each implementation over the four account statuses.
func (c *Ctx) nextMessageParams() {
	const R = "E15.next-params"
	dataOf := map[string]string{"walletV3": "DataV3", "walletV4": "DataV4", "walletV5Beta": "DataV5Beta", "walletV5R1": "DataV5R1", "walletHighloadV2": ""}
	statusQ := modPath + "/tlb.Account.Status"
	for recv, dt := range dataOf {
		f := c.mustFn(R, "wallet", recv+".NextMessageParams")
		if f == nil {
			continue
		}
		for _, s := range []string{"nonexist", "uninit", "active"} {
			rets := enumEval(f, statusQ, s)
			okv := len(rets) > 0
			var why []string
			// a result accumulated in one variable and returned once: only the stores on this status' paths count
			gStoreFilter, gStoreFilterFn = enumBlocks, f
			for _, r := range rets {
				if isFailureValue(f, retVal(r, 1), r.Block()) {
					continue
				}
				initSet, seqSrc := false, ""
				res := retVal(r, 0)
				// result is a load of a literal alloc or a struct value
				for _, lit := range literalFields(f, "NextMsgParams") {
					_ = lit
				}
				initSet = derivesFrom(res, callResult(modPath+"/wallet."+recv+".generateStateInit"), false)
				if derivesFrom(res, callResult(modPath+"/tlb.Unmarshal"), false) || derivesFrom(res, func(v ssa.Value) bool {
					_, n, ok := fieldOfLoad(v)
					return ok && n == "Seqno"
				}, false) {
					seqSrc = "data"
				}
				switch s {
				case "nonexist", "uninit":
					if !initSet {
						okv = false
						why = append(why, fmt.Sprintf("a success return at %s carries no state-init", c.posOf(r.Pos())))
					}
				case "active":
					if initSet {
						okv = false
						why = append(why, fmt.Sprintf("a success return at %s attaches the state-init to an active account", c.posOf(r.Pos())))
					}
					if dt != "" && seqSrc != "data" {
						okv = false
						why = append(why, fmt.Sprintf("a success return at %s does not take the seqno from the on-chain data", c.posOf(r.Pos())))
					}
				}
			}
			gStoreFilter, gStoreFilterFn = nil, nil
			c.check(okv, R, fmt.Sprintf("%s.NextMessageParams for status %s", recv, s), f.Pos(), fmt.Sprintf("%d reachable returns", len(rets)), fmt.Sprintf("%s.NextMessageParams with account status %q: %s", recv, s, strings.Join(why, "; ")))
		}
		if dt != "" {
			// the decoded type is the type this wallet marshals, and it is decoded from the account's data cell
			okT, okSrc := false, false
			for _, cl := range callsTo(f, modPath+"/tlb.Unmarshal") {
				if mi, ok := cl.Call.Args[1].(*ssa.MakeInterface); ok {
					okT = strings.HasSuffix(mi.X.Type().String(), "."+dt)
				}
				ls := strings.Join(leaves(cl.Call.Args[0]), ",")
				okSrc = strings.HasSuffix(ls, "AccountActive.StateInit.Data.Value.Value") && strings.HasPrefix(ls, "#1.Account")
			}
			c.check(okT && okSrc, R, recv+" reads the seqno from its own data layout in the active account's data cell", f.Pos(), dt+" from state.Account...AccountActive.StateInit.Data", fmt.Sprintf("%s.NextMessageParams decodes (own data type: %v, from the active account's data cell: %v)", recv, okT, okSrc))
			var seq []string
			for _, m := range literalFields(f, "NextMsgParams") {
				if vs, ok := m["Seqno"]; ok {
					for _, v := range vs {
						_, n, _ := fieldOfLoad(stripConv(v))
						seq = append(seq, n)
					}
				}
			}
			c.check(len(seq) == 1 && seq[0] == "Seqno", R, recv+" returns data.Seqno", f.Pos(), "Seqno: data.Seqno", fmt.Sprintf("%s.NextMessageParams fills Seqno from %v", recv, seq))
		}
	}
	// Account.Status itself: the union tag decides before the content of an alternative is looked at
	// (the sum-type decoder does not clear the alternatives it did not select, so a reused value can
	// hold a stale Account under the tag AccountNone)
	if f := c.mustFn(R, "tlb", "Account.Status"); f != nil {
		var noneFalse []edge
		for _, b := range f.Blocks {
			iff := lastIf(b)
			if iff == nil {
				continue
			}
			bo, ok := iff.Cond.(*ssa.BinOp)
			if !ok || bo.Op.String() != "==" {
				continue
			}
			s, isS := constString(stripConv(bo.Y))
			if !isS || s != "AccountNone" {
				continue
			}
			if _, n, ok := fieldOfLoad(stripConv(bo.X)); ok && n == "SumType" {
				noneFalse = append(noneFalse, edge{b, 1})
			}
		}
		okv := len(noneFalse) == 1
		nreads := 0
		var firstBad ssa.Instruction
		// what must wait for the tag test is every DECISION taken on the content of the Account alternative (a
		// branch whose condition derives from a.Account...); merely loading the field of the struct value
		// earlier, into a temporary that is consulted later, changes nothing
		fromAccount := func(v ssa.Value) bool {
			return derivesFrom(v, func(x ssa.Value) bool {
				var fa ssa.Value
				switch y := x.(type) {
				case *ssa.FieldAddr:
					fa = y
				case *ssa.Field:
					fa = y
				default:
					return false
				}
				tn, n, ok := fieldOf(fa)
				return ok && tn == "tlb.Account" && n == "Account"
			}, false)
		}
		for _, b := range f.Blocks {
			iff := lastIf(b)
			if iff == nil || !fromAccount(iff.Cond) {
				continue
			}
			nreads++
			dom := false
			for _, e := range noneFalse {
				if edgeDominates(f, e, b) {
					dom = true
				}
			}
			if !dom {
				okv = false
				if firstBad == nil {
					firstBad = iff
				}
			}
		}
		pos := f.Pos()
		if firstBad != nil {
			pos = firstBad.Pos()
		}
		c.check(okv && nreads > 0, R, "Account.Status consults the Account alternative only after the tag is known not to be AccountNone", pos, fmt.Sprintf("%d reads of a.Account, all behind SumType != AccountNone", nreads), "Account.Status reads the content of the Account alternative before (or without) testing the union tag: a value tagged AccountNone that still holds an earlier account state is reported with that stale status, and the wallets then omit the initial state")
	}
	c.floor(R, 24)
}

// sendPipeline: SendV2 / RawSendV2 argument flow and confirmation outcome.
func (c *Ctx) sendPipeline() {
	const R = "E15.send-pipeline"
	if f := c.mustFn(R, "wallet", "Wallet.SendV2"); f != nil {
		for _, cl := range callsTo(f, modPath+"/wallet.Wallet.RawSendV2") {
			seq := strings.Join(leaves(cl.Call.Args[2]), ",")
			ini := strings.Join(leaves(cl.Call.Args[5]), ",")
			wait := strings.Join(leaves(cl.Call.Args[6]), ",")
			okSeq := derivesFrom(cl.Call.Args[2], callResult(modPath+"/wallet.wallet.NextMessageParams"), false)
			okIni := derivesFrom(cl.Call.Args[5], callResult(modPath+"/wallet.wallet.NextMessageParams"), false)
			_, n1, _ := fieldOfLoad(cl.Call.Args[2])
			_, n2, _ := fieldOfLoad(cl.Call.Args[5])
			c.check(okSeq && okIni && n1 == "Seqno" && n2 == "Init" && wait == "#2", R, "SendV2 forwards params.Seqno, params.Init and the confirmation wait", cl.Pos(), "RawSendV2(ctx, params.Seqno, _, msgs, params.Init, waitingConfirmation)", fmt.Sprintf("SendV2 calls RawSendV2 with seqno<-{%s}(%s) init<-{%s}(%s) wait<-{%s}", seq, n1, ini, n2, wait))
			okMsgs := strings.Contains(strings.Join(leaves(cl.Call.Args[4]), ","), "#3")
			c.check(okMsgs, R, "SendV2 forwards every requested message", cl.Pos(), "msgArray built from messages", "SendV2 no longer builds the raw messages from its messages argument")
		}
		okSt := false
		allInstrs(f, func(_ *ssa.BasicBlock, in ssa.Instruction) {
			if cl, ok := in.(*ssa.Call); ok && cl.Call.IsInvoke() && cl.Call.Method.Name() == "GetAccountState" {
				okSt = derivesFrom(cl.Call.Args[1], callResult(modPath+"/wallet.Wallet.GetAddress"), false) || strings.Join(leaves(cl.Call.Args[1]), ",") == "#0.address"
			}
			if cl, ok := in.(*ssa.Call); ok && cl.Call.IsInvoke() && cl.Call.Method.Name() == "NextMessageParams" {
				c.check(derivesFrom(cl.Call.Args[0], func(v ssa.Value) bool {
					c2 := callOf(v)
					return c2 != nil && c2.Call.IsInvoke() && c2.Call.Method.Name() == "GetAccountState"
				}, false), R, "NextMessageParams sees the fetched account state", cl.Pos(), "state from GetAccountState", "SendV2 passes something other than the fetched account state to NextMessageParams")
			}
		})
		c.check(okSt, R, "SendV2 fetches the state of the wallet's own address", f.Pos(), "GetAccountState(ctx, w.GetAddress())", "SendV2 fetches the account state of an address other than the wallet's")
	}
	if f := c.mustFn(R, "wallet", "Wallet.RawSendV2"); f != nil {
		for _, cl := range callsTo(f, modPath+"/ton.CreateExternalMessage") {
			a := []string{strings.Join(leaves(cl.Call.Args[0]), ","), strings.Join(leaves(cl.Call.Args[2]), ",")}
			okB := false
			if ex, ok := cl.Call.Args[1].(*ssa.Extract); ok {
				if c2 := callOf(ex.Tuple); c2 != nil && c2.Call.IsInvoke() && c2.Call.Method.Name() == "createSignedMsgBodyCell" {
					okB = true
					b := []string{strings.Join(leaves(c2.Call.Args[0]), ","), strings.Join(leaves(c2.Call.Args[1]), ","), strings.Join(leaves(c2.Call.Args[2]), ",")}
					c.check(fmt.Sprint(b) == "[#0.key #4 #2,#3]", R, "the body is signed with the wallet key over the given messages, seqno and expiry", c2.Pos(), fmt.Sprint(b), fmt.Sprintf("RawSendV2 calls createSignedMsgBodyCell with arguments from %v; expected [w.key internalMessages seqno,validUntil]", b))
				}
			}
			c.check(fmt.Sprint(a) == "[#0.address #5]" && okB, R, "external message: dest = own address, init = given init, body = signed body", cl.Pos(), fmt.Sprint(a), fmt.Sprintf("RawSendV2 calls CreateExternalMessage with address<-{%s} init<-{%s} body-is-signed-body=%v", a[0], a[1], okB))
		}
		// what is sent is the serialisation of the marshalled external message
		okSend := false
		allInstrs(f, func(_ *ssa.BasicBlock, in ssa.Instruction) {
			if cl, ok := in.(*ssa.Call); ok && cl.Call.IsInvoke() && cl.Call.Method.Name() == "SendMessage" {
				okSend = derivesFrom(cl.Call.Args[1], callResult(modPath+"/boc.Cell.ToBocCustom"), false)
			}
		})
		okMar := false
		for _, cl := range callsTo(f, modPath+"/tlb.Marshal") {
			okMar = derivesFrom(cl.Call.Args[1], callResult(modPath+"/ton.CreateExternalMessage"), false)
		}
		c.check(okSend && okMar, R, "the payload sent is the BoC of the marshalled external message", f.Pos(), "SendMessage(ToBocCustom(Marshal(extMsg)))", "RawSendV2 no longer sends the serialised external message it built")
		// confirmation: a nil error after the send is returned only (a) when no wait was asked, or (b) on newSeqno > seqno
		// (read off the branch facts that hold at each success exit, so the spelling of the two tests - operand
		// order, == / != with swapped branches, a merged `err == nil && new > old` - does not matter)
		isNew := func(v ssa.Value) bool {
			c2 := callOf(v)
			if ex, ok := v.(*ssa.Extract); ok {
				c2 = callOf(ex.Tuple)
			}
			return c2 != nil && c2.Call.IsInvoke() && c2.Call.Method.Name() == "GetSeqno"
		}
		isOld := func(v ssa.Value) bool { return strings.Join(leaves(v), ",") == "#2" }
		justifies := func(ft fact) bool {
			bo, ok := ft.Cond.(*ssa.BinOp)
			if !ok {
				return false
			}
			// no wait was asked: waitingConfirmation == 0
			for _, pr := range [][2]ssa.Value{{bo.X, bo.Y}, {bo.Y, bo.X}} {
				if k, isK := constInt(pr[1]); isK && k == 0 && strings.Join(leaves(pr[0]), ",") == "#6" {
					if (bo.Op == token.EQL && ft.Truth) || (bo.Op == token.NEQ && !ft.Truth) {
						return true
					}
				}
			}
			// the seqno advanced: new > old
			op := bo.Op
			x, y := bo.X, bo.Y
			if isOld(x) && isNew(y) {
				x, y = y, x
				op = map[token.Token]token.Token{token.LSS: token.GTR, token.GTR: token.LSS, token.LEQ: token.GEQ, token.GEQ: token.LEQ}[op]
			}
			if isNew(x) && isOld(y) {
				return (op == token.GTR && ft.Truth) || (op == token.LEQ && !ft.Truth)
			}
			return false
		}
		okC := true
		n := 0
		for _, sp := range successPoints(f, 1) {
			n++
			d := false
			for _, ft := range factsAt(f, sp.Block) {
				if justifies(ft) {
					d = true
				}
			}
			if !d {
				okC = false
			}
		}
		c.check(okC && n >= 2, R, "success is returned only without a wait or once the seqno has advanced", f.Pos(), fmt.Sprintf("%d success exits, each behind waitingConfirmation == 0 or newSeqno > seqno", n), "RawSendV2 can return a nil error after a confirmation wait without having observed newSeqno > seqno (or the confirmation test is gone)")
		// the poll interval is fixed for the whole wait (a fraction of the window): a growing interval can
		// step over the end of the window and miss a confirmation that arrived in time
		for _, cl := range callsTo(f, "time.Sleep") {
			if !inLoop(cl.Block()) {
				continue
			}
			grows := derivesFrom(cl.Call.Args[0], func(v ssa.Value) bool {
				ph, ok := v.(*ssa.Phi)
				return ok && inLoop(ph.Block())
			}, false)
			c.check(!grows && strings.Join(leaves(cl.Call.Args[0]), ",") == "#6", R, "the confirmation poll interval is a fixed fraction of the requested wait", cl.Pos(), "time.Sleep(waitingConfirmation / k)", "RawSendV2 sleeps between polls for a duration that changes from poll to poll (or does not derive from the requested wait): a back-off can overshoot the deadline and report a timeout although the seqno advanced within the window")
		}
		// GetSeqno is asked for the wallet's own address
		allInstrs(f, func(_ *ssa.BasicBlock, in ssa.Instruction) {
			if cl, ok := in.(*ssa.Call); ok && cl.Call.IsInvoke() && cl.Call.Method.Name() == "GetSeqno" {
				c.check(strings.Join(leaves(cl.Call.Args[1]), ",") == "#0.address", R, "confirmation polls the wallet's own seqno", cl.Pos(), "GetSeqno(ctx, w.address)", "RawSendV2 polls the seqno of an address other than the wallet's")
			}
		})
	}
	c.floor(R, 10)
}

func (c *Ctx) seedRules() {
	const R = "E8.mustcheck"
	if f := c.mustFn(R, "wallet", "SeedToPrivateKey"); f != nil {
		c.mustDominate(R, f, 1, []requiredCheck{
			{name: "seed version byte == 0", src: func(v ssa.Value) bool {
				return isIndexLoad(0)(v) && derivesFrom(v, callResult("golang.org/x/crypto/pbkdf2.Key"), false)
			}, kind: "eq"},
		}, nil, "")
		c.mustDominate(R, f, 1, []requiredCheck{
			{name: "at least 12 words", src: func(v ssa.Value) bool {
				b, ok := v.(*ssa.BinOp)
				if !ok || b.Op.String() != "<" {
					return false
				}
				k, _ := constInt(b.Y)
				cl := callOf(b.X)
				return k == 12 && cl != nil && derivesFrom(cl.Call.Args[0], callResult("strings.Split"), false)
			}, kind: "notbool"},
		}, nil, "")
	}
	// sibling agreement: checkSumSeed and SeedToPrivateKey derive the version byte identically
	var sig []string
	for _, name := range []string{"SeedToPrivateKey", "checkSumSeed"} {
		f := c.mustFn(R, "wallet", name)
		if f == nil {
			continue
		}
		for _, g := range c.helperClosure(f, 2, func(h *ssa.Function) bool { return plainHelper(h) == nil }) {
			for _, cl := range callsTo(g, "golang.org/x/crypto/pbkdf2.Key") {
				salt, _ := constString(stripConv(cl.Call.Args[1]))
				it, _ := constInt(cl.Call.Args[2])
				kl, _ := constInt(cl.Call.Args[3])
				if salt == "TON seed version" {
					sig = append(sig, fmt.Sprintf("%s/%d/%d", salt, it, kl))
				}
			}
		}
	}
	c.check(len(sig) == 2 && sig[0] == sig[1], R, "RandomSeed's acceptance test and SeedToPrivateKey's version test use the same derivation", 0, fmt.Sprint(sig), fmt.Sprintf("the seed version derivations differ: %v", sig))
	c.floor(R, 3)
}

// walletDataLayouts: E3 layouts of the data structs against the spec.
func (c *Ctx) walletDataLayouts() {
	c.layoutVsSpec(func(k string) bool {
		return strings.HasPrefix(k, "wallet.Data") || k == "wallet.WalletV5ID"
	})
	c.floor("E3b.layout=spec", 7)
}

// subWalletSiblings: the three constructors that take a sub-wallet id compute it the same way.
func (c *Ctx) subWalletSiblings(R string) {
	var trees []string
	for _, k := range []struct{ fn, typ string }{{"newWalletV3", "walletV3"}, {"newWalletV4", "walletV4"}, {"newWalletHighloadV2", "walletHighloadV2"}} {
		if f := c.mustFn(R, "wallet", k.fn); f != nil {
			for _, m := range literalFields(f, k.typ) {
				for _, v := range m["subWalletID"] {
					trees = append(trees, k.fn+": "+opTree(v, 0))
				}
			}
		}
	}
	same := len(trees) == 3
	for _, t := range trees {
		if t[strings.Index(t, ": "):] != trees[0][strings.Index(trees[0], ": "):] {
			same = false
		}
	}
	c.check(same, R, "v3, v4 and highload compute the sub-wallet id identically", 0, strings.Join(trees, " | "), "the constructors of v3, v4 and highload wallets no longer compute the sub-wallet id by the same expression: "+strings.Join(trees, " | ")+" (an explicitly requested id must be used as is; only the default depends on the workchain)")
}

// confirmationReach: the seqno polling loop of RawSendV2 must be reachable for every version that
// has a seqno: the only version test on the way to it excludes the highload wallet (which has no
// seqno) - it is not a test FOR one version.
func (c *Ctx) confirmationReach() {
	const R = "E15.send-pipeline"
	f := c.fn("wallet", "Wallet.RawSendV2")
	if f == nil {
		return
	}
	for _, cl := range callsTo(f, modPath+"/wallet.blockchain.GetSeqno") {
		if !inLoop(cl.Block()) {
			continue
		}
		okv := true
		desc := "no version test on the way"
		for _, ft := range factsAt(f, cl.Block()) {
			bo, ok := ft.Cond.(*ssa.BinOp)
			if !ok || (bo.Op != token.EQL && bo.Op != token.NEQ) {
				continue
			}
			n, ok := stripConv(bo.X).Type().(*types.Named)
			if !ok || n.Obj().Name() != "Version" {
				continue
			}
			eq := (bo.Op == token.EQL) == ft.Truth
			desc = fmt.Sprintf("version %s %s", map[bool]string{true: "==", false: "!="}[eq], shape(bo.Y, 1))
			if eq {
				okv = false
			}
		}
		c.check(okv, R, "the confirmation loop is reachable for every seqno wallet", cl.Pos(), desc, "RawSendV2 reaches the seqno polling loop only when the wallet version EQUALS one particular version ("+desc+"): for every other version a send that asks for confirmation fails (or, for the highload wallet, polls a seqno it does not have)")
	}
}

// round-5 rules for C15.

// pollingLoopShape: the confirmation loop is bounded by TIME (its condition depends on time.Since
// or a deadline) and every trip round the loop - including the `continue` after a failed seqno
// query - passes through the sleep. A loop bounded by a number of attempts whose error path skips
// the sleep burns all attempts in microseconds and reports a timeout long before the deadline.
func (c *Ctx) pollingLoopShape() {
	const R = "E15.send-pipeline"
	f := c.fn("wallet", "Wallet.RawSendV2")
	if f == nil {
		return
	}
	for _, cl := range callsTo(f, modPath+"/wallet.blockchain.GetSeqno") {
		if !inLoop(cl.Block()) {
			continue
		}
		// the loop: blocks that reach the call and are reached from it
		from := reachableFrom(cl.Block(), nil)
		loop := map[*ssa.BasicBlock]bool{}
		for b := range from {
			if reachableFrom(b, nil)[cl.Block()] {
				loop[b] = true
			}
		}
		// (a) every cycle through the call passes a sleep/timer: cut the blocks that sleep
		sleeps := map[*ssa.BasicBlock]bool{}
		for b := range loop {
			for _, in := range b.Instrs {
				if c2, ok := in.(*ssa.Call); ok {
					switch callQName(&c2.Call) {
					case "time.Sleep", "time.After", "time.NewTimer", "time.Timer.Reset":
						sleeps[b] = true
					}
				}
				if _, ok := in.(*ssa.Select); ok {
					sleeps[b] = true
				}
			}
		}
		cycle := false
		var dfs func(b *ssa.BasicBlock, seen map[*ssa.BasicBlock]bool) bool
		dfs = func(b *ssa.BasicBlock, seen map[*ssa.BasicBlock]bool) bool {
			for _, s := range b.Succs {
				if !loop[s] || sleeps[s] {
					continue
				}
				if s == cl.Block() {
					return true
				}
				if !seen[s] {
					seen[s] = true
					if dfs(s, seen) {
						return true
					}
				}
			}
			return false
		}
		if !sleeps[cl.Block()] {
			cycle = dfs(cl.Block(), map[*ssa.BasicBlock]bool{})
		}
		c.check(!cycle, R, "every trip of the confirmation loop waits", cl.Pos(), "no cycle through GetSeqno avoids the sleep", "RawSendV2's confirmation loop has a path from one seqno query to the next that does not sleep (the `continue` after a failed query): while queries fail the loop spins, and if it counts attempts it gives up at once")
		// (b) the loop is bounded by time
		timed := false
		for b := range loop {
			if iff := lastIf(b); iff != nil {
				exits := !loop[b.Succs[0]] || !loop[b.Succs[1]]
				if exits && derivesFrom(iff.Cond, callResult("time.Since", "time.Time.Before", "time.Time.After", "time.Until", "context.Context.Err"), true) {
					timed = true
				}
			}
		}
		c.check(timed, R, "the confirmation loop is bounded by the requested wait", cl.Pos(), "exit condition depends on elapsed time", "RawSendV2's confirmation loop no longer ends by elapsed time (time.Since / deadline) but by a count of attempts: the caller asked to wait up to waitingConfirmation, and how long N attempts take depends on how fast they fail")
	}
}

// signedWorkchain: a workchain is a signed quantity (-1 is the masterchain). The value a wallet
// hands to generateAddress comes from a field or option of a SIGNED integer type; through a uint8
// field -1 becomes 255 and the address names a workchain that does not exist.
func (c *Ctx) signedWorkchain() {
	const R = "E15.address-unity"
	n := 0
	for _, f := range c.moduleFuncs("wallet") {
		for _, cl := range callsTo(f, modPath+"/wallet.generateAddress") {
			n++
			bad := ""
			derivesFrom(cl.Call.Args[0], func(v ssa.Value) bool {
				if b, ok := v.Type().Underlying().(*types.Basic); ok && b.Info()&types.IsInteger != 0 && b.Info()&types.IsUnsigned != 0 {
					bad = shape(v, 2) + " (" + b.Name() + ")"
				}
				return false
			}, false)
			c.check(bad == "", R, fnName(f)+": the address workchain is carried in signed integers", cl.Pos(), "no unsigned value on the way to generateAddress", fnName(f)+" derives the workchain passed to generateAddress from the unsigned value "+bad+": workchain -1 (masterchain) becomes 255 in the address while the wallet id still says -1")
		}
	}
	if n < 5 {
		c.bad(R, "generateAddress call sites found", token.NoPos, fmt.Sprintf("only %d calls of wallet.generateAddress found; one per wallet version was confirmed", n))
	}
}

// switchTableKnown: names the rule's table knows are kept; any other unexported helper standing first in
// a case is looked through to the first in-module call it makes itself (a step of the case extracted
// into a helper).
var switchTableKnown = map[string]bool{
	"newWalletV1V2": true, "newWalletV3": true, "newWalletV4": true, "newWalletHighloadV2": true,
	"extractSignedMsgBody": true, "decodeMessageV3": true, "decodeMessageV4": true, "decodeHighloadV2Message": true,
}

func firstModuleCall(instrs []ssa.Instruction, depth int) string {
	for _, in := range instrs {
		cl, ok := in.(*ssa.Call)
		if !ok {
			continue
		}
		fn := calleeFunc(&cl.Call)
		if fn == nil || !strings.HasPrefix(qname(fn), modPath) {
			continue
		}
		if h := plainHelper(cl.Call.StaticCallee()); h != nil && !switchTableKnown[fn.Name()] && depth < 2 && len(h.Blocks) > 0 {
			if inner := firstModuleCall(h.Blocks[0].Instrs, depth+1); inner != "?" {
				return inner
			}
		}
		return fn.Name()
	}
	return "?"
}
