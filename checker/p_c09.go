package main

import (
	"fmt"
	"go/ast"
	"go/parser"
	"go/token"
	"go/types"
	"golang.org/x/tools/go/packages"
	"os"
	"path/filepath"
	"regexp"
	"sort"
	"strconv"
	"strings"

	"golang.org/x/tools/go/ssa"
)

func init() { register("C09", propC09) }

func propC09(c *Ctx) propInfo {
	c.generatorDeterminism("tl/parser", "tlb/parser", "abi/parser", "utils")
	c.generatorIDVerbs()
	c.generatorRefTag()
	c.generatorTemplates()
	c.floor("E12.generator-determinism", 5)
	c.floor("E12.generator-id-format", 3)
	c.floor("E6.generator-templates", 20)
	c.generatorOutputFiles("tlb/parser", "tl/parser", "abi/generator", "tl", "tlb")
	c.generatorIsolation("tl/parser", "tlb/parser", "abi/parser", "utils")
	c.generatedReceivers("E12.generator-receivers")
	return propInfo{
		explanation: "Static structural clauses of C09 (DESIGN.md §4 C09): (1) determinism - every range over a map in the schema compilers either only accumulates into another map / set, selects an element by key equality, feeds text/template (which iterates in key order) or collects into a slice that is sorted before use; none emits output in map order; (2) every place where the TL compiler formats a 32-bit constructor id into generated source pads it to 8 hex digits (the run-time tag codec requires exactly 4 bytes); (3) the integer / bits / VarUInteger templates of the TL-B compiler, instantiated by the checker with placeholder values and parsed as Go, satisfy the same width / primitive / JSON-parser rules as the checked-in generated file (E6). The general statement 'for all schemas the generated code implements the schema' is a property of a program's output over all inputs and is NOT decided; see DESIGN.md.",
		assumptions: []string{"text/template iterates maps in sorted key order (documented)"},
	}
}

// generatorDeterminism: map ranges that reach an output sink in iteration order.
func (c *Ctx) generatorDeterminism(rels ...string) {
	const R = "E12.generator-determinism"
	for _, f := range c.moduleFuncs(rels...) {
		for _, b := range f.Blocks {
			for _, in := range b.Instrs {
				rng, ok := in.(*ssa.Range)
				if !ok {
					continue
				}
				if _, isMap := rng.X.Type().Underlying().(*types.Map); !isMap {
					continue
				}
				// loop body = blocks dominated by the block that calls Next on this iterator and reachable back to it
				var next *ssa.Next
				for _, r := range *rng.Referrers() {
					if n, ok := r.(*ssa.Next); ok {
						next = n
					}
				}
				if next == nil {
					continue
				}
				hdr := next.Block()
				body := map[*ssa.BasicBlock]bool{}
				for _, bb := range f.Blocks {
					if hdr.Dominates(bb) && bb != hdr && reachableFrom(bb, nil)[hdr] {
						body[bb] = true
					}
				}
				key := fmt.Sprintf("%s range over %s", fnName(f), shape(rng.X, 3))
				var emits, appends []string
				for bb := range body {
					for _, i2 := range bb.Instrs {
						cl, ok := i2.(*ssa.Call)
						if !ok {
							continue
						}
						q := callQName(&cl.Call)
						switch {
						case strings.HasPrefix(q, "strings.Builder.Write"), strings.HasPrefix(q, "bytes.Buffer.Write"), strings.HasPrefix(q, "fmt.Fprint"), strings.HasPrefix(q, "fmt.Print"), q == "io.WriteString":
							emits = append(emits, shortQ(q)+" at "+c.rel(cl.Pos()))
						}
						if bi, ok := cl.Call.Value.(*ssa.Builtin); ok && bi.Name() == "append" {
							// only slices that live across iterations of THIS loop carry its order: the appended-to
							// value is (a phi of) the map loop's header, or comes from outside the loop
							acc := false
							dst := cl.Call.Args[0]
							if ph, ok := dst.(*ssa.Phi); ok && ph.Block() == hdr {
								acc = true
							}
							if di, ok := dst.(ssa.Instruction); ok && !body[di.Block()] && di.Block() != hdr {
								acc = true
							}
							if _, isParam := dst.(*ssa.Parameter); isParam {
								acc = true
							}
							if u, ok := dst.(*ssa.UnOp); ok {
								// load of a variable/field that outlives the iteration
								if al, ok := u.X.(*ssa.Alloc); !ok || !body[al.Block()] {
									acc = true
								}
							}
							if acc {
								appends = append(appends, c.rel(cl.Pos()))
							}
						}
					}
				}
				sort.Strings(emits)
				sort.Strings(appends)
				switch {
				case len(emits) > 0:
					c.bad(R, key, rng.Pos(), "output is emitted inside a range over a map ("+strings.Join(emits, ", ")+"): two runs of the generator on the same schema can produce different files")
				case len(appends) > 0:
					// the collected slice must be sorted before it is used: some sort call in the function after the loop
					sorted := false
					allInstrs(f, func(_ *ssa.BasicBlock, i3 ssa.Instruction) {
						if cl, ok := i3.(*ssa.Call); ok {
							q := callQName(&cl.Call)
							if strings.HasPrefix(q, "sort.") || strings.HasPrefix(q, "slices.Sort") || strings.HasSuffix(q, "GetOrderedKeys") {
								sorted = true
							}
						}
					})
					// or: the loop is a lookup that leaves at the first match (break / return under a key comparison)
					lookup := loopExitsOnKeyMatch(f, hdr, body, next)
					if sorted || lookup {
						c.ok(R, key, rng.Pos(), "elements collected from the map are sorted before use (or the loop selects one element by key)")
					} else {
						c.bad(R, key, rng.Pos(), "elements are appended to a slice in map iteration order ("+strings.Join(appends, ", ")+") and no sort follows: the order of the generated output depends on the run")
					}
				default:
					c.ok(R, key, rng.Pos(), "the loop only accumulates into maps / selects by key: iteration order does not reach the output")
				}
			}
		}
	}
}

func loopExitsOnKeyMatch(f *ssa.Function, hdr *ssa.BasicBlock, body map[*ssa.BasicBlock]bool, next *ssa.Next) bool {
	for bb := range body {
		if ifi := lastIf(bb); ifi != nil {
			if derivesFrom(ifi.Cond, func(v ssa.Value) bool {
				ex, ok := v.(*ssa.Extract)
				return ok && ex.Tuple == ssa.Value(next) && ex.Index == 1
			}, true) {
				for _, s := range bb.Succs {
					if !body[s] && s != hdr {
						return true
					}
				}
			}
		}
	}
	return false
}

// generatorIDVerbs: constructor ids are formatted with %08x wherever the TL compiler writes them
// into a tlSumType tag, a request-id constant or the decoder table.
func (c *Ctx) generatorIDVerbs() {
	const R = "E12.generator-id-format"
	p := c.pkg("tl/parser")
	if p == nil {
		c.bad(R, "package tl/parser", token.NoPos, "not loaded")
		return
	}
	verb := regexp.MustCompile(`%[0-9]*[xX]`)
	n := 0
	for _, f := range p.Syntax {
		ast.Inspect(f, func(nd ast.Node) bool {
			lit, ok := nd.(*ast.BasicLit)
			if !ok || lit.Kind != token.STRING {
				return true
			}
			s, err := strconv.Unquote(lit.Value)
			if err != nil {
				return true
			}
			if !(strings.Contains(s, "tlSumType") || strings.Contains(s, "0x%") || strings.Contains(s, "uint32(0x")) {
				return true
			}
			for _, v := range verb.FindAllString(s, -1) {
				n++
				c.check(v == "%08x", R, fmt.Sprintf("id verb in %q", abbreviate(strings.TrimSpace(s), 50)), lit.Pos(), "constructor id formatted with %08x", fmt.Sprintf("the TL compiler formats a constructor id with %q in %q: ids with leading zero nibbles would be emitted with fewer than 8 hex digits and the generated request cannot be encoded (tl.encodeTag needs exactly 4 bytes)", v, abbreviate(s, 80)))
			}
			return true
		})
	}
	// the tlSumType tag of a generated wrapper: the text between the quotes must be the id as exactly 8 hex digits.
	// Either the verb there is %08x, or it is %s/%v and the argument is (a local holding / a helper returning)
	// fmt.Sprintf("%08x", id). A pre-formatted "%#x" with the prefix trimmed, "%x", "%d" ... lose the padding.
	anyVerb := regexp.MustCompile(`%[-+# 0]*[0-9]*(\.[0-9]+)?[a-zA-Z%]`)
	nTag := 0
	for _, f := range p.Syntax {
		var fnStack []*ast.FuncDecl
		_ = fnStack
		for _, d := range f.Decls {
			fd, ok := d.(*ast.FuncDecl)
			if !ok || fd.Body == nil {
				continue
			}
			ast.Inspect(fd.Body, func(nd ast.Node) bool {
				call, ok := nd.(*ast.CallExpr)
				if !ok {
					return true
				}
				fi := -1
				format := ""
				for i, a := range call.Args {
					if lit, ok := a.(*ast.BasicLit); ok && lit.Kind == token.STRING {
						if s, err := strconv.Unquote(lit.Value); err == nil && strings.Contains(s, "tlSumType:\"") {
							fi, format = i, s
						}
					}
				}
				if fi < 0 {
					return true
				}
				at := strings.Index(format, "tlSumType:\"") + len("tlSumType:\"")
				// which verb stands right after the opening quote, and which argument feeds it
				argIdx := fi + 1
				verbAt := ""
				for _, loc := range anyVerb.FindAllStringIndex(format, -1) {
					v := format[loc[0]:loc[1]]
					if v == "%%" {
						continue
					}
					if loc[0] == at {
						verbAt = v
						break
					}
					if loc[0] < at {
						argIdx++
					}
				}
				nTag++
				okTag := verbAt == "%08x"
				why := "the tlSumType tag is written with " + strconv.Quote(verbAt)
				if (verbAt == "%s" || verbAt == "%v") && argIdx < len(call.Args) {
					okTag = c.eightHexDigits(p, fd, call.Args[argIdx], 0)
					why = "the tlSumType tag is written with " + verbAt + " from " + types.ExprString(call.Args[argIdx]) + ", which is not fmt.Sprintf(\"%08x\", id)"
				}
				c.check(okTag, R, "tlSumType tag is the id as 8 hex digits in "+fd.Name.Name, call.Pos(), "%08x (directly, or through a value formatted with it)", "the TL compiler: "+why+": ids with leading zero nibbles get fewer than 8 hex digits and the generated request cannot be encoded (tl.encodeTag needs exactly 4 bytes)")
				return true
			})
		}
	}
	c.check(nTag >= 1, R, "tlSumType tag emission found", token.NoPos, fmt.Sprintf("%d site(s)", nTag), "no format string with a tlSumType tag found in tl/parser (anchor moved?)")
	// decoding.tmpl
	b, err := os.ReadFile(filepath.Join(c.RepoDir, "tl", "parser", "decoding.tmpl"))
	if err == nil {
		for _, m := range regexp.MustCompile(`printf "(%[^"]*)"`).FindAllStringSubmatch(string(b), -1) {
			n++
			c.check(m[1] == "%08x", R, "id verb in decoding.tmpl "+m[1], token.NoPos, "constructor id formatted with %08x", "decoding.tmpl formats a constructor id with "+m[1]+" instead of %08x")
		}
	} else {
		c.bad(R, "decoding.tmpl", token.NoPos, "tl/parser/decoding.tmpl not readable")
	}
	_ = n
}

// generatorTemplates: instantiate the integer templates and apply the E6 rules to their AST.
func (c *Ctx) generatorTemplates() {
	const R = "E6.generator-templates"
	p := c.pkg("tlb/parser")
	if p == nil {
		c.bad(R, "package tlb/parser", token.NoPos, "not loaded")
		return
	}
	ctrl := regexp.MustCompile(`\{\{-?\s*(if|else|end)[^}]*\}\}`)
	ph := regexp.MustCompile(`\{\{\s*\.(\w+)\s*\}\}`)
	nT := 0
	for _, f := range p.Syntax {
		ast.Inspect(f, func(nd ast.Node) bool {
			lit, ok := nd.(*ast.BasicLit)
			if !ok || lit.Kind != token.STRING {
				return true
			}
			s, err := strconv.Unquote(lit.Value)
			if err != nil || !strings.Contains(s, "func (u") {
				return true
			}
			var src string
			if strings.Contains(s, "{{.NameIndex}}") {
				src = ctrl.ReplaceAllString(s, "")
				idx := "13"
				if strings.Contains(s, "BigInt") || strings.Contains(s, "BigUint(") && !strings.Contains(s, "VarUInteger") {
					idx = "128" // the big-integer template
				}
				src = ph.ReplaceAllStringFunc(src, func(m string) string {
					switch ph.FindStringSubmatch(m)[1] {
					case "NameIndex":
						return idx
					case "P":
						return "16"
					case "BitsLimit":
						return "12"
					}
					return "0"
				})
			} else if strings.Contains(s, "Bits%v") {
				// Fprintf template: %v placeholders; %% escapes
				src = strings.ReplaceAll(s, "%%", "\x00")
				src = strings.ReplaceAll(src, "%v", "16")
				src = strings.ReplaceAll(src, "\x00", "%")
			} else {
				return true
			}
			nT++
			fs := token.NewFileSet()
			file, err := parser.ParseFile(fs, "template.go", "package x\n"+src, parser.SkipObjectResolution)
			if err != nil {
				c.bad(R, fmt.Sprintf("template #%d parses as Go", nT), lit.Pos(), "the instantiated template is not valid Go: "+err.Error())
				return true
			}
			c.templateRules(R, file, lit.Pos())
			return true
		})
	}
	c.check(nT >= 4, R, "integer templates found", token.NoPos, fmt.Sprintf("%d templates instantiated", nT), fmt.Sprintf("only %d integer templates found in tlb/parser (expected the VarUInteger, small-int, big-int and bits templates)", nT))
}

// templateRules: per method of an instantiated template: primitive called and width literal.
func (c *Ctx) templateRules(rule string, file *ast.File, pos token.Pos) {
	for _, d := range file.Decls {
		fd, ok := d.(*ast.FuncDecl)
		if !ok || fd.Recv == nil || len(fd.Recv.List) != 1 {
			continue
		}
		rt := fd.Recv.List[0].Type
		if st, ok := rt.(*ast.StarExpr); ok {
			rt = st.X
		}
		id, ok := rt.(*ast.Ident)
		if !ok {
			continue
		}
		m := intNameRe.FindStringSubmatch(id.Name)
		if m == nil {
			continue
		}
		fam := m[1]
		N, _ := strconv.Atoi(m[2])
		// calls made: selector name -> last integer literal argument
		calls := map[string][]string{}
		ast.Inspect(fd.Body, func(nd ast.Node) bool {
			call, ok := nd.(*ast.CallExpr)
			if !ok {
				return true
			}
			sel, ok := call.Fun.(*ast.SelectorExpr)
			if !ok {
				return true
			}
			var lits []string
			for _, a := range call.Args {
				if l, ok := a.(*ast.BasicLit); ok && l.Kind == token.INT {
					lits = append(lits, l.Value)
				}
			}
			calls[sel.Sel.Name] = lits
			return true
		})
		key := fmt.Sprintf("template %s.%s", id.Name, fd.Name.Name)
		ns := strconv.Itoa(N)
		has := func(name string, lastLit string) bool {
			l, ok := calls[name]
			if !ok {
				return false
			}
			return lastLit == "" || (len(l) > 0 && l[len(l)-1] == lastLit)
		}
		var okv bool
		var want string
		big := N > 64
		switch fd.Name.Name {
		case "MarshalTLB":
			switch {
			case fam == "Uint" && !big:
				okv, want = has("WriteUint", ns) && !has("WriteInt", ""), "c.WriteUint(_, N)"
			case fam == "Int" && !big:
				okv, want = has("WriteInt", ns) && !has("WriteUint", ""), "c.WriteInt(_, N)"
			case fam == "Uint":
				okv, want = has("WriteBigUint", ns), "c.WriteBigUint(_, N)"
			case fam == "Int":
				okv, want = has("WriteBigInt", ns), "c.WriteBigInt(_, N)"
			case fam == "VarUInteger":
				okv, want = has("WriteLimUint", "12") && has("WriteBytes", ""), "c.WriteLimUint(len, N-1) then WriteBytes"
			default:
				continue
			}
		case "UnmarshalTLB":
			switch {
			case fam == "Uint" && !big:
				okv, want = has("ReadUint", ns) && !has("ReadInt", ""), "c.ReadUint(N)"
			case fam == "Int" && !big:
				okv, want = has("ReadInt", ns) && !has("ReadUint", ""), "c.ReadInt(N)"
			case fam == "Uint":
				okv, want = has("ReadBigUint", ns), "c.ReadBigUint(N)"
			case fam == "Int":
				okv, want = has("ReadBigInt", ns), "c.ReadBigInt(N)"
			case fam == "VarUInteger":
				okv, want = has("ReadLimUint", "12") && has("ReadBigUint", ""), "c.ReadLimUint(N-1) then ReadBigUint(len*8)"
			default:
				continue
			}
		case "FixedSize":
			okv = false
			ast.Inspect(fd.Body, func(nd ast.Node) bool {
				if r, ok := nd.(*ast.ReturnStmt); ok && len(r.Results) == 1 {
					if l, ok := r.Results[0].(*ast.BasicLit); ok && l.Value == ns {
						okv = true
					}
				}
				return true
			})
			want = "return N"
		case "UnmarshalJSON":
			switch {
			case fam == "Uint" && !big:
				okv, want = has("ParseUint", ns) && !has("ParseInt", ""), "strconv.ParseUint(s, 10, N)"
			case fam == "Int" && !big:
				okv, want = has("ParseInt", ns) && !has("ParseUint", ""), "strconv.ParseInt(s, 10, N)"
			case fam == "Bits":
				okv, want = has("DecodeString", ""), "hex.DecodeString"
			default:
				okv, want = has("SetString", "10"), "SetString(s, 10)"
			}
		default:
			continue
		}
		c.check(okv, rule, key, pos, "template emits "+want, fmt.Sprintf("the generator template for %s.%s does not emit %s (calls found: %v): regenerating tlb/integers.go would produce a codec that breaks the declared width / signedness", id.Name, fd.Name.Name, want, calls))
	}
}

// generatorIsolation: two runs of a generator in one process give the same output only if no
// run can modify state another run reads. Package-level maps/slices of defaults must not be
// aliased into a generator object (stored into a field, returned, captured) - they are copied - and
// are not updated outside init.
func (c *Ctx) generatorIsolation(rels ...string) {
	const R = "E12.generator-isolation"
	isAggregate := func(t types.Type) bool {
		switch t.Underlying().(type) {
		case *types.Map, *types.Slice:
			return true
		}
		return false
	}
	n := 0
	for _, f := range c.moduleFuncs(rels...) {
		allInstrs(f, func(_ *ssa.BasicBlock, in ssa.Instruction) {
			switch x := in.(type) {
			case *ssa.Store:
				// field/element <- *global   (aliasing a package-level aggregate into an object)
				if ld, ok := x.Val.(*ssa.UnOp); ok && ld.Op == token.MUL {
					if g, ok := ld.X.(*ssa.Global); ok && isAggregate(ld.Type()) && g.Pkg != nil && strings.HasPrefix(g.Pkg.Pkg.Path(), modPath) {
						if _, isField := x.Addr.(*ssa.FieldAddr); isField {
							n++
							c.bad(R, fnName(f)+" aliases package-level "+g.Name()+" into an object", x.Pos(), fmt.Sprintf("%s stores the package-level %s itself into a field: updates made through one generator (options that add or override entries) change what every later generator starts from, so generating the same schema twice in one process gives different code; copy it (maps.Clone)", fnName(f), g.Name()))
						}
					}
				}
			case *ssa.MapUpdate:
				// direct update of a package-level map outside init
				if ld, ok := x.Map.(*ssa.UnOp); ok && ld.Op == token.MUL {
					if g, ok := ld.X.(*ssa.Global); ok && f.Name() != "init" && !strings.HasPrefix(f.Name(), "init#") && g.Pkg != nil && strings.HasPrefix(g.Pkg.Pkg.Path(), modPath) {
						n++
						c.bad(R, fnName(f)+" updates package-level "+g.Name(), x.Pos(), fmt.Sprintf("%s writes the package-level map %s at run time: generator runs in one process are no longer independent", fnName(f), g.Name()))
					}
				}
			case *ssa.Call:
				// the defaults are copied where a generator is created
				if q := callQName(&x.Call); strings.HasSuffix(q, "maps.Clone") || strings.Contains(q, "maps.Clone[") {
					if ld, ok := x.Call.Args[0].(*ssa.UnOp); ok {
						if g, ok := ld.X.(*ssa.Global); ok {
							n++
							c.ok(R, fnName(f)+" copies package-level "+g.Name(), x.Pos(), "maps.Clone of the defaults: the generator owns its table")
						}
					}
				}
			}
		})
	}
	c.floor(R, 1)
	_ = n
}

// generatorOutputFiles: a generator that writes its result over an existing file must replace it:
// os.Create, or os.OpenFile with O_TRUNC (or O_EXCL / O_APPEND stated on purpose). Opening with
// O_WRONLY|O_CREATE alone leaves the tail of a longer previous output in place - the second run
// over a shrunk schema yields a file that does not compile and differs from a fresh run.
func (c *Ctx) generatorOutputFiles(rels ...string) {
	const R = "E12.generator-isolation"
	n := 0
	for _, f := range c.moduleFuncs(rels...) {
		for _, cl := range callsTo(f, "os.OpenFile") {
			flags, ok := constInt(cl.Call.Args[1])
			if !ok {
				continue
			}
			const oWRONLY, oRDWR, oAPPEND, oCREATE, oEXCL, oTRUNC = 0x1, 0x2, 0x400, 0x40, 0x80, 0x200
			if flags&(oWRONLY|oRDWR) == 0 {
				continue
			}
			n++
			c.check(flags&(oTRUNC|oAPPEND|oEXCL) != 0, R, fnName(f)+": output file is replaced, not overwritten in place", cl.Pos(), "O_TRUNC (or O_EXCL/O_APPEND) present", fnName(f)+" opens its output with os.OpenFile for writing without O_TRUNC: writing a shorter result over a longer previous one leaves the old tail in the file (generated code that does not compile; two runs from the same schema differ)")
		}
	}
	_ = n
}

// eightHexDigits: expression e (in function fd of package p) is a string produced by fmt.Sprintf("%08x", _):
// the call itself, a local assigned once from it, or a call of a package function all of whose returns are.
func (c *Ctx) eightHexDigits(p *packages.Package, fd *ast.FuncDecl, e ast.Expr, depth int) bool {
	if depth > 3 {
		return false
	}
	switch x := e.(type) {
	case *ast.ParenExpr:
		return c.eightHexDigits(p, fd, x.X, depth+1)
	case *ast.CallExpr:
		if sel, ok := x.Fun.(*ast.SelectorExpr); ok {
			if id, ok := sel.X.(*ast.Ident); ok && id.Name == "fmt" && sel.Sel.Name == "Sprintf" && len(x.Args) == 2 {
				if lit, ok := x.Args[0].(*ast.BasicLit); ok {
					s, _ := strconv.Unquote(lit.Value)
					return s == "%08x"
				}
			}
			return false
		}
		if id, ok := x.Fun.(*ast.Ident); ok {
			for _, f := range p.Syntax {
				for _, d := range f.Decls {
					g, ok := d.(*ast.FuncDecl)
					if !ok || g.Recv != nil || g.Name.Name != id.Name || g.Body == nil {
						continue
					}
					okAll, n := true, 0
					ast.Inspect(g.Body, func(nd ast.Node) bool {
						if _, isLit := nd.(*ast.FuncLit); isLit {
							return false
						}
						if r, ok := nd.(*ast.ReturnStmt); ok {
							n++
							if len(r.Results) != 1 || !c.eightHexDigits(p, g, r.Results[0], depth+1) {
								okAll = false
							}
						}
						return true
					})
					return okAll && n > 0
				}
			}
		}
	case *ast.Ident:
		obj := p.TypesInfo.Uses[x]
		if obj == nil {
			return false
		}
		var rhs []ast.Expr
		ast.Inspect(fd.Body, func(nd ast.Node) bool {
			switch st := nd.(type) {
			case *ast.AssignStmt:
				for i, l := range st.Lhs {
					if li, ok := l.(*ast.Ident); ok && (p.TypesInfo.Defs[li] == obj || p.TypesInfo.Uses[li] == obj) {
						if len(st.Rhs) == len(st.Lhs) {
							rhs = append(rhs, st.Rhs[i])
						} else {
							rhs = append(rhs, nil)
						}
					}
				}
			case *ast.ValueSpec:
				for i, n := range st.Names {
					if p.TypesInfo.Defs[n] == obj {
						if i < len(st.Values) {
							rhs = append(rhs, st.Values[i])
						} else {
							rhs = append(rhs, nil)
						}
					}
				}
			}
			return true
		})
		if len(rhs) != 1 || rhs[0] == nil {
			return false
		}
		return c.eightHexDigits(p, fd, rhs[0], depth+1)
	}
	return false
}

// generatorRefTag: the TL-B compiler marks a field that is an unnamed cell reference (^T, ^[ ... ]) with the
// struct tag "^" - otherwise the reflection codec inlines the referenced content into the parent cell. The tag is
// written in fieldDefinitionsToStruct; the constant must be used where the FIELD is known to be a reference
// (FieldDefinition.CellRef != nil), not where some other value that also has a CellRef member is.
func (c *Ctx) generatorRefTag() {
	const R = "E12.generator-ref-tag"
	f := c.mustFn(R, "tlb/parser", "fieldDefinitionsToStruct")
	if f == nil {
		return
	}
	isRefTag := func(v ssa.Value) bool {
		s, ok := constString(v)
		return ok && (s == "^" || strings.Contains(s, "tlb:\"^\""))
	}
	n := 0
	// (the type-expression level, toGolangType, has its own "^" for ^T inside a type; this rule is about the field)
	for _, g := range []*ssa.Function{f} {
		allInstrs(g, func(b *ssa.BasicBlock, in ssa.Instruction) {
			for i, op := range in.Operands(nil) {
				if op == nil || *op == nil || !isRefTag(*op) {
					continue
				}
				at := b
				if ph, ok := in.(*ssa.Phi); ok && i < len(ph.Edges) {
					at = b.Preds[i]
				}
				n++
				okv := false
				for _, ft := range factsAt(g, at) {
					bo, ok := ft.Cond.(*ssa.BinOp)
					if !ok || !((bo.Op == token.NEQ && ft.Truth) || (bo.Op == token.EQL && !ft.Truth)) {
						continue
					}
					x := bo.X
					if isNilConst(x) {
						x = bo.Y
					} else if !isNilConst(bo.Y) {
						continue
					}
					if ld, ok := x.(*ssa.UnOp); ok && ld.Op == token.MUL {
						x = ld.X
					}
					if tn, fn, ok := fieldOf(x); ok && fn == "CellRef" && strings.HasSuffix(tn, ".FieldDefinition") {
						okv = true
					}
				}
				c.check(okv, R, "the reference tag is written for fields that are cell references", in.Pos(), "\"^\" used under FieldDefinition.CellRef != nil", "fieldDefinitionsToStruct writes the \"^\" struct tag under a condition that does not test the field's own CellRef (FieldDefinition.CellRef != nil): an unnamed reference field ^T / ^[...] loses its tag and the generated type encodes the referenced content inline")
			}
		})
	}
	c.check(n >= 1, R, "reference tag emission found", f.Pos(), fmt.Sprintf("%d use(s) of the \"^\" tag", n), "fieldDefinitionsToStruct no longer writes a \"^\" tag for unnamed reference fields (anchor moved?)")
}
