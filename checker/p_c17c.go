package main

import (
	"fmt"
	"go/token"
	"go/types"

	"golang.org/x/tools/go/ssa"
)

// readerAdmitsTags: writer/reader agreement on the *set of values* of the first byte. For every tag
// value the writer can produce, the reader's success return must stay reachable when every branch
// condition that folds to a constant under "first byte of the decoded slice = tag" is decided and every
// other condition is left open (both edges). A reader that tests the tag byte more narrowly than the
// writer writes it loses its success path for some writer tag: a necessary condition of the round trip.
// Conditions that do not fold are never decided, so the rule cannot fire on code that does not compare
// the tag byte with constants.
func (c *Ctx) readerAdmitsTags(rule string, f *ssa.Function, errIdx int, tags []int64) {
	isTag := func(v ssa.Value) bool {
		if !isIndexLoad(0)(v) {
			return false
		}
		ia := v.(*ssa.UnOp).X.(*ssa.IndexAddr)
		sl, ok := ia.X.Type().Underlying().(*types.Slice)
		if !ok {
			return false
		}
		b, ok := sl.Elem().Underlying().(*types.Basic)
		return ok && b.Kind() == types.Uint8
	}
	var fold func(v ssa.Value, tag int64, d int) (int64, bool)
	fold = func(v ssa.Value, tag int64, d int) (int64, bool) {
		if d > 8 {
			return 0, false
		}
		if k, ok := constInt(v); ok {
			return k, true
		}
		if isTag(v) {
			return tag, true
		}
		switch x := v.(type) {
		case *ssa.Convert:
			k, ok := fold(x.X, tag, d+1)
			if !ok || k < 0 {
				return 0, false
			}
			b, ok := x.Type().Underlying().(*types.Basic)
			if !ok || b.Info()&types.IsInteger == 0 {
				return 0, false
			}
			switch b.Kind() {
			case types.Int8:
				if k > 127 {
					return 0, false
				}
			case types.Uint8:
				if k > 255 {
					return 0, false
				}
			}
			return k, true
		case *ssa.BinOp:
			a, ok1 := fold(x.X, tag, d+1)
			b, ok2 := fold(x.Y, tag, d+1)
			if !ok1 || !ok2 || a < 0 || b < 0 {
				return 0, false
			}
			switch x.Op {
			case token.AND:
				return a & b, true
			case token.OR:
				return a | b, true
			case token.XOR:
				return a ^ b, true
			case token.AND_NOT:
				return a &^ b, true
			case token.SHR:
				if b < 63 {
					return a >> uint(b), true
				}
			}
		}
		return 0, false
	}
	var decide func(v ssa.Value, tag int64) (bool, bool)
	decide = func(v ssa.Value, tag int64) (bool, bool) {
		switch x := v.(type) {
		case *ssa.UnOp:
			if x.Op == token.NOT {
				r, ok := decide(x.X, tag)
				return !r, ok
			}
		case *ssa.BinOp:
			a, ok1 := fold(x.X, tag, 0)
			b, ok2 := fold(x.Y, tag, 0)
			if !ok1 || !ok2 {
				return false, false
			}
			switch x.Op {
			case token.EQL:
				return a == b, true
			case token.NEQ:
				return a != b, true
			case token.LSS:
				return a < b, true
			case token.LEQ:
				return a <= b, true
			case token.GTR:
				return a > b, true
			case token.GEQ:
				return a >= b, true
			}
		}
		return false, false
	}
	reach := func(tag int64, constrained bool) (bool, int) {
		if len(f.Blocks) == 0 {
			return false, 0
		}
		seen := map[*ssa.BasicBlock]bool{f.Blocks[0]: true}
		work := []*ssa.BasicBlock{f.Blocks[0]}
		decided := 0
		for len(work) > 0 {
			b := work[len(work)-1]
			work = work[:len(work)-1]
			if len(b.Instrs) == 0 {
				continue
			}
			succs := b.Succs
			switch t := b.Instrs[len(b.Instrs)-1].(type) {
			case *ssa.Return:
				if errIdx < len(t.Results) && isNilConst(t.Results[errIdx]) {
					return true, decided
				}
			case *ssa.If:
				if constrained && len(b.Succs) == 2 {
					if r, ok := decide(t.Cond, tag); ok {
						decided++
						if r {
							succs = b.Succs[:1]
						} else {
							succs = b.Succs[1:]
						}
					}
				}
			}
			for _, s := range succs {
				if !seen[s] {
					seen[s] = true
					work = append(work, s)
				}
			}
		}
		return false, decided
	}
	base, _ := reach(0, false)
	for _, tag := range tags {
		ok, n := reach(tag, true)
		c.check(!base || ok, rule, fmt.Sprintf("%s admits the writer's tag 0x%02x", f.Name(), tag), f.Pos(),
			fmt.Sprintf("success return reachable with the %d branch condition(s) on the first decoded byte decided for tag 0x%02x (all other conditions open)", n, tag),
			fmt.Sprintf("%s cannot return success for a first byte 0x%02x, a tag the writer (ToHuman: 0x11 | 0x80 if testnet | 0x40 if not bounceable) produces: its tests of the tag byte are narrower than the set of tags written", f.Name(), tag))
	}
}
