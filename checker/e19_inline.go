package main

import (
	"golang.org/x/tools/go/ssa"
)

// E19: the inlined view of a function. A rule that reads "the function writes A, then B" or "the
// value stored is derived from X" must not care whether a step sits in the anchor function or in a
// small unexported helper it calls (extract-method refactorings move code both ways). The view lists
// the instructions of the anchor and of the helpers it calls (same package, unexported, not
// recursive, not one of the rule's own named primitives), each with the call chain that leads to it;
// values inside a helper are resolved back to the anchor's values through the arguments.

type vctx struct {
	parent *vctx
	site   *ssa.Call // the call in parent.fn (or the root) that enters fn
	fn     *ssa.Function
}

type vinstr struct {
	in ssa.Instruction
	cx *vctx
}

// top: the instruction of the root function under which this one runs (itself, or the outermost call site)
func (v vinstr) top() ssa.Instruction {
	in := v.in
	for cx := v.cx; cx != nil && cx.site != nil; cx = cx.parent {
		in = cx.site
	}
	return in
}

// inlineView lists f's instructions with those of its helpers; stop names functions that are not entered.
func (c *Ctx) inlineView(f *ssa.Function, depth int, stop func(*ssa.Function) bool) []vinstr {
	var out []vinstr
	var walk func(g *ssa.Function, cx *vctx, d int)
	walk = func(g *ssa.Function, cx *vctx, d int) {
		for _, b := range g.Blocks {
			for _, in := range b.Instrs {
				out = append(out, vinstr{in, cx})
				cl, ok := in.(*ssa.Call)
				if !ok || d == 0 {
					continue
				}
				h := plainHelper(cl.Call.StaticCallee())
				if h == nil || h.Pkg != f.Pkg || (stop != nil && stop(h)) {
					continue
				}
				rec := false
				for p := cx; p != nil; p = p.parent {
					if p.fn == h {
						rec = true
					}
				}
				if rec || h == f {
					continue
				}
				walk(h, &vctx{parent: cx, site: cl, fn: h}, d-1)
			}
		}
	}
	walk(f, &vctx{fn: f}, depth)
	return out
}

// resolve maps a value seen inside a helper to the caller's value when it is one of the helper's
// parameters (repeatedly, up to the root).
func resolveVal(v ssa.Value, cx *vctx) (ssa.Value, *vctx) {
	for cx != nil && cx.site != nil {
		p, ok := v.(*ssa.Parameter)
		if !ok || p.Parent() != cx.fn {
			break
		}
		idx := -1
		for i, q := range cx.fn.Params {
			if q == p {
				idx = i
			}
		}
		if idx < 0 || idx >= len(cx.site.Call.Args) {
			break
		}
		v, cx = cx.site.Call.Args[idx], cx.parent
	}
	return v, cx
}

// resolveDeep strips conversions and resolves parameters alternately.
func resolveDeep(v ssa.Value, cx *vctx) (ssa.Value, *vctx) {
	for i := 0; i < 8; i++ {
		w := stripConv(v)
		w2, cx2 := resolveVal(w, cx)
		if w2 == v && cx2 == cx {
			break
		}
		v, cx = w2, cx2
	}
	return v, cx
}

// helperReturns: when v is the (single) result of a call to a plain helper of the same package,
// the values the helper can return, each with the context to resolve it in; otherwise v itself.
func helperReturns(v ssa.Value, cx *vctx, stop func(*ssa.Function) bool) []struct {
	v  ssa.Value
	cx *vctx
} {
	type vc = struct {
		v  ssa.Value
		cx *vctx
	}
	cl, ok := v.(*ssa.Call)
	if !ok {
		return []vc{{v, cx}}
	}
	h := plainHelper(cl.Call.StaticCallee())
	if h == nil || (stop != nil && stop(h)) || h.Signature.Results().Len() != 1 {
		return []vc{{v, cx}}
	}
	sub := &vctx{parent: cx, site: cl, fn: h}
	var out []vc
	for _, r := range returnsOf(h) {
		rv := unspill(r.Results[0])
		if phi, ok := rv.(*ssa.Phi); ok {
			for _, e := range phi.Edges {
				out = append(out, vc{e, sub})
			}
		} else {
			out = append(out, vc{rv, sub})
		}
	}
	return out
}

// orderedWithin reports whether instruction a can run before b in one pass through the region of f
// whose back edges into header are cut (one iteration of the loop with that header): b is reachable
// from a without re-entering the header.
func orderedWithin(f *ssa.Function, header *ssa.BasicBlock, a, b ssa.Instruction) bool {
	if a.Block() == b.Block() {
		if before(a, b) && a != b {
			return true
		}
	}
	cut := map[edge]bool{}
	if header != nil {
		for _, p := range header.Preds {
			for i, s := range p.Succs {
				if s == header {
					cut[edge{p, i}] = true
				}
			}
		}
	}
	// reachability from a's block successors
	seen := map[*ssa.BasicBlock]bool{}
	var stack []*ssa.BasicBlock
	push := func(from *ssa.BasicBlock) {
		for i, s := range from.Succs {
			if cut[edge{from, i}] || seen[s] {
				continue
			}
			seen[s] = true
			stack = append(stack, s)
		}
	}
	push(a.Block())
	for len(stack) > 0 {
		x := stack[len(stack)-1]
		stack = stack[:len(stack)-1]
		push(x)
	}
	return seen[b.Block()]
}

// valueSources: the values v can be, expanded through phis and through the results of unexported
// in-module helpers (what the code computes after inlining them back). A rule that demands a
// property of EVERY possible source uses this; derivesFrom answers whether SOME source has it.
func valueSources(v ssa.Value, depth int) []ssa.Value {
	seen := map[ssa.Value]bool{}
	var out []ssa.Value
	var rec func(v ssa.Value, d int)
	rec = func(v ssa.Value, d int) {
		if seen[v] {
			return
		}
		seen[v] = true
		if d > 0 {
			switch x := v.(type) {
			case *ssa.Phi:
				for _, e := range x.Edges {
					rec(e, d)
				}
				return
			case *ssa.Call:
				if h := plainHelper(x.Call.StaticCallee()); h != nil && h.Signature.Results().Len() == 1 {
					for _, r := range returnsOf(h) {
						rec(unspill(r.Results[0]), d-1)
					}
					return
				}
			case *ssa.Extract:
				if cl, ok := x.Tuple.(*ssa.Call); ok {
					if h := plainHelper(cl.Call.StaticCallee()); h != nil && x.Index < h.Signature.Results().Len() {
						for _, r := range returnsOf(h) {
							if x.Index < len(r.Results) {
								rec(unspill(r.Results[x.Index]), d-1)
							}
						}
						return
					}
				}
			}
		}
		out = append(out, v)
	}
	rec(v, depth)
	return out
}

// deepFns: f and the unexported helpers of its package that it calls (two levels): the code of f
// as it reads with those helpers inlined back. Opt-in for rules that scan an anchor function.
func (c *Ctx) deepFns(f *ssa.Function) []*ssa.Function {
	if f == nil {
		return nil
	}
	return c.helperClosure(f, 2, func(h *ssa.Function) bool { return plainHelper(h) == nil })
}

func (c *Ctx) allInstrsDeep(f *ssa.Function, fn func(b *ssa.BasicBlock, i ssa.Instruction)) {
	for _, g := range c.deepFns(f) {
		allInstrs(g, fn)
	}
}

func (c *Ctx) callsToDeep(f *ssa.Function, q string) []*ssa.Call {
	var out []*ssa.Call
	for _, g := range c.deepFns(f) {
		out = append(out, callsTo(g, q)...)
	}
	return out
}
