package main

import (
	"encoding/json"
	"fmt"
	"go/token"
	"go/types"
	"os"
	"path/filepath"
	"regexp"
	"sort"
	"strings"
	"time"

	"golang.org/x/tools/go/callgraph"
	"golang.org/x/tools/go/callgraph/cha"
	"golang.org/x/tools/go/callgraph/vta"
	"golang.org/x/tools/go/packages"
	"golang.org/x/tools/go/ssa"
	"golang.org/x/tools/go/ssa/ssautil"
)

const modPath = "github.com/tonkeeper/tongo"

// Obl is one proof obligation: a (rule, construct) pair examined on this run.
type Obl struct {
	Rule   string `json:"rule"`
	Key    string `json:"key"`
	Pos    string `json:"pos"`
	Status string `json:"status"` // discharged | violation | known | exception
	How    string `json:"how,omitempty"`
	What   string `json:"what,omitempty"`
	Triv   bool   `json:"-"`
}

type ruleStat struct {
	instances, discharged, exceptions, findings, known int
	floor                                              int
}

// Ctx is the loaded program plus the obligation ledger of one property run.
type Ctx struct {
	Prop        string
	Tier        string
	RepoDir     string
	VerifDir    string
	Fset        *token.FileSet
	Roots       []*packages.Package
	ByPath      map[string]*packages.Package
	Prog        *ssa.Program
	SSA         map[string]*ssa.Package
	cg          *callgraph.Graph
	cgKind      string
	Obls        []*Obl
	keys        map[string]int
	floors      map[string]int
	order       []string
	known       []knownFinding
	notes       []string
	start       time.Time
	nFuncs      int
	rangeMemo   map[*ssa.Function][4]int64
	roleMemo    map[string]*ssa.Function
	mapMemo     map[*ssa.Global]map[int64]int64
	proverPre   func(p *proverCtx)
	assignDepth int
	rangeBusy   map[*ssa.Function]bool
	lenMemo     map[any][2]int64
}

type knownFinding struct {
	Property  string `json:"property"`
	Rule      string `json:"rule"`
	Key       string `json:"key"`
	WhatFails string `json:"what_fails"`
	Status    string `json:"status"`
}

func (c *Ctx) rel(p token.Pos) string {
	if !p.IsValid() {
		return "-"
	}
	pos := c.Fset.Position(p)
	f := pos.Filename
	if r, err := filepath.Rel(c.RepoDir, f); err == nil && !strings.HasPrefix(r, "..") {
		f = r
	}
	return fmt.Sprintf("%s:%d", f, pos.Line)
}

func (c *Ctx) add(rule, key string, pos token.Pos, status, how, what string, triv bool) *Obl {
	full := rule + "|" + key
	c.keys[full]++
	if n := c.keys[full]; n > 1 {
		full = fmt.Sprintf("%s#%d", full, n)
	}
	o := &Obl{Rule: rule, Key: full, Pos: c.rel(pos), Status: status, How: how, What: what, Triv: triv}
	if _, ok := c.floors[rule]; !ok {
		c.floors[rule] = 0
		c.order = append(c.order, rule)
	}
	c.Obls = append(c.Obls, o)
	return o
}

// ok records a discharged obligation.
func (c *Ctx) ok(rule, key string, pos token.Pos, how string) {
	c.add(rule, key, pos, "discharged", how, "", false)
}

// okTriv records an obligation discharged by a trivial argument (constant index into array etc).
func (c *Ctx) okTriv(rule, key string, pos token.Pos, how string) {
	c.add(rule, key, pos, "discharged", how, "", true)
}

// exc records an obligation discharged through a per-construct exception with a reason.
func (c *Ctx) exc(rule, key string, pos token.Pos, reason string) {
	c.add(rule, key, pos, "exception", reason, "", false)
}

// bad records an undischarged obligation (a violation unless listed as a known finding).
func (c *Ctx) bad(rule, key string, pos token.Pos, what string) {
	c.add(rule, key, pos, "violation", "", what, false)
}

// check is ok/bad by condition.
func (c *Ctx) check(cond bool, rule, key string, pos token.Pos, how, what string) bool {
	if cond {
		c.ok(rule, key, pos, how)
	} else {
		c.bad(rule, key, pos, what)
	}
	return cond
}

// floor demands at least n instances of rule (no vacuous pass).
func (c *Ctx) floor(rule string, n int) {
	if _, ok := c.floors[rule]; !ok {
		c.order = append(c.order, rule)
	}
	c.floors[rule] = n
}

func (c *Ctx) note(f string, a ...any) { c.notes = append(c.notes, fmt.Sprintf(f, a...)) }

func repoDir() string {
	if d := os.Getenv("TONGO_REPO"); d != "" {
		return d
	}
	return "/repo"
}

func verifDir() string {
	if d := os.Getenv("VERIF_DIR"); d != "" {
		return d
	}
	return "/verif"
}

// load parses, type-checks and lowers /repo's current working tree to SSA.
func load(overlay map[string][]byte) (*Ctx, error) {
	c := &Ctx{RepoDir: repoDir(), VerifDir: verifDir(), keys: map[string]int{}, floors: map[string]int{}, start: time.Now()}
	env := append(os.Environ(), "GOWORK=off", "GOFLAGS=-mod=mod", "GOPROXY=off", "GOSUMDB=off", "GOTOOLCHAIN=local", "CGO_ENABLED=1")
	cfg := &packages.Config{
		Mode:    packages.LoadAllSyntax,
		Dir:     c.RepoDir,
		Env:     env,
		Tests:   false,
		Overlay: overlay,
	}
	pkgs, err := packages.Load(cfg, "./...")
	if err != nil {
		return nil, fmt.Errorf("load: %w", err)
	}
	if len(pkgs) < 40 {
		return nil, fmt.Errorf("load: only %d root packages (expected >= 40)", len(pkgs))
	}
	var errs []string
	packages.Visit(pkgs, nil, func(p *packages.Package) {
		for _, e := range p.Errors {
			errs = append(errs, e.Error())
		}
	})
	if len(errs) > 0 {
		if len(errs) > 10 {
			errs = errs[:10]
		}
		return nil, fmt.Errorf("load: type errors: %s", strings.Join(errs, "; "))
	}
	c.Roots = pkgs
	c.Fset = pkgs[0].Fset
	c.ByPath = map[string]*packages.Package{}
	packages.Visit(pkgs, nil, func(p *packages.Package) { c.ByPath[p.PkgPath] = p })
	prog, spkgs := ssautil.AllPackages(pkgs, ssa.InstantiateGenerics)
	prog.Build()
	c.Prog = prog
	c.SSA = map[string]*ssa.Package{}
	for i, p := range pkgs {
		if spkgs[i] != nil {
			c.SSA[p.PkgPath] = spkgs[i]
		}
	}
	for _, p := range prog.AllPackages() {
		if _, ok := c.SSA[p.Pkg.Path()]; !ok {
			c.SSA[p.Pkg.Path()] = p
		}
	}
	buildCallSites(prog)
	return c, nil
}

// CG returns the call graph for the tier (CHA for quick, VTA for thorough).
func (c *Ctx) CG() *callgraph.Graph {
	if c.cg != nil {
		return c.cg
	}
	g := cha.CallGraph(c.Prog)
	c.cgKind = "cha"
	if c.Tier == "thorough" {
		g = vta.CallGraph(ssautil.AllFunctions(c.Prog), g)
		c.cgKind = "vta(cha)"
	}
	c.cg = g
	return g
}

// pkg returns the types.Package for a module-relative path ("boc", "liteapi/pool", "" for root).
func (c *Ctx) pkg(rel string) *packages.Package {
	p := modPath
	if rel != "" {
		p += "/" + rel
	}
	return c.ByPath[p]
}

func (c *Ctx) spkg(rel string) *ssa.Package {
	p := modPath
	if rel != "" {
		p += "/" + rel
	}
	return c.SSA[p]
}

// fn resolves "Name" or "Recv.Name" in a module-relative package to its SSA function.
// Generic functions resolve to their origin (type-parameterised) body.
func (c *Ctx) fn(rel, name string) *ssa.Function {
	if f := c.fnByName(rel, name); f != nil && len(f.Blocks) > 0 {
		return f
	}
	// an unexported anchor that was renamed: found again by what it does (E20 roles)
	if r, ok := roleResolvers[rel+":"+name]; ok {
		if c.roleMemo == nil {
			c.roleMemo = map[string]*ssa.Function{}
		}
		if f, done := c.roleMemo[rel+":"+name]; done {
			return f
		}
		c.roleMemo[rel+":"+name] = nil
		f := r(c)
		c.roleMemo[rel+":"+name] = f
		return f
	}
	return c.fnByName(rel, name)
}

func (c *Ctx) fnByName(rel, name string) *ssa.Function {
	p := c.pkg(rel)
	if p == nil {
		return nil
	}
	var obj types.Object
	if i := strings.Index(name, "."); i >= 0 {
		tn := p.Types.Scope().Lookup(name[:i])
		if tn == nil {
			return nil
		}
		named, ok := tn.Type().(*types.Named)
		if !ok {
			return nil
		}
		for j := 0; j < named.NumMethods(); j++ {
			if named.Method(j).Name() == name[i+1:] {
				obj = named.Method(j)
			}
		}
	} else {
		obj = p.Types.Scope().Lookup(name)
	}
	f, ok := obj.(*types.Func)
	if !ok || f == nil {
		return nil
	}
	return c.Prog.FuncValue(f)
}

// mustFn is fn but records an unresolved-anchor violation when missing.
func (c *Ctx) mustFn(rule, rel, name string) *ssa.Function {
	f := c.fn(rel, name)
	if f == nil || len(f.Blocks) == 0 {
		c.bad(rule, "anchor "+rel+"."+name, token.NoPos, "anchor function "+rel+"."+name+" not found or has no body (renamed/removed?) - property cannot be decided")
		return nil
	}
	return f
}

func fnName(f *ssa.Function) string {
	if f == nil {
		return "<nil>"
	}
	s := f.RelString(nil)
	s = strings.ReplaceAll(s, modPath+"/", "")
	s = strings.ReplaceAll(s, modPath, "tongo")
	return s
}

func inModule(f *ssa.Function) bool {
	if f == nil {
		return false
	}
	p := f.Pkg
	if p == nil && f.Origin() != nil {
		p = f.Origin().Pkg
	}
	if p == nil {
		if f.Parent() != nil {
			return inModule(f.Parent())
		}
		return false
	}
	return strings.HasPrefix(p.Pkg.Path(), modPath)
}

func pkgRel(f *ssa.Function) string {
	for f != nil && f.Parent() != nil {
		f = f.Parent()
	}
	if f == nil {
		return ""
	}
	p := f.Pkg
	if p == nil && f.Origin() != nil {
		p = f.Origin().Pkg
	}
	if p == nil {
		return ""
	}
	s := strings.TrimPrefix(p.Pkg.Path(), modPath)
	return strings.TrimPrefix(s, "/")
}

// ---------------------------------------------------------------------------
// finishing: known findings, evidence, exit code

func (c *Ctx) loadKnown() {
	b, err := os.ReadFile(filepath.Join(c.VerifDir, "known_findings.json"))
	if err != nil {
		return
	}
	var kf struct {
		Findings []knownFinding `json:"findings"`
	}
	if err := json.Unmarshal(b, &kf); err != nil {
		fmt.Fprintf(os.Stderr, "known_findings.json: %v\n", err)
		os.Exit(2)
	}
	c.known = kf.Findings
}

type evidence struct {
	PropertyID  string         `json:"property_id"`
	Tier        string         `json:"tier"`
	Seed        int            `json:"seed"`
	Level       string         `json:"level"`
	Coverage    map[string]any `json:"coverage"`
	Assumptions []string       `json:"assumptions"`
	WallS       float64        `json:"wall_s"`
	Violations  int            `json:"violations"`
}

type propInfo struct {
	explanation string
	assumptions []string
	trusted     []string
}

func (c *Ctx) finish(info propInfo) int {
	c.loadKnown()
	stats := map[string]*ruleStat{}
	for _, r := range c.order {
		stats[r] = &ruleStat{floor: c.floors[r]}
	}
	nviol := 0
	var viol []*Obl
	for _, o := range c.Obls {
		st := stats[o.Rule]
		st.instances++
		switch o.Status {
		case "discharged":
			st.discharged++
		case "exception":
			st.exceptions++
		case "violation":
			matched := false
			for _, k := range c.known {
				if k.Property == c.Prop && k.Status == "known" && k.Key == o.Key {
					matched = true
					o.Status = "known"
					o.How = k.WhatFails
					st.known++
					fmt.Printf("KNOWN-FINDING: property=%s %s [%s at %s]\n", c.Prop, k.WhatFails, o.Key, o.Pos)
				}
			}
			if !matched {
				st.findings++
				viol = append(viol, o)
			}
		}
	}
	// floors
	for _, r := range c.order {
		st := stats[r]
		if st.instances < st.floor {
			o := &Obl{Rule: r, Key: r + "|floor", Pos: "-", Status: "violation",
				What: fmt.Sprintf("rule %s matched %d instances, below the floor %d confirmed on the pinned tree: an anchor construct disappeared or is no longer recognised (rule would pass vacuously)", r, st.instances, st.floor)}
			st.findings++
			viol = append(viol, o)
			c.Obls = append(c.Obls, o)
		}
	}
	for _, r := range c.order {
		st := stats[r]
		fmt.Printf("rule=%s instances=%d discharged=%d exceptions=%d known=%d findings=%d floor=%d\n", r, st.instances, st.discharged, st.exceptions, st.known, st.findings, st.floor)
	}
	for _, n := range c.notes {
		fmt.Println("note:", n)
	}
	replayDir := filepath.Join(c.VerifDir, "evidence", "replay")
	os.MkdirAll(replayDir, 0o755)
	old, _ := filepath.Glob(filepath.Join(replayDir, c.Prop+"-*.json"))
	for _, f := range old {
		os.Remove(f)
	}
	sort.SliceStable(viol, func(i, j int) bool { return viol[i].Key < viol[j].Key })
	for i, o := range viol {
		nviol++
		path := filepath.Join(replayDir, fmt.Sprintf("%s-%d.json", c.Prop, i+1))
		b, _ := json.MarshalIndent(map[string]any{"property": c.Prop, "obligation": o}, "", " ")
		os.WriteFile(path, b, 0o644)
		fmt.Printf("VIOLATION property=%s replay=%s\n  rule=%s key=%s\n  %s: %s\n", c.Prop, path, o.Rule, o.Key, o.Pos, o.What)
	}
	// evidence
	total, disch, nontriv := 0, 0, 0
	distinct := map[string]bool{}
	var samples []any
	perRule := map[string]int{}
	for _, o := range c.Obls {
		total++
		if o.Status == "discharged" || o.Status == "exception" || o.Status == "known" {
			disch++
		}
		if !o.Triv && !distinct[o.Key] {
			distinct[o.Key] = true
			nontriv++
		}
		if perRule[o.Rule] < 3 && len(samples) < 60 {
			perRule[o.Rule]++
			samples = append(samples, o)
		}
	}
	ruleSummary := map[string]any{}
	for _, r := range c.order {
		st := stats[r]
		ruleSummary[r] = map[string]int{"instances": st.instances, "discharged": st.discharged, "exceptions": st.exceptions, "known_findings": st.known, "violations": st.findings, "floor": st.floor}
	}
	cov := map[string]any{
		"explanation":         info.explanation,
		"obligations":         total,
		"discharged":          disch,
		"evaluations":         total,
		"distinct_nontrivial": nontriv,
		"rule":                "one obligation per (rule, function, construct) found in /repo's current source by the static checker; distinct = distinct obligation keys; non-trivial = needed a dominance / dataflow / table argument rather than a constant-only discharge",
		"samples":             samples,
		"checker_cmd":         fmt.Sprintf("bin/tongocheck -prop %s -tier %s", c.Prop, c.Tier),
		"trusted_base":        append([]string{"go/parser + go/types (Go 1.23.5)", "golang.org/x/tools v0.29.0 go/packages, go/ssa, callgraph/cha+vta", "/verif/checker (this checker)", "/verif/spec tables written from the public TON specifications"}, info.trusted...),
		"rules":               ruleSummary,
		"packages_loaded":     len(c.ByPath),
		"root_packages":       len(c.Roots),
		"callgraph":           c.cgKind,
		"notes":               c.notes,
		"exhaustive":          false,
	}
	// the complete, current list of clauses is kept in one place (manifest_src.json, extended after
	// every round); the evidence quotes it so that it cannot drift from the manifest
	if b, err := os.ReadFile(filepath.Join(c.VerifDir, "manifest_src.json")); err == nil {
		var ms struct {
			Claimed map[string]struct {
				Text string `json:"text"`
			} `json:"claimed"`
		}
		if json.Unmarshal(b, &ms) == nil {
			if cl, ok := ms.Claimed[c.Prop]; ok && cl.Text != "" {
				cov["clauses_decided"] = cl.Text
			}
		}
	}
	if info.assumptions == nil {
		info.assumptions = []string{}
	}
	info.assumptions = append(info.assumptions, "the analysed tree type-checks; go/ssa and the CHA/VTA call graph are sound for the constructs used")
	ev := evidence{PropertyID: c.Prop, Tier: c.Tier, Seed: seedFromEnv(), Level: "other", Coverage: cov,
		Assumptions: info.assumptions, WallS: time.Since(c.start).Seconds(), Violations: nviol}
	b, _ := json.MarshalIndent(ev, "", " ")
	evPath := filepath.Join(c.VerifDir, "evidence", c.Prop+".json")
	if err := os.WriteFile(evPath, b, 0o644); err != nil {
		fmt.Fprintln(os.Stderr, "cannot write evidence:", err)
		return 2
	}
	fmt.Printf("property=%s tier=%s obligations=%d discharged=%d violations=%d wall=%.1fs evidence=%s\n", c.Prop, c.Tier, total, disch, nviol, ev.WallS, evPath)
	if nviol > 0 {
		return 1
	}
	return 0
}

func seedFromEnv() int {
	var s int
	fmt.Sscanf(os.Getenv("VERIF_SEED"), "%d", &s)
	return s
}

func (c *Ctx) posOf(p token.Pos) string { return c.rel(p) }

// scale is the tier's budget multiplier: thorough doubles the prover's join-split budget, the
// number of calling contexts tried and the number of wire paths enumerated per codec function.
func (c *Ctx) scale() int {
	if c.Tier == "thorough" {
		return 2
	}
	return 1
}

// e1Depth is the callee-descent depth of the panic-freedom engine for the tier.
func (c *Ctx) e1Depth() int {
	if c.Tier == "thorough" {
		return 3
	}
	return 2
}

// shadow returns a context sharing the loaded program but with an empty ledger: rules evaluated on
// it record nothing in the property's evidence (used to consult one rule's verdict from another).
func (c *Ctx) shadow() *Ctx {
	s := *c
	s.Obls = nil
	s.keys = map[string]int{}
	s.floors = map[string]int{}
	s.order = nil
	s.notes = nil
	return &s
}

var (
	reIdent    = regexp.MustCompile(`[A-Za-z_][A-Za-z0-9_]*`)
	keepIdents = map[string]bool{"P1": true, "P2": true, "P3": true, "P4": true, "P5": true, "P6": true, "P7": true,
		"slice": true, "index": true, "make": true, "len": true, "cap": true, "call": true, "assert": true, "panic": true,
		"append": true, "copy": true, "nil": true, "true": true, "false": true, "fn": true, "arg0": true, "arg1": true,
		"byte": true, "int": true, "uint": true, "int8": true, "int16": true, "int32": true, "int64": true, "uint8": true,
		"uint16": true, "uint32": true, "uint64": true, "string": true, "bool": true, "error": true, "any": true,
		"R": true, "drop": true, "deadread": true, "swallow": true, "stale": true, "useonfail": true, "tolerated": true,
		"return": true, "under": true, "of": true, "read": true, "stored": true, "by": true, "recursion": true, "link": true,
		"list": true, "refs": true, "channel": true, "send": true, "div": true, "rem": true, "literal": true, "field": true}
)

// eraseNames removes what a benign rename can change from an obligation key: names of locals,
// parameters, phis and local allocations. Field names (after '.'), function and package names
// (before '.', '(' or '/') and the structural words of the key formats stay. Used only as a fallback
// when an exception key does not match exactly, so that renaming a variable inside an excepted
// construct does not turn the exception off.
func eraseNames(key string) string {
	key = regexp.MustCompile(`φ[A-Za-z0-9_]*`).ReplaceAllString(key, "φ")
	key = regexp.MustCompile(`&[A-Za-z_][A-Za-z0-9_]*`).ReplaceAllString(key, "&_")
	idx := reIdent.FindAllStringIndex(key, -1)
	var b strings.Builder
	last := 0
	for _, m := range idx {
		s, e := m[0], m[1]
		b.WriteString(key[last:s])
		last = e
		id := key[s:e]
		var prev, next byte
		if s > 0 {
			prev = key[s-1]
		}
		if e < len(key) {
			next = key[e]
		}
		if prev == '.' || prev == '/' || prev == '$' || next == '.' || next == '(' || next == '/' || next == '$' || keepIdents[id] {
			b.WriteString(id)
			continue
		}
		b.WriteString("_")
	}
	b.WriteString(key[last:])
	return b.String()
}

// excLookupE / excLookupS: exact match first, then match modulo erased names (deterministic: the
// smallest matching table key).
func excLookupE(m map[string]excEntry, key string) (excEntry, bool) {
	if e, ok := m[key]; ok {
		return e, true
	}
	for _, norm := range []func(string) string{eraseNames, eraseNamesAndPrivateFields} {
		nk := norm(key)
		best := ""
		for k := range m {
			if norm(k) == nk && (best == "" || k < best) {
				best = k
			}
		}
		if best != "" {
			return m[best], true
		}
	}
	// the same construct with a quantity computed by another formula (an index i of an index loop where a range
	// loop had rangeindex+1, (n+1)>>1 for (n>>1)+(n&1)): arithmetic over anonymous operands collapsed
	// Only for allocation sizes (P4: "the buffer is 2 + ceil(bits/8) bytes" however the rounding is spelt). For
	// index and slice expressions the arithmetic IS the construct: hashes[(i-off)-1] and hashes[(i-off)-0] must not
	// share an exception (the one-token mutation battery caught exactly that). There only the go/ssa spelling of a
	// range loop's index, (hidden counter + 1), is identified with a plain loop counter.
	norm := eraseArith
	if !strings.Contains(key, " P4 ") {
		norm = func(k string) string { return strings.ReplaceAll(eraseLoose(k), "(_+1)", "_") }
	}
	if os.Getenv("TONGO_NO_ERASEARITH") == "" {
		nk := norm(key)
		best := ""
		for k := range m {
			if !strings.HasPrefix(k, "re:") && norm(k) == nk && (best == "" || k < best) {
				best = k
			}
		}
		if best != "" {
			return m[best], true
		}
	}
	// pattern entries ("re:<regexp>"): an exception whose reason covers a family of constructs - every index
	// of one container by one kind of value in one function - however the function spells them (one site
	// behind a phi, or one site per branch after a guard-clause rewrite). Matched against the key with
	// local names erased.
	nk := eraseNames(key)
	best := ""
	for k := range m {
		if strings.HasPrefix(k, "re:") && (best == "" || k < best) {
			if re, err := regexp.Compile(k[3:]); err == nil && re.MatchString(nk) {
				best = k
			}
		}
	}
	if best != "" {
		return m[best], true
	}
	return excEntry{}, false
}

var rePrivField = regexp.MustCompile(`\.[a-z][A-Za-z0-9_]*`)

// eraseNamesAndPrivateFields additionally erases unexported field names (".sizeBytes" -> "._"): a
// rename of an unexported struct field is as harmless as a rename of a local. Function and package
// names (followed by '(' or '.') are kept.
func eraseNamesAndPrivateFields(key string) string {
	key = eraseNames(key)
	idx := rePrivField.FindAllStringIndex(key, -1)
	var b strings.Builder
	last := 0
	for _, m := range idx {
		s, e := m[0], m[1]
		var next byte
		if e < len(key) {
			next = key[e]
		}
		b.WriteString(key[last:s])
		last = e
		if next == '(' || next == '.' || next == '/' {
			b.WriteString(key[s:e])
			continue
		}
		b.WriteString("._")
	}
	b.WriteString(key[last:])
	return b.String()
}

// eraseLoose: additionally forgets whether a name was a phi, a local's address or a plain value
// ("φ", "&_" and "_" all become "_"): the same expression inside an extracted helper sees a
// parameter where the original function had a loop variable or a local.
func eraseLoose(key string) string {
	key = eraseNamesAndPrivateFields(key)
	key = strings.ReplaceAll(key, "φ", "_")
	key = strings.ReplaceAll(key, "&_", "_")
	key = strings.ReplaceAll(key, "*_", "_")
	return key
}

var reArithLeaf = regexp.MustCompile(`\((_|\d+)(<<|>>|&\^|[-+*/%&|^])(_|\d+)\)`)

// eraseArith: collapses arithmetic over anonymous operands and literals to one anonymous operand
// ("((_>>1)+(_%2))" and "((_+1)>>1)" both become "_"): the same quantity computed by another formula.
// Named operands (parameters, calls such as len(x)) are kept.
func eraseArith(key string) string {
	key = eraseLoose(key)
	for i := 0; i < 6; i++ {
		n := reArithLeaf.ReplaceAllString(key, "_")
		if n == key {
			break
		}
		key = n
	}
	return key
}

// excLookupLoose: excLookupE, then modulo eraseLoose.
func excLookupLoose(m map[string]excEntry, key string) (excEntry, bool) {
	if e, ok := excLookupE(m, key); ok {
		return e, true
	}
	nk := eraseLoose(key)
	best := ""
	for k := range m {
		if eraseLoose(k) == nk && (best == "" || k < best) {
			best = k
		}
	}
	if best != "" {
		return m[best], true
	}
	return excEntry{}, false
}

func excLookupS(m map[string]string, key string) (string, bool) {
	if e, ok := m[key]; ok {
		return e, true
	}
	nk := eraseNames(key)
	best := ""
	for k := range m {
		if eraseNames(k) == nk && (best == "" || k < best) {
			best = k
		}
	}
	if best != "" {
		return m[best], true
	}
	return "", false
}
