package main

import (
	"fmt"
	"go/token"
	"go/types"
	"sort"
	"strings"

	"golang.org/x/tools/go/ssa"
)

// Rules of C06 added after the mutation battery.

// modTest: cond is "(x % m) == 0" (eq=true) or "(x % m) != 0" (eq=false), also written with & (m-1).
func modTest(cond ssa.Value, m int64) (isTest, eq bool) {
	bo, ok := cond.(*ssa.BinOp)
	if !ok || (bo.Op != token.EQL && bo.Op != token.NEQ) {
		return false, false
	}
	if k, ok := constInt(bo.Y); !ok || k != 0 {
		return false, false
	}
	in, ok := bo.X.(*ssa.BinOp)
	if !ok {
		return false, false
	}
	k, ok := constInt(in.Y)
	if !ok {
		return false, false
	}
	if (in.Op == token.REM && k == m) || (in.Op == token.AND && k == m-1) {
		return true, bo.Op == token.EQL
	}
	return false, false
}

// fiftHex: the Fift text form. Whole nibbles are printed as hex digits; otherwise the bits are
// followed by the completion tag - a single 1, then zeros up to the next nibble boundary - and the
// text ends in "_". Which of the two applies is decided by len%4, nothing else.
func (c *Ctx) fiftHex() {
	const R = "E7.fifthex"
	f := c.mustFn(R, "boc", "BitString.ToFiftHex")
	if f == nil {
		return
	}
	side := func(b *ssa.BasicBlock) string { // "aligned" / "padded" / ""
		for _, ft := range factsAt(f, b) {
			if is, eq := modTest(ft.Cond, 4); is {
				// only the test on the receiver's own length (entry test), not the padding loop's
				if ld, ok := ft.Cond.(*ssa.BinOp).X.(*ssa.BinOp).X.(*ssa.UnOp); ok {
					if fa, ok := ld.X.(*ssa.FieldAddr); ok {
						if _, isParam := fa.X.(*ssa.Parameter); !isParam {
							continue
						}
					}
				}
				if eq == ft.Truth {
					return "aligned"
				}
				return "padded"
			}
		}
		return ""
	}
	hexCalls := callsTo(f, "encoding/hex.EncodeToString")
	okHex := len(hexCalls) > 0
	for _, cl := range hexCalls {
		if side(cl.Block()) != "aligned" {
			okHex = false
		}
	}
	c.check(okHex, R, "whole nibbles are printed directly", f.Pos(), "hex.EncodeToString under len%4 == 0", "ToFiftHex prints the buffer as plain hex digits on a path that is not the len%4 == 0 one: a bit string that ends inside a nibble loses its completion tag (or an aligned one gains a spurious one)")
	// the padding may be written in ToFiftHex or in an unexported helper it calls on the padded side
	// (padToHexDigit()): a call in the helper stands on the side of the helper's call site
	type hostedCall struct {
		cl   *ssa.Call
		host *ssa.Function
		at   *ssa.BasicBlock
	}
	collect := func(q string) []hostedCall {
		var out []hostedCall
		for _, cl := range callsTo(f, q) {
			out = append(out, hostedCall{cl, f, cl.Block()})
		}
		for _, site := range callsIn(f) {
			if h := plainHelper(site.Common().StaticCallee()); h != nil && h != f {
				for _, cl := range callsTo(h, q) {
					out = append(out, hostedCall{cl, h, site.Block()})
				}
			}
		}
		return out
	}
	var wTrue, wFalse []hostedCall
	for _, hc := range collect(bocPath + ".BitString.WriteBit") {
		if b, ok := constBool(hc.cl.Call.Args[1]); ok {
			if b {
				wTrue = append(wTrue, hc)
			} else {
				wFalse = append(wFalse, hc)
			}
		}
	}
	okTag := len(wTrue) == 1 && len(wFalse) == 1 && wTrue[0].host == wFalse[0].host
	if okTag {
		t, z := wTrue[0].cl, wFalse[0].cl
		okTag = side(wTrue[0].at) == "padded" && !inLoop(t.Block()) && inLoop(z.Block()) && t.Block().Dominates(z.Block())
		// the zero padding runs while the copy's length is not a multiple of 4
		okLoop := false
		for _, ft := range factsAt(wFalse[0].host, z.Block()) {
			if !inLoop(ft.Edge.From) {
				continue // the entry test, not the loop's
			}
			if is, eq := modTest(ft.Cond, 4); is && eq != ft.Truth {
				okLoop = true
			}
		}
		okTag = okTag && okLoop
	}
	c.check(okTag, R, "completion tag: one 1, then zeros while len%4 != 0", f.Pos(), "WriteBit(true) once on the padded side, WriteBit(false) in a loop guarded by len%4 != 0", "ToFiftHex no longer pads a bit string that ends inside a nibble with a single 1 followed by zeros up to the nibble boundary")
	// the room for the padding: Grow(4 - len%4) before the first padding write
	okGrow := false
	for _, hc := range collect(bocPath + ".BitString.Grow") {
		cl := hc.cl
		if bo, ok := cl.Call.Args[1].(*ssa.BinOp); ok && bo.Op == token.SUB {
			if k, ok := constInt(bo.X); ok && k >= 4 {
				if in, ok := bo.Y.(*ssa.BinOp); ok {
					if m, ok := constInt(in.Y); ok && ((in.Op == token.REM && m == 4) || (in.Op == token.AND && m == 3)) {
						okGrow = true
					}
				}
			}
		}
		if k, ok := constInt(cl.Call.Args[1]); ok && k >= 4 {
			okGrow = true
		}
	}
	c.check(okGrow, R, "the copy is grown by at least the padding", f.Pos(), "Grow(4 - len%4)", "ToFiftHex no longer grows the copy by 4 - len%4 bits before writing the completion tag: the padding writes (whose errors are discarded on the strength of that growth) can fail and the tag is lost")
	okUnd := false
	for _, r := range returnsOf(f) {
		if bo, ok := retVal(r, 0).(*ssa.BinOp); ok && bo.Op == token.ADD && side(r.Block()) == "padded" {
			if cst, ok := bo.Y.(*ssa.Const); ok && cst.Value != nil && cst.Value.ExactString() == `"_"` {
				okUnd = true
			}
		}
	}
	c.check(okUnd, R, "a padded form ends in _", f.Pos(), `... + "_" on the padded side`, `ToFiftHex no longer marks a padded bit string with a trailing "_"`)
}

// hexDigits: hexToInt maps exactly '0'..'9' -> 0..9, 'a'..'f' and 'A'..'F' -> 10..15; the ranges
// and offsets are read off the guards and the returned expression of every success return.
func (c *Ctx) hexDigits() {
	const R = "E11.tables"
	f := c.mustFn(R, "boc", "hexToInt")
	if f == nil {
		return
	}
	// every digit value computed: c - K1 (+ K2) on a byte c, under the range guards of c that hold where it is
	// computed (the function may be the helper itself or the parser it was folded into)
	type digitExpr struct {
		p      ssa.Value
		k1, k2 int64
		blk    *ssa.BasicBlock
	}
	var exprs []digitExpr
	consumed := map[ssa.Value]bool{}
	isByte := func(v ssa.Value) bool {
		bt, ok := v.Type().Underlying().(*types.Basic)
		return ok && (bt.Kind() == types.Uint8 || bt.Kind() == types.Int32 || bt.Kind() == types.Uint16 || bt.Kind() == types.Int)
	}
	allInstrs(f, func(b *ssa.BasicBlock, in ssa.Instruction) {
		bo, ok := in.(*ssa.BinOp)
		if !ok || bo.Op != token.ADD {
			return
		}
		k2, ok := constInt(bo.Y)
		if !ok {
			return
		}
		if in2, ok := bo.X.(*ssa.BinOp); ok && in2.Op == token.SUB {
			if k1, ok := constInt(in2.Y); ok && isByte(in2.X) && k1 >= '0' {
				consumed[in2] = true
				exprs = append(exprs, digitExpr{in2.X, k1, k2, b})
			}
		}
	})
	allInstrs(f, func(b *ssa.BasicBlock, in ssa.Instruction) {
		bo, ok := in.(*ssa.BinOp)
		if !ok || bo.Op != token.SUB || consumed[bo] {
			return
		}
		if k1, ok := constInt(bo.Y); ok && isByte(bo.X) && k1 >= '0' {
			if _, isLen := stripConv(bo.X).(*ssa.Call); isLen {
				return
			}
			exprs = append(exprs, digitExpr{bo.X, k1, 0, b})
		}
	})
	var got []string
	for _, e := range exprs {
		p, k1, k2, okv := e.p, e.k1, e.k2, true
		lo, hi := int64(-1), int64(-1)
		for _, ft := range factsAt(f, e.blk) {
			bo, ok := ft.Cond.(*ssa.BinOp)
			if !ok {
				continue
			}
			op := bo.Op
			var k int64
			var paramLeft bool
			if kk, ok := constInt(bo.X); ok && bo.Y == ssa.Value(p) {
				k, paramLeft = kk, false
			} else if kk, ok := constInt(bo.Y); ok && bo.X == ssa.Value(p) {
				k, paramLeft = kk, true
			} else {
				continue
			}
			if !ft.Truth {
				op = map[token.Token]token.Token{token.LSS: token.GEQ, token.LEQ: token.GTR, token.GTR: token.LEQ, token.GEQ: token.LSS}[op]
			}
			if !paramLeft { // k op p  ->  p op' k
				op = map[token.Token]token.Token{token.LSS: token.GTR, token.LEQ: token.GEQ, token.GTR: token.LSS, token.GEQ: token.LEQ}[op]
			}
			switch op {
			case token.GEQ:
				lo = k
			case token.GTR:
				lo = k + 1
			case token.LEQ:
				hi = k
			case token.LSS:
				hi = k - 1
			}
		}
		if okv && lo >= 0 && hi >= 0 {
			got = append(got, fmt.Sprintf("%c-%c->%d..%d", rune(lo), rune(hi), lo-k1+k2, hi-k1+k2))
		} else {
			got = append(got, "?")
		}
	}
	sort.Strings(got)
	want := "0-9->0..9 A-F->10..15 a-f->10..15"
	c.check(strings.Join(got, " ") == want, R, "hexToInt: exact digit ranges and values", f.Pos(), want, "hexToInt maps ["+strings.Join(got, " ")+"]; hexadecimal digits are ["+want+"]")
}

// log2Smear: minBitsRequired smears the top bit down with shifts 1,2,4,8,16,32 before the de
// Bruijn lookup; with any other shift set some 64-bit values keep a hole and index the wrong entry.
func (c *Ctx) log2Smear() {
	const R = "E11.tables"
	f := c.mustFn(R, "boc", "minBitsRequired")
	if f == nil {
		return
	}
	if stdBitLen(f) {
		c.ok(R, "minBitsRequired smears with shifts 1,2,4,8,16,32", f.Pos(), "no smear: the bit length comes from math/bits.Len64")
		return
	}
	var sh []int
	allInstrs(f, func(_ *ssa.BasicBlock, in ssa.Instruction) {
		or, ok := in.(*ssa.BinOp)
		if !ok || or.Op != token.OR {
			return
		}
		for _, o := range []ssa.Value{or.X, or.Y} {
			if s, ok := o.(*ssa.BinOp); ok && s.Op == token.SHR {
				if k, ok := constInt(s.Y); ok {
					sh = append(sh, int(k))
				}
			}
		}
	})
	sort.Ints(sh)
	c.check(fmt.Sprint(sh) == "[1 2 4 8 16 32]", R, "minBitsRequired smears with shifts 1,2,4,8,16,32", f.Pos(), fmt.Sprint(sh), fmt.Sprintf("minBitsRequired ORs the value with itself shifted by %v; a 64-bit value is all ones below its top bit only after the shifts 1,2,4,8,16,32", sh))
}

// oneBitSigned: the writers' special case for width one: -1 is written as a set bit, 0 as a clear
// bit (two's complement of width one), matching what the readers return.
func (c *Ctx) oneBitSigned() {
	const R = "E7.bigint-chunks"
	for _, name := range []string{"BitString.WriteInt", "BitString.WriteBigInt"} {
		f := c.mustFn(R, "boc", name)
		if f == nil {
			continue
		}
		var got []string
		for _, cl := range callsTo(f, bocPath+".BitString.WriteBit") {
			bit, ok := constBool(cl.Call.Args[1])
			if !ok {
				continue
			}
			one := false
			val := "?"
			for _, ft := range factsAt(f, cl.Block()) {
				bo, ok := ft.Cond.(*ssa.BinOp)
				if !ok || bo.Op != token.EQL || !ft.Truth {
					continue
				}
				k, ok := constInt(bo.Y)
				if !ok {
					continue
				}
				if _, isParam := bo.X.(*ssa.Parameter); isParam && k == 1 && isIntParamNamedWidth(f, bo.X) {
					one = true
					continue
				}
				val = fmt.Sprint(k)
			}
			if one {
				got = append(got, fmt.Sprintf("%s->%v", val, bit))
			}
		}
		sort.Strings(got)
		if len(got) == 0 {
			c.ok(R, name+": width-one values", f.Pos(), "no special case for width one")
			continue
		}
		c.check(strings.Join(got, " ") == "-1->true 0->false", R, name+": width-one values", f.Pos(), "-1 -> set bit, 0 -> clear bit", name+" writes a 1-bit signed integer as ["+strings.Join(got, " ")+"]; two's complement of width one is [-1->true 0->false], which is what ReadInt/ReadBigInt return")
	}
}

// isIntParamNamedWidth: v is the LAST int parameter of f (the bit width in every writer signature).
func isIntParamNamedWidth(f *ssa.Function, v ssa.Value) bool {
	return len(f.Params) > 0 && ssa.Value(f.Params[len(f.Params)-1]) == v
}

// capacityCountGuards: a guard that refuses a write because the cell would overflow compares a
// COUNT (bits already there + bits to add) with the capacity: it must refuse for count > capacity,
// not >=, otherwise a write that fills the cell exactly (1023 bits, the 4th reference) is refused.
// (checkRange compares an INDEX with the capacity; that one is >= and has its own rule.)
func (c *Ctx) capacityCountGuards() {
	const R = "E8.capacity"
	for _, f := range c.moduleFuncs("boc") {
		for _, b := range f.Blocks {
			iff := lastIf(b)
			if iff == nil {
				continue
			}
			bo, ok := iff.Cond.(*ssa.BinOp)
			if !ok {
				continue
			}
			failIdx := -1
			for k, s := range b.Succs {
				if returnsSentinel(s, "ErrBitStingOverflow") || returnsSentinel(s, "ErrCellRefsOverflow") {
					failIdx = k
				}
			}
			if failIdx < 0 {
				continue
			}
			isSum := func(v ssa.Value) bool {
				a, ok := stripConv(v).(*ssa.BinOp)
				if !ok || a.Op != token.ADD {
					return false
				}
				// size + added: two quantities, not a counter stepped by a constant
				_, kx := a.X.(*ssa.Const)
				_, ky := a.Y.(*ssa.Const)
				return !kx && !ky
			}
			op := bo.Op
			switch {
			case isSum(bo.X) && !isSum(bo.Y):
			case isSum(bo.Y) && !isSum(bo.X):
				op = map[token.Token]token.Token{token.LSS: token.GTR, token.GTR: token.LSS, token.LEQ: token.GEQ, token.GEQ: token.LEQ}[op]
			default:
				continue // an index-style test
			}
			if failIdx == 1 {
				op = map[token.Token]token.Token{token.LSS: token.GEQ, token.GTR: token.LEQ, token.LEQ: token.GTR, token.GEQ: token.LSS}[op]
			}
			c.check(op == token.GTR, R, fnName(f)+": overflow is 'count > capacity'", bo.Pos(), "refuses for size + added > capacity", fmt.Sprintf("%s refuses a write when size + added %s capacity; a write that fills the cell exactly fits (the limit is inclusive): it must refuse only for size + added > capacity", fnName(f), op))
		}
	}
}

// cursorOnSuccess: a reader that fails leaves the cursors where they were. In every exported
// reading method of Cell and BitString, no store that advances a read cursor can be followed (in
// the same call) by a return of a failure: `c.refCursor++` before `if ref == nil { return
// ErrNotEnoughRefs }` consumes a slot on a read that delivered nothing - the tolerant callers that
// probe for an optional reference then skip a real one added later.
func (c *Ctx) cursorOnSuccess() {
	const R = "E8.cursor-accounting"
	p := c.pkg("boc")
	if p == nil {
		return
	}
	n := 0
	for _, tn := range []string{"Cell", "BitString"} {
		named, ok := p.Types.Scope().Lookup(tn).Type().(*types.Named)
		if !ok {
			continue
		}
		for i := 0; i < named.NumMethods(); i++ {
			m := named.Method(i)
			if !m.Exported() || !(strings.HasPrefix(m.Name(), "Read") || strings.HasPrefix(m.Name(), "Next") || m.Name() == "Skip") {
				continue
			}
			f := c.Prog.FuncValue(m)
			if f == nil || len(f.Blocks) == 0 || errIndex(f.Signature) < 0 {
				continue
			}
			ei := errIndex(f.Signature)
			allInstrs(f, func(b *ssa.BasicBlock, in ssa.Instruction) {
				st, ok := in.(*ssa.Store)
				if !ok {
					return
				}
				of, ok := ownerField(st.Addr)
				if !ok || (of != "boc.BitString.rCursor" && of != "boc.Cell.refCursor") {
					return
				}
				bo, ok := st.Val.(*ssa.BinOp)
				if !ok || bo.Op != token.ADD {
					return
				}
				n++
				// a failure return reachable after this store (same block after it, or any successor)
				leak := token.NoPos
				for blk := range reachableFrom(b, nil) {
					if len(blk.Instrs) == 0 {
						continue
					}
					r, ok := blk.Instrs[len(blk.Instrs)-1].(*ssa.Return)
					if !ok {
						continue
					}
					if blk == b {
						// the return of the block that holds the store
					}
					if classifyErr(f, retVal(r, ei), blk, 0) == errNonNil {
						leak = r.Pos()
					}
				}
				c.check(leak == token.NoPos, R, tn+"."+m.Name()+" advances the cursor only on the way to success", st.Pos(), "no failure return reachable after the advance", fmt.Sprintf("%s.%s advances the read cursor and can still return a failure afterwards (at %s): a read that delivered nothing has consumed a position", tn, m.Name(), c.rel(leak)))
			})
		}
	}
	_ = n
}
