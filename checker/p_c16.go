package main

import (
	"fmt"
	"go/token"
	"strings"

	"golang.org/x/tools/go/ssa"
)

func init() { register("C16", propC16) }

func propC16(c *Ctx) propInfo {
	c.loopVarEscape("E17.loopvar-escape", "tlb") // every reported transaction is the one stored at that position
	c.identityHashCapture("tlb", "Message.UnmarshalTLB")
	c.identityHashCapture("tlb", "Transaction.UnmarshalTLB")
	c.normalisedHash()
	c.sourceBoc()
	c.hashCursorIndependence()
	c.cursorPairing()
	c.floor("E10.hash-capture", 6)
	c.floor("E10.normalised-hash", 5)
	c.bocHeaderAgreement() // SourceBoc serialises through serializeBoc
	return propInfo{
		explanation: "Static structural clauses of C16 (DESIGN.md §4 C16): in Message.UnmarshalTLB and Transaction.UnmarshalTLB every success exit is dominated by a store into the hash field of a value obtained from hashing the parameter cell (with or without the decoder's hasher) and the cursors are reset before the fields are decoded; Message.Hash(true) returns, for external-in messages, only the hash of a freshly built cell whose contents derive from constants, the destination and the body (never from source, import fee, init or the body's inline/ref flag) and whose layout is the canonical ext-in header; the cached hash is returned only on the non-normalising edge; Transaction.SourceBoc serialises the captured parameter cell after resetting its cursors; hashing is cursor independent. Decides these necessary conditions, not numeric equality with the source cell's hash. The variable captured by the SourceBoc closures is never reassigned.",
	}
}

// identityHashCapture: success exits are dominated by copy(m.hash[:], hash) where hash derives from
// Hasher.Hash(c) or c.Hash() on the parameter cell; ResetCounters on c precedes field decoding.
func (c *Ctx) identityHashCapture(rel, name string) {
	const R = "E10.hash-capture"
	f := c.mustFn(R, rel, name)
	if f == nil {
		return
	}
	prm := ssa.Value(f.Params[1])
	// when closures capture the parameter it lives in a heap slot: loads of that slot are the parameter
	var isCell func(v ssa.Value) bool
	isCell = func(v ssa.Value) bool {
		if v == prm {
			return true
		}
		// the parameter of an unexported helper that every call site in this function hands the cell to
		// (decoder.cellHash(c))
		if hp, ok := v.(*ssa.Parameter); ok && hp.Parent() != f {
			if h := plainHelper(hp.Parent()); h != nil && !gAddrTaken[h] {
				idx := -1
				for i, q := range h.Params {
					if q == hp {
						idx = i
					}
				}
				n := 0
				for _, site := range gCallSites[h] {
					if site.Parent() != f {
						continue
					}
					args := site.Common().Args
					if idx < 0 || idx >= len(args) || !isCell(args[idx]) {
						return false
					}
					n++
				}
				return n > 0
			}
		}
		if u, ok := v.(*ssa.UnOp); ok && u.Op == token.MUL {
			if al, ok := u.X.(*ssa.Alloc); ok {
				for _, st := range storesTo(al) {
					if st.Val == prm {
						return true
					}
				}
			}
		}
		return false
	}
	fromParamHash := func(v ssa.Value) bool {
		return derivesFrom(v, func(x ssa.Value) bool {
			cl := callOf(x)
			if cl == nil {
				return false
			}
			q := callQName(&cl.Call)
			if q == bocPath+".Hasher.Hash" {
				return isCell(cl.Call.Args[1])
			}
			if q == bocPath+".Cell.Hash" || q == bocPath+".Cell.Hash256" {
				return isCell(cl.Call.Args[0])
			}
			return false
		}, false)
	}
	// the copy into the hash field
	var cp *ssa.Call
	allInstrs(f, func(_ *ssa.BasicBlock, in ssa.Instruction) {
		cl, ok := in.(*ssa.Call)
		if !ok {
			return
		}
		if b, ok := cl.Call.Value.(*ssa.Builtin); ok && b.Name() == "copy" {
			if derivesFrom(cl.Call.Args[0], func(v ssa.Value) bool { _, fn, ok := fieldOf(v); return ok && fn == "hash" }, false) {
				cp = cl
			}
		}
	})
	key := name + ": "
	if cp == nil {
		c.bad(R, key+"hash field is filled", f.Pos(), name+" no longer copies a hash into the hash field")
		return
	}
	c.check(fromParamHash(cp.Call.Args[1]), R, key+"hash derives from hashing the parameter cell", cp.Pos(), "copy(x.hash[:], hash) with hash = decoder.hasher.Hash(c) or c.Hash()", name+" stores a hash that is not computed from the cell it decodes (both the caching-hasher branch and the plain branch must hash the parameter cell)")
	// both branches hash the parameter: every call to Hasher.Hash / Cell.Hash in f is on the parameter
	okBoth := true
	n := 0
	// ... in the function, or in the unexported helper it hands the cell to
	hashFns := []*ssa.Function{f}
	for _, ci := range callsIn(f) {
		if h := plainHelper(ci.Common().StaticCallee()); h != nil && h != f {
			for _, a := range ci.Common().Args {
				if isCell(a) {
					hashFns = append(hashFns, h)
					break
				}
			}
		}
	}
	var hashCalls []*ssa.Call
	seenFn := map[*ssa.Function]bool{}
	for _, g := range hashFns {
		if seenFn[g] {
			continue
		}
		seenFn[g] = true
		for _, q := range []string{bocPath + ".Hasher.Hash", bocPath + ".Cell.Hash"} {
			hashCalls = append(hashCalls, callsTo(g, q)...)
		}
	}
	for _, cl := range hashCalls {
		q := callQName(&cl.Call)
		{
			n++
			a := cl.Call.Args[0]
			if q == bocPath+".Hasher.Hash" {
				a = cl.Call.Args[1]
			}
			if !isCell(a) {
				okBoth = false
			}
		}
	}
	c.check(okBoth && n == 2, R, key+"with and without a hasher the same cell is hashed", f.Pos(), "both branches hash the parameter cell", name+": one of the two hashing branches hashes something other than the parameter cell")
	// success exits dominated by the copy
	okDom := true
	for _, sp := range successPoints(f, 0) {
		if !cp.Block().Dominates(sp.Block) {
			okDom = false
		}
	}
	c.check(okDom, R, key+"every success exit has the hash captured", cp.Pos(), "the copy dominates all success returns", name+" can succeed without having stored the identity hash")
	// cursors reset after hashing and before decoding the fields
	var reset *ssa.Call
	for _, cl := range callsTo(f, bocPath+".Cell.ResetCounters") {
		if isCell(cl.Call.Args[0]) && reset == nil {
			reset = cl
		}
	}
	okReset := reset != nil
	if okReset {
		// every decoding call on the parameter cell is dominated by the reset
		allInstrs(f, func(b *ssa.BasicBlock, in ssa.Instruction) {
			cl, ok := in.(*ssa.Call)
			if !ok || cl == reset {
				return
			}
			q := callQName(&cl.Call)
			reads := strings.HasPrefix(q, bocPath+".Cell.Read") || strings.HasPrefix(q, bocPath+".Cell.NextRef") || q == tlbPath+".Decoder.Unmarshal"
			if !reads {
				return
			}
			uses := false
			for _, a := range cl.Call.Args {
				if isCell(a) {
					uses = true
				}
			}
			if uses && !(reset.Block().Dominates(b) && (reset.Block() != b || before(reset, cl))) {
				okReset = false
			}
		})
	}
	c.check(okReset, R, key+"cursors are reset before the fields are decoded", f.Pos(), "c.ResetCounters() dominates every read of the parameter cell", name+" decodes fields from the cell without resetting its cursors after hashing")
}

// normalisedHash: Message.Hash(normalizeExternal).
func (c *Ctx) normalisedHash() {
	const R = "E10.normalised-hash"
	f := c.mustFn(R, "tlb", "Message.Hash")
	if f == nil {
		return
	}
	// returns: either the cached field (only on the non-normalising edge) or the hash of the fresh cell
	// the canonical cell is built in Message.Hash or in the unexported helper it hands the work to
	var nc *ssa.Call
	host := f
	for _, g := range c.helperClosure(f, 1, func(h *ssa.Function) bool { return plainHelper(h) == nil }) {
		for _, cl := range callsTo(g, bocPath+".NewCell") {
			nc, host = cl, g
		}
	}
	if nc == nil {
		c.bad(R, "canonical cell is built", f.Pos(), "Message.Hash no longer builds a canonical cell")
		return
	}
	okRet := true
	nCached, nFresh := 0, 0
	var cachedBlocks []*ssa.BasicBlock
	// every value the function can return, with the block it comes from: one return per case, or one return of a
	// result variable assigned on each path (a phi: its edges are the cases)
	type retCase struct {
		v  ssa.Value
		at *ssa.BasicBlock
	}
	var cases []retCase
	for _, r := range returnsOf(f) {
		v := retVal(r, 0)
		if phi, ok := v.(*ssa.Phi); ok && phi.Block() == r.Block() {
			for i, e := range phi.Edges {
				cases = append(cases, retCase{e, phi.Block().Preds[i]})
			}
			continue
		}
		cases = append(cases, retCase{v, r.Block()})
	}
	for _, rc := range cases {
		v := rc.v
		switch {
		case derivesFrom(v, func(x ssa.Value) bool {
			cl := callOf(x)
			return cl != nil && callQName(&cl.Call) == bocPath+".Cell.Hash256" && cl.Call.Args[0] == ssa.Value(nc)
		}, false):
			nFresh++
		case derivesFrom(v, func(x ssa.Value) bool { _, fn, ok := fieldOf(x); return ok && fn == "hash" }, false):
			nCached++
			cachedBlocks = append(cachedBlocks, rc.at)
		default:
			okRet = false
		}
	}
	c.check(okRet && nFresh >= 1 && nCached >= 1, R, "returns the cached hash or the hash of the canonical cell", f.Pos(), fmt.Sprintf("%d cached return(s), %d canonical return(s)", nCached, nFresh), "Message.Hash returns something other than the cached hash or the hash of the freshly built canonical cell")
	// the cached hash is returned only where !normalizeExternal || SumType != ExtInMsgInfo
	okEdge := true
	for _, b := range cachedBlocks {
		// reaching b must not require normalizeExternal && SumType == ExtIn: i.e. b is not reachable when
		// both "normalize" true-edge and "is ext-in" edges are forced... approximated: b has exactly the
		// entry short-circuit blocks as predecessors
		for _, p := range b.Preds {
			ifi := lastIf(p)
			if ifi == nil {
				okEdge = false
				continue
			}
			isNorm := ifi.Cond == ssa.Value(f.Params[1])
			isSum := false
			if bo, ok := ifi.Cond.(*ssa.BinOp); ok && (bo.Op == token.NEQ || bo.Op == token.EQL) {
				if s, ok := constString(bo.Y); ok && s == "ExtInMsgInfo" {
					isSum = true
				}
			}
			if !isNorm && !isSum {
				okEdge = false
			}
		}
	}
	c.check(okEdge, R, "the cached hash is returned only when no normalisation applies", f.Pos(), "only the !normalizeExternal / not-ext-in edges lead to the cached return", "Message.Hash(true) can return the cached (non-normalised) hash for an external-in message on some path: the normalised hash would then depend on source, import fee, init or body placement")
	// contents of the canonical cell: constants, Dest, Body.Value only
	ws := cellWrites(host, nc)
	var evs []string
	bad := []string{}
	for _, w := range ws {
		evs = append(evs, c.eventOf(host, w))
		for _, a := range w.Call.Args[1:] {
			for _, forbidden := range []string{"Src", "ImportFee", "Init", "IsRight"} {
				if derivesFrom(a, fieldLoadNamed(forbidden), true) || derivesFrom(a, func(v ssa.Value) bool { _, fn, ok := fieldOf(v); return ok && fn == forbidden }, true) {
					bad = append(bad, forbidden)
				}
			}
		}
	}
	// MarshalTLB of Dest into the cell
	dest := false
	allInstrs(host, func(_ *ssa.BasicBlock, in ssa.Instruction) {
		if cl, ok := in.(*ssa.Call); ok && callQName(&cl.Call) == tlbPath+".MsgAddress.MarshalTLB" {
			if derivesFrom(cl.Call.Args[0], func(v ssa.Value) bool { _, fn, ok := fieldOf(v); return ok && fn == "Dest" }, false) && cl.Call.Args[1] == ssa.Value(nc) {
				dest = true
			}
		}
	})
	got := strings.Join(evs, " ")
	c.check(len(bad) == 0 && dest, R, "canonical cell depends only on destination and body", nc.Pos(), "writes: "+got+" + Dest.MarshalTLB", fmt.Sprintf("the canonical cell of the normalised hash takes data from %v (destination marshalled: %v): the normalised hash must depend on destination and body only", bad, dest))
	c.check(got == "U(2)=2 U(2)=0 U(4)=0 B=0 B=1 REF", R, "canonical header is ext_in$10 addr_none$00 dest import_fee=0 no-init body-in-ref", nc.Pos(), got, "the canonical cell is written as ["+got+"]; the canonical external-in header is U(2)=2 U(2)=0 <dest> U(4)=0 B=0 B=1 ^body")
	// the body reference is a copy of the remaining body cell
	okBody := false
	for _, w := range ws {
		if callQName(&w.Call) == bocPath+".Cell.AddRef" {
			okBody = derivesFrom(w.Call.Args[1], func(v ssa.Value) bool { _, fn, ok := fieldOf(v); return ok && fn == "Body" }, true)
		}
	}
	c.check(okBody, R, "the reference is the message body", nc.Pos(), "AddRef(body.CopyRemaining()) with body = m.Body.Value", "the reference of the canonical cell is not derived from the message body")
}

// sourceBoc: the lazy closure serialises the captured parameter cell after resetting its cursors.
func (c *Ctx) sourceBoc() {
	const R = "E10.hash-capture"
	f := c.mustFn(R, "tlb", "Transaction.UnmarshalTLB")
	if f == nil {
		return
	}
	n := 0
	okAll := true
	// the lazy closures: created in UnmarshalTLB itself or in an unexported helper it calls with the cell
	// (plainSourceBoc(c)); the captured cell is the closure's free variable of cell type, whatever its name
	var closures []*ssa.Function
	for _, g := range c.deepFns(f) {
		closures = append(closures, g.AnonFuncs...)
	}
	for _, a := range closures {
		n++
		// the captured cell (the parameter) is reset and then serialised
		var fv ssa.Value
		for _, v := range a.FreeVars {
			t := strings.TrimLeft(v.Type().String(), "*")
			if strings.HasSuffix(t, "boc.Cell") {
				fv = v
			}
		}
		if fv == nil {
			okAll = false
			continue
		}
		reset, ser := false, false
		allInstrs(a, func(_ *ssa.BasicBlock, in ssa.Instruction) {
			cl, ok := in.(*ssa.Call)
			if !ok {
				return
			}
			q := callQName(&cl.Call)
			usesC := false
			for _, x := range cl.Call.Args {
				if derivesFrom(x, func(v ssa.Value) bool { return v == fv }, false) {
					usesC = true
				}
			}
			if q == bocPath+".Cell.ResetCounters" && usesC {
				reset = true
			}
			if (q == bocPath+".SerializeBoc" || q == bocPath+".Cell.ToBocCustomWithHasher" || q == bocPath+".Cell.ToBoc") && usesC {
				ser = reset
			}
		})
		if !ser {
			okAll = false
		}
	}
	// the closures capture the variable, not the value: the slot must hold the parameter for good
	for _, in := range f.Blocks[0].Instrs {
		al, ok := in.(*ssa.Alloc)
		if !ok || !al.Heap {
			continue
		}
		sts := storesTo(al)
		// the slot of the captured cell parameter: the one the parameter is stored into
		isSlot := false
		for _, st := range sts {
			if st.Val == ssa.Value(f.Params[1]) {
				isSlot = true
			}
		}
		if !isSlot {
			continue
		}
		okOne := len(sts) == 1 && sts[0].Val == ssa.Value(f.Params[1])
		pos := al.Pos()
		if len(sts) > 1 {
			pos = sts[1].Pos()
		}
		c.check(okOne, R, "the cell variable captured by the SourceBoc closures is never reassigned", pos, "single store: the parameter", fmt.Sprintf("Transaction.UnmarshalTLB assigns the captured variable c %d times: the lazily evaluated SourceBoc closures see the last value, not the cell the transaction was decoded from", len(sts)))
	}
	c.check(okAll && n == 2, R, "SourceBoc serialises the decoded cell after resetting its cursors", f.Pos(), "both lazy closures reset and serialise the captured parameter cell", "Transaction.SourceBoc's closure no longer serialises the cell the transaction was decoded from (after ResetCounters)")
}
