package main

import (
	"go/constant"
	"go/token"
	"go/types"
	"sort"
	"strings"

	"golang.org/x/tools/go/ssa"
	"golang.org/x/tools/go/ssa/ssautil"
)

// edge is a CFG edge From -> From.Succs[Idx].
type edge struct {
	From *ssa.BasicBlock
	Idx  int
}

func (e edge) To() *ssa.BasicBlock { return e.From.Succs[e.Idx] }

// reachableWithout returns the set of blocks reachable from the entry block when
// the given edges are removed from the CFG.
func reachableWithout(f *ssa.Function, cut map[edge]bool) map[*ssa.BasicBlock]bool {
	seen := map[*ssa.BasicBlock]bool{}
	if len(f.Blocks) == 0 {
		return seen
	}
	var stack []*ssa.BasicBlock
	stack = append(stack, f.Blocks[0])
	seen[f.Blocks[0]] = true
	for len(stack) > 0 {
		b := stack[len(stack)-1]
		stack = stack[:len(stack)-1]
		for i, s := range b.Succs {
			if cut[edge{b, i}] {
				continue
			}
			if !seen[s] {
				seen[s] = true
				stack = append(stack, s)
			}
		}
	}
	return seen
}

// reachableFrom returns blocks reachable from b (including b) without cut edges.
func reachableFrom(b *ssa.BasicBlock, cut map[edge]bool) map[*ssa.BasicBlock]bool {
	seen := map[*ssa.BasicBlock]bool{b: true}
	stack := []*ssa.BasicBlock{b}
	for len(stack) > 0 {
		x := stack[len(stack)-1]
		stack = stack[:len(stack)-1]
		for i, s := range x.Succs {
			if cut[edge{x, i}] {
				continue
			}
			if !seen[s] {
				seen[s] = true
				stack = append(stack, s)
			}
		}
	}
	return seen
}

// edgeDominates reports whether every path from entry to block b uses edge e.
func edgeDominates(f *ssa.Function, e edge, b *ssa.BasicBlock) bool {
	r := reachableWithout(f, map[edge]bool{e: true})
	return !r[b]
}

// fact is a branch condition known to hold (Truth) at some program point.
type fact struct {
	Cond  ssa.Value
	Truth bool
	Edge  edge
}

// factsAt returns the branch facts that hold on entry to block b: for every If
// in a dominator of b, the branch edge through which all paths to b must pass.
func factsAt(f *ssa.Function, b *ssa.BasicBlock) []fact {
	var out []fact
	for d := b; d != nil; d = d.Idom() {
		var ifi *ssa.If
		if len(d.Instrs) > 0 {
			ifi, _ = d.Instrs[len(d.Instrs)-1].(*ssa.If)
		}
		if ifi == nil || d == b {
			continue
		}
		if d.Succs[0] == d.Succs[1] {
			continue
		}
		t := edgeDominates(f, edge{d, 0}, b)
		e := edgeDominates(f, edge{d, 1}, b)
		if t && !e {
			out = append(out, fact{ifi.Cond, true, edge{d, 0}})
			out = append(out, conjuncts(ifi.Cond, true, edge{d, 0}, 0)...)
		} else if e && !t {
			out = append(out, fact{ifi.Cond, false, edge{d, 1}})
			out = append(out, conjuncts(ifi.Cond, false, edge{d, 1}, 0)...)
		}
	}
	return out
}

// conjuncts decomposes a short-circuit expression evaluated as a VALUE (go/ssa builds `a && b`
// in value context - a switch case, an assignment - as phi[false from the block testing a, b]):
// when the phi is true both operands are; for `a || b` = phi[true, b], when it is false both are
// false. The other polarity implies nothing. Negation (!x) is looked through.
func conjuncts(cond ssa.Value, truth bool, e edge, depth int) []fact {
	if depth > 4 {
		return nil
	}
	switch x := cond.(type) {
	case *ssa.UnOp:
		if x.Op == token.NOT {
			out := []fact{{x.X, !truth, e}}
			return append(out, conjuncts(x.X, !truth, e, depth+1)...)
		}
	case *ssa.Call:
		// a test extracted into an unexported predicate helper (one return, a pure expression of its
		// parameters): the helper's returned expression holds with the same truth. Its operands are the helper's
		// parameters; predicateArgs maps them back to the arguments of this call.
		if h := predicateHelper(x); h != nil {
			ret := retVal(returnsOf(h)[0], 0)
			out := []fact{{ret, truth, e}}
			return append(out, conjuncts(ret, truth, e, depth+1)...)
		}
	case *ssa.Phi:
		var rhs ssa.Value
		var k, haveK bool
		var shortPreds []int
		for i, ed := range x.Edges {
			if b, ok := constBool(ed); ok {
				if haveK && b != k {
					return nil
				}
				k, haveK = b, true
				shortPreds = append(shortPreds, i)
				continue
			}
			if rhs != nil {
				return nil
			}
			rhs = ed
		}
		if rhs == nil || !haveK || k == truth {
			return nil // && tells something only when true, || only when false
		}
		var out []fact
		out = append(out, fact{rhs, truth, e})
		out = append(out, conjuncts(rhs, truth, e, depth+1)...)
		for _, i := range shortPreds {
			pred := x.Block().Preds[i]
			pif := lastIf(pred)
			if pif == nil {
				return nil
			}
			// the short-circuit edge pred -> phi block was NOT taken: the operand had the other value
			idx := 0
			if pred.Succs[0] == x.Block() {
				idx = 0
			} else if pred.Succs[1] == x.Block() {
				idx = 1
			} else {
				return nil
			}
			opTruth := idx != 0 // taking Succs[0] means cond true; we took the other one
			out = append(out, fact{pif.Cond, opTruth, e})
			out = append(out, conjuncts(pif.Cond, opTruth, e, depth+1)...)
		}
		return out
	}
	return nil
}

func lastIf(b *ssa.BasicBlock) *ssa.If {
	if len(b.Instrs) == 0 {
		return nil
	}
	i, _ := b.Instrs[len(b.Instrs)-1].(*ssa.If)
	return i
}

// stripConv removes value-preserving wrappers (ChangeType, Convert, MakeInterface, ChangeInterface).
func stripConv(v ssa.Value) ssa.Value {
	for {
		switch x := v.(type) {
		case *ssa.ChangeType:
			v = x.X
		case *ssa.Convert:
			v = x.X
		case *ssa.MakeInterface:
			v = x.X
		case *ssa.ChangeInterface:
			v = x.X
		default:
			return v
		}
	}
}

func isNilConst(v ssa.Value) bool {
	c, ok := v.(*ssa.Const)
	return ok && c.Value == nil && !isBasic(c.Type())
}

func isBasic(t types.Type) bool {
	_, ok := t.Underlying().(*types.Basic)
	return ok
}

func constBool(v ssa.Value) (bool, bool) {
	c, ok := v.(*ssa.Const)
	if !ok || c.Value == nil || c.Value.Kind() != constant.Bool {
		return false, false
	}
	return constant.BoolVal(c.Value), true
}

func constInt(v ssa.Value) (int64, bool) {
	c, ok := v.(*ssa.Const)
	if !ok || c.Value == nil {
		return 0, false
	}
	if c.Value.Kind() != constant.Int {
		return 0, false
	}
	if i, ok := constant.Int64Val(c.Value); ok {
		return i, true
	}
	if u, ok := constant.Uint64Val(c.Value); ok {
		return int64(u), true
	}
	return 0, false
}

func constString(v ssa.Value) (string, bool) {
	c, ok := v.(*ssa.Const)
	if !ok || c.Value == nil || c.Value.Kind() != constant.String {
		return "", false
	}
	return constant.StringVal(c.Value), true
}

func isErrorType(t types.Type) bool {
	n, ok := t.(*types.Named)
	return ok && n.Obj().Pkg() == nil && n.Obj().Name() == "error"
}

// calleeOf returns the statically known callee of a call instruction (function or method,
// including interface method objects for invoke-mode calls, returned as *types.Func).
func calleeFunc(cc *ssa.CallCommon) *types.Func {
	if cc.IsInvoke() {
		return cc.Method
	}
	switch v := cc.Value.(type) {
	case *ssa.Function:
		if o, ok := v.Object().(*types.Func); ok {
			return o
		}
		if v.Origin() != nil {
			if o, ok := v.Origin().Object().(*types.Func); ok {
				return o
			}
		}
	case *ssa.MakeClosure:
		if fn, ok := v.Fn.(*ssa.Function); ok {
			if o, ok := fn.Object().(*types.Func); ok {
				return o
			}
		}
	}
	return nil
}

// staticCallee returns the *ssa.Function called, if static (after generic instantiation: origin).
func staticCallee(cc *ssa.CallCommon) *ssa.Function {
	f := cc.StaticCallee()
	if f == nil {
		return nil
	}
	return f
}

func origin(f *ssa.Function) *ssa.Function {
	if f != nil && f.Origin() != nil {
		return f.Origin()
	}
	return f
}

// qname returns "pkgpath.Name" or "pkgpath.Recv.Name" of a function object.
func qname(f *types.Func) string {
	if f == nil {
		return ""
	}
	sig, _ := f.Type().(*types.Signature)
	pk := ""
	if f.Pkg() != nil {
		pk = f.Pkg().Path()
	}
	if sig != nil && sig.Recv() != nil {
		t := sig.Recv().Type()
		if p, ok := t.(*types.Pointer); ok {
			t = p.Elem()
		}
		if n, ok := t.(*types.Named); ok {
			return pk + "." + n.Obj().Name() + "." + f.Name()
		}
		return pk + ".?." + f.Name()
	}
	return pk + "." + f.Name()
}

func callQName(cc *ssa.CallCommon) string { return qname(calleeFunc(cc)) }

// isCallTo reports whether v is a call (or the extracted result of a call) to one of the named functions.
func callOf(v ssa.Value) *ssa.Call {
	switch x := v.(type) {
	case *ssa.Call:
		return x
	case *ssa.Extract:
		if c, ok := x.Tuple.(*ssa.Call); ok {
			return c
		}
	}
	return nil
}

// errClass classifies an error-typed SSA value at a use in block b.
type errClass int

const (
	errUnknown errClass = iota // may be nil or non-nil
	errNil                     // definitely nil
	errNonNil                  // definitely non-nil (a failure)
)

func classifyErr(f *ssa.Function, v ssa.Value, at *ssa.BasicBlock, depth int) errClass {
	if depth > 6 {
		return errUnknown
	}
	switch x := v.(type) {
	case *ssa.Const:
		if x.Value == nil {
			return errNil
		}
	case *ssa.MakeInterface:
		return errNonNil
	case *ssa.UnOp:
		if x.Op == token.MUL {
			if g, ok := x.X.(*ssa.Global); ok {
				_ = g
				return errNonNil // package-level error variable (ErrXxx)
			}
		}
	case *ssa.Call:
		q := callQName(&x.Call)
		if q == "errors.New" || q == "fmt.Errorf" {
			return errNonNil
		}
	case *ssa.Phi:
		// all edges agree?
		cls := errClass(-1)
		for _, e := range x.Edges {
			if e == v {
				continue
			}
			k := classifyErr(f, e, nil, depth+1)
			if cls == errClass(-1) {
				cls = k
			} else if cls != k {
				return errUnknown
			}
		}
		if cls == errNil || cls == errNonNil {
			return cls
		}
	}
	if at != nil {
		for _, ft := range factsAt(f, at) {
			if nn, isNil := nilTest(ft.Cond, v); nn {
				// cond is "v != nil" (isNil=false) or "v == nil" (isNil=true)
				if isNil == ft.Truth {
					return errNil
				}
				return errNonNil
			}
		}
	}
	return errUnknown
}

// nilTest: is cond a comparison of v with nil? returns (true, isEq).
func nilTest(cond ssa.Value, v ssa.Value) (bool, bool) {
	b, ok := cond.(*ssa.BinOp)
	if !ok || (b.Op != token.EQL && b.Op != token.NEQ) {
		return false, false
	}
	if (b.X == v && isNilConst(b.Y)) || (b.Y == v && isNilConst(b.X)) {
		return true, b.Op == token.EQL
	}
	return false, false
}

// returnsOf lists the Return instructions of f.
func returnsOf(f *ssa.Function) []*ssa.Return {
	var out []*ssa.Return
	for _, b := range f.Blocks {
		if len(b.Instrs) == 0 {
			continue
		}
		if r, ok := b.Instrs[len(b.Instrs)-1].(*ssa.Return); ok {
			out = append(out, r)
		}
	}
	return out
}

// successPoint is a place where the function is about to return "success":
// either a whole return block or one incoming edge of a phi feeding the return.
type successPoint struct {
	Block *ssa.BasicBlock // block whose end is the success point
	Ret   *ssa.Return
	Desc  string
}

// successPoints enumerates the exits of f at which result #idx is "success":
// for error results - not definitely non-nil; for bool results - not definitely false.
func successPoints(f *ssa.Function, idx int) []successPoint {
	var out []successPoint
	for _, r := range returnsOf(f) {
		if idx >= len(r.Results) {
			continue
		}
		v := retVal(r, idx)
		expand(f, v, r.Block(), r, &out, 0, map[ssa.Value]bool{})
	}
	return out
}

func isFailureValue(f *ssa.Function, v ssa.Value, at *ssa.BasicBlock) bool {
	if isErrorType(v.Type()) || types.IsInterface(v.Type()) {
		return classifyErr(f, v, at, 0) == errNonNil
	}
	if b, ok := constBool(v); ok {
		return !b
	}
	return false
}

func expand(f *ssa.Function, v ssa.Value, at *ssa.BasicBlock, r *ssa.Return, out *[]successPoint, depth int, seen map[ssa.Value]bool) {
	if phi, ok := v.(*ssa.Phi); ok && depth < 8 && !seen[v] && phi.Block() == at && !isFailureValue(f, v, at) {
		seen[v] = true
		for i, e := range phi.Edges {
			pred := phi.Block().Preds[i]
			expand(f, e, pred, r, out, depth+1, seen)
		}
		return
	}
	if isFailureValue(f, v, at) {
		return
	}
	*out = append(*out, successPoint{Block: at, Ret: r, Desc: valueDesc(v)})
}

func valueDesc(v ssa.Value) string {
	switch x := v.(type) {
	case *ssa.Const:
		return x.String()
	case *ssa.Call:
		return "call " + callQName(&x.Call)
	case *ssa.Extract:
		if c, ok := x.Tuple.(*ssa.Call); ok {
			return "result of " + callQName(&c.Call)
		}
	}
	return v.Name() + ":" + strings.TrimPrefix(v.Type().String(), modPath+"/")
}

// derivesFrom reports whether v is computed from a value satisfying pred, following
// conversions, unary/binary ops, extracts, phis, field/index loads of locally-built values,
// slices, and calls' arguments when throughCalls is set.
func derivesFrom(v ssa.Value, pred func(ssa.Value) bool, throughCalls bool) bool {
	seen := map[ssa.Value]bool{}
	hops := 0
	var rec func(v ssa.Value, d int) bool
	// viaReturns: result idx of the unexported in-module helper g derives from what g returns there
	// (error results are not data)
	var ctxStack []*ssa.Call // calls entered through their results (innermost last)
	viaReturns := func(g *ssa.Function, idx int, d int, at *ssa.Call) bool {
		if idx >= g.Signature.Results().Len() || isErrorType(g.Signature.Results().At(idx).Type()) {
			return false
		}
		hops++
		ctxStack = append(ctxStack, at)
		defer func() { hops--; ctxStack = ctxStack[:len(ctxStack)-1] }()
		for _, r := range returnsOf(g) {
			if idx < len(r.Results) && rec(unspill(r.Results[idx]), d+1) {
				return true
			}
		}
		return false
	}
	rec = func(v ssa.Value, d int) bool {
		if v == nil || seen[v] || d > 40 {
			return false
		}
		seen[v] = true
		if pred(v) {
			return true
		}
		switch x := v.(type) {
		case *ssa.ChangeType:
			return rec(x.X, d+1)
		case *ssa.Convert:
			return rec(x.X, d+1)
		case *ssa.MakeInterface:
			return rec(x.X, d+1)
		case *ssa.ChangeInterface:
			return rec(x.X, d+1)
		case *ssa.UnOp:
			if x.Op == token.MUL {
				// load: look at stores to the same address in the function
				if rec(x.X, d+1) {
					return true
				}
				for _, st := range storesTo(x.X) {
					if rec(st.Val, d+1) {
						return true
					}
				}
				return false
			}
			return rec(x.X, d+1)
		case *ssa.BinOp:
			return rec(x.X, d+1) || rec(x.Y, d+1)
		case *ssa.Extract:
			if cl, ok := x.Tuple.(*ssa.Call); ok {
				if g := plainHelper(cl.Call.StaticCallee()); g != nil && hops < 3 {
					if pred(cl) {
						return true
					}
					if viaReturns(g, x.Index, d, cl) {
						return true
					}
					if !throughCalls {
						return false
					}
				}
			}
			return rec(x.Tuple, d+1)
		case *ssa.Phi:
			for _, e := range x.Edges {
				if rec(e, d+1) {
					return true
				}
			}
		case *ssa.Slice:
			return rec(x.X, d+1)
		case *ssa.Alloc:
			for _, st := range storesTo(x) {
				if rec(st.Val, d+1) {
					return true
				}
			}
			// element / field stores into the local
			if refs := x.Referrers(); refs != nil {
				for _, r := range *refs {
					switch y := r.(type) {
					case *ssa.IndexAddr:
						for _, st := range storesTo(y) {
							if rec(st.Val, d+1) {
								return true
							}
						}
					case *ssa.FieldAddr:
						for _, st := range storesTo(y) {
							if rec(st.Val, d+1) {
								return true
							}
						}
					case *ssa.Slice:
						// copy(local[:], src)
						for _, src := range copiedInto(y) {
							if rec(src, d+1) {
								return true
							}
						}
					}
				}
			}
		case *ssa.FieldAddr:
			return rec(x.X, d+1)
		case *ssa.Field:
			return rec(x.X, d+1)
		case *ssa.IndexAddr:
			return rec(x.X, d+1)
		case *ssa.Index:
			return rec(x.X, d+1)
		case *ssa.TypeAssert:
			return rec(x.X, d+1)
		case *ssa.Call:
			if throughCalls {
				for _, a := range x.Call.Args {
					if rec(a, d+1) {
						return true
					}
				}
				if x.Call.IsInvoke() {
					return rec(x.Call.Value, d+1)
				}
			}
			// the result of an unexported in-module helper derives from what the helper returns (the code
			// reads the same after the helper is inlined back)
			if g := plainHelper(x.Call.StaticCallee()); g != nil && hops < 3 && g.Signature.Results().Len() == 1 {
				return viaReturns(g, 0, d, x)
			}
		case *ssa.Parameter:
			// a parameter of an unexported in-module helper derives from the arguments at its call sites
			if g := plainHelper(x.Parent()); g != nil && hops < 3 {
				idx := -1
				for i, p := range g.Params {
					if p == x {
						idx = i
					}
				}
				if idx < 0 {
					return false
				}
				// entered through the result of one particular call: the parameter is that call's argument
				for i := len(ctxStack) - 1; i >= 0; i-- {
					if sc := ctxStack[i].Call.StaticCallee(); sc != nil && origin(sc) == g {
						saved := ctxStack
						ctxStack = ctxStack[:i]
						r := idx < len(saved[i].Call.Args) && rec(saved[i].Call.Args[idx], d+1)
						ctxStack = saved
						return r
					}
				}
				hops++
				for _, site := range gCallSites[g] {
					if args := site.Common().Args; idx < len(args) && site.Parent() != g {
						if rec(args[idx], d+1) {
							hops--
							return true
						}
					}
				}
				hops--
			}
		}
		return false
	}
	return rec(v, 0)
}

// gCallSites: static call sites of every function with a body, built once per load.
var gCallSites map[*ssa.Function][]ssa.CallInstruction

// gAddrTaken: functions used as values (not only called).
var gAddrTaken map[*ssa.Function]bool

func buildCallSites(prog *ssa.Program) {
	gCallSites = map[*ssa.Function][]ssa.CallInstruction{}
	gAddrTaken = map[*ssa.Function]bool{}
	for f := range ssautil.AllFunctions(prog) {
		if !inModule(f) {
			continue
		}
		for _, b := range f.Blocks {
			for _, in := range b.Instrs {
				if ci, ok := in.(ssa.CallInstruction); ok {
					if callee := ci.Common().StaticCallee(); callee != nil && inModule(callee) {
						callee = origin(callee)
						gCallSites[callee] = append(gCallSites[callee], ci)
					}
				}
				for _, op := range in.Operands(nil) {
					if op == nil || *op == nil {
						continue
					}
					if fn, ok := (*op).(*ssa.Function); ok {
						if ci, ok := in.(ssa.CallInstruction); ok && ci.Common().Value == fn {
							continue
						}
						gAddrTaken[origin(fn)] = true
					}
				}
			}
		}
	}
	for _, sites := range gCallSites {
		sort.Slice(sites, func(i, j int) bool { return sites[i].Pos() < sites[j].Pos() })
	}
}

// plainHelper: f when it is an unexported in-module function or method with a body (the kind of
// function an extract-method refactoring creates), else nil.
func plainHelper(f *ssa.Function) *ssa.Function {
	if f == nil {
		return nil
	}
	f = origin(f)
	if len(f.Blocks) == 0 || !inModule(f) || f.Object() == nil || f.Object().Exported() || f.Parent() != nil {
		return nil
	}
	return f
}

// storesTo lists Store instructions whose address is exactly addr (same SSA value)
func storesTo(addr ssa.Value) []*ssa.Store {
	var out []*ssa.Store
	refs := addr.Referrers()
	if refs == nil {
		return nil
	}
	for _, r := range *refs {
		if st, ok := r.(*ssa.Store); ok && st.Addr == addr {
			if gStoreFilter != nil && st.Block() != nil && st.Block().Parent() == gStoreFilterFn && !gStoreFilter[st.Block()] {
				continue // a store on a path that cannot run in the case being examined
			}
			out = append(out, st)
		}
	}
	return out
}

// gStoreFilter: when set, storesTo ignores stores of gStoreFilterFn outside these blocks (path-restricted
// derivation: "what can this variable hold when the function runs for THIS case").
var (
	gStoreFilter   map[*ssa.BasicBlock]bool
	gStoreFilterFn *ssa.Function
)

// allInstrs iterates over all instructions of f.
func allInstrs(f *ssa.Function, fn func(b *ssa.BasicBlock, i ssa.Instruction)) {
	for _, b := range f.Blocks {
		for _, i := range b.Instrs {
			fn(b, i)
		}
	}
}

// callsIn lists call instructions (Call, Go, Defer) in f with their common part.
func callsIn(f *ssa.Function) []ssa.CallInstruction {
	var out []ssa.CallInstruction
	allInstrs(f, func(_ *ssa.BasicBlock, i ssa.Instruction) {
		if ci, ok := i.(ssa.CallInstruction); ok {
			out = append(out, ci)
		}
	})
	return out
}

// withAnons returns f and all its (transitively) nested anonymous functions.
func withAnons(f *ssa.Function) []*ssa.Function {
	out := []*ssa.Function{f}
	for _, a := range f.AnonFuncs {
		out = append(out, withAnons(a)...)
	}
	return out
}

// moduleFuncs lists every source function (with body) of the given module-relative packages,
// including methods and anonymous functions, generic origins only (no instantiations).
func (c *Ctx) moduleFuncs(rels ...string) []*ssa.Function {
	var out []*ssa.Function
	for _, rel := range rels {
		sp := c.spkg(rel)
		if sp == nil {
			continue
		}
		seen := map[*ssa.Function]bool{}
		addF := func(f *ssa.Function) {
			if f == nil || seen[f] || len(f.Blocks) == 0 {
				return
			}
			seen[f] = true
			out = append(out, withAnons(f)...)
		}
		var names []string
		for n := range sp.Members {
			names = append(names, n)
		}
		sortStrings(names)
		for _, n := range names {
			switch m := sp.Members[n].(type) {
			case *ssa.Function:
				addF(m)
			case *ssa.Type:
				t := m.Type()
				for _, tt := range []types.Type{t, types.NewPointer(t)} {
					ms := c.Prog.MethodSets.MethodSet(tt)
					for i := 0; i < ms.Len(); i++ {
						obj, ok := ms.At(i).Obj().(*types.Func)
						if !ok || obj.Pkg() == nil || obj.Pkg().Path() != sp.Pkg.Path() {
							continue
						}
						// only methods declared on this type (not promoted)
						if len(ms.At(i).Index()) != 1 {
							continue
						}
						addF(c.Prog.FuncValue(obj))
					}
				}
			}
		}
	}
	return out
}

func sortStrings(s []string) {
	for i := 1; i < len(s); i++ {
		for j := i; j > 0 && s[j] < s[j-1]; j-- {
			s[j], s[j-1] = s[j-1], s[j]
		}
	}
}

// fieldOf returns (struct type name, field name) for a FieldAddr/Field instruction.
func fieldOf(v ssa.Value) (string, string, bool) {
	var t types.Type
	var idx int
	switch x := v.(type) {
	case *ssa.FieldAddr:
		t = x.X.Type()
		idx = x.Field
	case *ssa.Field:
		t = x.X.Type()
		idx = x.Field
	default:
		return "", "", false
	}
	if p, ok := t.Underlying().(*types.Pointer); ok {
		t = p.Elem()
	}
	name := ""
	if n, ok := t.(*types.Named); ok {
		name = n.Obj().Name()
		if n.Obj().Pkg() != nil {
			name = n.Obj().Pkg().Name() + "." + name
		}
	}
	st, ok := t.Underlying().(*types.Struct)
	if !ok || idx >= st.NumFields() {
		return "", "", false
	}
	return name, st.Field(idx).Name(), true
}

// retVal returns result #idx of a return, looking through go/ssa's defer-induced spilling of
// results ("*res = v; rundefers; t = *res; return t"): a load of a local whose reaching store is
// in the same block is replaced by the stored value.
func retVal(r *ssa.Return, idx int) ssa.Value {
	if idx < 0 || idx >= len(r.Results) {
		// a rule asking for a result the function (no longer) has: an opaque value that matches nothing
		return ssa.NewConst(constant.MakeInt64(-1), types.Typ[types.Int])
	}
	return unspill(r.Results[idx])
}

func unspill(v ssa.Value) ssa.Value {
	ld, ok := v.(*ssa.UnOp)
	if !ok || ld.Op != token.MUL {
		return v
	}
	al, ok := ld.X.(*ssa.Alloc)
	if !ok || al.Heap {
		return v
	}
	b := ld.Block()
	var last ssa.Value
	for _, in := range b.Instrs {
		if in == ssa.Instruction(ld) {
			break
		}
		if st, ok := in.(*ssa.Store); ok && st.Addr == ssa.Value(al) {
			last = st.Val
		}
	}
	if last != nil {
		return last
	}
	return v
}

// copiedInto lists the sources of builtin copy calls whose destination is the slice value sl.
func copiedInto(sl *ssa.Slice) []ssa.Value {
	var out []ssa.Value
	refs := sl.Referrers()
	if refs == nil {
		return nil
	}
	for _, r := range *refs {
		if cl, ok := r.(*ssa.Call); ok {
			if b, ok := cl.Call.Value.(*ssa.Builtin); ok && b.Name() == "copy" && cl.Call.Args[0] == ssa.Value(sl) {
				out = append(out, cl.Call.Args[1])
			}
		}
	}
	return out
}

// rejectLowerBound: the If's successor rejIdx is the rejecting edge. When the condition compares a
// value with a constant so that the edge is taken exactly for X >= L, it returns X and L - whichever
// way the comparison is spelt (x >= k, x > k-1, !(x < k), k <= x, branches swapped).
func rejectLowerBound(ifi *ssa.If, rejIdx int) (ssa.Value, int64, bool) {
	bo, ok := ifi.Cond.(*ssa.BinOp)
	if !ok {
		return nil, 0, false
	}
	x, op := bo.X, bo.Op
	k, okK := constInt(bo.Y)
	if !okK {
		kk, okX := constInt(bo.X)
		if !okX {
			return nil, 0, false
		}
		k, x = kk, bo.Y
		switch op {
		case token.LSS:
			op = token.GTR
		case token.LEQ:
			op = token.GEQ
		case token.GTR:
			op = token.LSS
		case token.GEQ:
			op = token.LEQ
		}
	}
	truth := rejIdx == 0
	switch {
	case truth && op == token.GEQ, !truth && op == token.LSS:
		return x, k, true
	case truth && op == token.GTR, !truth && op == token.LEQ:
		return x, k + 1, true
	}
	return nil, 0, false
}

// helperOf: f is an unexported helper (never used as a value) every call site of which lies in a
// function for which owner holds, or in another such helper: after inlining, its code belongs to
// those functions. Returns the name of one owning function.
func helperOf(f *ssa.Function, owner func(name string) bool, depth int) (string, bool) {
	h := plainHelper(f)
	if h == nil || gAddrTaken[h] || len(gCallSites[h]) == 0 || depth > 2 {
		return "", false
	}
	via := ""
	for _, site := range gCallSites[h] {
		p := site.Parent()
		for p.Parent() != nil {
			p = p.Parent()
		}
		p = origin(p)
		if p == h {
			continue
		}
		if owner(fnName(p)) {
			via = fnName(p)
			continue
		}
		if v, ok := helperOf(p, owner, depth+1); ok {
			via = v
			continue
		}
		return "", false
	}
	return via, via != ""
}

// constTableField: v loads field k of the current element of a range loop over a LOCAL array
// literal of structs whose field k is a constant in every element (a table-driven rewrite of a
// sequence of calls with constant arguments). It returns the constants in index order.
func constTableField(v ssa.Value) ([]int64, bool) {
	var k int
	var elemSrc []ssa.Value // the struct values field k is read from
	switch x := v.(type) {
	case *ssa.UnOp:
		if x.Op != token.MUL {
			return nil, false
		}
		fa, ok := x.X.(*ssa.FieldAddr)
		if !ok {
			return nil, false
		}
		k = fa.Field
		switch b := fa.X.(type) {
		case *ssa.Alloc: // the loop variable: every store copies an element in
			sts := storesTo(b)
			if len(sts) == 0 {
				return nil, false
			}
			for _, st := range sts {
				elemSrc = append(elemSrc, st.Val)
			}
		case *ssa.IndexAddr:
			elemSrc = append(elemSrc, b)
		default:
			return nil, false
		}
	case *ssa.Field:
		k = x.Field
		elemSrc = append(elemSrc, x.X)
	default:
		return nil, false
	}
	var arr *ssa.Alloc
	for _, e := range elemSrc {
		var base ssa.Value
		switch y := e.(type) {
		case *ssa.Index:
			base = y.X
		case *ssa.IndexAddr:
			base = y.X
		case *ssa.UnOp:
			if ia, ok := y.X.(*ssa.IndexAddr); ok && y.Op == token.MUL {
				base = ia.X
			}
		}
		if ld, ok := base.(*ssa.UnOp); ok && ld.Op == token.MUL {
			base = ld.X
		}
		al, ok := base.(*ssa.Alloc)
		if !ok || (arr != nil && arr != al) {
			return nil, false
		}
		arr = al
	}
	if arr == nil {
		return nil, false
	}
	n, ok := arrayLen(arr.Type())
	if !ok || n == 0 || n > 64 {
		return nil, false
	}
	if len(storesTo(arr)) > 0 {
		return nil, false
	}
	vals := make([]int64, n)
	have := make([]bool, n)
	fieldConst := func(structAddr ssa.Value) (int64, bool) {
		refs := structAddr.Referrers()
		if refs == nil {
			return 0, false
		}
		var out int64
		found := 0
		for _, r := range *refs {
			fa, ok := r.(*ssa.FieldAddr)
			if !ok || fa.Field != k {
				continue
			}
			for _, st := range storesTo(fa) {
				c, ok := constInt(st.Val)
				if !ok {
					return 0, false
				}
				out = c
				found++
			}
		}
		return out, found == 1
	}
	for _, r := range *arr.Referrers() {
		ia, ok := r.(*ssa.IndexAddr)
		if !ok {
			continue // whole loads
		}
		idx, isC := constInt(ia.Index)
		if !isC {
			if len(storesTo(ia)) > 0 {
				return nil, false
			}
			continue
		}
		if idx < 0 || idx >= n {
			return nil, false
		}
		if c, ok := fieldConst(ia); ok { // &A[i].f = c
			vals[idx], have[idx] = c, true
			continue
		}
		for _, st := range storesTo(ia) { // A[i] = *lit
			ld, ok := st.Val.(*ssa.UnOp)
			if !ok || ld.Op != token.MUL {
				return nil, false
			}
			lit, ok := ld.X.(*ssa.Alloc)
			if !ok || len(storesTo(lit)) > 0 {
				return nil, false
			}
			c, ok := fieldConst(lit)
			if !ok {
				return nil, false
			}
			vals[idx], have[idx] = c, true
		}
	}
	for _, h := range have {
		if !h {
			return nil, false
		}
	}
	return vals, true
}

// predicateHelper: the call is to an unexported in-module function with one bool result and one
// return statement (frameLenInBounds(n) bool { return n >= 64 && n <= 8<<20 }).
func predicateHelper(cl *ssa.Call) *ssa.Function {
	h := plainHelper(cl.Call.StaticCallee())
	if h == nil || h.Signature.Results().Len() != 1 {
		return nil
	}
	if b, ok := h.Signature.Results().At(0).Type().Underlying().(*types.Basic); !ok || b.Kind() != types.Bool {
		return nil
	}
	if len(returnsOf(h)) != 1 {
		return nil
	}
	return h
}

// predicateArgs: for the predicate-helper calls among the facts, the map from the helper's
// parameters to the arguments of the call.
func predicateArgs(fts []fact) map[ssa.Value]ssa.Value {
	out := map[ssa.Value]ssa.Value{}
	for _, ft := range fts {
		c := ft.Cond
		if u, ok := c.(*ssa.UnOp); ok && u.Op == token.NOT {
			c = u.X
		}
		cl, ok := c.(*ssa.Call)
		if !ok {
			continue
		}
		if h := predicateHelper(cl); h != nil {
			for i, p := range h.Params {
				if i < len(cl.Call.Args) {
					out[p] = cl.Call.Args[i]
				}
			}
		}
	}
	return out
}
