package main

import (
	"fmt"
	"go/token"
	"go/types"
	"math"
	"math/big"
	"sort"
	"strings"

	"golang.org/x/tools/go/ssa"
)

// A small linear-arithmetic prover over SSA integer values (in the spirit of ABCD bounds
// check elimination, generalised from difference constraints to linear facts). Entailment is
// decided by Fourier-Motzkin elimination over the rationals, which is sound for proving
// integer infeasibility. Integer overflow of int/uint index arithmetic is not modelled
// (stated as an assumption in the evidence).

// lvar identifies a prover variable: an SSA value itself, or len()/cap() of an SSA value.
type lvar struct {
	v    ssa.Value
	kind byte // 'v' value, 'l' len, 'c' cap, 'f' stable field load (v = base, idx = field)
	idx  int
	fn   string // disambiguates interprocedural copies (unused vars share SSA identity)
}

type linexp struct {
	co map[lvar]*big.Rat
	k  *big.Rat
}

func newLin() *linexp { return &linexp{co: map[lvar]*big.Rat{}, k: new(big.Rat)} }

func linConst(n int64) *linexp {
	l := newLin()
	l.k.SetInt64(n)
	return l
}

func linVar(v lvar) *linexp {
	l := newLin()
	l.co[v] = big.NewRat(1, 1)
	return l
}

func (a *linexp) clone() *linexp {
	l := newLin()
	for v, c := range a.co {
		l.co[v] = new(big.Rat).Set(c)
	}
	l.k.Set(a.k)
	return l
}

func (a *linexp) addScaled(b *linexp, s *big.Rat) *linexp {
	l := a.clone()
	for v, c := range b.co {
		t := new(big.Rat).Mul(c, s)
		if old, ok := l.co[v]; ok {
			t.Add(t, old)
		}
		if t.Sign() == 0 {
			delete(l.co, v)
		} else {
			l.co[v] = t
		}
	}
	l.k.Add(l.k, new(big.Rat).Mul(b.k, s))
	return l
}

func (a *linexp) add(b *linexp) *linexp { return a.addScaled(b, big.NewRat(1, 1)) }
func (a *linexp) sub(b *linexp) *linexp { return a.addScaled(b, big.NewRat(-1, 1)) }
func (a *linexp) scale(n int64) *linexp { return newLin().addScaled(a, big.NewRat(n, 1)) }
func (a *linexp) addConst(n int64) *linexp {
	l := a.clone()
	l.k.Add(l.k, big.NewRat(n, 1))
	return l
}
func (a *linexp) isConst() bool { return len(a.co) == 0 }

// ineq is the fact "e >= 0".
type ineq struct {
	e   *linexp
	why string
}

type proverCtx struct {
	linDepth  int
	nilKnown  map[ssa.Value]bool // error/pointer values known nil (true) / non-nil (false) at the site
	subst     map[ssa.Value]ssa.Value
	siteBlock map[*ssa.Function]*ssa.BasicBlock
	block     *ssa.BasicBlock
	c         *Ctx
	f         *ssa.Function
	facts     []ineq
	seenVar   map[lvar]bool
	depth     int
	stable    map[stableKey]bool
	tag       string
}

type stableKey struct {
	t   types.Type
	fld int
}

func (p *proverCtx) addFact(e *linexp, why string) {
	if len(p.facts) > 400 {
		return
	}
	p.facts = append(p.facts, ineq{e, why})
}

func isUnsigned(t types.Type) bool {
	b, ok := t.Underlying().(*types.Basic)
	return ok && b.Info()&types.IsUnsigned != 0
}

func isInteger(t types.Type) bool {
	b, ok := t.Underlying().(*types.Basic)
	return ok && b.Info()&types.IsInteger != 0
}

func intBits(t types.Type) int {
	b, ok := t.Underlying().(*types.Basic)
	if !ok {
		return 64
	}
	switch b.Kind() {
	case types.Int8, types.Uint8:
		return 8
	case types.Int16, types.Uint16:
		return 16
	case types.Int32, types.Uint32:
		return 32
	}
	return 64
}

// varFor registers the intrinsic facts of a variable the first time it is used.
func (p *proverCtx) varFor(lv lvar) *linexp {
	if s, ok := p.subst[lv.v]; ok && (lv.kind == 'l' || lv.kind == 'c' || lv.kind == 'v') {
		if lv.kind == 'v' {
			return p.lin(s)
		}
		lv.v = s
	}
	// len/cap of a load of a stable field: all loads of base.f denote the same slice
	if lv.kind == 'l' || lv.kind == 'c' {
		if ld, ok := lv.v.(*ssa.UnOp); ok && ld.Op == token.MUL {
			if sv := singleStoreValue(ld); sv != nil {
				return p.varFor(lvar{v: sv, kind: lv.kind})
			}
			if fa, ok := ld.X.(*ssa.FieldAddr); ok && p.stableField(fa) {
				k := byte('L')
				if lv.kind == 'c' {
					k = 'C'
				}
				lv = lvar{v: fa.X, kind: k, idx: fa.Field}
			} else if ok {
				// a repeated load of a field nothing can have written in between denotes the same slice
				if l1 := earlierSameLoad(ld); l1 != nil {
					return p.varFor(lvar{v: l1, kind: lv.kind})
				}
			}
		}
	}
	if !p.seenVar[lv] {
		p.seenVar[lv] = true
		switch lv.kind {
		case 'L':
			p.addFact(linVar(lv), "len>=0")
			if ft := fieldType(lv.v.Type(), lv.idx); ft != nil {
				if n, ok := arrayLen(ft); ok {
					p.addFact(linVar(lv).addConst(-n), "len(array)")
					p.addFact(linVar(lv).scale(-1).addConst(n), "len(array)")
				}
			}
		case 'C':
			p.addFact(linVar(lv).sub(p.varFor(lvar{v: lv.v, kind: 'L', idx: lv.idx})), "cap>=len")
		case 'l':
			p.addFact(linVar(lv), "len>=0")
			// len of a fixed array / pointer to array is a constant
			if n, ok := arrayLen(lv.v.Type()); ok {
				p.addFact(linVar(lv).addConst(-n), "len(array)")
				p.addFact(linVar(lv).scale(-1).addConst(n), "len(array)")
			}
			p.lenDefs(lv)
		case 'c':
			// cap >= len >= 0
			l := p.varFor(lvar{v: lv.v, kind: 'l'})
			p.addFact(linVar(lv).sub(l), "cap>=len")
		case 'v', 'f':
			var t types.Type
			if lv.kind == 'v' {
				t = lv.v.Type()
			} else {
				t = fieldType(lv.v.Type(), lv.idx)
			}
			if t != nil && isInteger(t) {
				if isUnsigned(t) {
					p.addFact(linVar(lv), "unsigned>=0")
					if b := intBits(t); b < 64 {
						p.addFact(linVar(lv).scale(-1).addConst(int64(1)<<uint(b)-1), "unsigned range")
					}
				} else if b := intBits(t); b < 64 {
					p.addFact(linVar(lv).addConst(int64(1)<<uint(b-1)), "signed range")
					p.addFact(linVar(lv).scale(-1).addConst(int64(1)<<uint(b-1)-1), "signed range")
				}
			}
			if lv.kind == 'v' {
				p.valueDefs(lv)
			}
		}
	}
	return linVar(lv)
}

func fieldType(t types.Type, idx int) types.Type {
	if ptr, ok := t.Underlying().(*types.Pointer); ok {
		t = ptr.Elem()
	}
	st, ok := t.Underlying().(*types.Struct)
	if !ok || idx >= st.NumFields() {
		return nil
	}
	return st.Field(idx).Type()
}

func arrayLen(t types.Type) (int64, bool) {
	if ptr, ok := t.Underlying().(*types.Pointer); ok {
		t = ptr.Elem()
	}
	if a, ok := t.Underlying().(*types.Array); ok {
		return a.Len(), true
	}
	return 0, false
}

// lenDefs adds definitional facts for len(x) from how x was produced.
func (p *proverCtx) lenDefs(lv lvar) {
	switch x := lv.v.(type) {
	case *ssa.Slice:
		// len(x[lo:hi]) = hi - lo
		var lo, hi *linexp
		if x.Low != nil {
			lo = p.lin(x.Low)
		} else {
			lo = linConst(0)
		}
		if x.High != nil {
			hi = p.lin(x.High)
		} else {
			hi = p.varFor(lvar{v: x.X, kind: 'l'})
		}
		d := hi.sub(lo)
		p.addFact(linVar(lv).sub(d), "len(slice expr)")
		p.addFact(d.sub(linVar(lv)), "len(slice expr)")
	case *ssa.MakeSlice:
		d := p.lin(x.Len)
		p.addFact(linVar(lv).sub(d), "len(make)")
		p.addFact(d.sub(linVar(lv)), "len(make)")
	case *ssa.Const:
		if x.Value == nil {
			if _, isSlice := x.Type().Underlying().(*types.Slice); isSlice {
				p.addFact(linVar(lv), "len(nil slice) = 0")
				p.addFact(linVar(lv).scale(-1), "len(nil slice) = 0")
			}
		}
		if s, ok := constString(x); ok {
			p.addFact(linVar(lv).addConst(-int64(len(s))), "len(const string)")
			p.addFact(linVar(lv).scale(-1).addConst(int64(len(s))), "len(const string)")
		}
	case *ssa.Convert:
		// string(bytes) / []byte(string): same length
		if isStringOrBytes(x.X.Type()) && isStringOrBytes(x.Type()) {
			o := p.varFor(lvar{v: x.X, kind: 'l'})
			p.addFact(linVar(lv).sub(o), "len(conv)")
			p.addFact(o.sub(linVar(lv)), "len(conv)")
		}
	case *ssa.ChangeType:
		o := p.varFor(lvar{v: x.X, kind: 'l'})
		p.addFact(linVar(lv).sub(o), "len(changetype)")
		p.addFact(o.sub(linVar(lv)), "len(changetype)")
	case *ssa.Call:
		// append(a, b...) : len = len(a)+len(b); append(a, x): len(a)+1 (lowered as slice literal of len n)
		if b, ok := x.Call.Value.(*ssa.Builtin); ok && b.Name() == "append" && len(x.Call.Args) == 2 {
			a := p.varFor(lvar{v: x.Call.Args[0], kind: 'l'})
			bb := p.varFor(lvar{v: x.Call.Args[1], kind: 'l'})
			s := a.add(bb)
			p.addFact(linVar(lv).sub(s), "len(append)")
			p.addFact(s.sub(linVar(lv)), "len(append)")
		}
		// hash.Hash.Sum(b) appends the digest: len = len(b) + Size, where the size is known when the hash is
		// visibly a SHA-256 / SHA-512 or an HMAC over one (hmac.New(sha256.New, key))
		if x.Call.IsInvoke() && x.Call.Method.Name() == "Sum" && len(x.Call.Args) == 1 {
			if sz, ok := digestSize(x.Call.Value, 0); ok {
				a := p.varFor(lvar{v: x.Call.Args[0], kind: 'l'}).addConst(sz)
				p.addFact(linVar(lv).sub(a), "len(Hash.Sum(b)) = len(b) + digest size")
				p.addFact(a.sub(linVar(lv)), "len(Hash.Sum(b)) = len(b) + digest size")
			}
		}
		// the result of a small unexported helper with one slice result: its length when every return has the same
		if sc := x.Call.StaticCallee(); sc != nil && x.Call.Signature().Results().Len() == 1 && p.depth < 3 {
			if h := plainHelper(sc); h != nil && len(h.Blocks) <= 8 {
				if k, ok := p.c.resultLen(h, 0); ok {
					p.addFact(linVar(lv).addConst(-k), "summary: len(result) of "+fnName(sc))
					p.addFact(linVar(lv).scale(-1).addConst(k), "summary: len(result) of "+fnName(sc))
				}
			}
		}
		// library results with a documented length
		switch callQName(&x.Call) {
		case "strings.Split", "strings.SplitN", "bytes.Split":
			// splitting by a non-empty separator yields at least one piece
			if sep, ok := constString(x.Call.Args[1]); ok && sep != "" {
				p.addFact(linVar(lv).addConst(-1), "len(strings.Split(s, non-empty sep)) >= 1")
			}
		case "strings.Repeat":
			if one := p.varFor(lvar{v: x.Call.Args[0], kind: 'l'}); one != nil {
				if s, ok := constString(x.Call.Args[0]); ok && len(s) == 1 {
					n := p.lin(x.Call.Args[1])
					p.addFact(linVar(lv).sub(n), "len(strings.Repeat(1 char, n)) = n")
					p.addFact(n.sub(linVar(lv)), "len(strings.Repeat(1 char, n)) = n")
				}
			}
		}
	case *ssa.Phi:
		p.consumingLoop(x)
	case *ssa.BinOp:
		if x.Op == token.ADD && isStringOrBytes(x.Type()) {
			s := p.varFor(lvar{v: x.X, kind: 'l'}).add(p.varFor(lvar{v: x.Y, kind: 'l'}))
			p.addFact(linVar(lv).sub(s), "len(concat)")
			p.addFact(s.sub(linVar(lv)), "len(concat)")
		}
	case *ssa.Extract:
		cl, ok := x.Tuple.(*ssa.Call)
		if !ok {
			return
		}
		// a helper that hands back the rest of its argument (v, rest := consume(n, buf) with rest = buf[n:]):
		// len(rest) = len(buf) - n
		if base, low, ok := resliceOf(x); ok && lv.kind == 'l' {
			d := p.varFor(lvar{v: base, kind: 'l'}).sub(p.lin(low))
			p.addFact(linVar(lv).sub(d), "len(rest) = len(buf) - n: the helper returns buf[n:]")
			p.addFact(d.sub(linVar(lv)), "len(rest) = len(buf) - n: the helper returns buf[n:]")
		}
		sc := cl.Call.StaticCallee()
		if sc == nil || !inModule(sc) {
			return
		}
		ei := errIndex(sc.Signature)
		if ei < 0 || ei == x.Index {
			return
		}
		// only when the call's error is known to be nil here
		for _, r := range realRefs(cl) {
			if ex, ok := r.(*ssa.Extract); ok && ex.Index == ei && p.nilKnown[ex] {
				if k, ok := p.c.resultLen(origin(sc), x.Index); ok {
					p.addFact(linVar(lv).addConst(-k), "summary: len(result) of "+fnName(sc)+" on success")
					p.addFact(linVar(lv).scale(-1).addConst(k), "summary: len(result) of "+fnName(sc)+" on success")
				}
			}
		}
	}
}

func isStringOrBytes(t types.Type) bool {
	switch u := t.Underlying().(type) {
	case *types.Basic:
		return u.Info()&types.IsString != 0
	case *types.Slice:
		return isByte(u.Elem())
	}
	return false
}

// valueDefs adds definitional facts for an opaque integer value from its defining instruction.
func (p *proverCtx) valueDefs(lv lvar) {
	self := linVar(lv)
	switch x := lv.v.(type) {
	case *ssa.BinOp:
		switch x.Op {
		case token.QUO, token.SHR:
			var c int64
			if x.Op == token.QUO {
				k, ok := constInt(x.Y)
				if !ok || k <= 0 {
					return
				}
				c = k
			} else {
				k, ok := constInt(x.Y)
				if !ok || k < 0 || k > 40 {
					return
				}
				c = int64(1) << uint(k)
			}
			if !p.nonneg(x.X) {
				return
			}
			n := p.lin(x.X)
			// c*q <= n <= c*q + c-1
			p.addFact(n.sub(self.scale(c)), "floor div")
			p.addFact(self.scale(c).addConst(c-1).sub(n), "floor div")
			p.addFact(self, "quotient>=0")
		case token.REM:
			k, ok := constInt(x.Y)
			if !ok || k <= 0 || !p.nonneg(x.X) {
				return
			}
			p.addFact(self, "rem>=0")
			p.addFact(self.scale(-1).addConst(k-1), "rem<c")
		case token.AND:
			for _, y := range []ssa.Value{x.X, x.Y} {
				if k, ok := constInt(y); ok && k >= 0 {
					p.addFact(self, "mask>=0")
					p.addFact(self.scale(-1).addConst(k), "mask<=m")
				}
			}
		case token.MUL:
			if p.nonneg(x.X) && p.nonneg(x.Y) {
				p.addFact(self, "product of non-negatives")
			}
		}
	case *ssa.Phi:
		// induction variable: phi(init, self+step, self+step', self ...)
		{
			var inits []ssa.Value
			minStep, maxStep := int64(0), int64(0)
			okShape := true
			for _, e := range x.Edges {
				if e == ssa.Value(x) {
					continue
				}
				if bo, ok := e.(*ssa.BinOp); ok && (bo.Op == token.ADD || bo.Op == token.SUB) && bo.X == ssa.Value(x) {
					if st, ok := constInt(bo.Y); ok {
						if bo.Op == token.SUB {
							st = -st
						}
						if st < minStep {
							minStep = st
						}
						if st > maxStep {
							maxStep = st
						}
						continue
					}
				}
				if _, isPhi := e.(*ssa.Phi); isPhi {
					okShape = false
				}
				inits = append(inits, e)
			}
			if okShape && len(inits) == 1 && (minStep != 0 || maxStep != 0) {
				il := p.lin(inits[0])
				if minStep >= 0 {
					p.addFact(self.sub(il), "induction var >= init")
				}
				if maxStep <= 0 {
					p.addFact(il.sub(self), "induction var <= init")
				}
			}
		}
		// phi of values that all satisfy a common constant lower bound 0 (non-negatives)
		allNN := true
		for _, e := range x.Edges {
			if e == lv.v {
				continue
			}
			if k, ok := constInt(e); ok && k >= 0 {
				continue
			}
			allNN = false
		}
		if allNN && len(x.Edges) > 0 {
			p.addFact(self, "phi of non-negative constants")
		}
	case *ssa.Convert:
		// value-preserving conversions are handled in lin(); an opaque conversion gets only its type range
	case *ssa.Call:
		if b, ok := x.Call.Value.(*ssa.Builtin); ok && (b.Name() == "min" || b.Name() == "max") {
			for _, a := range x.Call.Args {
				al := p.lin(a)
				if b.Name() == "min" {
					p.addFact(al.sub(self), "min<=arg")
				} else {
					p.addFact(self.sub(al), "max>=arg")
				}
			}
		}
	}
}

// nonneg: cheap syntactic non-negativity (used to decide whether floor facts apply).
func (p *proverCtx) nonneg(v ssa.Value) bool {
	if isUnsigned(v.Type()) {
		return true
	}
	if k, ok := constInt(v); ok {
		return k >= 0
	}
	switch x := v.(type) {
	case *ssa.Convert:
		if isInteger(x.X.Type()) && isUnsigned(x.X.Type()) && intBits(x.X.Type()) < intBits(x.Type()) {
			return true
		}
		if isInteger(x.X.Type()) && !isUnsigned(x.X.Type()) && intBits(x.X.Type()) <= intBits(x.Type()) {
			return p.nonneg(x.X)
		}
	case *ssa.Call:
		if b, ok := x.Call.Value.(*ssa.Builtin); ok && (b.Name() == "len" || b.Name() == "cap") {
			return true
		}
	case *ssa.BinOp:
		switch x.Op {
		case token.ADD, token.MUL, token.QUO:
			return p.nonneg(x.X) && p.nonneg(x.Y)
		case token.REM, token.SHR:
			return p.nonneg(x.X)
		case token.AND:
			return p.nonneg(x.X) || p.nonneg(x.Y)
		}
	}
	// ask the prover (bounded recursion)
	if p.depth < 2 {
		p.depth++
		ok := p.prove(p.lin(v))
		p.depth--
		return ok
	}
	return false
}

// lin translates an SSA integer value into a linear expression over prover variables.
func (p *proverCtx) lin(v ssa.Value) *linexp {
	// a substitution cycle (a helper's parameter standing for an expression that mentions the same parameter:
	// a self-recursive helper, or a helper inlined into its own body) must not unfold for ever: past a generous
	// depth the value is opaque
	p.linDepth++
	defer func() { p.linDepth-- }()
	if p.linDepth > 400 {
		return p.varFor(lvar{v: v, kind: 'v'})
	}
	if s, ok := p.subst[v]; ok && s != v {
		return p.lin(s)
	}
	if k, ok := constInt(v); ok {
		return linConst(k)
	}
	switch x := v.(type) {
	case *ssa.BinOp:
		switch x.Op {
		case token.ADD:
			return p.lin(x.X).add(p.lin(x.Y))
		case token.SUB:
			if !isUnsigned(x.Type()) || p.geProvable(x.X, x.Y) {
				return p.lin(x.X).sub(p.lin(x.Y))
			}
		case token.MUL:
			if k, ok := constInt(x.Y); ok {
				return p.lin(x.X).scale(k)
			}
			if k, ok := constInt(x.X); ok {
				return p.lin(x.Y).scale(k)
			}
			// canonical opaque product: x*y and y*x share a variable when operands are the same values
		case token.SHL:
			if k, ok := constInt(x.Y); ok && k >= 0 && k < 31 {
				return p.lin(x.X).scale(int64(1) << uint(k))
			}
		}
	case *ssa.Convert:
		st, dt := x.X.Type(), x.Type()
		if isFloat(st) && isInteger(dt) {
			// int(f): truncation is monotone, so an interval of f bounds the result
			if lo, hi, ok := p.floatRange(x.X, 0); ok && lo > -1e15 && hi < 1e15 {
				e := p.varFor(lvar{v: v, kind: 'v'})
				p.addFact(e.addConst(-int64(math.Trunc(lo))), "interval of the float expression (lower)")
				p.addFact(e.scale(-1).addConst(int64(math.Trunc(hi))), "interval of the float expression (upper)")
				return e
			}
		}
		if isInteger(st) && isInteger(dt) {
			sb, db := intBits(st), intBits(dt)
			su, du := isUnsigned(st), isUnsigned(dt)
			switch {
			case su == du && db >= sb: // widening, same signedness
				return p.lin(x.X)
			case su && !du && db > sb: // unsigned -> wider signed
				return p.lin(x.X)
			case !su && du && db >= sb: // signed -> unsigned: value-preserving only if non-negative
				if p.nonneg(x.X) {
					return p.lin(x.X)
				}
			case su && !du && db == sb:
				// uint -> int of the same width: value-preserving iff < 2^(w-1); sizes of in-memory
				// objects and small counters satisfy it, a 64-bit value decoded from input does not.
				if p.smallUnsigned(x.X) {
					return p.lin(x.X)
				}
				// ... or a value the facts collected so far bound below 2^62
				if p.depth < 2 {
					p.depth++
					small := p.prove(p.lin(x.X).scale(-1).addConst(int64(1) << 62))
					p.depth--
					if small {
						return p.lin(x.X)
					}
				}
			}
		}
	case *ssa.Call:
		if b, ok := x.Call.Value.(*ssa.Builtin); ok {
			switch b.Name() {
			case "len":
				return p.varFor(lvar{v: x.Call.Args[0], kind: 'l'})
			case "cap":
				return p.varFor(lvar{v: x.Call.Args[0], kind: 'c'})
			}
		}
		switch callQName(&x.Call) {
		case "strings.IndexByte", "strings.Index", "strings.IndexRune", "strings.LastIndex", "strings.LastIndexByte", "bytes.IndexByte", "bytes.Index",
			"strings.IndexAny", "strings.LastIndexAny", "strings.IndexFunc", "strings.LastIndexFunc", "bytes.IndexAny", "bytes.IndexRune", "bytes.LastIndex", "bytes.LastIndexByte", "bytes.IndexFunc":
			e := p.varFor(lvar{v: v, kind: 'v'})
			p.addFact(e.addConst(1), "Index* >= -1")
			p.addFact(p.varFor(lvar{v: x.Call.Args[0], kind: 'l'}).sub(e).addConst(-1), "Index* < len")
			return e
		}
		if lo, hi, ok := libRange(callQName(&x.Call)); ok {
			e := p.varFor(lvar{v: v, kind: 'v'})
			p.addFact(e.addConst(-lo), "library range")
			p.addFact(e.scale(-1).addConst(hi), "library range")
			return e
		}
		if sc := x.Call.StaticCallee(); sc != nil && inModule(sc) && isInteger(x.Type()) {
			// a straight-line helper (one block, one result) is read as its expression with the arguments
			// substituted for the parameters: the bounds of the arguments at THIS call carry into the result
			if h := plainHelper(sc); h != nil && len(h.Blocks) == 1 && h.Signature.Results().Len() == 1 && p.depth < 3 {
				if rets := returnsOf(h); len(rets) == 1 && pureExpr(retVal(rets[0], 0), 0) {
					if p.subst == nil {
						p.subst = map[ssa.Value]ssa.Value{}
					}
					for i, prm := range h.Params {
						if i < len(x.Call.Args) {
							p.subst[prm] = x.Call.Args[i]
						}
					}
					p.depth++
					e := p.lin(retVal(rets[0], 0))
					p.depth--
					return e
				}
			}
			e := p.varFor(lvar{v: v, kind: 'v'})
			lo, hi, hasLo, hasHi := p.c.resultRange(origin(sc), 0)
			if (!hasLo || !hasHi) && p.depth < 3 {
				// a small unexported helper with several returns (a clamp, a rounding): bound each return with the
				// constant bounds the arguments have at THIS call
				if h := plainHelper(sc); h != nil && len(h.Blocks) <= 8 && h.Signature.Results().Len() == 1 {
					p.depth++
					clo, chi, cl, ch := p.resultRangeAt(h, x)
					p.depth--
					if !hasLo && cl {
						lo, hasLo = clo, true
					}
					if !hasHi && ch {
						hi, hasHi = chi, true
					}
				}
			}
			if hasLo {
				p.addFact(e.addConst(-lo), "summary: "+fnName(sc)+" returns >= "+fmt.Sprint(lo))
			}
			if hasHi {
				p.addFact(e.scale(-1).addConst(hi), "summary: "+fnName(sc)+" returns <= "+fmt.Sprint(hi))
			}
			return e
		}
	case *ssa.UnOp:
		if x.Op == token.MUL {
			if fwd := forwardedStore(x); fwd != nil {
				return p.lin(fwd)
			}
			if sv := singleStoreValue(x); sv != nil {
				return p.lin(sv)
			}
			// a field of the current element of a loop over a local constant table: one of the table's constants
			if vals, ok := constTableField(x); ok && isInteger(x.Type()) {
				lo, hi := vals[0], vals[0]
				for _, t := range vals {
					if t < lo {
						lo = t
					}
					if t > hi {
						hi = t
					}
				}
				e := p.varFor(lvar{v: v, kind: 'v'})
				p.addFact(e.addConst(-lo), "smallest constant of the local table")
				p.addFact(e.scale(-1).addConst(hi), "largest constant of the local table")
				return e
			}
			if fa, ok := x.X.(*ssa.FieldAddr); ok {
				if !p.stableField(fa) && isInteger(x.Type()) {
					if l1 := earlierSameLoad(x); l1 != nil {
						return p.lin(l1)
					}
				}
				if p.stableField(fa) {
					lv := lvar{v: fa.X, kind: 'f', idx: fa.Field}
					e := p.varFor(lv)
					if axiomNonnegField(fa) {
						p.addFact(e, "data-structure invariant: field >= 0")
					}
					if hi, ok := p.c.countFieldMax(fa); ok {
						p.addFact(e, "derived invariant: count field >= 0")
						p.addFact(e.scale(-1).addConst(hi), "derived invariant: count field <= N")
					}
					return e
				}
				if axiomNonnegField(fa) {
					e := p.varFor(lvar{v: v, kind: 'v'})
					p.addFact(e, "data-structure invariant: field >= 0")
					return e
				}
				if hi, ok := p.c.countFieldMax(fa); ok {
					e := p.varFor(lvar{v: v, kind: 'v'})
					p.addFact(e, "derived invariant: count field >= 0")
					p.addFact(e.scale(-1).addConst(hi), "derived invariant: count field <= N")
					return e
				}
			}
		}
		if x.Op == token.SUB {
			return p.lin(x.X).scale(-1)
		}
	case *ssa.ChangeType:
		return p.lin(x.X)
	case *ssa.Extract:
		if cl, ok := x.Tuple.(*ssa.Call); ok && isInteger(x.Type()) {
			if sc := cl.Call.StaticCallee(); sc != nil && inModule(sc) {
				e := p.varFor(lvar{v: v, kind: 'v'})
				lo, hi, hasLo, hasHi := p.c.resultRange(origin(sc), x.Index)
				if hasLo {
					p.addFact(e.addConst(-lo), "summary: "+fnName(sc)+" returns >= "+fmt.Sprint(lo))
				}
				if hasHi {
					p.addFact(e.scale(-1).addConst(hi), "summary: "+fnName(sc)+" returns <= "+fmt.Sprint(hi))
				}
				return e
			}
		}
	}
	return p.varFor(lvar{v: v, kind: 'v'})
}

// smallUnsigned: an unsigned value known to be < 2^63 because it derives from len/cap, a
// narrower unsigned type, or arithmetic on such values with constants.
func (p *proverCtx) smallUnsigned(v ssa.Value) bool {
	if intBits(v.Type()) < 64 {
		return true
	}
	switch x := v.(type) {
	case *ssa.Const:
		return true
	case *ssa.Convert:
		if isInteger(x.X.Type()) && intBits(x.X.Type()) < 64 {
			return true
		}
		if isInteger(x.X.Type()) && !isUnsigned(x.X.Type()) {
			return true // came from an int: as an int it is at most 2^63-1
		}
		return p.smallUnsigned(x.X)
	case *ssa.Call:
		if b, ok := x.Call.Value.(*ssa.Builtin); ok && (b.Name() == "len" || b.Name() == "cap") {
			return true
		}
	case *ssa.BinOp:
		switch x.Op {
		case token.REM, token.QUO, token.SHR, token.AND:
			return true && (p.smallUnsigned(x.X) || x.Op == token.AND)
		}
	}
	return false
}

func (p *proverCtx) geProvable(a, b ssa.Value) bool {
	if p.depth >= 2 {
		return false
	}
	p.depth++
	defer func() { p.depth-- }()
	return p.prove(p.lin(a).sub(p.lin(b)))
}

// stableField: loads of base.f can be identified with one variable when the function never
// stores to that field of that struct type and never passes the base pointer to a call that
// could modify it (conservatively: base is only used by FieldAddr / comparisons).
func (p *proverCtx) stableField(fa *ssa.FieldAddr) bool {
	key := stableKey{fa.X.Type(), fa.Field}
	if v, ok := p.stable[key]; ok {
		return v
	}
	okk := true
	allInstrs(fa.Parent(), func(_ *ssa.BasicBlock, i ssa.Instruction) {
		if st, ok := i.(*ssa.Store); ok {
			if fa2, ok := st.Addr.(*ssa.FieldAddr); ok && fa2.Field == fa.Field && types.Identical(fa2.X.Type(), fa.X.Type()) {
				okk = false
			}
		}
	})
	if okk {
		if refs := fa.X.Referrers(); refs != nil {
			for _, r := range *refs {
				switch x := r.(type) {
				case *ssa.FieldAddr, *ssa.BinOp, *ssa.If, *ssa.DebugRef:
				case *ssa.Store:
					// the single initialising store of a by-value parameter / local into its slot
					if _, isAlloc := fa.X.(*ssa.Alloc); !(isAlloc && x.Addr == fa.X && x.Block().Index == 0) {
						okk = false
					}
				case *ssa.UnOp:
					// loading the whole struct (to copy it) does not modify it
					if x.Op != token.MUL {
						okk = false
					}
				default:
					okk = false
				}
			}
		}
	}
	p.stable[key] = okk
	return okk
}

// condFacts turns a branch condition (taken with the given truth) into linear facts.
func (p *proverCtx) condFacts(cond ssa.Value, truth bool, why string) {
	if cl, ok := cond.(*ssa.Call); ok && truth {
		switch callQName(&cl.Call) {
		case "strings.HasPrefix", "strings.HasSuffix", "bytes.HasPrefix", "bytes.HasSuffix":
			a := p.varFor(lvar{v: cl.Call.Args[0], kind: 'l'})
			b := p.varFor(lvar{v: cl.Call.Args[1], kind: 'l'})
			p.addFact(a.sub(b), why+" (has prefix/suffix => at least as long)")
		}
		return
	}
	switch x := cond.(type) {
	case *ssa.UnOp:
		if x.Op == token.NOT {
			p.condFacts(x.X, !truth, why)
		}
		return
	case *ssa.BinOp:
		if (x.Op == token.EQL || x.Op == token.NEQ) && (isNilConst(x.X) || isNilConst(x.Y)) {
			v := x.X
			if isNilConst(x.X) {
				v = x.Y
			}
			if p.nilKnown == nil {
				p.nilKnown = map[ssa.Value]bool{}
			}
			p.nilKnown[v] = (x.Op == token.EQL) == truth
			return
		}
		if !isInteger(x.X.Type()) {
			return
		}
		op := x.Op
		if !truth {
			switch op {
			case token.LSS:
				op = token.GEQ
			case token.LEQ:
				op = token.GTR
			case token.GTR:
				op = token.LEQ
			case token.GEQ:
				op = token.LSS
			case token.EQL:
				op = token.NEQ
			case token.NEQ:
				op = token.EQL
			default:
				return
			}
		}
		a, b := p.lin(x.X), p.lin(x.Y)
		switch op {
		case token.LSS: // a < b  => b - a - 1 >= 0
			p.addFact(b.sub(a).addConst(-1), why)
		case token.LEQ:
			p.addFact(b.sub(a), why)
		case token.GTR:
			p.addFact(a.sub(b).addConst(-1), why)
		case token.GEQ:
			p.addFact(a.sub(b), why)
		case token.EQL:
			p.addFact(a.sub(b), why)
			p.addFact(b.sub(a), why)
		case token.NEQ:
			// a != b with a >= b known gives a >= b+1 (and symmetrically); typical: len(x) != 0
			if p.depth < 2 {
				p.depth++
				if p.prove(a.sub(b)) {
					p.addFact(a.sub(b).addConst(-1), why+" (!= with >= known)")
				} else if p.prove(b.sub(a)) {
					p.addFact(b.sub(a).addConst(-1), why+" (!= with <= known)")
				}
				p.depth--
			}
		}
	}
}

// newProver collects the facts holding at the start of block b of f.
func (c *Ctx) newProver(f *ssa.Function, b *ssa.BasicBlock) *proverCtx {
	p := &proverCtx{c: c, f: f, block: b, seenVar: map[lvar]bool{}, stable: map[stableKey]bool{}, siteBlock: map[*ssa.Function]*ssa.BasicBlock{f: b}}
	// outermost guard first: a later fact may need an earlier one to see through a conversion
	// (uint -> int of a count that an earlier guard bounds)
	fts := factsAt(f, b)
	if c.proverPre != nil {
		c.proverPre(p) // facts that must be in place before the branch conditions are read (argument bounds)
	}
	// facts read out of a predicate helper speak about its parameters: they stand for the call's arguments
	for prm, arg := range predicateArgs(fts) {
		if p.subst == nil {
			p.subst = map[ssa.Value]ssa.Value{}
		}
		p.subst[prm] = arg
	}
	for i := len(fts) - 1; i >= 0; i-- {
		p.condFacts(fts[i].Cond, fts[i].Truth, "branch "+c.rel(condPosOf(fts[i])))
	}
	// a string that has the constant prefix P and the constant suffix Q is at least len(P)+len(Q) long when
	// P and Q cannot overlap (no proper suffix of P is a prefix of Q): "Anycast(" ... ")" has >= 9 bytes
	pre, suf := map[ssa.Value]string{}, map[ssa.Value]string{}
	for _, ft := range fts {
		cl, ok := ft.Cond.(*ssa.Call)
		if !ok || !ft.Truth {
			continue
		}
		k, isC := constString(cl.Call.Args[len(cl.Call.Args)-1])
		if !isC {
			continue
		}
		switch callQName(&cl.Call) {
		case "strings.HasPrefix":
			pre[cl.Call.Args[0]] = k
		case "strings.HasSuffix":
			suf[cl.Call.Args[0]] = k
		}
	}
	for v, pp := range pre {
		q, ok := suf[v]
		if !ok {
			continue
		}
		overlap := false
		for k := 1; k <= len(pp) && k <= len(q); k++ {
			if pp[len(pp)-k:] == q[:k] {
				overlap = true
			}
		}
		if !overlap {
			p.addFact(p.varFor(lvar{v: v, kind: 'l'}).addConst(int64(-len(pp)-len(q))), "constant prefix and suffix that cannot overlap")
		}
	}
	return p
}

func condPosOf(ft fact) token.Pos {
	if ifi := lastIf(ft.Edge.From); ifi != nil {
		return condPos(ifi)
	}
	return token.NoPos
}

// prove decides whether the collected facts entail goal >= 0.
func (p *proverCtx) prove(goal *linexp) bool {
	if goal.isConst() {
		return goal.k.Sign() >= 0
	}
	// make sure intrinsic facts of the goal's variables exist (varFor was called by lin)
	// negation: -goal - 1 >= 0
	neg := goal.scale(-1).addConst(-1)
	sys := make([]*linexp, 0, len(p.facts)+1)
	// relevance filter: transitive closure of variables sharing a fact with the goal
	rel := map[lvar]bool{}
	for v := range goal.co {
		rel[v] = true
	}
	used := make([]bool, len(p.facts))
	for changed, rounds := true, 0; changed && rounds < 6; rounds++ {
		changed = false
		for i, ft := range p.facts {
			if used[i] {
				continue
			}
			hit := false
			for v := range ft.e.co {
				if rel[v] {
					hit = true
					break
				}
			}
			if hit {
				used[i] = true
				changed = true
				for v := range ft.e.co {
					rel[v] = true
				}
			}
		}
	}
	for i, ft := range p.facts {
		if used[i] {
			sys = append(sys, ft.e)
		}
	}
	sys = append(sys, neg)
	return fmInfeasible(sys)
}

// fmInfeasible: Fourier-Motzkin elimination; true if {e >= 0 for all e} has no rational solution.
func fmInfeasible(sys []*linexp) bool {
	const maxRows = 600
	for iter := 0; iter < 64; iter++ {
		// contradiction among constants?
		var rest []*linexp
		for _, e := range sys {
			if e.isConst() {
				if e.k.Sign() < 0 {
					return true
				}
				continue
			}
			rest = append(rest, e)
		}
		sys = rest
		if len(sys) == 0 {
			return false
		}
		// choose variable with the fewest pos*neg combinations
		cnt := map[lvar][2]int{}
		for _, e := range sys {
			for v, c := range e.co {
				t := cnt[v]
				if c.Sign() > 0 {
					t[0]++
				} else {
					t[1]++
				}
				cnt[v] = t
			}
		}
		var best lvar
		bestCost := -1
		var keys []lvar
		for v := range cnt {
			keys = append(keys, v)
		}
		sort.Slice(keys, func(i, j int) bool { return lvarKey(keys[i]) < lvarKey(keys[j]) })
		for _, v := range keys {
			t := cnt[v]
			cost := t[0] * t[1]
			if bestCost < 0 || cost < bestCost {
				best, bestCost = v, cost
			}
		}
		var pos, negs, other []*linexp
		for _, e := range sys {
			c, ok := e.co[best]
			switch {
			case !ok:
				other = append(other, e)
			case c.Sign() > 0:
				pos = append(pos, e)
			default:
				negs = append(negs, e)
			}
		}
		if len(pos)*len(negs)+len(other) > maxRows {
			return false // give up (not proved)
		}
		for _, a := range pos {
			for _, b := range negs {
				// a: ca*x + A >= 0 (ca>0), b: cb*x + B >= 0 (cb<0) => (-cb)*A + ca*B >= 0 combination
				ca := a.co[best]
				cb := new(big.Rat).Neg(b.co[best])
				n := newLin().addScaled(a, cb).addScaled(b, ca)
				delete(n.co, best)
				other = append(other, n)
			}
		}
		sys = dedupLin(other)
	}
	return false
}

func lvarKey(v lvar) string {
	n := ""
	if v.v != nil {
		n = v.v.Name()
		if v.v.Parent() != nil {
			n = v.v.Parent().Name() + "." + n
		}
	}
	return fmt.Sprintf("%c%s#%d%s", v.kind, n, v.idx, v.fn)
}

func dedupLin(in []*linexp) []*linexp {
	seen := map[string]bool{}
	var out []*linexp
	for _, e := range in {
		k := linKey(e)
		if !seen[k] {
			seen[k] = true
			out = append(out, e)
		}
	}
	return out
}

func linKey(e *linexp) string {
	var parts []string
	for v, c := range e.co {
		parts = append(parts, lvarKey(v)+"*"+c.RatString())
	}
	sort.Strings(parts)
	return strings.Join(parts, "+") + "|" + e.k.RatString()
}

func (e *linexp) String() string {
	var parts []string
	for v, c := range e.co {
		name := "?"
		if v.v != nil {
			name = v.v.Name()
		}
		switch v.kind {
		case 'L':
			name = fmt.Sprintf("len(%s.f%d)", name, v.idx)
		case 'C':
			name = fmt.Sprintf("cap(%s.f%d)", name, v.idx)
		case 'l':
			name = "len(" + name + ")"
		case 'c':
			name = "cap(" + name + ")"
		case 'f':
			name = fmt.Sprintf("%s.f%d", name, v.idx)
		}
		parts = append(parts, c.RatString()+"*"+name)
	}
	sort.Strings(parts)
	return strings.Join(parts, " + ") + " + " + e.k.RatString()
}

func ratInt(n int64) *big.Rat { return big.NewRat(n, 1) }

// axiomNonnegField: integer fields that a data-structure invariant keeps non-negative.
// Trusted axioms (stated in the evidence), protected by the who-may-write rule of C06:
// boc.BitString.{cap,len,rCursor} >= 0, boc.Cell.refCursor >= 0.
func axiomNonnegField(fa *ssa.FieldAddr) bool {
	tn, fn, ok := fieldOf(fa)
	if !ok {
		return false
	}
	switch tn + "." + fn {
	case "boc.BitString.cap", "boc.BitString.len", "boc.BitString.rCursor", "boc.Cell.refCursor":
		return true
	}
	return false
}

// resultRange: constant bounds on integer result #idx of an in-module function, proved on
// every return with the function's own branch facts (memoised; recursion yields no bound).
func (c *Ctx) resultRange(f *ssa.Function, idx int) (lo, hi int64, hasLo, hasHi bool) {
	if c.rangeMemo == nil {
		c.rangeMemo = map[*ssa.Function][4]int64{}
		c.rangeBusy = map[*ssa.Function]bool{}
	}
	if r, ok := c.rangeMemo[f]; ok {
		return r[0], r[1], r[2] == 1, r[3] == 1
	}
	if c.rangeBusy[f] || len(f.Blocks) == 0 {
		return 0, 0, false, false
	}
	c.rangeBusy[f] = true
	defer delete(c.rangeBusy, f)
	rets := returnsOf(f)
	hasLo, hasHi = len(rets) > 0, len(rets) > 0
	first := true
	for _, r := range rets {
		if idx >= len(r.Results) || !isInteger(r.Results[idx].Type()) {
			hasLo, hasHi = false, false
			break
		}
		p := c.newProver(f, r.Block())
		e := p.lin(retVal(r, idx))
		// candidate bounds
		rlo, okLo := findBound(p, e, true)
		rhi, okHi := findBound(p, e, false)
		if !okLo {
			hasLo = false
		}
		if !okHi {
			hasHi = false
		}
		if first {
			lo, hi = rlo, rhi
			first = false
		} else {
			if rlo < lo {
				lo = rlo
			}
			if rhi > hi {
				hi = rhi
			}
		}
	}
	m := [4]int64{lo, hi, 0, 0}
	if hasLo {
		m[2] = 1
	}
	if hasHi {
		m[3] = 1
	}
	c.rangeMemo[f] = m
	return lo, hi, hasLo, hasHi
}

// resultRangeAt: constant bounds of the integer result of helper h at call cl: every return is bounded with
// the helper's own branch facts plus the constant bounds the integer arguments have at the call.
func (p *proverCtx) resultRangeAt(h *ssa.Function, cl *ssa.Call) (lo, hi int64, hasLo, hasHi bool) {
	rets := returnsOf(h)
	if len(rets) == 0 || p.c.rangeBusy[h] {
		return
	}
	if p.c.rangeBusy == nil {
		p.c.rangeBusy = map[*ssa.Function]bool{}
	}
	p.c.rangeBusy[h] = true
	defer delete(p.c.rangeBusy, h)
	type bnd struct {
		lo, hi     int64
		okLo, okHi bool
	}
	args := map[*ssa.Parameter]bnd{}
	for i, prm := range h.Params {
		if i >= len(cl.Call.Args) || !isInteger(prm.Type()) {
			continue
		}
		e := p.lin(cl.Call.Args[i])
		var b bnd
		b.lo, b.okLo = findBound(p, e, true)
		b.hi, b.okHi = findBound(p, e, false)
		args[prm] = b
	}
	hasLo, hasHi = true, true
	first := true
	for _, r := range rets {
		if len(r.Results) != 1 || !isInteger(r.Results[0].Type()) {
			return 0, 0, false, false
		}
		savedPre := p.c.proverPre
		p.c.proverPre = func(q *proverCtx) {
			if q.f != h {
				return
			}
			for prm, b := range args {
				pe := q.lin(prm)
				if b.okLo {
					q.addFact(pe.addConst(-b.lo), "argument bound at the call")
				}
				if b.okHi {
					q.addFact(pe.scale(-1).addConst(b.hi), "argument bound at the call")
				}
			}
		}
		q := p.c.newProver(h, r.Block())
		p.c.proverPre = savedPre
		e := q.lin(retVal(r, 0))
		rlo, okLo := findBound(q, e, true)
		rhi, okHi := findBound(q, e, false)
		hasLo, hasHi = hasLo && okLo, hasHi && okHi
		if first {
			lo, hi, first = rlo, rhi, false
			continue
		}
		if rlo < lo {
			lo = rlo
		}
		if rhi > hi {
			hi = rhi
		}
	}
	return
}

// findBound tries a few candidate constants for a lower (or upper) bound of e.
func findBound(p *proverCtx, e *linexp, lower bool) (int64, bool) {
	if e.isConst() && e.k.IsInt() {
		return e.k.Num().Int64(), true
	}
	if lower {
		for _, k := range []int64{1, 0, -1} {
			if p.prove(e.addConst(-k)) {
				return k, true
			}
		}
		return 0, false
	}
	for _, k := range []int64{0, 1, 2, 3, 4, 7, 8, 32, 64, 127, 128, 255, 256, 1023, 1024, 65535} {
		if p.prove(e.scale(-1).addConst(k)) {
			return k, true
		}
	}
	return 0, false
}

// libRange: documented result ranges of a few standard-library functions.
func libRange(q string) (lo, hi int64, ok bool) {
	switch q {
	case "math/bits.OnesCount32", "math/bits.LeadingZeros32", "math/bits.TrailingZeros32", "math/bits.Len32":
		return 0, 32, true
	case "math/bits.OnesCount64", "math/bits.LeadingZeros64", "math/bits.TrailingZeros64", "math/bits.Len64", "math/bits.Len", "math/bits.OnesCount", "math/bits.LeadingZeros":
		return 0, 64, true
	case "math/bits.OnesCount8", "math/bits.Len8", "math/bits.LeadingZeros8":
		return 0, 8, true
	}
	return 0, 0, false
}

// consumingLoop implements the lemma for loops of the form
//
//	guard: len(b0) >= N*s      (dominating the loop, same SSA values N and s modulo conversions)
//	for i := 0; i < N; i++ { ... b = b[s:] }
//
// Inside the loop body (i < N) the invariant len(b_i) = len(b0) - i*s gives len(b_i) >= s.
// Returns true when the fact was added for the phi b.
func (p *proverCtx) consumingLoop(phi *ssa.Phi) {
	pf := phi.Parent()
	pblock := p.siteBlock[pf]
	if len(phi.Edges) != 2 || pblock == nil {
		return
	}
	for k := 0; k < 2; k++ {
		b0, next := phi.Edges[k], phi.Edges[1-k]
		var s ssa.Value
		if sl, ok := next.(*ssa.Slice); ok && sl.X == ssa.Value(phi) && sl.Low != nil && sl.High == nil && sl.Max == nil {
			s = sl.Low
		} else if base, low, ok := resliceOf(next); ok && base == ssa.Value(phi) {
			s = low // b = rest of consume(s, b)
		} else {
			continue
		}
		hdr := phi.Block()
		ifi := lastIf(hdr)
		if ifi == nil {
			continue
		}
		N := tripCount(hdr, ifi)
		if N == nil {
			continue
		}
		// the site must be inside the loop body: dominated by the true edge of the header's If
		if !edgeDominates(pf, edge{hdr, 0}, pblock) {
			continue
		}
		// s must not change in the loop: defined outside (its block dominates the header and is not the header... constants/params ok)
		if in, ok := s.(ssa.Instruction); ok {
			if in.Block() == hdr || !in.Block().Dominates(hdr) {
				continue
			}
		}
		// find the product N*s among the function's instructions
		var prod ssa.Value
		allInstrs(pf, func(_ *ssa.BasicBlock, i ssa.Instruction) {
			bo, ok := i.(*ssa.BinOp)
			if !ok || bo.Op != token.MUL {
				return
			}
			a, b := stripConv(bo.X), stripConv(bo.Y)
			if (sameVal(a, N) && sameVal(b, s)) || (sameVal(b, N) && sameVal(a, s)) {
				prod = bo
			}
		})
		if prod == nil {
			// the loop was moved into an unexported helper with one call site: count, stride and buffer are its
			// parameters, the guard len(b0) >= N*s stands in front of the call
			if h := plainHelper(pf); h != nil && !gAddrTaken[h] && len(gCallSites[h]) == 1 {
				site := gCallSites[h][0]
				argOf := func(v ssa.Value) ssa.Value {
					prm, ok := stripConv(v).(*ssa.Parameter)
					if !ok || prm.Parent() != pf {
						return nil
					}
					for i, q := range pf.Params {
						if q == prm && i < len(site.Common().Args) {
							return site.Common().Args[i]
						}
					}
					return nil
				}
				aN, aS, aB := argOf(N), argOf(s), argOf(b0)
				if aN != nil && aS != nil && aB != nil && site.Parent() != nil {
					var prod2 ssa.Value
					allInstrs(site.Parent(), func(_ *ssa.BasicBlock, i ssa.Instruction) {
						bo, ok := i.(*ssa.BinOp)
						if !ok || bo.Op != token.MUL {
							return
						}
						a, b := stripConv(bo.X), stripConv(bo.Y)
						if (sameVal(a, aN) && sameVal(b, aS)) || (sameVal(b, aN) && sameVal(a, aS)) {
							prod2 = bo
						}
					})
					if prod2 != nil {
						q := p.c.newProver(site.Parent(), site.Block())
						if q.prove(q.varFor(lvar{v: aB, kind: 'l'}).sub(q.lin(prod2))) && q.prove(q.lin(aS)) {
							p.addFact(p.varFor(lvar{v: phi, kind: 'l'}).sub(p.lin(s)), "consuming-loop lemma through the helper's only call site: len(b0) >= N*s before the call, b = b[s:] once per iteration, i < N")
							return
						}
					}
				}
			}
			continue
		}
		// facts at the loop header must entail len(b0) >= N*s and s >= 0
		q := p.c.newProver(pf, hdr)
		// the header's own facts exclude the loop condition; pre-loop guards dominate hdr
		g1 := q.varFor(lvar{v: b0, kind: 'l'}).sub(q.lin(prod))
		if !q.prove(g1) || !q.prove(q.lin(s)) {
			continue
		}
		p.addFact(p.varFor(lvar{v: phi, kind: 'l'}).sub(p.lin(s)), "consuming-loop lemma: len(b0) >= N*s before the loop, b = b[s:] once per iteration, i < N")
		return
	}
}

// tripCount: the value N such that the body of the loop headed by hdr (true edge of its If) runs only while
// fewer than N iterations have been completed: "i < N" with i = 0, 1, ..; the index of a range over a slice
// (go/ssa: i = -1; i+1 < len); or a countdown "r > 0" with r = N, N-1, ... A length of a slice made with a known
// size is that size.
func tripCount(hdr *ssa.BasicBlock, ifi *ssa.If) ssa.Value {
	cond, ok := ifi.Cond.(*ssa.BinOp)
	if !ok {
		return nil
	}
	step := func(iv *ssa.Phi, init, delta int64) (other ssa.Value, ok bool) {
		if iv.Block() != hdr || len(iv.Edges) != 2 {
			return nil, false
		}
		for j := 0; j < 2; j++ {
			bo, isBo := iv.Edges[1-j].(*ssa.BinOp)
			if !isBo || bo.X != ssa.Value(iv) {
				continue
			}
			one, isK := constInt(bo.Y)
			if !isK || !((bo.Op == token.ADD && one == delta) || (bo.Op == token.SUB && one == -delta)) {
				continue
			}
			if init >= -1 {
				if z, isZ := constInt(iv.Edges[j]); isZ && z == init {
					return bo, true
				}
				continue
			}
			return iv.Edges[j], true // countdown: the initial value is the count
		}
		return nil, false
	}
	var N ssa.Value
	switch cond.Op {
	case token.LSS:
		if iv, ok := cond.X.(*ssa.Phi); ok {
			if _, ok := step(iv, 0, 1); ok {
				N = cond.Y
			}
		} else if inc, ok := cond.X.(*ssa.BinOp); ok && inc.Op == token.ADD {
			if iv, ok := inc.X.(*ssa.Phi); ok {
				if nx, ok := step(iv, -1, 1); ok && nx == ssa.Value(inc) {
					N = cond.Y
				}
			}
		}
	case token.GTR:
		if z, ok := constInt(cond.Y); ok && z == 0 {
			if iv, ok := cond.X.(*ssa.Phi); ok {
				if n0, ok := step(iv, -2, -1); ok {
					N = n0
				}
			}
		}
	}
	if N == nil {
		return nil
	}
	if cl := callOf(N); cl != nil {
		if bi, ok := cl.Call.Value.(*ssa.Builtin); ok && bi.Name() == "len" {
			if mk, ok := cl.Call.Args[0].(*ssa.MakeSlice); ok {
				N = mk.Len
			}
		}
	}
	return N
}

func sameVal(a, b ssa.Value) bool {
	a, b = stripConv(a), stripConv(b)
	if a == b {
		return true
	}
	// two loads of the same never-stored local/field are not identified here
	return false
}

// forwardedStore: for a load of base.f (or of a local) finds a store to the same location earlier
// in the same block with no call or other store to that field in between; returns the stored value.
func forwardedStore(ld *ssa.UnOp) ssa.Value {
	b := ld.Block()
	if b == nil {
		return nil
	}
	sameLoc := func(a ssa.Value) bool {
		if a == ld.X {
			return true
		}
		fa1, ok1 := a.(*ssa.FieldAddr)
		fa2, ok2 := ld.X.(*ssa.FieldAddr)
		return ok1 && ok2 && fa1.X == fa2.X && fa1.Field == fa2.Field
	}
	sameField := func(a ssa.Value) bool {
		fa1, ok1 := a.(*ssa.FieldAddr)
		fa2, ok2 := ld.X.(*ssa.FieldAddr)
		return ok1 && ok2 && fa1.Field == fa2.Field && types.Identical(fa1.X.Type(), fa2.X.Type())
	}
	var val ssa.Value
	for _, in := range b.Instrs {
		if in == ssa.Instruction(ld) {
			break
		}
		switch x := in.(type) {
		case *ssa.Store:
			if sameLoc(x.Addr) {
				val = x.Val
			} else if sameField(x.Addr) {
				val = nil
			}
		case *ssa.Call:
			if _, isBuiltin := x.Call.Value.(*ssa.Builtin); !isBuiltin {
				if _, isAlloc := ld.X.(*ssa.Alloc); !isAlloc {
					val = nil
				}
			}
		}
	}
	return val
}

// phiSplit proves a goal by case analysis over the incoming edges of a join block: when the
// site's facts are too weak because control reaches it through a join (short-circuit conditions,
// if/else that both fall through, two-way phis), the goal is proved separately for each incoming
// edge of the nearest non-loop join dominating the site, with the facts of that predecessor, the
// condition of the edge taken, and every phi of the join replaced by its value on that edge.
// Applied recursively (bounded) for joins of joins.
func (c *Ctx) phiSplit(f *ssa.Function, b *ssa.BasicBlock, g siteGoal) bool {
	type cond struct {
		v ssa.Value
		t bool
	}
	budget := 400 * c.scale()
	var rec func(blk *ssa.BasicBlock, extras []cond, subst map[ssa.Value]ssa.Value, depth int) bool
	rec = func(blk *ssa.BasicBlock, extras []cond, subst map[ssa.Value]ssa.Value, depth int) bool {
		budget--
		if budget < 0 {
			return false
		}
		q := c.newProver(f, blk)
		for _, ft := range factsAt(f, b) {
			q.condFacts(ft.Cond, ft.Truth, "branch")
		}
		for _, e := range extras {
			q.condFacts(e.v, e.t, "edge condition")
		}
		q.subst = subst
		q.siteBlock[f] = b
		if proveAll(q, g) {
			return true
		}
		if depth == 0 {
			return false
		}
		// nearest join on the dominator chain that is not a loop header
		for j := blk; j != nil; j = j.Idom() {
			if len(j.Preds) < 2 {
				continue
			}
			loop := false
			for _, p := range j.Preds {
				if j.Dominates(p) {
					loop = true
				}
			}
			if loop {
				continue
			}
			all := true
			for i, p := range j.Preds {
				ns := map[ssa.Value]ssa.Value{}
				for k, v := range subst {
					ns[k] = v
				}
				for _, in := range j.Instrs {
					ph, ok := in.(*ssa.Phi)
					if !ok {
						break
					}
					ns[ph] = ph.Edges[i]
				}
				ne := append([]cond{}, extras...)
				if ifi := lastIf(p); ifi != nil && p.Succs[0] != p.Succs[1] {
					ne = append(ne, cond{ifi.Cond, p.Succs[0] == j})
				}
				if !rec(p, ne, ns, depth-1) {
					all = false
					break
				}
			}
			return all
		}
		return false
	}
	return rec(b, nil, nil, 7)
}

// resultLen: the constant length of slice/string result #idx of f on every exit that is not a
// definite failure (memoised).
func (c *Ctx) resultLen(f *ssa.Function, idx int) (int64, bool) {
	type key struct {
		f *ssa.Function
		i int
	}
	if c.lenMemo == nil {
		c.lenMemo = map[any][2]int64{}
	}
	if r, ok := c.lenMemo[key{f, idx}]; ok {
		return r[0], r[1] == 1
	}
	c.lenMemo[key{f, idx}] = [2]int64{0, 0}
	ei := errIndex(f.Signature)
	var k int64 = -1
	okAll := true
	n := 0
	for _, r := range returnsOf(f) {
		if idx >= len(r.Results) {
			okAll = false
			break
		}
		if ei >= 0 && isFailureValue(f, retVal(r, ei), r.Block()) {
			continue
		}
		n++
		// return g(...): both the value and the error are g's, so f succeeds exactly when g did
		if ex, ok := retVal(r, idx).(*ssa.Extract); ok && ei >= 0 {
			if cl, ok := ex.Tuple.(*ssa.Call); ok {
				if ee, ok := retVal(r, ei).(*ssa.Extract); ok && ee.Tuple == ex.Tuple {
					if g := cl.Call.StaticCallee(); g != nil && inModule(g) && len(origin(g).Blocks) > 0 {
						if kk, ok := c.resultLen(origin(g), ex.Index); ok {
							if k >= 0 && k != kk {
								okAll = false
							}
							k = kk
							continue
						}
					}
				}
			}
		}
		p := c.newProver(f, r.Block())
		e := p.varFor(lvar{v: retVal(r, idx), kind: 'l'})
		found := false
		for _, cand := range []int64{0, 1, 2, 4, 8, 12, 16, 20, 24, 28, 32, 33, 36, 48, 64} {
			if p.prove(e.addConst(-cand)) && p.prove(e.scale(-1).addConst(cand)) {
				if k >= 0 && k != cand {
					okAll = false
				}
				k = cand
				found = true
				break
			}
		}
		if !found {
			okAll = false
		}
	}
	if !okAll || n == 0 || k < 0 {
		return 0, false
	}
	c.lenMemo[key{f, idx}] = [2]int64{k, 1}
	return k, true
}

func isFloat(t types.Type) bool {
	b, ok := t.Underlying().(*types.Basic)
	return ok && b.Info()&types.IsFloat != 0
}

// pureExpr: v is computed from parameters and constants by arithmetic, conversions and calls of
// math / math/bits functions only (no loads, no phis): it means the same wherever it is evaluated.
func pureExpr(v ssa.Value, d int) bool {
	if d > 12 {
		return false
	}
	switch x := v.(type) {
	case *ssa.Const, *ssa.Parameter:
		return true
	case *ssa.Convert:
		return pureExpr(x.X, d+1)
	case *ssa.ChangeType:
		return pureExpr(x.X, d+1)
	case *ssa.BinOp:
		return pureExpr(x.X, d+1) && pureExpr(x.Y, d+1)
	case *ssa.UnOp:
		return x.Op != token.MUL && x.Op != token.ARROW && pureExpr(x.X, d+1)
	case *ssa.Call:
		q := callQName(&x.Call)
		if !strings.HasPrefix(q, "math.") && !strings.HasPrefix(q, "math/bits.") {
			return false
		}
		for _, a := range x.Call.Args {
			if !pureExpr(a, d+1) {
				return false
			}
		}
		return true
	}
	return false
}

// floatRange: an interval containing the float64 value v, by interval arithmetic over constants,
// conversions of bounded integers, + - * / by constants, math.Ceil / Floor / Max / Min.
func (p *proverCtx) floatRange(v ssa.Value, d int) (lo, hi float64, ok bool) {
	if d > 12 {
		return 0, 0, false
	}
	if s, has := p.subst[v]; has {
		return p.floatRange(s, d+1)
	}
	switch x := v.(type) {
	case *ssa.Const:
		if f, ok := constNum(x); ok {
			return f, f, true
		}
	case *ssa.Convert:
		if isFloat(x.X.Type()) {
			return p.floatRange(x.X, d+1)
		}
		if isInteger(x.X.Type()) {
			e := p.lin(x.X)
			l, okL := findBound(p, e, true)
			h, okH := findBound(p, e, false)
			if okL && okH {
				return float64(l), float64(h), true
			}
		}
	case *ssa.ChangeType:
		return p.floatRange(x.X, d+1)
	case *ssa.BinOp:
		al, ah, ok1 := p.floatRange(x.X, d+1)
		bl, bh, ok2 := p.floatRange(x.Y, d+1)
		if !ok1 || !ok2 {
			return 0, 0, false
		}
		switch x.Op {
		case token.ADD:
			return al + bl, ah + bh, true
		case token.SUB:
			return al - bh, ah - bl, true
		case token.MUL:
			c := []float64{al * bl, al * bh, ah * bl, ah * bh}
			return minF(c), maxF(c), true
		case token.QUO:
			if bl > 0 || bh < 0 {
				c := []float64{al / bl, al / bh, ah / bl, ah / bh}
				return minF(c), maxF(c), true
			}
		}
	case *ssa.Call:
		q := callQName(&x.Call)
		switch q {
		case "math.Ceil", "math.Floor", "math.Round", "math.Trunc":
			l, h, ok := p.floatRange(x.Call.Args[0], d+1)
			if !ok {
				return 0, 0, false
			}
			switch q {
			case "math.Ceil":
				return math.Ceil(l), math.Ceil(h), true
			case "math.Floor":
				return math.Floor(l), math.Floor(h), true
			case "math.Round":
				return math.Round(l), math.Round(h), true
			}
			return math.Trunc(l), math.Trunc(h), true
		case "math.Max", "math.Min":
			al, ah, ok1 := p.floatRange(x.Call.Args[0], d+1)
			bl, bh, ok2 := p.floatRange(x.Call.Args[1], d+1)
			if !ok1 || !ok2 {
				return 0, 0, false
			}
			if q == "math.Max" {
				return math.Max(al, bl), math.Max(ah, bh), true
			}
			return math.Min(al, bl), math.Min(ah, bh), true
		}
	}
	return 0, 0, false
}

func minF(xs []float64) float64 {
	m := xs[0]
	for _, x := range xs {
		if x < m {
			m = x
		}
	}
	return m
}

func maxF(xs []float64) float64 {
	m := xs[0]
	for _, x := range xs {
		if x > m {
			m = x
		}
	}
	return m
}

// singleStoreValue: ld loads a local variable that lives in memory (it is captured or has its address
// taken) but is assigned exactly once, in a block that dominates the load, and is never handed to a
// closure or a call that could write it: the load yields that one value.
func singleStoreValue(ld *ssa.UnOp) ssa.Value {
	al, ok := ld.X.(*ssa.Alloc)
	if !ok || ld.Block() == nil {
		return nil
	}
	var st *ssa.Store
	for _, r := range *al.Referrers() {
		switch x := r.(type) {
		case *ssa.Store:
			if x.Addr != ssa.Value(al) {
				// the address is handed out: harmless when that can only happen after the load
				if x.Block() == ld.Block() || reachableFrom(x.Block(), nil)[ld.Block()] {
					return nil
				}
				continue
			}
			if st != nil {
				return nil
			}
			st = x
		case *ssa.UnOp, *ssa.DebugRef:
		case *ssa.IndexAddr, *ssa.FieldAddr:
			// element / field writes do not change the slice header or the identity of the value loaded for len
			if _, isSlice := al.Type().(*types.Pointer).Elem().Underlying().(*types.Slice); !isSlice {
				return nil
			}
		default:
			return nil
		}
	}
	if st == nil || st.Block() == nil || !st.Block().Dominates(ld.Block()) {
		return nil
	}
	if st.Block() == ld.Block() && !before(st, ld) {
		return nil
	}
	return st.Val
}

// digestSize: the digest size of the hash value h when it is visibly sha256.New() / sha512.New() or
// hmac.New(sha256.New | sha512.New, _).
func digestSize(h ssa.Value, depth int) (int64, bool) {
	if depth > 3 {
		return 0, false
	}
	switch x := h.(type) {
	case *ssa.MakeInterface:
		return digestSize(x.X, depth+1)
	case *ssa.ChangeInterface:
		return digestSize(x.X, depth+1)
	case *ssa.Call:
		switch callQName(&x.Call) {
		case "crypto/sha256.New":
			return 32, true
		case "crypto/sha512.New":
			return 64, true
		case "crypto/hmac.New":
			switch fn := x.Call.Args[0].(type) {
			case *ssa.Function:
				switch fn.String() {
				case "crypto/sha256.New":
					return 32, true
				case "crypto/sha512.New":
					return 64, true
				}
			}
		}
	}
	return 0, false
}

// resliceOf: v is result #i of a call to an unexported helper every return of which gives, as result #i, the
// re-slice param_k[param_j:] of its own parameters: the buffer argument and the offset argument at the call.
func resliceOf(v ssa.Value) (base, low ssa.Value, ok bool) {
	ex, isEx := v.(*ssa.Extract)
	if !isEx {
		return nil, nil, false
	}
	cl, isCall := ex.Tuple.(*ssa.Call)
	if !isCall {
		return nil, nil, false
	}
	h := plainHelper(cl.Call.StaticCallee())
	if h == nil || len(h.Blocks) > 4 {
		return nil, nil, false
	}
	argOf := func(x ssa.Value) ssa.Value {
		prm, ok := x.(*ssa.Parameter)
		if !ok {
			return nil
		}
		for i, q := range h.Params {
			if q == prm && i < len(cl.Call.Args) {
				return cl.Call.Args[i]
			}
		}
		return nil
	}
	rets := returnsOf(h)
	if len(rets) == 0 {
		return nil, nil, false
	}
	for _, r := range rets {
		if ex.Index >= len(r.Results) {
			return nil, nil, false
		}
		sl, isSl := retVal(r, ex.Index).(*ssa.Slice)
		if !isSl || sl.Low == nil || sl.High != nil || sl.Max != nil {
			return nil, nil, false
		}
		b, l := argOf(sl.X), argOf(sl.Low)
		if b == nil || l == nil || (base != nil && (b != base || l != low)) {
			return nil, nil, false
		}
		base, low = b, l
	}
	return base, low, true
}
