package main

import (
	"fmt"
	"go/token"
	"go/types"
	"strings"

	"golang.org/x/tools/go/ssa"
)

// E12: small cross-checks of sibling code.

// sumAltConsistency: inside the branch of a function that handles alternative "X" of a tagged
// union (reached through the comparison SumType == "X"), accesses to the union's other
// alternative fields are a copy-paste slip: the encoder/decoder of X would read or write Y.
func (c *Ctx) sumAltConsistency(rule string, rels ...string) {
	for _, f := range c.moduleFuncs(rels...) {
		// find comparisons  t.SumType == "Name"
		type caseInfo struct {
			base ssa.Value // the struct (pointer) whose SumType is tested
			name string
			e    edge
		}
		var cases []caseInfo
		for _, b := range f.Blocks {
			ifi := lastIf(b)
			if ifi == nil {
				continue
			}
			bo, ok := ifi.Cond.(*ssa.BinOp)
			if !ok || bo.Op != token.EQL {
				continue
			}
			var ld ssa.Value
			var name string
			if s, ok := constString(bo.Y); ok {
				ld, name = bo.X, s
			} else if s, ok := constString(bo.X); ok {
				ld, name = bo.Y, s
			} else {
				continue
			}
			ld = stripConv(ld)
			u, ok := ld.(*ssa.UnOp)
			if !ok {
				continue
			}
			fa, ok := u.X.(*ssa.FieldAddr)
			if !ok {
				continue
			}
			_, fn, ok := fieldOf(fa)
			if !ok || fn != "SumType" {
				continue
			}
			cases = append(cases, caseInfo{fa.X, name, edge{b, 0}})
		}
		if len(cases) < 2 {
			continue
		}
		// alternatives of the struct
		alts := map[string]bool{}
		for _, ci := range cases {
			alts[ci.name] = true
		}
		n := 0
		var offenders []string
		allInstrs(f, func(b *ssa.BasicBlock, in ssa.Instruction) {
			fa, ok := in.(*ssa.FieldAddr)
			if !ok {
				return
			}
			_, fn, ok := fieldOf(fa)
			if !ok || !alts[fn] {
				return
			}
			for _, ci := range cases {
				if fa.X != ci.base || !sameStructBase(fa.X, ci.base) {
					continue
				}
				if edgeDominates(f, ci.e, b) {
					n++
					if fn != ci.name {
						offenders = append(offenders, fmt.Sprintf("%s accessed in the branch for %s at %s", fn, ci.name, c.rel(fa.Pos())))
					}
				}
			}
		})
		if n == 0 {
			continue
		}
		c.check(len(offenders) == 0, rule, fnName(f)+" uses the alternative it dispatched on", f.Pos(), fmt.Sprintf("%d accesses to union alternatives, each inside the branch of its own constructor", n),
			fnName(f)+": "+strings.Join(offenders, "; ")+" (the codec of one constructor touches another constructor's fields)")
	}
}

func sameStructBase(a, b ssa.Value) bool { return a == b }

// bigFromUnsigned: anywhere in the given packages, math/big.NewInt / SetInt64 must not receive a
// value converted from a 64-bit unsigned integer (values >= 2^63 turn negative).
func (c *Ctx) bigFromUnsigned(rule string, exc map[string]string, rels ...string) {
	for _, f := range c.moduleFuncs(rels...) {
		ord := map[string]int{}
		allInstrs(f, func(b *ssa.BasicBlock, in ssa.Instruction) {
			cl, ok := in.(*ssa.Call)
			if !ok {
				return
			}
			q := callQName(&cl.Call)
			var arg ssa.Value
			switch q {
			case "math/big.NewInt":
				arg = cl.Call.Args[0]
			case "math/big.Int.SetInt64":
				arg = cl.Call.Args[1]
			default:
				return
			}
			if _, isConst := arg.(*ssa.Const); isConst {
				return
			}
			key := fmt.Sprintf("%s %s(%s)", fnName(f), shortQ(q), shape(arg, 2))
			ord[key]++
			if ord[key] > 1 {
				key = fmt.Sprintf("%s#%d", key, ord[key])
			}
			// does the int64 argument come from a 64-bit unsigned value?
			src := arg
			lossy := false
			for {
				cv, ok := src.(*ssa.Convert)
				if !ok {
					break
				}
				if isInteger(cv.X.Type()) && isUnsigned(cv.X.Type()) && intBits(cv.X.Type()) == 64 && !isUnsigned(cv.Type()) {
					p := c.newProver(f, b)
					if !p.smallUnsigned(cv.X) {
						lossy = true
					}
				}
				src = cv.X
			}
			if !lossy {
				c.ok(rule, key, cl.Pos(), "the int64 argument does not come from a 64-bit unsigned value")
			} else if why, ok := excLookupS(exc, key); ok {
				c.exc(rule, key, cl.Pos(), why)
			} else {
				c.bad(rule, key, cl.Pos(), fmt.Sprintf("%s receives a 64-bit unsigned value converted to int64: values of 2^63 and above become negative big integers (in %s)", shortQ(q), fnName(f)))
			}
		})
	}
}

// cursorFreeEncoders: an encoder must not depend on how much of a value has already been READ:
// a call in a MarshalTLB method to a cursor-dependent query of a bit string / cell held in the
// receiver (BitsAvailableForRead, ReadBits, ReadRemainingBits, RefsAvailableForRead, NextRef)
// must be preceded (dominated) by ResetCounter(s) on the same object.
func (c *Ctx) cursorFreeEncoders(rule string, exc map[string]string, rels ...string) {
	dep := map[string]bool{"BitsAvailableForRead": true, "ReadBits": true, "ReadRemainingBits": true, "RefsAvailableForRead": true, "NextRef": true, "ReadBit": true, "ReadUint": true, "CopyRemaining": true}
	for _, f := range c.moduleFuncs(rels...) {
		if f.Name() != "MarshalTLB" || f.Parent() != nil {
			continue
		}
		ord := map[string]int{}
		allInstrs(f, func(b *ssa.BasicBlock, in ssa.Instruction) {
			cl, ok := in.(*ssa.Call)
			if !ok {
				return
			}
			fn := calleeFunc(&cl.Call)
			if fn == nil || !dep[fn.Name()] || fn.Pkg() == nil || fn.Pkg().Path() != bocPath {
				return
			}
			if len(cl.Call.Args) == 0 {
				return
			}
			recv := cl.Call.Args[0]
			// only objects that belong to the value being encoded (derive from the receiver), not the output cell
			if !derivesFrom(recv, func(v ssa.Value) bool { return v == ssa.Value(f.Params[0]) }, false) {
				return
			}
			key := fmt.Sprintf("%s %s on %s", fnName(f), fn.Name(), shape(recv, 3))
			ord[key]++
			if ord[key] > 1 {
				key = fmt.Sprintf("%s#%d", key, ord[key])
			}
			reset := false
			allInstrs(f, func(b2 *ssa.BasicBlock, in2 ssa.Instruction) {
				c2, ok := in2.(*ssa.Call)
				if !ok {
					return
				}
				f2 := calleeFunc(&c2.Call)
				if f2 == nil || (f2.Name() != "ResetCounter" && f2.Name() != "ResetCounters") || len(c2.Call.Args) == 0 {
					return
				}
				if sameObject(c2.Call.Args[0], recv) && (b2.Dominates(b) && (b2 != b || before(c2, cl))) {
					reset = true
				}
			})
			if reset {
				c.ok(rule, key, cl.Pos(), "the read cursor is reset before the cursor-dependent query")
			} else if why, ok := excLookupS(exc, key); ok {
				c.exc(rule, key, cl.Pos(), why)
			} else {
				c.bad(rule, key, cl.Pos(), fmt.Sprintf("%s consults %s of a value it is encoding without resetting its read cursor first: the encoding depends on how much of the value was read before", fnName(f), fn.Name()))
			}
		})
	}
}

// sameObject: two address/pointer values denote the same field path of the same base.
func sameObject(a, b ssa.Value) bool {
	if a == b {
		return true
	}
	return shape(a, 4) == shape(b, 4) && !strings.Contains(shape(a, 4), "_")
}

var _ = types.Typ

// copyLiterals: a struct literal that copies at least three fields from the same-named fields of one
// source value is a field-by-field copy; a field of it that is taken from a DIFFERENT field of that
// source although the source has a field of the literal field's own name (and type) is a copy-paste
// slip (the encoder writes one field twice and drops another).
func (c *Ctx) copyLiterals(rule string, exc map[string]string, rels ...string) int {
	n := 0
	for _, f := range c.moduleFuncs(rels...) {
		allInstrs(f, func(_ *ssa.BasicBlock, in ssa.Instruction) {
			al, ok := in.(*ssa.Alloc)
			if !ok {
				return
			}
			pt, ok := al.Type().(*types.Pointer)
			if !ok {
				return
			}
			st, ok := pt.Elem().Underlying().(*types.Struct)
			if !ok || len(storesTo(al)) > 0 {
				return
			}
			type src struct {
				base  ssa.Value
				field string
				typ   types.Type
				pos   token.Pos
			}
			got := map[string]src{}
			refs := al.Referrers()
			if refs == nil {
				return
			}
			for _, r := range *refs {
				fa, ok := r.(*ssa.FieldAddr)
				if !ok {
					continue
				}
				name := st.Field(fa.Field).Name()
				for _, s := range storesTo(fa) {
					v := s.Val
					var base ssa.Value
					var fld string
					switch x := v.(type) {
					case *ssa.UnOp:
						if x.Op == token.MUL {
							if sfa, ok := x.X.(*ssa.FieldAddr); ok {
								if _, fn, ok := fieldOf(sfa); ok {
									base, fld = sfa.X, fn
								}
							}
						}
					case *ssa.Field:
						if _, fn, ok := fieldOf(x); ok {
							base, fld = x.X, fn
						}
					}
					if base != nil {
						got[name] = src{base, fld, v.Type(), s.Pos()}
					}
				}
			}
			// group by base
			same := map[ssa.Value]int{}
			for name, s := range got {
				if s.field == name {
					same[s.base]++
				}
			}
			for name, s := range got {
				if same[s.base] < 3 || s.field == name {
					continue
				}
				// does the source have a field called `name` of the same type?
				bt := s.base.Type()
				if p, ok := bt.Underlying().(*types.Pointer); ok {
					bt = p.Elem()
				}
				bs, ok := bt.Underlying().(*types.Struct)
				if !ok {
					continue
				}
				has := false
				for i := 0; i < bs.NumFields(); i++ {
					if bs.Field(i).Name() == name && types.Identical(bs.Field(i).Type(), s.typ) {
						has = true
					}
				}
				if !has {
					continue
				}
				n++
				key := fmt.Sprintf("%s literal field %s <- .%s", fnName(f), name, s.field)
				if why, ok := excLookupS(exc, key); ok {
					c.exc(rule, key, s.pos, why)
				} else {
					c.bad(rule, key, s.pos, fmt.Sprintf("%s copies a value field by field (%d fields from their namesakes) but fills %s from the source's %s although the source has a %s of the same type: one field is written twice and %s is lost", fnName(f), same[s.base], name, s.field, name, name))
				}
			}
			if len(same) > 0 {
				for b, k := range same {
					if k >= 3 {
						_ = b
						c.ok(rule, fmt.Sprintf("%s field-by-field copy of %d fields", fnName(f), k), al.Pos(), "every copied field comes from its namesake")
					}
				}
			}
		})
	}
	return n
}
