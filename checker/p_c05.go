package main

import (
	"fmt"
	"go/token"
	"go/types"
	"sort"
	"strconv"
	"strings"

	"golang.org/x/tools/go/ssa"
)

func init() { register("C05", propC05) }

func propC05(c *Ctx) propInfo {
	c.labelForms()
	c.dictRecursionShape()
	c.parallelSlices()
	c.dictLookup()
	c.dictResults()
	c.intFamily(false, false, true)
	c.codecPair("E5.codec-pair", "tlb.HashmapE", c.genericMethod("tlb", "HashmapE", "MarshalTLB"), c.genericMethod("tlb", "HashmapE", "UnmarshalTLB"), nil)
	c.codecPair("E5.codec-pair", "tlb.HashmapAugE", c.genericMethod("tlb", "HashmapAugE", "MarshalTLB"), c.genericMethod("tlb", "HashmapAugE", "UnmarshalTLB"), nil)
	c.writeWidthPreconditions("tlb", "wallet")
	c.labelCoversAllKeys()
	c.distinctKeyProducers()
	c.floor("E5.label-forms", 5)
	c.floor("E10.dict-recursion", 6)
	c.floor("E10.parallel-slices", 3)
	c.floor("E12.dict-lookup", 7)
	c.floor("E5.codec-pair", 2)
	return propInfo{
		explanation: "Static structural clauses of C05 (DESIGN.md §4 C05): the label writer emits hml_short (0, unary, bits) or hml_long (10, bounded length, bits) and both label readers accept exactly hml_short, hml_long and hml_same with the bounded length taken from the remaining-key-length parameter; writer and readers pass remaining-label-1 to both children, visit the 0 child before the 1 child, and extend the key prefix with the bit of the branch taken; keys and values are appended on the same paths and Put inserts both at the same index; Get scans all keys with Equal and only Put orders keys with Compare; key types implement FixedSize/Equal/Compare as the natural order; HashmapE envelopes agree; integer writers are called with widths the primitive supports. Decides these necessary conditions, not equality of the decoded mapping nor insertion-order independence. Also: the label at a node is the prefix common to ALL keys of the node (minimising loop over all keys, or sorted producers).",
	}
}

func (c *Ctx) genericMethod(rel, typ, name string) *ssa.Function {
	return c.fn(rel, typ+"."+name)
}

// pathsOnParam: like pathSet but keeps only events whose receiver is (derives from) parameter #idx.
func (c *Ctx) pathsOnParam(f *ssa.Function, idx int, reader bool) []string {
	if f == nil {
		return nil
	}
	old := eventFilter
	prm := ssa.Value(f.Params[idx])
	eventFilter = func(in ssa.Instruction) bool {
		cl, ok := in.(*ssa.Call)
		if !ok || len(cl.Call.Args) == 0 {
			return false
		}
		return cl.Call.Args[0] == prm
	}
	defer func() { eventFilter = old }()
	ps, _ := c.pathSet(f, reader)
	return ps
}

func (c *Ctx) labelForms() {
	const R = "E5.label-forms"
	enc := c.mustFn(R, "tlb", "encodeLabel")
	ld := c.mustFn(R, "tlb", "loadLabel")
	ls := c.mustFn(R, "tlb", "loadLabelSize")
	if enc == nil || ld == nil || ls == nil {
		return
	}
	forms := func(ps []string) []string {
		m := map[string]bool{}
		for _, p := range ps {
			switch {
			case strings.HasPrefix(p, "B=0 UNARY"):
				m["hml_short"] = true
			case strings.HasPrefix(p, "B=1 B=0 LIM(n)"):
				m["hml_long"] = true
			case strings.HasPrefix(p, "B=1 B=1 B LIM(n)"):
				m["hml_same"] = true
			default:
				m["?"+p] = true
			}
		}
		var out []string
		for k := range m {
			out = append(out, k)
		}
		sort.Strings(out)
		return out
	}
	we := forms(c.pathsOnParam(enc, 0, false))
	rl := forms(c.pathsOnParam(ld, 1, true))
	rs := forms(c.pathsOnParam(ls, 1, true))
	c.check(fmt.Sprint(we) == "[hml_long hml_short]", R, "encodeLabel emits hml_short or hml_long", enc.Pos(), fmt.Sprint(we), fmt.Sprintf("encodeLabel emits the label forms %v; it must emit 0+unary+bits (hml_short) or 10+bounded length+bits (hml_long)", we))
	c.check(fmt.Sprint(rl) == "[hml_long hml_same hml_short]", R, "loadLabel accepts the three label forms", ld.Pos(), fmt.Sprint(rl), fmt.Sprintf("loadLabel accepts the label forms %v; a valid dictionary may use hml_short, hml_long and hml_same", rl))
	c.check(fmt.Sprint(rs) == "[hml_long hml_same hml_short]", R, "loadLabelSize accepts the three label forms", ls.Pos(), fmt.Sprint(rs), fmt.Sprintf("loadLabelSize accepts the label forms %v", rs))
	// bound role: the LIM bound is the function's remaining-key-length parameter on all three
	limArg := func(f *ssa.Function, q string, argIdx int, prmIdx int) bool {
		cs := callsTo(f, q)
		if len(cs) == 0 {
			return false
		}
		for _, cl := range cs {
			if cl.Call.Args[argIdx] != ssa.Value(f.Params[prmIdx]) {
				return false
			}
		}
		return true
	}
	okB := limArg(enc, bocPath+".Cell.WriteLimUint", 2, 3) && limArg(ld, bocPath+".Cell.ReadLimUint", 1, 0) && limArg(ls, bocPath+".Cell.ReadLimUint", 1, 0)
	c.check(okB, R, "the bounded label length uses the remaining key length on every side", enc.Pos(), "WriteLimUint(_, keySize) / ReadLimUint(size) with the functions' own size parameter", "the bound of the hml_long / hml_same length field is not the remaining-key-length parameter on one side: writer and readers would use different widths")
	// the length written is the label's length and the bits written are the label
	okLen := false
	for _, cl := range callsTo(enc, bocPath+".Cell.WriteLimUint") {
		okLen = derivesFrom(cl.Call.Args[1], callResult(bocPath+".BitString.BitsAvailableForRead"), false)
	}
	c.check(okLen, R, "hml_long length is the label length", enc.Pos(), "WriteLimUint(label.BitsAvailableForRead(), keySize)", "the length written for an hml_long label is not the number of label bits")
	// hml_same replicates the bit read: the WriteBit in the same-form loop writes the value of the third bit
	okSame := false
	allInstrs(ld, func(_ *ssa.BasicBlock, in ssa.Instruction) {
		if cl, ok := in.(*ssa.Call); ok && callQName(&cl.Call) == bocPath+".BitString.WriteBit" {
			if ex, ok := cl.Call.Args[1].(*ssa.Extract); ok {
				if rc, ok := ex.Tuple.(*ssa.Call); ok && callQName(&rc.Call) == bocPath+".Cell.ReadBit" && !inLoop(rc.Block()) && inLoop(cl.Block()) {
					okSame = true
				}
			}
		}
	})
	c.check(okSame, R, "hml_same repeats the bit it read", ld.Pos(), "the loop writes the bit read once before the loop", "loadLabel's hml_same branch no longer writes n copies of the bit it read (one bit at a time)")
}

func (c *Ctx) dictRecursionShape() {
	const R = "E10.dict-recursion"
	type site struct {
		fn      string
		sizeIdx int // index of the remaining-size argument in the recursive call
	}
	for _, s := range []site{{"Hashmap.encodeMap", 4}, {"Hashmap.mapInner", 2}, {"HashmapAug.mapInner", 2}, {"countLeafs", 1}} {
		f := c.mustFn(R, "tlb", s.fn)
		if f == nil {
			continue
		}
		var rec []*ssa.Call
		allInstrs(f, func(_ *ssa.BasicBlock, in ssa.Instruction) {
			if cl, ok := in.(*ssa.Call); ok && cl.Call.StaticCallee() != nil && origin(cl.Call.StaticCallee()) == f {
				rec = append(rec, cl)
			}
		})
		okv := len(rec) == 2
		why := ""
		if okv {
			a, b := rec[0].Call.Args[s.sizeIdx], rec[1].Call.Args[s.sizeIdx]
			// same remaining size for both children, of the form X - label - 1
			okv = a == b || shape(a, 4) == shape(b, 4)
			sh := shape(a, 4)
			if !(strings.Contains(sh, "-") && strings.Contains(sh, "1")) {
				okv = false
			}
			why = sh
			// the first recursive call dominates the second (left before right)
			if !rec[0].Block().Dominates(rec[1].Block()) {
				okv = false
			}
			// children come from successive references: first call gets the first NewRef/NextRef
			refOf := func(cl *ssa.Call) *ssa.Call {
				for _, x := range cl.Call.Args {
					if r := callOf(x); r != nil {
						q := callQName(&r.Call)
						if q == bocPath+".Cell.NewRef" || q == bocPath+".Cell.NextRef" {
							return r
						}
					}
				}
				return nil
			}
			r0, r1 := refOf(rec[0]), refOf(rec[1])
			if r0 == nil || r1 == nil || !(r0.Block().Dominates(r1.Block()) && r0 != r1) {
				okv = false
			}
			// readers: the second child is fetched only after the first one has been walked. NextRef rewinds the
			// cursors of the cell it returns, and that rewind is what lets a cell shared by both branches
			// (identical subtrees are one object in a parsed BoC) be decoded twice.
			if okv && strings.HasSuffix(s.fn, "mapInner") {
				if !(rec[0].Block().Dominates(r1.Block()) && (rec[0].Block() != r1.Block() || before(rec[0], r1))) {
					okv = false
					why += "; the reference of the second child is fetched before the first child has been decoded"
				}
			}
		}
		c.check(okv, R, s.fn+" recurses into child 0 then child 1 with remaining-label-1", f.Pos(), "two recursive calls, first reference first, both with "+why, s.fn+": the two recursive calls do not pass the same 'remaining - label - 1' key length to the children taken from successive references, left before right, each fetched right before it is walked ("+why+")")
	}
	// mapInner extends the prefix with 0 for the first child and 1 for the second
	for _, fn := range []string{"Hashmap.mapInner", "HashmapAug.mapInner"} {
		f := c.fn("tlb", fn)
		if f == nil {
			continue
		}
		var bits []bool
		var calls []*ssa.Call
		allInstrs(f, func(_ *ssa.BasicBlock, in ssa.Instruction) {
			cl, ok := in.(*ssa.Call)
			if !ok {
				return
			}
			if callQName(&cl.Call) == bocPath+".BitString.WriteBit" {
				if b, ok := constBool(cl.Call.Args[1]); ok {
					bits = append(bits, b)
					calls = append(calls, cl)
				}
				return
			}
			// the copy-and-extend step in an unexported helper that takes the branch bit as a parameter
			// (branchPrefix(prefix, isRight)): the call site's constant is the bit
			if h := plainHelper(cl.Call.StaticCallee()); h != nil && h != f {
				for _, hc := range callsTo(h, bocPath+".BitString.WriteBit") {
					prm, ok := hc.Call.Args[1].(*ssa.Parameter)
					if !ok {
						continue
					}
					for i, q := range h.Params {
						if q == prm && i < len(cl.Call.Args) {
							if b, ok := constBool(cl.Call.Args[i]); ok {
								bits = append(bits, b)
								calls = append(calls, cl)
							}
						}
					}
				}
			}
		})
		okv := fmt.Sprint(bits) == "[false true]" && calls[0].Block().Dominates(calls[1].Block())
		c.check(okv, R, fn+" extends the key prefix with the branch bit", f.Pos(), "WriteBit(false) for the first child, WriteBit(true) for the second", fn+": the key prefix is no longer extended with 0 for the first reference and 1 for the second")
	}
	// encodeMap routes a key to the right child exactly when its next bit is 1
	if f := c.fn("tlb", "Hashmap.encodeMap"); f != nil {
		okv := false
		for _, b := range f.Blocks {
			if ifi := lastIf(b); ifi != nil && isWireRead(ifi.Cond) {
				// true edge appends to rightKeys
				t := b.Succs[0]
				for _, in := range t.Instrs {
					if st, ok := in.(ssa.Value); ok {
						_ = st
					}
				}
				// the key lists handed to the first (0) and second (1) recursive call
				var rec []*ssa.Call
				allInstrs(f, func(_ *ssa.BasicBlock, in ssa.Instruction) {
					if cl, ok := in.(*ssa.Call); ok && cl.Call.StaticCallee() != nil && origin(cl.Call.StaticCallee()) == f {
						rec = append(rec, cl)
					}
				})
				if len(rec) == 2 {
					left, right := rec[0].Call.Args[2], rec[1].Call.Args[2]
					okv = appendFeeds(t, right) && !appendFeeds(t, left) && appendFeeds(b.Succs[1], left) && !appendFeeds(b.Succs[1], right)
				}
			}
		}
		c.check(okv, R, "encodeMap sends keys with bit 1 to the right child", f.Pos(), "isRight -> rightKeys/rightValues, else leftKeys/leftValues", "encodeMap no longer partitions the keys by their next bit into left (0) and right (1)")
	}
}

func blockAppendsTo(b *ssa.BasicBlock, name string) bool {
	for _, s := range append([]*ssa.BasicBlock{b}, b.Succs...) {
		for _, in := range s.Instrs {
			if ph, ok := in.(*ssa.Phi); ok && ph.Comment == name {
				for i, e := range ph.Edges {
					if cl := callOf(e); cl != nil && s.Preds[i] == b {
						if bi, ok := cl.Call.Value.(*ssa.Builtin); ok && bi.Name() == "append" {
							return true
						}
					}
				}
			}
		}
	}
	// direct append in the block feeding a loop-header phi
	for _, in := range b.Instrs {
		if cl, ok := in.(*ssa.Call); ok {
			if bi, ok := cl.Call.Value.(*ssa.Builtin); ok && bi.Name() == "append" {
				for _, r := range realRefs(cl) {
					if ph, ok := r.(*ssa.Phi); ok && ph.Comment == name {
						return true
					}
				}
			}
		}
	}
	return false
}

// parallelSlices: appends to keys and values come in pairs; Put inserts at one index.
func (c *Ctx) parallelSlices() {
	const R = "E10.parallel-slices"
	for _, fn := range []string{"Hashmap.mapInner", "HashmapAug.mapInner"} {
		f := c.mustFn(R, "tlb", fn)
		if f == nil {
			continue
		}
		var ks, vs []*ssa.Store
		allInstrs(f, func(_ *ssa.BasicBlock, in ssa.Instruction) {
			st, ok := in.(*ssa.Store)
			if !ok {
				return
			}
			_, name, ok := fieldOf(st.Addr)
			if !ok {
				return
			}
			if name == "keys" {
				ks = append(ks, st)
			}
			if name == "values" {
				vs = append(vs, st)
			}
		})
		okv := len(ks) == 1 && len(vs) == 1
		if okv {
			// after the value is appended, every success exit passes the key append (or the function fails)
			cut := map[edge]bool{}
			kb := ks[0].Block()
			for i := range kb.Succs {
				cut[edge{kb, i}] = true
			}
			reach := reachableFrom(vs[0].Block(), cut)
			for _, sp := range successPoints(f, 0) {
				if reach[sp.Block] && sp.Block != kb && vs[0].Block() != kb {
					okv = false
				}
			}
		}
		c.check(okv, R, fn+" appends a key for every value it appends", f.Pos(), "one append to values, one to keys; no success exit between them", fn+" can return success after appending a value without appending its key (keys and values would go out of step)")
	}
	if f := c.mustFn(R, "tlb", "Hashmap.Put"); f != nil {
		ins := callsTo(f, "slices.Insert")
		okv := len(ins) == 2 && ins[0].Call.Args[1] == ins[1].Call.Args[1]
		c.check(okv, R, "Put inserts key and value at the same index", f.Pos(), "slices.Insert(keys, index, key) and slices.Insert(values, index, value)", "Put no longer inserts the key and the value at the same index")
	}
}

// dictLookup: Get is a scan over all keys with Equal; only Put uses Compare.
func (c *Ctx) dictLookup() {
	const R = "E12.dict-lookup"
	f := c.mustFn(R, "tlb", "Hashmap.Get")
	if f != nil {
		scan := false
		var eq *ssa.Call
		other := false
		// the scan may be written in Get or in an unexported helper Get calls (keyIndex(keys, key))
		for _, g := range c.helperClosure(f, 1, func(h *ssa.Function) bool { return plainHelper(h) == nil }) {
			hasEq := false
			allInstrs(g, func(b *ssa.BasicBlock, in ssa.Instruction) {
				if cl, ok := in.(*ssa.Call); ok && cl.Call.IsInvoke() && cl.Call.Method.Name() == "Equal" && inLoop(b) {
					eq = cl
					hasEq = true
				}
			})
			// the scan delegated to the library: slices.IndexFunc(keys, func(k) bool { return k.Equal(key) }) visits
			// every element in order and calls Equal on each
			allInstrs(g, func(_ *ssa.BasicBlock, in ssa.Instruction) {
				if cl, ok := in.(*ssa.Call); ok {
					if e := equalIndexFunc(cl); e != nil && derivesFrom(cl.Call.Args[0], fieldLoadNamed("keys"), false) {
						eq, scan = e, true
					}
				}
			})
			if hasEq {
				// a loop over the whole key list: a range loop, or an index loop bounded by len(keys)
				for _, b := range g.Blocks {
					if b.Comment == "rangeindex.loop" {
						scan = true
					}
					if ifi := lastIf(b); ifi != nil && inLoop(b) {
						if bo, ok := ifi.Cond.(*ssa.BinOp); ok && bo.Op == token.LSS {
							if _, isPhi := bo.X.(*ssa.Phi); isPhi {
								if cl := callOf(bo.Y); cl != nil {
									if bi, ok := cl.Call.Value.(*ssa.Builtin); ok && bi.Name() == "len" {
										scan = true
									}
								}
							}
						}
					}
				}
			}
			allInstrs(g, func(_ *ssa.BasicBlock, in ssa.Instruction) {
				if cl, ok := in.(*ssa.Call); ok {
					q := callQName(&cl.Call)
					if strings.Contains(q, "BinarySearch") || strings.HasPrefix(q, "sort.") || (cl.Call.IsInvoke() && cl.Call.Method.Name() == "Compare") {
						other = true
					}
				}
			})
		}
		c.check(scan && eq != nil && !other, R, "Get scans all keys with Equal", f.Pos(), "range over keys, Equal on each, no ordering assumption", "Hashmap.Get no longer compares the requested key with every stored key: decoded dictionaries list keys in key-bit order, which is not the order of Compare (signed keys), so an order-based search misses present keys")
		// returns values[i] for the index of the matching key
		okIdx := false
		for _, r := range returnsOf(f) {
			if b, ok := constBool(retVal(r, 1)); ok && b {
				if u, ok := retVal(r, 0).(*ssa.UnOp); ok {
					if ia, ok := u.X.(*ssa.IndexAddr); ok {
						okIdx = derivesFrom(ia.X, fieldLoadNamed("values"), false)
					}
				}
			}
		}
		c.check(okIdx, R, "Get returns the value at the matching key's index", f.Pos(), "values[i] of the key that compared Equal", "Get no longer returns values[i] for the matching key index")
	}
	// who may call Compare on a dictionary key
	var callers []string
	for _, g := range c.moduleFuncs("tlb") {
		allInstrs(g, func(_ *ssa.BasicBlock, in ssa.Instruction) {
			if cl, ok := in.(*ssa.Call); ok && cl.Call.IsInvoke() && cl.Call.Method.Name() == "Compare" {
				name := fnName(g)
				// a function literal is its enclosing function's code
				for p := g.Parent(); p != nil; p = p.Parent() {
					name = fnName(p)
				}
				// an unexported helper called only from Put is Put's code
				if via, ok := helperOf(g, func(n string) bool { return n == "(*tlb.Hashmap[keyT, T]).Put" }, 0); ok {
					name = via
				}
				callers = append(callers, name)
			}
		})
	}
	sort.Strings(callers)
	c.check(fmt.Sprint(dedup(callers)) == "[(*tlb.Hashmap[keyT, T]).Put]", R, "only Put orders keys with Compare", token.NoPos, "Compare is called by Hashmap.Put only", fmt.Sprintf("Compare on dictionary keys is called from %v; only the sorted insertion of Put may rely on it", dedup(callers)))
}

// writeWidthPreconditions: WriteUint / WriteInt silently truncate above 64 bits; every call with a
// non-constant width must be shown to stay within 64.
func (c *Ctx) writeWidthPreconditions(rels ...string) {
	const R = "E1.P7-width"
	for _, f := range c.moduleFuncs(rels...) {
		ord := map[string]int{}
		allInstrs(f, func(b *ssa.BasicBlock, in ssa.Instruction) {
			cl, ok := in.(*ssa.Call)
			if !ok {
				return
			}
			q := callQName(&cl.Call)
			if q != bocPath+".Cell.WriteUint" && q != bocPath+".BitString.WriteUint" && q != bocPath+".Cell.WriteInt" && q != bocPath+".BitString.WriteInt" {
				return
			}
			w := cl.Call.Args[2]
			if k, ok := constInt(w); ok {
				if k > 64 || k < 0 {
					c.bad(R, fnName(f)+" "+shortQ(q)+" constant width", cl.Pos(), fmt.Sprintf("%s called with the constant width %d", shortQ(q), k))
				}
				c.writeRange(f, b, cl, q, k, ord)
				return
			}
			key := fmt.Sprintf("%s %s width %s", fnName(f), shortQ(q), shape(w, 3))
			ord[key]++
			if ord[key] > 1 {
				key = fmt.Sprintf("%s#%d", key, ord[key])
			}
			g := siteGoal{desc: "width <= 64", build: func(p *proverCtx) []*linexp { return []*linexp{p.lin(w).scale(-1).addConst(64)} }}
			p := c.newProver(f, b)
			if proveAll(p, g) || c.phiSplit(f, b, g) {
				c.ok(R, key, cl.Pos(), "width proved <= 64")
			} else if why, ok := excLookupS(excWidth, key); ok {
				c.exc(R, key, cl.Pos(), why)
			} else if _, fn, isF := fieldOfLoad(stripConv(w)); isF && fn == "Len" && derivesFrom(w, callResult(tlbPath+".ParseTag"), false) {
				// the length of a tag parsed from a struct tag, wherever the tag is written
				c.exc(R, key, cl.Pos(), excWidth["tlb.encodeSumTag boc.Cell.WriteUint width *&t.Len"])
			} else {
				c.bad(R, key, cl.Pos(), fmt.Sprintf("%s is called with a width not proved <= 64: above 64 bits the writer silently emits zeros for the high positions instead of failing", shortQ(q)))
			}
		})
	}
}

var excWidth = map[string]string{
	"(tlb.Anycast).MarshalTLB boc.Cell.WriteUint width *&a.Depth": "anycast depth is a (#<= 30) field: its TL-B domain is 0..30 and it is written with the 5-bit bounded writer just before",
	"tlb.encodeSumTag boc.Cell.WriteUint width *&t.Len":           "t comes from ParseTag on a struct tag (a constant of the program): at most 32 bits by the tag grammar (E3a checks every tag)",
}

// labelCoversAllKeys: the edge label written at a node must be the prefix common to ALL keys of the
// node. Two recognised ways to get there: (A) encodeMap selects the second key for encodeLabel by a
// loop over all keys that minimises the common prefix with the first key; or (B) it uses the first
// and last key and every producer of Hashmap.keys keeps the slice in bit order (constructors sort,
// Put inserts in bit order). The pinned tree originally did neither (NewHashmap stores the caller's
// order, Put orders signed keys numerically) - see known_findings.json.
func (c *Ctx) labelCoversAllKeys() {
	const R = "E10.dict-label-all-keys"
	f := c.genericMethod("tlb", "Hashmap", "encodeMap")
	if f == nil {
		c.bad(R, "encodeMap", 0, "tlb.Hashmap.encodeMap not found (anchor moved?)")
		return
	}
	calls := callsTo(f, modPath+"/tlb.encodeLabel")
	if len(calls) != 1 {
		c.bad(R, "encodeMap label", f.Pos(), fmt.Sprintf("encodeMap calls encodeLabel %d times; one confirmed", len(calls)))
		return
	}
	cl := calls[0]
	idxOf := func(v ssa.Value) ssa.Value {
		if ia, ok := v.(*ssa.IndexAddr); ok {
			return ia.Index
		}
		return nil
	}
	i0, i1 := idxOf(cl.Call.Args[1]), idxOf(cl.Call.Args[2])
	k0, isK0 := constInt(i0)
	// (A) the second index is a loop-carried selection over all keys
	okA := false
	whyA := ""
	if ph, ok := i1.(*ssa.Phi); ok && isK0 && k0 == 0 {
		// find the loop-carried phi it comes from (the value after the loop is the header phi)
		srcs := phiSources(ph)
		viaCmp := len(srcs) > 0
		for blk, v := range srcs {
			// the new index is the loop counter and the update is guarded by a comparison that depends on
			// a function of (&keys[0], &keys[i]): a call on the two keys, or - the same scan written in place - the
			// counter of an inner loop that reads one bit of each per round and stops at the first difference
			pairCall := func(x ssa.Value) bool {
				c2 := callOf(x)
				if c2 == nil || len(c2.Call.Args) < 2 {
					return false
				}
				a, b := idxOf(c2.Call.Args[0]), idxOf(c2.Call.Args[1])
				ka, okK := constInt(a)
				return okK && ka == 0 && b == v
			}
			var scanCounter *ssa.Phi
			allInstrs(f, func(hb *ssa.BasicBlock, in ssa.Instruction) {
				ph, ok := in.(*ssa.Phi)
				if !ok || scanCounter != nil || len(ph.Edges) != 2 || !isInteger(ph.Type()) {
					return
				}
				// n = 0; n++ per round
				isCounter := false
				for j := 0; j < 2; j++ {
					if z, ok := constInt(ph.Edges[j]); ok && z == 0 {
						if inc, ok := ph.Edges[1-j].(*ssa.BinOp); ok && inc.Op == token.ADD && inc.X == ssa.Value(ph) {
							if one, ok := constInt(inc.Y); ok && one == 1 {
								isCounter = true
							}
						}
					}
				}
				if !isCounter {
					return
				}
				body := naturalLoop(hb)
				var r0, rv *ssa.Call
				for lb := range body {
					for _, li := range lb.Instrs {
						if rc, ok := li.(*ssa.Call); ok && callQName(&rc.Call) == bocPath+".BitString.ReadBit" {
							ix := idxOf(rc.Call.Args[0])
							if k, ok := constInt(ix); ok && k == 0 {
								r0 = rc
							} else if ix == v {
								rv = rc
							}
						}
					}
				}
				if r0 == nil || rv == nil {
					return
				}
				// a round is counted only when the two bits are equal: some test in the loop compares them
				cmp := false
				for lb := range body {
					if iff := lastIf(lb); iff != nil {
						if bo, ok := iff.Cond.(*ssa.BinOp); ok && (bo.Op == token.NEQ || bo.Op == token.EQL) {
							from := func(x ssa.Value, rc *ssa.Call) bool {
								return derivesFrom(x, func(y ssa.Value) bool { return y == ssa.Value(rc) }, false)
							}
							if (from(bo.X, r0) && from(bo.Y, rv)) || (from(bo.X, rv) && from(bo.Y, r0)) {
								// ... and the increment lies behind the EQUAL side of that test
								eqEdge := 0
								if bo.Op == token.NEQ {
									eqEdge = 1
								}
								for j := 0; j < 2; j++ {
									if inc, ok := ph.Edges[j].(*ssa.BinOp); ok && inc.Block() != nil && edgeDominates(f, edge{lb, eqEdge}, inc.Block()) {
										cmp = true
									}
								}
							}
						}
					}
				}
				if cmp {
					scanCounter = ph
				}
			})
			measure := func(x ssa.Value) bool {
				return pairCall(x) || (scanCounter != nil && x == ssa.Value(scanCounter))
			}
			guard := false
			for _, ft := range factsAt(f, blk) {
				if derivesFrom(ft.Cond, measure, false) {
					guard = true
				}
			}
			// also accept the guard on the block that assigns (the If is in the same block as the call)
			if !guard {
				for _, p := range blk.Preds {
					if iff := lastIf(p); iff != nil && derivesFrom(iff.Cond, measure, false) {
						guard = true
					}
				}
			}
			if !guard {
				viaCmp = false
			}
			// ... and that comparison MINIMISES: every edge into the updating block is either
			// "candidate < (or <=) best so far" or a sentinel test that is false for every real
			// prefix length (best < 0, best == -1); `best <= 0` would let a later, longer prefix
			// replace a minimum of 0.
			if guard {
				var nCall ssa.Value
				allInstrs(f, func(_ *ssa.BasicBlock, in ssa.Instruction) {
					c2, ok := in.(*ssa.Call)
					if !ok || len(c2.Call.Args) < 2 {
						return
					}
					a, b := idxOf(c2.Call.Args[0]), idxOf(c2.Call.Args[1])
					if ka, okK := constInt(a); okK && ka == 0 && b == v {
						nCall = c2
					}
				})
				if nCall == nil && scanCounter != nil {
					nCall = scanCounter
				}
				isBest := func(x ssa.Value) bool {
					ph, ok := x.(*ssa.Phi)
					return ok && nCall != nil && derivesFrom(ph, func(y ssa.Value) bool { return y == nCall }, false)
				}
				minimises := nCall != nil && len(blk.Preds) > 0
				for _, pb := range blk.Preds {
					iff := lastIf(pb)
					if iff == nil || pb.Succs[0] != blk {
						minimises = false
						continue
					}
					bo, ok := iff.Cond.(*ssa.BinOp)
					if !ok {
						minimises = false
						continue
					}
					okEdge := false
					switch {
					case bo.X == nCall && isBest(bo.Y) && (bo.Op == token.LSS || bo.Op == token.LEQ):
						okEdge = true
					case bo.Y == nCall && isBest(bo.X) && (bo.Op == token.GTR || bo.Op == token.GEQ):
						okEdge = true
					case isBest(bo.X):
						if k, isK := constInt(bo.Y); isK {
							okEdge = (bo.Op == token.LSS && k <= 0) || (bo.Op == token.LEQ && k < 0) || (bo.Op == token.EQL && k < 0)
						}
					}
					if !okEdge {
						minimises = false
						whyA = "the selecting loop updates its choice under " + shape(bo, 3) + ", which is not 'shorter than the best so far' nor a sentinel test that is false for every real length"
					}
				}
				if !minimises {
					viaCmp = false
				}
			}
			// the loop visits every index: its bound is len(keys)
			bound := false
			for _, b := range f.Blocks {
				if iff := lastIf(b); iff != nil && inLoop(b) {
					if bo, ok := iff.Cond.(*ssa.BinOp); ok && bo.Op == token.LSS && bo.X == v {
						if c3 := callOf(bo.Y); c3 != nil {
							if bi, ok := c3.Call.Value.(*ssa.Builtin); ok && bi.Name() == "len" && strings.Join(leaves(c3.Call.Args[0]), ",") == "#2" {
								bound = true
							}
						}
					}
				}
			}
			if !bound {
				viaCmp = false
				whyA = fmt.Sprintf("the selecting loop does not run over all of keys (guard=%v v=%s)", guard, v.Name())
			}
		}
		okA = viaCmp
	}
	// (B) first/last with sorted producers
	okB := false
	if !okA {
		lastIdx := false
		if bo, ok := i1.(*ssa.BinOp); ok && bo.Op == token.SUB {
			if k, ok := constInt(bo.Y); ok && k == 1 {
				lastIdx = true
			}
		}
		sorted := true
		for _, name := range []string{"NewHashmap", "NewHashmapE"} {
			g := c.fn("tlb", name)
			if g == nil {
				continue
			}
			hasSort := false
			for _, ci := range callsIn(g) {
				q := callQName(ci.Common())
				if strings.HasPrefix(q, "sort.") || strings.HasPrefix(q, "slices.Sort") {
					hasSort = true
				}
			}
			if !hasSort {
				sorted = false
			}
		}
		okB = lastIdx && sorted
	}
	c.check(okA || okB, R, "the node label is the prefix common to all keys of the node", cl.Pos(), map[bool]string{true: "second key selected by a minimising loop over all keys", false: "first/last key of a slice every producer keeps in bit order"}[okA],
		"Hashmap.encodeMap derives the edge label from two fixed keys (first and last) although the key slice is not kept in bit order by its producers (NewHashmap/NewHashmapE store the caller's order, Put orders signed keys numerically): with keys {1, 0x80000000, 0x40000000} the entry 0x80000000 is encoded under key 0. "+whyA)
	c.floor(R, 1)
}

// distinctKeyProducers: a Hashmap holds each key once (encodeMap assumes it: two equal keys never
// split, and the leaf is reached with keys left over). Code inside package tlb that fills keys/values
// directly either copies (a subset of) another dictionary's items - distinct by construction - or
// goes through Put (which replaces an existing key), or guards the append with a seen-set lookup.
func (c *Ctx) distinctKeyProducers() {
	const R = "E10.dict-distinct-keys"
	f := c.mustFn(R, "tlb", "ConfigParams.CloneKeepingSubsetOfKeys")
	if f == nil {
		return
	}
	okv := false
	why := "no Hashmap literal found"
	for _, m := range literalFields(f, "ConfigParams") {
		for _, v := range m["Config.keys"] {
			fromItems := derivesFrom(v, func(x ssa.Value) bool {
				cl := callOf(x)
				if cl == nil {
					return false
				}
				fn := calleeFunc(&cl.Call)
				return fn != nil && (fn.Name() == "Items" || fn.Name() == "Keys")
			}, true)
			fromRequest := false
			for _, l := range leaves(v) {
				if l == "#1" {
					fromRequest = true
				}
			}
			switch {
			case fromItems && !fromRequestOnly(v):
				okv = true
			case fromRequest:
				// appended from the request: needs a seen-set guard (comma-ok map lookup that skips duplicates)
				guarded := false
				allInstrs(f, func(b *ssa.BasicBlock, in ssa.Instruction) {
					if lk, ok := in.(*ssa.Lookup); ok && lk.CommaOk {
						if _, isMap := lk.X.Type().Underlying().(*types.Map); isMap {
							if _, isLocal := lk.X.(*ssa.MakeMap); isLocal {
								guarded = true
							}
						}
					}
				})
				okv = guarded
				why = "the keys are taken from the request list, which can repeat an id, and no seen-set lookup guards the append"
			default:
				why = "the appended keys come neither from the source dictionary's items nor from a de-duplicated request"
			}
		}
	}
	c.check(okv, R, "CloneKeepingSubsetOfKeys produces distinct keys", f.Pos(), "keys come from the source dictionary's Items() (distinct), filtered by the request", "ConfigParams.CloneKeepingSubsetOfKeys: "+why+": a request such as {15, 0, 15} yields a dictionary holding key 15 twice, which cannot be encoded")
	c.floor(R, 1)
}

// fromRequestOnly: helper kept separate for readability: the value derives from parameter #1 and
// from nothing else that is a dictionary item.
func fromRequestOnly(v ssa.Value) bool {
	ls := leaves(v)
	return len(ls) == 1 && ls[0] == "#1"
}

// appendFeeds: an append executed in block b (or in the join right after it) produces the value
// that target (a loop-carried slice) takes on that path.
func appendFeeds(b *ssa.BasicBlock, target ssa.Value) bool {
	found := false
	for _, in := range b.Instrs {
		cl, ok := in.(*ssa.Call)
		if !ok {
			continue
		}
		if bi, ok := cl.Call.Value.(*ssa.Builtin); !ok || bi.Name() != "append" {
			continue
		}
		if derivesFrom(target, func(v ssa.Value) bool { return v == ssa.Value(cl) }, false) {
			found = true
		}
	}
	return found
}

// dictResults: the polarity of the small decisions around the key scan (added after the mutation
// battery): Get reports "found" exactly on the edge where Equal said yes and "not found" after the
// scan; Put panics only when Compare declares the key type foreign (ok == false); the envelope's
// presence flag is "there is at least one key"; the helper that counts a common prefix counts while
// the bits are EQUAL.
func (c *Ctx) dictResults() {
	const R = "E12.dict-lookup"
	directEqual := func(f *ssa.Function, b *ssa.BasicBlock) (seen, truth bool) {
		for _, ft := range factsAt(f, b) {
			if cl := callOf(ft.Cond); cl != nil && cl.Call.IsInvoke() && cl.Call.Method.Name() == "Equal" {
				return true, ft.Truth
			}
		}
		return false, false
	}
	// an index finder: an unexported helper that returns the index at which Equal matched and a negative
	// constant when the scan ends without a match (keyIndex(keys, key) int)
	indexFinder := func(h *ssa.Function) bool {
		if plainHelper(h) == nil || h.Signature.Results().Len() != 1 || !isInteger(h.Signature.Results().At(0).Type()) {
			return false
		}
		// return slices.IndexFunc(keys, func(k) bool { return k.Equal(key) }): the library's contract is the finder's
		viaLib, nRet := true, 0
		for _, r := range returnsOf(h) {
			nRet++
			if cl := callOf(retVal(r, 0)); cl == nil || equalIndexFunc(cl) == nil {
				viaLib = false
			}
		}
		if viaLib && nRet > 0 {
			return true
		}
		hit, miss := 0, 0
		for _, r := range returnsOf(h) {
			v := retVal(r, 0)
			seen, truth := directEqual(h, r.Block())
			if k, ok := constInt(v); ok {
				if k >= 0 || (seen && truth) {
					return false
				}
				miss++
				continue
			}
			if !seen || !truth {
				return false
			}
			hit++
		}
		return hit >= 1 && miss >= 1
	}
	equalFact := func(f *ssa.Function, b *ssa.BasicBlock) (seen, truth bool) {
		if s, t := directEqual(f, b); s {
			return s, t
		}
		for _, ft := range factsAt(f, b) {
			bo, ok := ft.Cond.(*ssa.BinOp)
			if !ok {
				continue
			}
			cl := callOf(bo.X)
			k, isK := constInt(bo.Y)
			if cl == nil || !isK || cl.Call.StaticCallee() == nil || !(indexFinder(origin(cl.Call.StaticCallee())) || equalIndexFunc(cl) != nil) {
				continue
			}
			// does the fact say "the result is a real index" (>= 0) or "it is the negative no-match value"?
			op := bo.Op
			if !ft.Truth {
				op = map[token.Token]token.Token{token.LSS: token.GEQ, token.GEQ: token.LSS, token.GTR: token.LEQ, token.LEQ: token.GTR, token.EQL: token.NEQ, token.NEQ: token.EQL}[op]
			}
			switch {
			case (op == token.GEQ && k == 0) || (op == token.GTR && k == -1) || (op == token.NEQ && k < 0):
				return true, true
			case (op == token.LSS && k == 0) || (op == token.LEQ && k == -1) || (op == token.EQL && k < 0):
				return true, false
			}
		}
		return false, false
	}
	if f := c.fn("tlb", "Hashmap.Get"); f != nil {
		okv := true
		n := 0
		for _, r := range returnsOf(f) {
			found, isConst := constBool(retVal(r, 1))
			if !isConst {
				okv = false
				continue
			}
			n++
			seen, truth := equalFact(f, r.Block())
			if found != (seen && truth) {
				okv = false
			}
		}
		c.check(okv && n >= 2, R, "Get says found exactly where Equal matched", f.Pos(), "(value, true) on the matching edge, (zero, false) after the scan", "Hashmap.Get returns its found flag with the wrong polarity: a present key is reported missing or a missing one present (with a zero value)")
	}
	if f := c.fn("tlb", "Hashmap.Put"); f != nil {
		okv, n := true, 0
		allInstrs(f, func(b *ssa.BasicBlock, in ssa.Instruction) {
			if _, ok := in.(*ssa.Panic); !ok {
				return
			}
			n++
			good := false
			for _, ft := range factsAt(f, b) {
				if ex, ok := ft.Cond.(*ssa.Extract); ok && ex.Index == 1 {
					if cl := callOf(ex.Tuple); cl != nil && cl.Call.IsInvoke() && cl.Call.Method.Name() == "Compare" && !ft.Truth {
						good = true
					}
				}
			}
			if !good {
				okv = false
			}
		})
		// the in-place update of an existing key is decided by the Equal scan, not by the ordered
		// search: decoded dictionaries are in key-bit order, which is not Compare order for signed keys
		upd := 0
		okUpd := true
		allInstrs(f, func(b *ssa.BasicBlock, in ssa.Instruction) {
			st, ok := in.(*ssa.Store)
			if !ok {
				return
			}
			ia, ok := st.Addr.(*ssa.IndexAddr)
			if !ok || !derivesFrom(ia.X, fieldLoadNamed("values"), false) {
				return
			}
			upd++
			seen, truth := equalFact(f, b)
			if !seen || !truth {
				okUpd = false
			}
		})
		if upd > 0 {
			c.check(okUpd, R, "Put updates an existing key where Equal matched it", f.Pos(), "values[i] = v behind Equal(key) == true", "Hashmap.Put overwrites a stored value on a path that is not the Equal-matched one (it decides 'key already present' inside the Compare-ordered search): on a decoded dictionary with signed keys of mixed sign, or one built from unsorted keys, an existing key is not found and is inserted a second time")
		}
		if n > 0 {
			c.check(okv, R, "Put panics only for a foreign key type", f.Pos(), "panic under Compare's ok == false", "Hashmap.Put panics on a path other than 'Compare reported the key type as foreign': inserting an ordinary new key crashes")
		}
	}
	for _, tn := range []string{"HashmapE", "HashmapAugE"} {
		f := c.fn("tlb", tn+".MarshalTLB")
		if f == nil {
			continue
		}
		for _, st := range fieldStores(f, "Exists") {
			okv := false
			if bo, ok := st.Val.(*ssa.BinOp); ok {
				if cl := callOf(bo.X); cl != nil {
					if bi, ok := cl.Call.Value.(*ssa.Builtin); ok && bi.Name() == "len" {
						k, _ := constInt(bo.Y)
						okv = (bo.Op == token.GTR && k == 0) || (bo.Op == token.NEQ && k == 0) || (bo.Op == token.GEQ && k == 1)
					}
				}
			}
			c.check(okv, R, tn+": the dictionary is present exactly when it has a key", st.Pos(), "Exists = len(keys) > 0", tn+".MarshalTLB sets the presence bit to "+shape(st.Val, 3)+": an empty dictionary must be written as the single bit 0 (hme_empty); announcing a root that does not exist makes the encoder fail on every empty dictionary")
		}
	}
	// the prefix-length helper of the label selection
	if f := c.fn("tlb", "Hashmap.encodeMap"); f != nil {
		var helper *ssa.Function
		allInstrs(f, func(_ *ssa.BasicBlock, in ssa.Instruction) {
			if cl, ok := in.(*ssa.Call); ok && inLoop(cl.Block()) {
				if sc := cl.Call.StaticCallee(); sc != nil && inModule(sc) && len(cl.Call.Args) >= 2 && sc.Signature.Results().Len() == 1 && isInteger(sc.Signature.Results().At(0).Type()) {
					if _, ok := cl.Call.Args[0].(*ssa.IndexAddr); ok {
						helper = sc
					}
				}
			}
		})
		if helper != nil {
			okv, n := true, 0
			allInstrs(helper, func(b *ssa.BasicBlock, in ssa.Instruction) {
				bo, ok := in.(*ssa.BinOp)
				if !ok || bo.Op != token.ADD {
					return
				}
				if k, ok := constInt(bo.Y); !ok || k != 1 {
					return
				}
				if _, isPhi := bo.X.(*ssa.Phi); !isPhi {
					return
				}
				n++
				equal := false
				for _, ft := range factsAt(helper, b) {
					cmp, ok := ft.Cond.(*ssa.BinOp)
					if !ok || (cmp.Op != token.EQL && cmp.Op != token.NEQ) {
						continue
					}
					isBit := func(v ssa.Value) bool {
						ex, ok := v.(*ssa.Extract)
						if !ok {
							return false
						}
						cl := callOf(ex.Tuple)
						return cl != nil && strings.HasSuffix(callQName(&cl.Call), ".ReadBit")
					}
					if isBit(cmp.X) && isBit(cmp.Y) && (cmp.Op == token.EQL) == ft.Truth {
						equal = true
					}
				}
				if !equal {
					okv = false
				}
			})
			c.check(okv && n > 0, R, fnName(helper)+" counts while the bits agree", helper.Pos(), "n++ only where the two bits read are equal", fnName(helper)+" advances its count on a path where the two bits were not found equal: it no longer measures the common prefix, and the label selection picks the wrong key")
		}
	}
}

// writeRange: WriteUint(v, w) keeps the low w bits of v and reports nothing when v does not fit, so
// a length or count written into a fixed-width field must be known to fit where it is written:
// v <= 2^w - 1 proved from the value's type, its definition or a dominating guard. Only unsigned
// writes of a non-constant value into fewer than 63 bits are obligations.
func (c *Ctx) writeRange(f *ssa.Function, b *ssa.BasicBlock, cl *ssa.Call, q string, w int64, ord map[string]int) {
	const R = "E1.P7-range"
	if !strings.HasSuffix(q, ".WriteUint") || w <= 0 || w >= 63 {
		return
	}
	v := cl.Call.Args[1]
	if k, ok := constInt(v); ok {
		if k < 0 || k > (int64(1)<<uint(w))-1 {
			c.bad(R, fmt.Sprintf("%s %s constant %d in %d bits", fnName(f), shortQ(q), k, w), cl.Pos(), fmt.Sprintf("%s writes the constant %d into %d bits: it does not fit and its high bits are dropped silently", fnName(f), k, w))
		}
		return
	}
	// the generated integer family: a UintN is a Go integer whose TL-B domain is N bits by definition;
	// its own MarshalTLB writing the receiver is not an obligation (E6 checks the declared width)
	if len(f.Params) > 0 && f.Signature.Recv() != nil && stripConv(v) == ssa.Value(f.Params[0]) {
		if _, isBasic := f.Params[0].Type().Underlying().(*types.Basic); isBasic {
			return
		}
	}
	// a value of a generated UintN type has an N-bit domain by definition
	if cv, ok := v.(*ssa.Convert); ok {
		if n, ok := cv.X.Type().(*types.Named); ok && strings.HasPrefix(n.Obj().Name(), "Uint") {
			if k, err := strconv.Atoi(strings.TrimPrefix(n.Obj().Name(), "Uint")); err == nil && int64(k) <= w {
				return
			}
		}
		// a signed length converted for the writer: the bound is proved on the signed value
		// (lengths and counts are not negative; stated in the evidence)
		if isInteger(cv.X.Type()) && !isUnsigned(cv.X.Type()) && isUnsigned(cv.Type()) {
			v = cv.X
		}
	}
	key := fmt.Sprintf("%s %s value %s in %d bits", fnName(f), shortQ(q), shape(v, 3), w)
	ord[key]++
	if ord[key] > 1 {
		key = fmt.Sprintf("%s#%d", key, ord[key])
	}
	g := siteGoal{desc: "value fits the width", build: func(p *proverCtx) []*linexp {
		return []*linexp{p.lin(v).scale(-1).addConst((int64(1) << uint(w)) - 1)}
	}}
	p := c.newProver(f, b)
	if proveAll(p, g) || c.phiSplit(f, b, g) {
		c.ok(R, key, cl.Pos(), fmt.Sprintf("value proved <= 2^%d-1", w))
	} else if why, ok := excLookupS(excRange, key); ok {
		c.exc(R, key, cl.Pos(), why)
	} else {
		c.bad(R, key, cl.Pos(), fmt.Sprintf("%s writes %s into %d bits without it being known to fit (no type bound, no dominating guard): a larger value is truncated silently and the cell decodes to something else", fnName(f), shape(v, 3), w))
	}
}

var excRange = map[string]string{
	"(tlb.FixedLengthText).MarshalTLB boc.Cell.WriteUint value len(t) in 8 bits":   "the text itself is written into the same cell right after the length: more than 126 bytes exceed the 1023-bit capacity and WriteBytes fails, so a length of 256 or more never yields a cell",
	"(tlb.VmCellSlice).MarshalTLB boc.Cell.WriteUint value *&s.stBits in 10 bits":  "slice bounds of a cell: 0..1023 by construction (set by the decoder from 10-bit fields or by the constructor from a cell's size)",
	"(tlb.VmCellSlice).MarshalTLB boc.Cell.WriteUint value *&s.endBits in 10 bits": "slice bounds of a cell: 0..1023 by construction",
	"(tlb.VmStack).MarshalTLB boc.Cell.WriteUint value len(s) in 24 bits":          "depth of an in-memory VM stack; 2^24 entries is beyond what the TVM (and this encoder's recursion) handles",
	"tlb.encode boc.Cell.WriteUint value reflect.Value.Uint() in 8 bits":           "the width is chosen by the reflect kind of the field (Uint8): the value has that many bits by its Go type (kind-to-width table: E14)",
	"tlb.encode boc.Cell.WriteUint value reflect.Value.Uint() in 16 bits":          "reflect kind Uint16",
	"tlb.encode boc.Cell.WriteUint value reflect.Value.Uint() in 32 bits":          "reflect kind Uint32",
	"wallet.genContextID boc.Cell.WriteUint value workchain in 8 bits":             "a workchain id is written as its 8-bit two's complement on purpose (-1 -> 0xFF); the highload/v5 contracts read it back as int8",
}

// equalIndexFunc: cl is slices.IndexFunc(xs, pred) with pred a function literal every return of which is
// param.Equal(_) on its own parameter: the index of the first element Equal to something, or -1. Returns the
// Equal call.
func equalIndexFunc(cl *ssa.Call) *ssa.Call {
	if cl == nil || !strings.HasPrefix(callQName(&cl.Call), "slices.IndexFunc") || len(cl.Call.Args) != 2 {
		return nil
	}
	// over the whole collection: an index into a sub-slice is not an index into the collection
	if _, sub := cl.Call.Args[0].(*ssa.Slice); sub {
		return nil
	}
	var fn *ssa.Function
	switch x := cl.Call.Args[1].(type) {
	case *ssa.MakeClosure:
		fn, _ = x.Fn.(*ssa.Function)
	case *ssa.Function:
		fn = x
	}
	if fn == nil || len(fn.Params) != 1 || len(fn.Blocks) == 0 {
		return nil
	}
	var eq *ssa.Call
	for _, r := range returnsOf(fn) {
		e := callOf(retVal(r, 0))
		if e == nil || !e.Call.IsInvoke() || e.Call.Method.Name() != "Equal" {
			return nil
		}
		// the receiver is the element handed in (possibly boxed into the key interface)
		recv := e.Call.Value
		if mi, ok := recv.(*ssa.MakeInterface); ok {
			recv = mi.X
		}
		if recv != ssa.Value(fn.Params[0]) {
			return nil
		}
		eq = e
	}
	return eq
}
