package main

func init() { register("C14", propC14) }

func propC14(c *Ctx) propInfo {
	const R = "E8.mustcheck"
	ed := requiredCheck{name: "ed25519.Verify(publicKey, hash, signature)", src: callResult("crypto/ed25519.Verify"), kind: "bool"}
	if f := c.mustFn(R, "wallet", "SignedMsgBody.Verify"); f != nil {
		c.mustDominate(R, f, 0, []requiredCheck{ed}, nil, "")
	}
	if f := c.mustFn(R, "wallet", "MessageV5VerifySignature"); f != nil {
		c.mustDominate(R, f, 0, []requiredCheck{ed}, nil, "")
	}
	if f := c.mustFn(R, "wallet", "VerifySignature"); f != nil {
		// every non-failure exit delegates to one of the two verifiers
		c.delegatesTo(R, f, 0, []string{modPath + "/wallet.SignedMsgBody.Verify", modPath + "/wallet.MessageV5VerifySignature"})
	}
	c.floor(R, 3)
	return propInfo{
		explanation: "Static structural clauses of C14 (DESIGN.md §4 C14): verifiers succeed only through the passing edge of ed25519.Verify; VerifySignature delegates every success to them; sign-what-you-send; body layouts equal spec and reader; message-count limits agree. Decides these necessary conditions, not unforgeability or content equality.",
		assumptions: []string{"ed25519 behaves as documented"},
	}
}
