package main

import (
	"fmt"
	"go/token"
	"go/types"
	"reflect"
	"regexp"
	"strconv"
	"strings"

	"golang.org/x/tools/go/ssa"
)

func init() { register("C14", propC14) }

func propC14(c *Ctx) propInfo {
	c.statelessCodecs("E17.stateless", excStateless, "wallet", "boc")
	const R = "E8.mustcheck"
	ed := requiredCheck{name: "ed25519.Verify(publicKey, hash, signature)", src: callResult("crypto/ed25519.Verify"), kind: "bool"}
	if f := c.mustFn(R, "wallet", "SignedMsgBody.Verify"); f != nil {
		c.mustDominate(R, f, 0, []requiredCheck{ed}, nil, "")
	}
	if f := c.mustFn(R, "wallet", "MessageV5VerifySignature"); f != nil {
		c.mustDominate(R, f, 0, []requiredCheck{ed}, nil, "")
	}
	if f := c.mustFn(R, "wallet", "VerifySignature"); f != nil {
		// every non-failure exit delegates to one of the two verifiers
		c.delegatesTo(R, f, 0, []string{modPath + "/wallet.SignedMsgBody.Verify", modPath + "/wallet.MessageV5VerifySignature"})
	}
	c.floor(R, 3)
	c.signWhatYouSend()
	c.verifyWhatWasSigned()
	c.walletBodyLiterals()
	c.walletBodyLayouts()
	c.walletLimits()
	c.walletConstants()
	c.walletDecodeTables()
	c.externalEnvelope()
	c.requestedPartsCarried()
	c.payloadCodecs()
	c.bocHeaderAgreement() // the payload handed to the network is serialised through serializeBoc
	// the wallet's own codecs and message builders contain no reachable crash construct (an empty
	// action list must write nothing, not index its first element)
	{
		roots := c.methodsNamed([]string{"MarshalTLB", "UnmarshalTLB", "createSignedMsgBodyCell", "RawMessages"}, "wallet")
		for _, n := range []string{"ExtractRawMessages", "DecodeMessageV5", "DecodeMessageV4", "DecodeMessageV3", "DecodeHighloadV2Message", "VerifySignature", "MessageV5VerifySignature"} {
			if f := c.fn("wallet", n); f != nil {
				roots = append(roots, f)
			}
		}
		c.panicFree(e1cfg{roots: roots, pkgs: map[string]bool{"wallet": true}, traverse: map[string]bool{"wallet": true}, maxDepth: c.e1Depth(), exc: excC14E1, excP5: map[string]excEntry{}})
	}
	c.nilContradictions("E1.P8-nil-contradiction", "wallet")
	return propInfo{
		explanation: "Static structural clauses of C14: (1) verifiers return nil only on the true edge of ed25519.Verify; VerifySignature delegates every success to them. (2) sign-what-you-send: in every createSignedMsgBodyCell the signature is Cell.Sign(privateKey parameter) of exactly the cell the body was marshalled into, computed after the last content write, and what is returned is that cell plus the signature (v3/v4/highload: SignedMsgBody{Sign, Message: same cell}; v5: WriteBytes(signature) as the last write); Cell.Sign signs the representation hash. (3) verify-what-was-signed: SignedMsgBody.Verify hashes body.Message and checks body.Sign; MessageV5VerifySignature hashes all bits except the last 512 plus every ref, and takes the last 512 bits as the signature. (4) E15 body literals: in each version the body literal takes sub-wallet/wallet id from the wallet, ValidUntil from msgConfig.ValidUntil.Unix(), Seqno from msgConfig.Seqno and the messages from internalMessages; the three WalletV5ID literals of v5beta agree. (5) layouts: E3 layouts of the message structs equal spec/tlb_layouts.spec; v5 writer struct + 512-bit signature equals the reader's SignedExternal alternative field by field, and the 32-bit prefix written is the alternative's tag. (6) limits: maxMessageNumber constants agree with the payload encoders' guards and RawSendV2 refuses before signing. (7) version -> decoder / verifier tables. (8) external envelope (ext_in_msg_info, dest = address, body in a ref). (9) payload codecs: E5 event traces of PayloadV1toV4 / W5Actions / PayloadHighload encoder and decoder agree. NOT decided: unforgeability, that decoding returns equal values (value-level), the order of highload messages through the dictionary.",
		assumptions: []string{"ed25519 behaves as documented"},
	}
}

// signWhatYouSend: per implementation.
func (c *Ctx) signWhatYouSend() {
	const R = "E15.sign-what-you-send"
	for _, recv := range []string{"walletV3", "walletV4", "walletHighloadV2"} {
		f := c.mustFn(R, "wallet", recv+".createSignedMsgBodyCell")
		if f == nil {
			continue
		}
		okv := false
		var why string
		scs := callsTo(f, modPath+"/wallet.signBodyCell")
		ms := callsTo(f, modPath+"/tlb.Marshal")
		if len(scs) == 1 && len(ms) == 1 {
			cellArg := ms[0].Call.Args[0]
			// signBodyCell(*bodyCell, privateKey)
			ld, isLoad := scs[0].Call.Args[0].(*ssa.UnOp)
			same := isLoad && ld.X == cellArg
			key := strings.Join(leaves(scs[0].Call.Args[1]), ",") == "#1"
			order := ms[0].Block().Dominates(scs[0].Block()) && (ms[0].Block() != scs[0].Block() || before(ms[0], scs[0]))
			okv = same && key && order
			why = fmt.Sprintf("signs the marshalled cell: %v, with the privateKey parameter: %v, after marshalling: %v", same, key, order)
		} else {
			why = fmt.Sprintf("%d signBodyCell calls, %d Marshal calls", len(scs), len(ms))
		}
		c.check(okv, R, recv+": signBodyCell(cell the body was marshalled into, privateKey)", f.Pos(), why, recv+".createSignedMsgBodyCell: "+why)
		c.delegatesTo(R, f, 1, []string{modPath + "/wallet.signBodyCell"})
	}
	if f := c.mustFn(R, "wallet", "signBodyCell"); f != nil {
		sg := callsTo(f, modPath+"/boc.Cell.Sign")
		okv := len(sg) == 1 && strings.Join(leaves(sg[0].Call.Args[0]), ",") == "#0" && strings.Join(leaves(sg[0].Call.Args[1]), ",") == "#1"
		c.check(okv, R, "signBodyCell signs its bodyCell with its privateKey", f.Pos(), "bodyCell.Sign(privateKey)", "signBodyCell no longer signs the body cell it was given with the key it was given")
		c.literalIs(R, f, "SignedMsgBody", 1, pxMap("bodyCell,privateKey", map[string]string{"Sign": "bodyCell,privateKey", "Message": "bodyCell"}))
		okM := false
		for _, cl := range callsTo(f, modPath+"/tlb.Marshal") {
			if mi, ok := cl.Call.Args[1].(*ssa.MakeInterface); ok {
				okM = strings.HasSuffix(mi.X.Type().String(), ".SignedMsgBody")
			}
		}
		c.check(okM, R, "signBodyCell returns the marshalled SignedMsgBody", f.Pos(), "Marshal(signedBodyCell, signedBody)", "signBodyCell no longer marshals the SignedMsgBody it built")
	}
	if f := c.mustFn(R, "boc", "Cell.Sign"); f != nil {
		okv := false
		for _, cl := range callsTo(f, "crypto/ed25519.Sign") {
			okv = derivesFrom(cl.Call.Args[1], callResult(modPath+"/boc.Cell.Hash"), false) && strings.Join(leaves(cl.Call.Args[0]), ",") == "#1"
		}
		c.check(okv, R, "Cell.Sign = ed25519.Sign(key, representation hash)", f.Pos(), "Sign(key, c.Hash())", "Cell.Sign no longer signs the cell's representation hash with the given key")
	}
	for _, name := range []string{"walletV5R1.CreateSignedMsgBodyCell", "walletV5Beta.createSignedMsgBodyCell"} {
		f := c.mustFn(R, "wallet", name)
		if f == nil {
			continue
		}
		sg := callsTo(f, modPath+"/boc.Cell.Sign")
		wb := callsTo(f, modPath+"/boc.Cell.WriteBytes")
		wu := callsTo(f, modPath+"/boc.Cell.WriteUint")
		ms := callsTo(f, modPath+"/tlb.Marshal")
		okv := false
		why := ""
		if len(sg) == 1 && len(wb) == 1 && len(wu) == 1 && len(ms) == 1 {
			cell := sg[0].Call.Args[0]
			sameCell := wb[0].Call.Args[0] == cell && wu[0].Call.Args[0] == cell && ms[0].Call.Args[0] == cell
			key := strings.Join(leaves(sg[0].Call.Args[1]), ",") == "#1"
			sigArg := false
			if ex, ok := wb[0].Call.Args[1].(*ssa.Extract); ok && ex.Tuple == ssa.Value(sg[0]) && ex.Index == 0 {
				sigArg = true // the whole signature, not a part of it
			}
			dom := func(a, b *ssa.Call) bool {
				return a.Block().Dominates(b.Block()) && (a.Block() != b.Block() || before(a, b))
			}
			order := dom(wu[0], ms[0]) && dom(ms[0], sg[0]) && dom(sg[0], wb[0])
			// the returned cell is the signed one and every success return is after the signature write
			ret := true
			for _, sp := range successPoints(f, 1) {
				if retVal(sp.Ret, 0) != cell || !wb[0].Block().Dominates(sp.Block) {
					ret = false
				}
			}
			// nothing else writes the cell
			other := 0
			for _, r := range realRefs(cell) {
				if cl, ok := r.(*ssa.Call); ok {
					q := callQName(&cl.Call)
					if strings.HasPrefix(q, modPath+"/boc.Cell.Write") || strings.HasPrefix(q, modPath+"/boc.Cell.AddRef") {
						other++
					}
				}
			}
			okv = sameCell && key && sigArg && order && ret && other == 2
			why = fmt.Sprintf("one cell: %v; key parameter: %v; the bytes appended are the signature: %v; order prefix<marshal<sign<append: %v; returned after the append: %v; direct writes to the cell: %d (2 confirmed)", sameCell, key, sigArg, order, ret, other)
		} else {
			why = fmt.Sprintf("Sign×%d WriteBytes×%d WriteUint×%d Marshal×%d", len(sg), len(wb), len(wu), len(ms))
		}
		c.check(okv, R, name+": prefix, body, Sign(privateKey), append signature, return", f.Pos(), why, name+": "+why)
		for _, cl := range wu {
			w, _ := constInt(cl.Call.Args[2])
			src := strings.Join(leaves(cl.Call.Args[1]), ",")
			c.check(w == 32 && strings.HasSuffix(src, ".V5MsgType") && strings.HasPrefix(src, "#"), R, name+": 32-bit message type prefix from msgConfig", cl.Pos(), "WriteUint(msgConfig.V5MsgType, 32)", fmt.Sprintf("%s writes the message type as %d bits from {%s}", name, w, src))
		}
	}
	if f := c.mustFn(R, "wallet", "walletV5R1.createSignedMsgBodyCell"); f != nil {
		c.delegatesTo(R, f, 1, []string{modPath + "/wallet.walletV5R1.CreateSignedMsgBodyCell"})
		for _, cl := range callsTo(f, modPath+"/wallet.walletV5R1.CreateSignedMsgBodyCell") {
			a := []string{strings.Join(leaves(cl.Call.Args[1]), ","), strings.Join(leaves(cl.Call.Args[2]), ","), strings.Join(leaves(cl.Call.Args[4]), ",")}
			c.check(fmt.Sprint(a) == "[#1 #2 #3]", R, "walletV5R1.createSignedMsgBodyCell forwards key, messages and config", cl.Pos(), fmt.Sprint(a), fmt.Sprintf("walletV5R1.createSignedMsgBodyCell forwards %v", a))
		}
	}
	// RawSendV2 asks for a signed *external* message
	if f := c.mustFn(R, "wallet", "Wallet.RawSendV2"); f != nil {
		okv := false
		for _, m := range literalFields(f, "MessageConfig") {
			for _, v := range m["V5MsgType"] {
				k, _ := constInt(stripConv(v))
				okv = k == 0x7369676e
			}
		}
		c.check(okv, R, "RawSendV2 requests the signed-external v5 message type", f.Pos(), "V5MsgTypeSignedExternal = 0x7369676e", "RawSendV2 no longer requests V5MsgTypeSignedExternal (0x7369676e) for the external message it sends")
	}
	c.floor(R, 16)
}

func (c *Ctx) verifyWhatWasSigned() {
	const R = "E15.verify-what-was-signed"
	if f := c.mustFn(R, "wallet", "SignedMsgBody.Verify"); f != nil {
		okv := false
		// (read with unexported helpers inlined: the hash-and-verify step may be shared with the v5 verifier)
		for _, vi := range c.inlineView(f, 2, nil) {
			cl, isCall := vi.in.(*ssa.Call)
			if !isCall || callQName(&cl.Call) != "crypto/ed25519.Verify" {
				continue
			}
			a := []string{strings.Join(leavesCx(cl.Call.Args[0], vi.cx), ","), strings.Join(leavesCx(cl.Call.Args[1], vi.cx), ","), strings.Join(leavesCx(cl.Call.Args[2], vi.cx), ",")}
			okv = a[0] == "#1" && a[1] == "#0.Message" && a[2] == "#0.Sign" && derivesFrom(cl.Call.Args[1], callResult(modPath+"/boc.Cell.Hash"), false)
			if !okv {
				c.bad(R, "SignedMsgBody.Verify(publicKey, Hash(body.Message), body.Sign)", cl.Pos(), fmt.Sprintf("SignedMsgBody.Verify calls ed25519.Verify with arguments from %v", a))
				return
			}
		}
		c.check(okv, R, "SignedMsgBody.Verify(publicKey, Hash(body.Message), body.Sign)", f.Pos(), "arguments traced", "SignedMsgBody.Verify has no ed25519.Verify call")
	}
	if f := c.mustFn(R, "wallet", "MessageV5VerifySignature"); f != nil {
		rb := callsTo(f, modPath+"/boc.Cell.ReadBits")
		ry := callsTo(f, modPath+"/boc.Cell.ReadBytes")
		okBits, okSig := false, false
		if len(rb) == 1 {
			if bo, ok := rb[0].Call.Args[1].(*ssa.BinOp); ok && bo.Op.String() == "-" {
				k, _ := constInt(bo.Y)
				okBits = k == 512 && derivesFrom(bo.X, callResult(modPath+"/boc.Cell.BitsAvailableForRead"), false)
			}
		}
		if len(ry) == 1 {
			k, _ := constInt(ry[0].Call.Args[1])
			okSig = k == 64 && len(rb) == 1 && (rb[0].Block().Dominates(ry[0].Block()) && (rb[0].Block() != ry[0].Block() || before(rb[0], ry[0])))
		}
		c.check(okBits && okSig, R, "v5 verify: signed part = all bits but the last 512, signature = last 64 bytes", f.Pos(), "ReadBits(total-512) then ReadBytes(64)", fmt.Sprintf("MessageV5VerifySignature no longer splits the body as (total-512 bits | 64 signature bytes): bits %v signature %v", okBits, okSig))
		okV := false
		v5view := c.inlineView(f, 2, nil)
		for _, vi := range v5view {
			cl, isCall := vi.in.(*ssa.Call)
			if !isCall || callQName(&cl.Call) != "crypto/ed25519.Verify" {
				continue
			}
			okH := derivesFrom(cl.Call.Args[1], callResult(modPath+"/boc.Cell.Hash"), false)
			okS := derivesFrom(cl.Call.Args[2], callResult(modPath+"/boc.Cell.ReadBytes"), false)
			okK := strings.Join(leavesCx(cl.Call.Args[0], vi.cx), ",") == "#1"
			okV = okH && okS && okK
		}
		// the hashed copy gets the unsigned bits and every ref
		okCopy := false
		var cp ssa.Value
		for _, cl := range callsTo(f, modPath+"/boc.Cell.WriteBitString") {
			cp = cl.Call.Args[0]
			okCopy = derivesFrom(cl.Call.Args[1], callResult(modPath+"/boc.Cell.ReadBits"), false)
		}
		okRefs := false
		for _, cl := range callsTo(f, modPath+"/boc.Cell.AddRef") {
			okRefs = cl.Call.Args[0] == cp && derivesFrom(cl.Call.Args[1], callResult(modPath+"/boc.Cell.NextRef"), false)
		}
		okHashCopy := false
		for _, vi := range v5view {
			if cl, isCall := vi.in.(*ssa.Call); isCall && callQName(&cl.Call) == modPath+"/boc.Cell.Hash" {
				recv, _ := resolveDeep(cl.Call.Args[0], vi.cx)
				okHashCopy = recv == cp
			}
		}
		// loop bound is RefsSize of the body
		okLoop := false
		for _, cl := range callsTo(f, modPath+"/boc.Cell.RefsSize") {
			okLoop = strings.Join(leaves(cl.Call.Args[0]), ",") == "#0"
		}
		c.check(okV && okCopy && okRefs && okHashCopy && okLoop, R, "v5 verify: hash(copy of unsigned bits + all refs) checked against the signature with the given key", f.Pos(), "Verify(publicKey, Hash(copy), signature)", fmt.Sprintf("MessageV5VerifySignature: verify args %v, copy gets the unsigned bits %v, all refs %v (loop over RefsSize %v), the copy is what is hashed %v", okV, okCopy, okRefs, okLoop, okHashCopy))
	}
	if f := c.mustFn(R, "wallet", "extractSignedMsgBody"); f != nil {
		var ms []vinstr
		for _, vi := range c.inlineView(f, 2, nil) {
			if cl, isCall := vi.in.(*ssa.Call); isCall && callQName(&cl.Call) == modPath+"/tlb.Unmarshal" {
				ms = append(ms, vi)
			}
		}
		okv := len(ms) == 2
		if okv {
			okv = strings.Join(leavesCx(ms[0].in.(*ssa.Call).Call.Args[0], ms[0].cx), ",") == "#0" && derivesFrom(ms[1].in.(*ssa.Call).Call.Args[0], func(v ssa.Value) bool { _, n, ok := fieldOf(v); return ok && n == "Body" }, false)
		}
		c.check(okv, R, "the signed body is decoded from the external message's body", f.Pos(), "Unmarshal(msg, &m); Unmarshal(m.Body.Value, &signedBody)", "extractSignedMsgBody no longer decodes the SignedMsgBody from the message body")
	}
	c.floor(R, 4)
}

// walletBodyLiterals: every configured quantity reaches the signed body.
func (c *Ctx) walletBodyLiterals() {
	const R = "E15.config-flow"
	vu := "msgConfig.ValidUntil"
	c.literalIs(R, c.mustFn(R, "wallet", "walletV3.createSignedMsgBodyCell"), "MessageV3", 1, pxMap("w,privateKey,internalMessages,msgConfig", map[string]string{"SubWalletId": "w.subWalletID", "ValidUntil": vu, "Seqno": "msgConfig.Seqno", "RawMessages": "internalMessages"}))
	c.literalIs(R, c.mustFn(R, "wallet", "walletV4.createSignedMsgBodyCell"), "MessageV4", 1, pxMap("w,privateKey,internalMessages,msgConfig", map[string]string{"SubWalletId": "w.subWalletID", "ValidUntil": vu, "Seqno": "msgConfig.Seqno", "RawMessages": "internalMessages"}))
	c.literalIs(R, c.mustFn(R, "wallet", "walletHighloadV2.createSignedMsgBodyCell"), "HighloadV2Message", 1, pxMap("w,privateKey,internalMessages,msgConfig", map[string]string{"SubWalletId": "w.subWalletID", "BoundedQueryID": "call:math/rand.Uint32," + vu, "RawMessages": "internalMessages"}))
	c.literalIs(R, c.mustFn(R, "wallet", "walletV5R1.CreateSignedMsgBodyCell"), "extV5R1SignedMessage", 1, pxMap("w,privateKey,internalMessages,extensionsActions,msgConfig", map[string]string{"WalletId": "w.walletID", "ValidUntil": vu, "Seqno": "msgConfig.Seqno", "Actions": "internalMessages", "ExtendedActions": "extensionsActions"}))
	c.literalIs(R, c.mustFn(R, "wallet", "walletV5R1.CreateMsgBodyWithoutSignature"), "extV5R1SignedMessage", 1, pxMap("w,internalMessages,msgConfig", map[string]string{"WalletId": "w.walletID", "ValidUntil": vu, "Seqno": "msgConfig.Seqno", "Actions": "internalMessages"}))
	beta := map[string]string{"WalletId.NetworkGlobalID": "w.networkGlobalID", "WalletId.Workchain": "w.workchain", "WalletId.SubWalletID": "w.subWalletID", "ValidUntil": vu, "Seqno": "msgConfig.Seqno", "Actions": "internalMessages"}
	c.literalIs(R, c.mustFn(R, "wallet", "walletV5Beta.createSignedMsgBodyCell"), "extV5BetaSignedMessage", 1, pxMap("w,privateKey,internalMessages,msgConfig", beta))
	c.literalIs(R, c.mustFn(R, "wallet", "walletV5Beta.CreateMsgBodyWithoutSignature"), "extV5BetaSignedMessage", 1, pxMap("w,internalMessages,msgConfig", beta))
	// ValidUntil is the unix time truncated to 32 bits; the highload query id carries it in the upper 32 bits
	for _, name := range []string{"walletV3.createSignedMsgBodyCell", "walletV4.createSignedMsgBodyCell", "walletV5R1.CreateSignedMsgBodyCell", "walletV5Beta.createSignedMsgBodyCell"} {
		f := c.mustFn(R, "wallet", name)
		if f == nil {
			continue
		}
		okv := false
		for _, st := range fieldStores(f, "ValidUntil") {
			ts, root := convChain(st.Val)
			okv = strings.Join(ts, ",") == "uint32,int64" && isCallTo("time.Time.Unix")(root)
		}
		c.check(okv, R, name+": ValidUntil = uint32(msgConfig.ValidUntil.Unix())", f.Pos(), "uint32(Unix())", name+" no longer stores the expiry as uint32 of the Unix time")
	}
	// the v5 action list keeps order and pairs message with its own mode
	for _, name := range []string{"walletV5R1.CreateSignedMsgBodyCell", "walletV5Beta.createSignedMsgBodyCell", "walletV5R1.CreateMsgBodyWithoutSignature", "walletV5Beta.CreateMsgBodyWithoutSignature"} {
		f := c.mustFn(R, "wallet", name)
		if f == nil {
			continue
		}
		okv := false
		var lits []map[string][]ssa.Value
		// the conversion loop may sit in the builder or in an unexported helper the builders share
		for _, g := range c.helperClosure(f, 2, func(h *ssa.Function) bool { return plainHelper(h) == nil }) {
			lits = append(lits, literalFields(g, "W5SendMessageAction")...)
			// elements of a slice made to size and filled in place: actions[i].Msg = ..., actions[i].Mode = ...
			type elemKey struct{ base, idx ssa.Value }
			byElem := map[elemKey]map[string][]ssa.Value{}
			allInstrs(g, func(_ *ssa.BasicBlock, in ssa.Instruction) {
				st, ok := in.(*ssa.Store)
				if !ok {
					return
				}
				fa, ok := st.Addr.(*ssa.FieldAddr)
				if !ok {
					return
				}
				ia, ok := fa.X.(*ssa.IndexAddr)
				if !ok {
					return
				}
				tn, fn, ok := fieldOf(fa)
				if !ok || !strings.HasSuffix(tn, "W5SendMessageAction") {
					return
				}
				// the element: the same slice variable at the same index value (each statement re-loads the variable)
				base := ia.X
				if ld, ok := base.(*ssa.UnOp); ok && ld.Op == token.MUL {
					base = ld.X
				}
				k := elemKey{base, ia.Index}
				if byElem[k] == nil {
					byElem[k] = map[string][]ssa.Value{}
				}
				byElem[k][fn] = append(byElem[k][fn], st.Val)
			})
			for _, m := range byElem {
				lits = append(lits, m)
			}
		}
		for _, m := range lits {
			msg := vals2paths(m["Msg"])
			mode := vals2paths(m["Mode"])
			okv = strings.HasSuffix(msg, ".Message") && strings.HasSuffix(mode, ".Mode") && strings.TrimSuffix(msg, ".Message") == strings.TrimSuffix(mode, ".Mode")
		}
		c.check(okv, R, name+": action = {msg.Message, msg.Mode} of the same element", f.Pos(), "W5SendMessageAction{Msg: msg.Message, Mode: msg.Mode}", name+" no longer pairs each message with its own send mode")
	}
	c.subWalletSiblings(R)
	c.floor(R, 16)
}

func vals2paths(vs []ssa.Value) string {
	var out []string
	for _, v := range vs {
		if _, n, ok := fieldOfLoad(stripConv(v)); ok {
			base := ""
			if u, ok := stripConv(v).(*ssa.UnOp); ok {
				if fa, ok := u.X.(*ssa.FieldAddr); ok {
					base = shape(fa.X, 2)
				}
			}
			if fl, ok := stripConv(v).(*ssa.Field); ok {
				base = shape(fl.X, 2)
			}
			out = append(out, base+"."+n)
		} else {
			out = append(out, shape(v, 2))
		}
	}
	return strings.Join(out, ",")
}

var fixedTermRe = regexp.MustCompile(`^(?:n|i)(\d+)$|^bytes(\d+)$|^bit$`)

func termWidth(t string) (int, bool) {
	if t == "bit" {
		return 1, true
	}
	if strings.HasPrefix(t, "seq[") && strings.HasSuffix(t, "]") {
		sum := 0
		for _, p := range strings.Fields(t[4 : len(t)-1]) {
			w, ok := termWidth(p)
			if !ok {
				return 0, false
			}
			sum += w
		}
		return sum, true
	}
	m := fixedTermRe.FindStringSubmatch(t)
	if m == nil {
		return 0, false
	}
	if m[1] != "" {
		n, _ := strconv.Atoi(m[1])
		return n, true
	}
	n, _ := strconv.Atoi(m[2])
	return 8 * n, true
}

type fieldTerm struct{ name, term string }

func (c *Ctx) structFieldTerms(st *types.Struct) []fieldTerm {
	var out []fieldTerm
	for i := 0; i < st.NumFields(); i++ {
		f := st.Field(i)
		if n := namedOf(f.Type()); n != nil && n.Obj().Name() == "SumType" {
			continue
		}
		l := c.newLayout()
		tg := reflect.StructTag(st.Tag(i)).Get("tlb")
		out = append(out, fieldTerm{f.Name(), normTerm(l.layout(f.Type(), tg))})
	}
	return out
}

// walletBodyLayouts: spec equality + writer/reader agreement for v5.
func (c *Ctx) walletBodyLayouts() {
	c.layoutVsSpec(func(k string) bool {
		switch k {
		case "wallet.SignedMsgBody", "wallet.MessageV3", "wallet.MessageV4", "wallet.HighloadV2Message", "wallet.W5SendMessageAction", "wallet.MessageV5", "wallet.MessageV5Beta", "wallet.W5ExtendedAction", "wallet.extV5R1SignedMessage", "wallet.extV5BetaSignedMessage", "wallet.WalletV5ID":
			return true
		}
		return false
	})
	c.floor("E3b.layout=spec", 11)
	const R = "E12.writer=reader"
	for _, pr := range [][2]string{{"extV5R1SignedMessage", "MessageV5"}, {"extV5BetaSignedMessage", "MessageV5Beta"}} {
		w := c.lookupType("wallet." + pr[0])
		r := c.lookupType("wallet." + pr[1])
		key := pr[0] + " + signature = " + pr[1] + ".SignedExternal"
		if w == nil || r == nil {
			c.bad(R, key, 0, "type missing")
			continue
		}
		ws, _ := w.Underlying().(*types.Struct)
		rs, _ := r.Underlying().(*types.Struct)
		var alt *types.Struct
		tag := ""
		for i := 0; i < rs.NumFields(); i++ {
			if rs.Field(i).Name() == "SignedExternal" {
				t := rs.Field(i).Type()
				if p, ok := t.(*types.Pointer); ok {
					t = p.Elem()
				}
				alt, _ = t.Underlying().(*types.Struct)
				tag = reflect.StructTag(rs.Tag(i)).Get("tlbSumType")
			}
		}
		if ws == nil || alt == nil {
			c.bad(R, key, w.Obj().Pos(), "writer or reader alternative is not a struct")
			continue
		}
		wt := c.structFieldTerms(ws)
		rt := c.structFieldTerms(alt)
		var diffs []string
		// remove Signature from the reader, remember its position
		sigIdx := -1
		var rt2 []fieldTerm
		for i, ft := range rt {
			if ft.name == "Signature" {
				sigIdx = i
				if ft.term != "bytes64" {
					diffs = append(diffs, "reader's Signature is "+ft.term+", not 512 bits")
				}
				continue
			}
			rt2 = append(rt2, ft)
		}
		if sigIdx < 0 {
			diffs = append(diffs, "reader alternative has no Signature field")
		} else {
			for _, ft := range rt[sigIdx+1:] {
				if !strings.HasPrefix(ft.term, "ref{") {
					diffs = append(diffs, fmt.Sprintf("reader field %s (%s) carries bits after the signature; the writer appends the signature as the last bits", ft.name, ft.term))
				}
			}
		}
		if len(wt) != len(rt2) {
			diffs = append(diffs, fmt.Sprintf("writer has %d fields, reader %d (besides Signature)", len(wt), len(rt2)))
		} else {
			for i := range wt {
				if wt[i].name != rt2[i].name {
					diffs = append(diffs, fmt.Sprintf("field %d: writer %s, reader %s", i, wt[i].name, rt2[i].name))
					continue
				}
				a, aok := termWidth(wt[i].term)
				b, bok := termWidth(rt2[i].term)
				if aok && bok {
					if a != b {
						diffs = append(diffs, fmt.Sprintf("field %s: writer %d bits, reader %d bits", wt[i].name, a, b))
					}
				} else if wt[i].term != rt2[i].term {
					diffs = append(diffs, fmt.Sprintf("field %s: writer %s, reader %s", wt[i].name, wt[i].term, rt2[i].term))
				}
			}
		}
		if tag != "#7369676e" {
			diffs = append(diffs, "reader's SignedExternal tag is "+tag+", the writer's prefix is V5MsgTypeSignedExternal = 0x7369676e")
		}
		c.check(len(diffs) == 0, R, key, w.Obj().Pos(), fmt.Sprintf("%d fields agree by name and width; signature is the last bit field; tag %s", len(wt), tag), "the v5 body writer and reader disagree: "+strings.Join(diffs, "; "))
	}
	if p := c.pkg("wallet"); p != nil {
		c.check(constObjEquals(p, "V5MsgTypeSignedExternal", 0x7369676e) && constObjEquals(p, "V5MsgTypeSignedInternal", 0x73696e74) && constObjEquals(p, "V5MsgTypeExtensionAction", 0x6578746e), R, "v5 message type constants = 'sign','sint','extn'", 0, "0x7369676e 0x73696e74 0x6578746e", "the v5 message type constants changed")
	}
	c.floor(R, 3)
}

// walletLimits: maxMessageNumber vs encoder guards.
func (c *Ctx) walletLimits() {
	const R = "E12.limits"
	maxOf := map[string]int64{}
	for _, recv := range []string{"walletV1V2", "walletV3", "walletV4", "walletHighloadV2", "walletV5Beta", "walletV5R1"} {
		f := c.mustFn(R, "wallet", recv+".maxMessageNumber")
		if f == nil {
			continue
		}
		if v, ok := constReturn(f); ok {
			maxOf[recv] = v
		} else {
			c.bad(R, recv+".maxMessageNumber is a constant", f.Pos(), recv+".maxMessageNumber no longer returns a constant")
		}
	}
	guard := func(name string) (int64, bool) {
		f := c.mustFn(R, "wallet", name)
		if f == nil {
			return 0, false
		}
		for _, b := range f.Blocks {
			if iff := lastIf(b); iff != nil {
				if bo, ok := iff.Cond.(*ssa.BinOp); ok && bo.Op.String() == ">" {
					if cl := callOf(bo.X); cl != nil {
						if bi, ok := cl.Call.Value.(*ssa.Builtin); ok && bi.Name() == "len" && strings.Join(leaves(cl.Call.Args[0]), ",") == "#0" {
							if k, ok := constInt(bo.Y); ok {
								// the true edge must fail
								return k, true
							}
						}
					}
				}
			}
		}
		return 0, false
	}
	g14, ok14 := guard("PayloadV1toV4.MarshalTLB")
	ghl, okhl := guard("PayloadHighload.MarshalTLB")
	c.check(ok14 && g14 == 4 && maxOf["walletV3"] == 4 && maxOf["walletV4"] == 4, R, "v3/v4: at most 4 messages in both the wallet limit and the payload encoder", 0, "4 = cell reference capacity", fmt.Sprintf("v3/v4 limits disagree: maxMessageNumber v3=%d v4=%d, PayloadV1toV4 guard len>%d (found %v); a cell holds 4 references", maxOf["walletV3"], maxOf["walletV4"], g14, ok14))
	c.check(okhl && ghl == 254 && maxOf["walletHighloadV2"] == 254, R, "highload: at most 254 messages in both the wallet limit and the payload encoder", 0, "254", fmt.Sprintf("highload limits disagree: maxMessageNumber=%d, PayloadHighload guard len>%d (found %v)", maxOf["walletHighloadV2"], ghl, okhl))
	c.check(maxOf["walletV5Beta"] == 254 && maxOf["walletV5R1"] == 255, R, "v5beta 254 / v5r1 255 out-actions", 0, "contract limits", fmt.Sprintf("v5 limits changed: beta=%d r1=%d (contract limits 254 / 255)", maxOf["walletV5Beta"], maxOf["walletV5R1"]))
	// the v5 action-list encoder is shared by v5beta and v5r1: if it has a size guard at all, the guard
	// must admit the larger of the two limits
	if gw, ok := guard("W5Actions.MarshalTLB"); ok {
		lim := maxOf["walletV5R1"]
		if maxOf["walletV5Beta"] > lim {
			lim = maxOf["walletV5Beta"]
		}
		c.check(gw >= lim, R, "W5Actions size guard admits every v5 wallet's limit", 0, fmt.Sprintf("guard len>%d, limits %d/%d", gw, maxOf["walletV5Beta"], maxOf["walletV5R1"]), fmt.Sprintf("W5Actions.MarshalTLB refuses more than %d actions but walletV5R1.maxMessageNumber is %d (v5beta %d): a send within the version's limit is refused while marshalling", gw, maxOf["walletV5R1"], maxOf["walletV5Beta"]))
	} else {
		c.ok(R, "W5Actions size guard admits every v5 wallet's limit", 0, "no guard in the shared encoder: the per-version limit is enforced by RawSendV2")
	}
	c.sendLimitGuard(R)
	for _, name := range []string{"PayloadV1toV4.MarshalTLB", "PayloadHighload.MarshalTLB"} {
		if f := c.mustFn(R, "wallet", name); f != nil {
			c.mustDominate(R, f, 0, []requiredCheck{{name: "len(p) <= limit", src: func(v ssa.Value) bool {
				bo, ok := v.(*ssa.BinOp)
				if !ok || bo.Op.String() != ">" {
					return false
				}
				cl := callOf(bo.X)
				return cl != nil && strings.Join(leaves(cl.Call.Args[0]), ",") == "#0"
			}, kind: "notbool"}}, nil, "")
		}
	}
	c.floor(R, 7)
}

// walletDecodeTables: version -> decoder / verifier.
func (c *Ctx) walletDecodeTables() {
	const R = "E12.version-table"
	if f := c.mustFn(R, "wallet", "ExtractRawMessages"); f != nil {
		got := switchTable(f, f.Params[0])
		want := map[string]string{"10": "DecodeMessageV5Beta", "11": "DecodeMessageV5", "8": "DecodeMessageV4", "9": "DecodeMessageV4", "5": "DecodeMessageV3", "6": "DecodeMessageV3", "7": "DecodeMessageV3", "16": "DecodeHighloadV2Message"}
		c.check(fmt.Sprint(got) == fmt.Sprint(want), R, "ExtractRawMessages: version -> decoder", f.Pos(), fmt.Sprint(got), fmt.Sprintf("ExtractRawMessages maps versions to decoders as %v, confirmed table %v", got, want))
	}
	if f := c.mustFn(R, "wallet", "VerifySignature"); f != nil {
		got := switchTable(f, f.Params[0])
		want := map[string]string{"5": "extractSignedMsgBody", "6": "extractSignedMsgBody", "7": "extractSignedMsgBody", "8": "extractSignedMsgBody", "9": "extractSignedMsgBody", "16": "extractSignedMsgBody", "11": "Unmarshal"}
		c.check(fmt.Sprint(got) == fmt.Sprint(want), R, "VerifySignature: version -> verifier", f.Pos(), fmt.Sprint(got), fmt.Sprintf("VerifySignature maps versions as %v, confirmed table %v", got, want))
	}
	// each decoder decodes the type its wallet encodes
	for dec, typ := range map[string]string{"decodeMessageV3": "MessageV3", "decodeMessageV4": "MessageV4", "decodeHighloadV2Message": "HighloadV2Message", "DecodeMessageV5": "MessageV5", "DecodeMessageV5Beta": "MessageV5Beta"} {
		f := c.fn("wallet", dec)
		if f == nil && dec[0] == 'd' {
			// the unexported worker inlined into the exported decoder of the same name
			f = c.fn("wallet", "D"+dec[1:])
		}
		if f == nil {
			f = c.mustFn(R, "wallet", dec)
		}
		if f == nil {
			continue
		}
		okv := false
		for _, cl := range callsTo(f, modPath+"/tlb.Unmarshal") {
			if mi, ok := cl.Call.Args[1].(*ssa.MakeInterface); ok && strings.HasSuffix(mi.X.Type().String(), "."+typ) {
				okv = true
			}
		}
		c.check(okv, R, dec+" decodes "+typ, f.Pos(), "Unmarshal(_, &"+typ+"{})", dec+" no longer decodes a "+typ)
	}
	for dec, inner := range map[string]string{"DecodeMessageV3": "decodeMessageV3", "DecodeMessageV4": "decodeMessageV4", "DecodeHighloadV2Message": "decodeHighloadV2Message"} {
		if f := c.mustFn(R, "wallet", dec); f != nil {
			if c.fn("wallet", inner) == nil {
				c.ok(R, fnName(f)+" delegates success to wallet."+inner, f.Pos(), "no separate worker: the exported decoder decodes the type itself (checked above)")
				continue
			}
			c.delegatesTo(R, f, 1, []string{modPath + "/wallet." + inner})
		}
	}
	c.floor(R, 10)
}

// payloadCodecs: the hand-written message-list codecs (excluded from the generic E5 pair comparison
// because bits and references are interleaved differently on the two sides).
func (c *Ctx) payloadCodecs() {
	const R = "E12.payload-codec"
	widths := func(f *ssa.Function, q string) []int64 {
		var out []int64
		for _, cl := range c.callsToDeep(f, modPath+"/boc.Cell."+q) {
			k, _ := constInt(cl.Call.Args[len(cl.Call.Args)-1])
			out = append(out, k)
		}
		return out
	}
	// v1..v4: (mode:8, ^message)*
	if w, r := c.mustFn(R, "wallet", "PayloadV1toV4.MarshalTLB"), c.mustFn(R, "wallet", "PayloadV1toV4.UnmarshalTLB"); w != nil && r != nil {
		ww, rw := widths(w, "WriteUint"), widths(r, "ReadUint")
		okW := fmt.Sprint(ww) == "[8]" && fmt.Sprint(rw) == "[8]"
		okSrc := false
		// (the per-message step may sit in an unexported helper: its cell parameter is the target cell of the call)
		isTarget := func(f *ssa.Function, v ssa.Value) bool {
			return v == ssa.Value(f.Params[1]) || derivesFrom(v, func(x ssa.Value) bool { return x == ssa.Value(f.Params[1]) }, false)
		}
		for _, cl := range c.callsToDeep(w, modPath+"/boc.Cell.WriteUint") {
			_, n, _ := fieldOfLoad(stripConv(cl.Call.Args[1]))
			okSrc = n == "Mode"
		}
		okRef := false
		for _, cl := range c.callsToDeep(w, modPath+"/boc.Cell.AddRef") {
			_, n, _ := fieldOfLoad(cl.Call.Args[1])
			okRef = n == "Message" && isTarget(w, cl.Call.Args[0])
		}
		okLit := false
		for _, m := range literalFields(r, "RawMessage") {
			okLit = len(m["Message"]) == 1 && derivesFrom(m["Message"][0], callResult(modPath+"/boc.Cell.NextRef"), false) && len(m["Mode"]) == 1 && derivesFrom(m["Mode"][0], callResult(modPath+"/boc.Cell.ReadUint"), false)
		}
		c.check(okW && okSrc && okRef && okLit, R, "PayloadV1toV4: (mode:8 from msg.Mode, ref msg.Message)* both ways", w.Pos(), "widths [8]/[8]", fmt.Sprintf("PayloadV1toV4 codec sides disagree: widths %v/%v, mode source ok %v, ref is the message %v, reader fills {Message<-NextRef, Mode<-ReadUint} %v", ww, rw, okSrc, okRef, okLit))
	}
	// v5 action list
	if w, r := c.mustFn(R, "wallet", "W5Actions.MarshalTLB"), c.mustFn(R, "wallet", "W5Actions.UnmarshalTLB"); w != nil && r != nil {
		var ws []string
		for _, cl := range callsTo(w, modPath+"/boc.Cell.WriteUint") {
			k, _ := constInt(cl.Call.Args[2])
			if v, ok := constInt(cl.Call.Args[1]); ok {
				ws = append(ws, fmt.Sprintf("0x%08x:%d", v, k))
			} else {
				_, n, _ := fieldOfLoad(stripConv(cl.Call.Args[1]))
				ws = append(ws, fmt.Sprintf("%s:%d", n, k))
			}
		}
		var refs []string
		for _, cl := range callsTo(w, modPath+"/boc.Cell.AddRef") {
			if _, n, ok := fieldOfLoad(cl.Call.Args[1]); ok {
				refs = append(refs, n)
			} else if derivesFrom(cl.Call.Args[1], callResult(modPath+"/boc.NewCell"), false) {
				refs = append(refs, "next")
			} else {
				refs = append(refs, "?")
			}
		}
		// reader: NextRef (the rest of the list) before decoding the action; the action struct is tag32|mode8|^msg
		okOrder := false
		nr := callsTo(r, modPath+"/boc.Cell.NextRef")
		var um []*ssa.Call
		allInstrs(r, func(_ *ssa.BasicBlock, in ssa.Instruction) {
			if cl, ok := in.(*ssa.Call); ok && callQName(&cl.Call) == modPath+"/tlb.Decoder.Unmarshal" {
				um = append(um, cl)
			}
		})
		if len(nr) == 1 && len(um) == 1 {
			okOrder = nr[0].Block().Dominates(um[0].Block()) && (nr[0].Block() != um[0].Block() || before(nr[0], um[0]))
		}
		// the reader's per-node bit count constant equals the width of W5SendMessageAction's bit fields
		// (established where the action is decoded: "bits == 40" as a switch case, an if, or a rejected "bits != 40")
		okBits := false
		if len(um) == 1 {
			for _, ft := range factsAt(r, um[0].Block()) {
				bo, ok := ft.Cond.(*ssa.BinOp)
				if !ok || (bo.Op != token.EQL && bo.Op != token.NEQ) || (bo.Op == token.EQL) != ft.Truth {
					continue
				}
				if k, ok := constInt(bo.Y); ok && k == 40 && derivesFrom(bo.X, callResult(modPath+"/boc.Cell.BitsAvailableForRead"), false) {
					okBits = true
				}
			}
		}
		lay := ""
		if n := c.lookupType("wallet.W5SendMessageAction"); n != nil {
			l := c.newLayout()
			lay = normTerm(l.layoutUnder(n.Underlying(), "wallet.W5SendMessageAction"))
		}
		okLay := lay == normTerm("seq[tag("+hexToBits("0ec3c86d")+") n8 ref{cell}]") || strings.Contains(lay, "n8 ref{cell}")
		c.check(fmt.Sprint(ws) == "[0x0ec3c86d:32 Mode:8]" && fmt.Sprint(refs) == "[next Msg]" && okOrder && okBits && okLay, R, "W5Actions: node = 0x0ec3c86d:32 mode:8 ^rest ^msg, read in the same reference order", w.Pos(), fmt.Sprintf("writes %v refs %v; reader takes the rest-ref first and expects 40 bits", ws, refs),
			fmt.Sprintf("W5Actions codec sides disagree: writer bits %v refs %v; reader takes rest before the action's message ref: %v; reader expects 40 bits per node: %v; action struct layout %s", ws, refs, okOrder, okBits, lay))
		// writer recursion carries the tail l[1:]
		okTail := false
		allInstrs(w, func(_ *ssa.BasicBlock, in ssa.Instruction) {
			if cl, ok := in.(*ssa.Call); ok && callQName(&cl.Call) == modPath+"/tlb.Encoder.Marshal" {
				okTail = derivesFrom(cl.Call.Args[2], func(v ssa.Value) bool {
					s, ok := v.(*ssa.Slice)
					if !ok {
						return false
					}
					k, _ := constInt(s.Low)
					return k == 1 && s.High == nil
				}, false)
			}
		})
		c.check(okTail, R, "W5Actions writer nests the tail l[1:] in the first reference", w.Pos(), "encoder.Marshal(cell, l[1:])", "W5Actions.MarshalTLB no longer nests the remaining actions l[1:]")
	}
	// highload: HashmapE 16 of (mode:8 ^message)
	if w, r := c.mustFn(R, "wallet", "PayloadHighload.MarshalTLB"), c.mustFn(R, "wallet", "PayloadHighload.UnmarshalTLB"); w != nil && r != nil {
		ww, rw := widths(w, "WriteUint"), widths(r, "ReadUint")
		okHM := false
		for _, cl := range callsIn(w) {
			if fn := calleeFunc(cl.Common()); fn != nil && fn.Name() == "NewHashmap" {
				if sf := staticCallee(cl.Common()); sf != nil {
					okHM = strings.Contains(sf.String(), "Uint16") && strings.Contains(sf.String(), "Any")
				}
			}
		}
		okRd := false
		allInstrs(r, func(_ *ssa.BasicBlock, in ssa.Instruction) {
			if al, ok := in.(*ssa.Alloc); ok && strings.Contains(al.Type().String(), "HashmapE[") {
				okRd = strings.Contains(al.Type().String(), "Uint16") && strings.Contains(al.Type().String(), "Any")
			}
		})
		wb := callsTo(w, modPath+"/boc.Cell.WriteBit")
		okE := false
		if len(wb) == 1 {
			b, _ := constBool(wb[0].Call.Args[1])
			okE = b && wb[0].Call.Args[0] == ssa.Value(w.Params[1])
			for _, cl := range callsTo(w, modPath+"/boc.Cell.AddRef") {
				if cl.Call.Args[0] == ssa.Value(w.Params[1]) {
					okE = okE && before(wb[0], cl) || okE && wb[0].Block().Dominates(cl.Block())
				}
			}
		}
		okKey := false
		allInstrs(w, func(_ *ssa.BasicBlock, in ssa.Instruction) {
			if cv, ok := in.(*ssa.Convert); ok && strings.HasSuffix(cv.Type().String(), "tlb.Uint16") {
				// index of the range loop
				okKey = true
			}
			if cv, ok := in.(*ssa.ChangeType); ok && strings.HasSuffix(cv.Type().String(), "tlb.Uint16") {
				okKey = true
			}
		})
		okLit := false
		for _, m := range literalFields(r, "RawMessage") {
			okLit = len(m["Message"]) == 1 && derivesFrom(m["Message"][0], callResult(modPath+"/boc.Cell.NextRef"), false) && len(m["Mode"]) == 1 && derivesFrom(m["Mode"][0], callResult(modPath+"/boc.Cell.ReadUint"), false)
		}
		// a hand-written HashmapE must cover both constructors: hme_empty$0 for no entries (the reader
		// takes presence bit 1 as "a root cell with a label follows")
		okEmpty := false
		for _, b2 := range callsTo(w, modPath+"/boc.Cell.WriteBit") {
			if v, ok := constBool(b2.Call.Args[1]); ok && !v {
				for _, ft := range factsAt(w, b2.Block()) {
					if bo, ok := ft.Cond.(*ssa.BinOp); ok {
						// the fact says the length is zero: len == 0, len < 1, len <= 0, or the refused form of len > 0 / >= 1 / != 0
						k, isK := constInt(bo.Y)
						zero := isK && ((bo.Op == token.EQL && k == 0 && ft.Truth) || (bo.Op == token.LSS && k == 1 && ft.Truth) || (bo.Op == token.LEQ && k == 0 && ft.Truth) ||
							(bo.Op == token.GTR && k == 0 && !ft.Truth) || (bo.Op == token.GEQ && k == 1 && !ft.Truth) || (bo.Op == token.NEQ && k == 0 && !ft.Truth))
						if zero {
							if cl := callOf(bo.X); cl != nil {
								if bi, ok := cl.Call.Value.(*ssa.Builtin); ok && bi.Name() == "len" {
									okEmpty = true
								}
							}
						}
					}
				}
			}
		}
		// with an empty-case branch there are two WriteBit calls: the presence bit is the one writing true
		if okEmpty && len(wb) == 2 {
			okE = false
			for _, b2 := range wb {
				if v, ok := constBool(b2.Call.Args[1]); ok && v && b2.Call.Args[0] == ssa.Value(w.Params[1]) {
					okE = true
				}
			}
		}
		c.check(okEmpty, R, "PayloadHighload: an empty list is hme_empty (bit 0, no reference)", w.Pos(), "len(p) == 0 -> WriteBit(false)", "PayloadHighload.MarshalTLB writes the presence bit 1 and a reference to an empty cell for an empty message list: HashmapE cannot decode it (a send of zero messages produces an undecodable body)")
		c.check(fmt.Sprint(ww) == "[8]" && fmt.Sprint(rw) == "[8]" && okHM && okRd && okE && okKey && okLit, R, "PayloadHighload: HashmapE 16 (mode:8 ^message), written as bit 1 + ^dict", w.Pos(), "Hashmap[Uint16,Any] / HashmapE[Uint16,Any]",
			fmt.Sprintf("PayloadHighload codec sides disagree: widths %v/%v, writer dictionary is Hashmap[Uint16,Any] %v, reader HashmapE[Uint16,Any] %v, present-bit then ref %v, keys are the element index %v, reader fills {Message<-NextRef, Mode<-ReadUint} %v", ww, rw, okHM, okRd, okE, okKey, okLit))
	}
	c.floor(R, 5)
}

// sendLimitGuard: RawSendV2 refuses more messages than the version allows before it signs anything.
func (c *Ctx) sendLimitGuard(R string) {
	f := c.mustFn(R, "wallet", "Wallet.RawSendV2")
	if f == nil {
		return
	}
	c.callDominatedBy(R, f, modPath+"/wallet.wallet.createSignedMsgBodyCell", requiredCheck{name: "len(internalMessages) <= maxMessageNumber()", src: func(v ssa.Value) bool {
		b, ok := v.(*ssa.BinOp)
		if !ok {
			return false
		}
		// len(messages) > max, or the same test with the operands exchanged: max < len(messages)
		x, y, op := b.X, b.Y, b.Op
		if op == token.LSS {
			x, y, op = y, x, token.GTR
		}
		c2 := callOf(y)
		return c2 != nil && c2.Call.IsInvoke() && c2.Call.Method.Name() == "maxMessageNumber" && strings.Join(leaves(x), ",") == "#4" && op == token.GTR
	}, kind: "notbool"})
}

var excC14E1 = map[string]excEntry{
	"(*wallet.walletV1V2).createSignedMsgBodyCell P1 panic _":                     {"unimplemented stub (panic(\"implement me\")): v1/v2 wallets are supported for address derivation only and are outside C14's 'supported versions for sending' (recorded as an observation in DESIGN.md)", nil},
	"(*wallet.SignedMsgBody).Verify P7 call crypto/ed25519.Verify len(arg0)==32":  {"the key is the API caller's ed25519.PublicKey, not data read from a message; a key of another length is a programming error on the caller's side", nil},
	"wallet.MessageV5VerifySignature P7 call crypto/ed25519.Verify len(arg0)==32": {"same: caller-supplied ed25519.PublicKey", nil},
}

// walletConstants (after the mutation battery): two pieces of contract arithmetic written by hand.
//   - highload v2: query_id = (valid_until << 32) + random32 - the contract takes the expiry from
//     the upper 32 bits; any other shift makes the message expire at a different time than asked.
//   - v5r1: the wallet-id context is a 32-bit word laid out as is_client:1 workchain:8 version:8
//     subwallet:15 (genContextID writes those widths and reads back 32 bits).
func (c *Ctx) walletConstants() {
	const R = "E12.limits"
	if f := c.fn("wallet", "walletHighloadV2.createSignedMsgBodyCell"); f != nil {
		var shifts []int64
		allInstrs(f, func(_ *ssa.BasicBlock, in ssa.Instruction) {
			bo, ok := in.(*ssa.BinOp)
			if !ok || bo.Op != token.SHL {
				return
			}
			if k, ok := constInt(bo.Y); ok && derivesFrom(bo.X, callResult("time.Time.Unix"), false) {
				shifts = append(shifts, k)
			}
		})
		c.check(len(shifts) == 1 && shifts[0] == 32, R, "highload query id carries the expiry in its upper 32 bits", f.Pos(), "ValidUntil.Unix() << 32", fmt.Sprintf("the highload query id is built with the expiry shifted by %v bits; the contract reads valid_until from bits 32..63", shifts))
	}
	if f := c.fn("wallet", "genContextID"); f != nil {
		var ws []string
		for _, cl := range callsTo(f, bocPath+".Cell.WriteUint") {
			if k, ok := constInt(cl.Call.Args[2]); ok {
				ws = append(ws, fmt.Sprint(k))
			} else if vals, ok := constTableField(cl.Call.Args[2]); ok && inLoop(cl.Block()) {
				// table-driven: one WriteUint in a range loop over a local table of (value, width) rows
				for _, k := range vals {
					ws = append(ws, fmt.Sprint(k))
				}
			} else {
				ws = append(ws, "?")
			}
		}
		rd := int64(-1)
		for _, cl := range callsTo(f, bocPath+".Cell.ReadUint") {
			rd, _ = constInt(cl.Call.Args[1])
		}
		c.check(strings.Join(ws, ",") == "1,8,8,15" && rd == 32, R, "v5r1 wallet-id context = client:1 workchain:8 version:8 subwallet:15, read as 32 bits", f.Pos(), strings.Join(ws, ",")+" -> "+fmt.Sprint(rd), fmt.Sprintf("genContextID writes fields of widths [%s] and reads back %d bits; the v5r1 wallet-id context is [1,8,8,15] = 32 bits - any other layout gives a wallet id, and so an address, that no v5r1 contract computes", strings.Join(ws, ","), rd))
	}
}

// requestedPartsCarried: what the caller asks a wallet to send is a wallet.Message with an optional body and
// an optional state-init (Code+Data), which are independent of each other. Message.ToInternal (and whatever
// unexported helper it is split into) must look at each of the optional parts on the way to EVERY successful
// return: a guard clause that returns for "no body" before the state-init is examined sends a deployment
// without its state-init. Rule: for each pointer field of the request, a nil test of that field dominates every
// success exit.
func (c *Ctx) requestedPartsCarried() {
	const R = "E15.request-parts"
	f := c.mustFn(R, "wallet", "Message.ToInternal")
	if f == nil {
		return
	}
	ei := errIndex(f.Signature)
	if ei < 0 {
		c.bad(R, "Message.ToInternal returns an error", f.Pos(), "Message.ToInternal no longer has an error result (anchor changed; undecided)")
		return
	}
	for _, part := range [][]string{{"Body"}, {"Code", "Data"}} {
		fld := strings.Join(part, "/")
		var tests []*ssa.BasicBlock
		for _, b := range f.Blocks {
			iff := lastIf(b)
			if iff == nil {
				continue
			}
			// the condition (possibly one leg of a && / ||) compares a load of receiver.fld with nil
			bo, ok := iff.Cond.(*ssa.BinOp)
			if !ok || (bo.Op != token.EQL && bo.Op != token.NEQ) {
				continue
			}
			x := bo.X
			if isNilConst(x) {
				x = bo.Y
			} else if !isNilConst(bo.Y) {
				continue
			}
			if ld, ok := x.(*ssa.UnOp); ok && ld.Op == token.MUL {
				x = ld.X
			}
			if tn, fn, ok := fieldOf(x); ok && strings.HasSuffix(tn, ".Message") {
				for _, want := range part {
					if fn == want {
						tests = append(tests, b)
					}
				}
			}
		}
		okv := len(tests) > 0
		where := ""
		for _, sp := range successPoints(f, ei) {
			dom := false
			for _, t := range tests {
				if t.Dominates(sp.Block) {
					dom = true
				}
			}
			if !dom {
				okv = false
				where = c.rel(sp.Ret.Pos())
			}
		}
		c.check(okv, R, "Message.ToInternal examines "+fld+" before every successful return", f.Pos(), "a nil test of the request's "+fld+" dominates all success exits", "Message.ToInternal can return successfully (at "+where+") without having looked at the request's "+fld+": a message that carries it (a deployment without body, a body without state-init) is built without it and the wallet signs something the caller did not ask for")
	}
	c.floor(R, 2)
}
