package main

import (
	"fmt"
	"go/token"
	"go/types"
	"sort"
	"strings"

	"golang.org/x/tools/go/ssa"
)

// E9 lockcheck: must-lockset dataflow, guarded-by table, pairing, blocking under lock, lock order.
// Lock identity is type based: "Type.field" of the struct that owns the mutex field.

type lockSet map[string]byte // lock id -> 'W' exclusive / 'R' shared

func (a lockSet) clone() lockSet {
	b := lockSet{}
	for k, v := range a {
		b[k] = v
	}
	return b
}

func meet(a, b lockSet) lockSet {
	out := lockSet{}
	for k, v := range a {
		if w, ok := b[k]; ok {
			if v == 'R' || w == 'R' {
				out[k] = 'R'
			} else {
				out[k] = 'W'
			}
		}
	}
	return out
}

func (a lockSet) equal(b lockSet) bool {
	if len(a) != len(b) {
		return false
	}
	for k, v := range a {
		if b[k] != v {
			return false
		}
	}
	return true
}

func (a lockSet) String() string {
	var ks []string
	for k, v := range a {
		ks = append(ks, fmt.Sprintf("%s(%c)", k, v))
	}
	sort.Strings(ks)
	return "{" + strings.Join(ks, ",") + "}"
}

// ownerField returns "Type.field" for an address that is a field of a named struct.
func ownerField(addr ssa.Value) (string, bool) {
	fa, ok := addr.(*ssa.FieldAddr)
	if !ok {
		return "", false
	}
	tn, fn, ok := fieldOf(fa)
	if !ok || tn == "" {
		return "", false
	}
	return tn + "." + fn, true
}

// lockOp classifies a call as a mutex operation on a struct-field mutex.
func lockOp(cc *ssa.CallCommon) (id string, op string, ok bool) {
	q := callQName(cc)
	switch q {
	case "sync.Mutex.Lock", "sync.RWMutex.Lock":
		op = "lockW"
	case "sync.RWMutex.RLock":
		op = "lockR"
	case "sync.Mutex.Unlock", "sync.RWMutex.Unlock":
		op = "unlockW"
	case "sync.RWMutex.RUnlock":
		op = "unlockR"
	default:
		return "", "", false
	}
	if len(cc.Args) == 0 {
		return "", "", false
	}
	id, ok = ownerField(cc.Args[0])
	return id, op, ok
}

type lockAnalysis struct {
	c       *Ctx
	funcs   []*ssa.Function
	entry   map[*ssa.Function]lockSet
	in      map[*ssa.BasicBlock]lockSet
	defers  map[*ssa.Function]map[string]bool // locks released by defer
	acq     map[*ssa.Function]map[string]bool // locks (transitively) acquired by f
	blocks  map[*ssa.Function]string          // non-empty: f may block (reason), transitively
	sites   map[*ssa.Function][]ssa.CallInstruction
	goTaken map[*ssa.Function]bool
}

func (c *Ctx) newLockAnalysis(rels ...string) *lockAnalysis {
	la := &lockAnalysis{c: c, entry: map[*ssa.Function]lockSet{}, in: map[*ssa.BasicBlock]lockSet{}, defers: map[*ssa.Function]map[string]bool{},
		acq: map[*ssa.Function]map[string]bool{}, blocks: map[*ssa.Function]string{}, sites: map[*ssa.Function][]ssa.CallInstruction{}, goTaken: map[*ssa.Function]bool{}}
	la.funcs = c.moduleFuncs(rels...)
	inSet := map[*ssa.Function]bool{}
	for _, f := range la.funcs {
		inSet[f] = true
	}
	for _, f := range la.funcs {
		allInstrs(f, func(_ *ssa.BasicBlock, i ssa.Instruction) {
			ci, ok := i.(ssa.CallInstruction)
			if !ok {
				return
			}
			if sc := ci.Common().StaticCallee(); sc != nil && inSet[origin(sc)] {
				la.sites[origin(sc)] = append(la.sites[origin(sc)], ci)
				if _, isGo := i.(*ssa.Go); isGo {
					la.goTaken[origin(sc)] = true
				}
			}
			if _, isGo := i.(*ssa.Go); isGo {
				if mc, ok := ci.Common().Value.(*ssa.MakeClosure); ok {
					if fn, ok := mc.Fn.(*ssa.Function); ok {
						la.goTaken[fn] = true
					}
				}
			}
		})
	}
	// entry locksets: start empty; for unexported, never-go'd functions whose every call site holds a lock, propagate
	for _, f := range la.funcs {
		la.entry[f] = lockSet{}
	}
	for round := 0; round < 4; round++ {
		for _, f := range la.funcs {
			la.flow(f)
		}
		changed := false
		// synchronous closures (passed to a call or deferred, never launched with go) run with the
		// locks held where they are created
		for _, f := range la.funcs {
			if f.Parent() == nil || la.goTaken[f] {
				continue
			}
			var mk ssa.Instruction
			allInstrs(f.Parent(), func(_ *ssa.BasicBlock, i ssa.Instruction) {
				if mc, ok := i.(*ssa.MakeClosure); ok && mc.Fn == ssa.Value(f) {
					mk = mc
				}
			})
			if mk == nil {
				continue
			}
			ls := la.at(mk)
			if !ls.equal(la.entry[f]) {
				la.entry[f] = ls
				changed = true
			}
		}
		for _, f := range la.funcs {
			if !la.summarisable(f) {
				continue
			}
			var acc lockSet
			for _, s := range la.sites[f] {
				ls := la.at(s.(ssa.Instruction))
				if _, isDefer := s.(*ssa.Defer); isDefer {
					ls = lockSet{}
				}
				if acc == nil {
					acc = ls.clone()
				} else {
					acc = meet(acc, ls)
				}
			}
			if acc == nil {
				acc = lockSet{}
			}
			if !acc.equal(la.entry[f]) {
				la.entry[f] = acc
				changed = true
			}
		}
		if !changed {
			break
		}
	}
	la.summaries()
	return la
}

// summarisable: all callers are known (unexported, not launched with go, not address-taken, not a closure).
func (la *lockAnalysis) summarisable(f *ssa.Function) bool {
	if f.Parent() != nil || la.goTaken[f] || len(la.sites[f]) == 0 {
		return false
	}
	o, ok := f.Object().(*types.Func)
	if !ok || o.Exported() {
		return false
	}
	// implements an interface method that is invoked dynamically? conservatively: unexported names only
	return true
}

func (la *lockAnalysis) flow(f *ssa.Function) {
	if len(f.Blocks) == 0 {
		return
	}
	la.defers[f] = map[string]bool{}
	for _, b := range f.Blocks {
		delete(la.in, b)
	}
	la.in[f.Blocks[0]] = la.entry[f].clone()
	work := []*ssa.BasicBlock{f.Blocks[0]}
	for len(work) > 0 {
		b := work[0]
		work = work[1:]
		cur := la.in[b].clone()
		for _, in := range b.Instrs {
			la.step(f, in, cur)
		}
		for _, s := range b.Succs {
			prev, seen := la.in[s]
			var n lockSet
			if !seen {
				n = cur.clone()
			} else {
				n = meet(prev, cur)
			}
			if !seen || !prev.equal(n) {
				la.in[s] = n
				work = append(work, s)
			}
		}
	}
}

func (la *lockAnalysis) step(f *ssa.Function, in ssa.Instruction, cur lockSet) {
	switch x := in.(type) {
	case *ssa.Call:
		if id, op, ok := lockOp(&x.Call); ok {
			switch op {
			case "lockW":
				cur[id] = 'W'
			case "lockR":
				cur[id] = 'R'
			case "unlockW", "unlockR":
				delete(cur, id)
			}
		}
	case *ssa.Defer:
		if id, op, ok := lockOp(&x.Call); ok && strings.HasPrefix(op, "unlock") {
			la.defers[f][id] = true
		}
	}
}

// at returns the lockset holding immediately before instruction in.
func (la *lockAnalysis) at(in ssa.Instruction) lockSet {
	b := in.Block()
	cur := la.in[b].clone()
	if cur == nil {
		cur = lockSet{}
	}
	for _, i := range b.Instrs {
		if i == in {
			break
		}
		la.step(b.Parent(), i, cur)
	}
	return cur
}

// summaries: which locks a function may acquire and whether it may block, transitively over
// static in-package calls.
func (la *lockAnalysis) summaries() {
	for _, f := range la.funcs {
		la.acq[f] = map[string]bool{}
		allInstrs(f, func(_ *ssa.BasicBlock, i ssa.Instruction) {
			switch x := i.(type) {
			case *ssa.Call:
				if id, op, ok := lockOp(&x.Call); ok && strings.HasPrefix(op, "lock") {
					la.acq[f][id] = true
				}
			}
			if why := blockingInstr(i); why != "" && la.blocks[f] == "" {
				la.blocks[f] = why + " at " + la.c.rel(i.Pos())
			}
		})
	}
	for changed := true; changed; {
		changed = false
		for _, f := range la.funcs {
			allInstrs(f, func(_ *ssa.BasicBlock, i ssa.Instruction) {
				call, ok := i.(*ssa.Call)
				if !ok {
					return
				}
				for _, g := range la.callees(&call.Call) {
					for id := range la.acq[g] {
						if !la.acq[f][id] {
							la.acq[f][id] = true
							changed = true
						}
					}
					if la.blocks[g] != "" && la.blocks[f] == "" {
						la.blocks[f] = "calls " + fnName(g) + " which " + la.blocks[g]
						changed = true
					}
				}
			})
		}
	}
}

// callees: static callee, or for invoke-mode calls the in-package implementations by method name.
func (la *lockAnalysis) callees(cc *ssa.CallCommon) []*ssa.Function {
	if sc := cc.StaticCallee(); sc != nil {
		if _, ok := la.entry[origin(sc)]; ok {
			return []*ssa.Function{origin(sc)}
		}
		return nil
	}
	if cc.IsInvoke() {
		var out []*ssa.Function
		for _, g := range la.funcs {
			if g.Signature.Recv() != nil && g.Name() == cc.Method.Name() && g.Parent() == nil {
				if types.Implements(g.Signature.Recv().Type(), cc.Value.Type().Underlying().(*types.Interface)) {
					out = append(out, g)
				}
			}
		}
		return out
	}
	return nil
}

// blockingInstr: operations that can block indefinitely.
func blockingInstr(i ssa.Instruction) string {
	switch x := i.(type) {
	case *ssa.Send:
		if isLocalBufferedSingleSend(x) {
			return ""
		}
		return "channel send"
	case *ssa.UnOp:
		if x.Op == token.ARROW {
			return "channel receive"
		}
	case *ssa.Select:
		if x.Blocking {
			return "blocking select"
		}
	case *ssa.Call:
		switch callQName(&x.Call) {
		case "time.Sleep":
			return "time.Sleep"
		case "sync.WaitGroup.Wait":
			return "WaitGroup.Wait"
		}
	}
	return ""
}

// isLocalBufferedSingleSend: a send on a channel made in the same function with constant
// capacity >= 1 that is the only send on it in that function.
func isLocalBufferedSingleSend(s *ssa.Send) bool {
	mk, ok := s.Chan.(*ssa.MakeChan)
	if !ok {
		return false
	}
	k, ok := constInt(mk.Size)
	if !ok || k < 1 {
		return false
	}
	n := 0
	for _, r := range *mk.Referrers() {
		if _, ok := r.(*ssa.Send); ok {
			n++
		}
	}
	return n == 1
}

// guardedBy checks the guarded-by table: every access to a guarded field happens with its lock held.
func (la *lockAnalysis) guardedBy(rule string, table map[string]string, exc map[string]string) {
	c := la.c
	for _, f := range la.funcs {
		allInstrs(f, func(_ *ssa.BasicBlock, i ssa.Instruction) {
			var addr ssa.Value
			write := false
			switch x := i.(type) {
			case *ssa.Store:
				addr, write = x.Addr, true
			case *ssa.UnOp:
				if x.Op == token.MUL {
					addr = x.X
				}
			case *ssa.MapUpdate:
				// map loaded from a guarded field
				if ld, ok := x.Map.(*ssa.UnOp); ok && ld.Op == token.MUL {
					addr, write = ld.X, true
				}
			case *ssa.Call:
				if b, ok := x.Call.Value.(*ssa.Builtin); ok && b.Name() == "delete" {
					if ld, ok := x.Call.Args[0].(*ssa.UnOp); ok && ld.Op == token.MUL {
						addr, write = ld.X, true
					}
				}
			}
			if addr == nil {
				return
			}
			of, ok := ownerField(addr)
			if !ok {
				return
			}
			lock, guarded := table[of]
			if !guarded {
				return
			}
			// accesses to a struct that is still private to this function (fresh composite) are exempt
			if fa := addr.(*ssa.FieldAddr); isFresh(fa.X) {
				c.okTriv(rule, fnName(f)+" "+rw(write)+" "+of+" (unpublished)", i.Pos(), "object constructed in this function and not yet published")
				return
			}
			ls := la.at(i)
			mode, held := ls[lock]
			if _, isLoad := i.(*ssa.UnOp); isLoad {
				// a load that only feeds a MapUpdate/delete is accounted for at the update
			}
			key := fnName(f) + " " + rw(write) + " " + of
			switch {
			case held && (!write || mode == 'W'):
				c.ok(rule, key, i.Pos(), "lockset "+ls.String()+" contains "+lock)
			case exc[key] != "":
				c.exc(rule, key, i.Pos(), exc[key])
			default:
				what := fmt.Sprintf("%s of %s without holding %s (lockset %s)", rw(write), of, lock, ls.String())
				if held && write {
					what = fmt.Sprintf("write of %s under a shared (read) lock on %s", of, lock)
				}
				c.bad(rule, key, i.Pos(), what)
			}
		})
	}
}

func rw(w bool) string {
	if w {
		return "write"
	}
	return "read"
}

// isFresh: the base pointer is an allocation made in this function (composite literal / new).
func isFresh(v ssa.Value) bool {
	switch x := v.(type) {
	case *ssa.Alloc:
		return true
	case *ssa.FieldAddr:
		// a struct held by value inside a fresh object
		return isFresh(x.X)
	case *ssa.Phi:
		for _, e := range x.Edges {
			if !isFresh(e) {
				return false
			}
		}
		return len(x.Edges) > 0
	}
	return false
}

// pairing: every lock acquired in f is released on every path to every exit (or by defer).
func (la *lockAnalysis) pairing(rule string) {
	c := la.c
	for _, f := range la.funcs {
		if len(la.acq[f]) == 0 {
			continue
		}
		direct := false
		allInstrs(f, func(_ *ssa.BasicBlock, i ssa.Instruction) {
			if call, ok := i.(*ssa.Call); ok {
				if _, op, ok := lockOp(&call.Call); ok && strings.HasPrefix(op, "lock") {
					direct = true
				}
			}
		})
		if !direct {
			continue
		}
		var leaks []string
		for _, r := range returnsOf(f) {
			ls := la.at(r)
			for id := range ls {
				if _, atEntry := la.entry[f][id]; atEntry {
					continue
				}
				if la.defers[f][id] {
					continue
				}
				leaks = append(leaks, fmt.Sprintf("%s still held at return %s", id, c.rel(r.Pos())))
			}
		}
		// also: panics/other exits are not modelled
		c.check(len(leaks) == 0, rule, fnName(f)+" releases what it acquires", f.Pos(), "every acquired lock is released (directly or by defer) on all return paths", strings.Join(leaks, "; "))
	}
}

// noBlockingUnderLock: no potentially blocking operation while a lock is held.
func (la *lockAnalysis) noBlockingUnderLock(rule string, exc map[string]string) {
	c := la.c
	for _, f := range la.funcs {
		allInstrs(f, func(_ *ssa.BasicBlock, i ssa.Instruction) {
			why := blockingInstr(i)
			if why == "" {
				if call, ok := i.(*ssa.Call); ok {
					for _, g := range la.callees(&call.Call) {
						if la.blocks[g] != "" {
							why = "call to " + fnName(g) + " which " + la.blocks[g]
						}
					}
				}
			}
			if why == "" {
				return
			}
			ls := la.at(i)
			// locks released by defer are still held here
			if len(ls) == 0 {
				return
			}
			key := fnName(f) + " " + strings.SplitN(why, " at ", 2)[0] + " under " + ls.String()
			if idx := strings.Index(key, " which "); idx > 0 {
				key = key[:idx] + " under " + ls.String()
			}
			if r, ok := exc[key]; ok {
				c.exc(rule, key, i.Pos(), r)
				return
			}
			c.bad(rule, key, i.Pos(), fmt.Sprintf("%s while holding %s: a blocked holder stalls every other user of the lock", why, ls.String()))
		})
	}
}

// lockOrder: the graph "held -> acquired" (including through calls) has no cycle.
func (la *lockAnalysis) lockOrder(rule string) {
	c := la.c
	edges := map[string]map[string]string{}
	add := func(a, b, where string) {
		if a == b {
			return
		}
		if edges[a] == nil {
			edges[a] = map[string]string{}
		}
		if edges[a][b] == "" {
			edges[a][b] = where
		}
	}
	for _, f := range la.funcs {
		allInstrs(f, func(_ *ssa.BasicBlock, i ssa.Instruction) {
			call, ok := i.(*ssa.Call)
			if !ok {
				return
			}
			ls := la.at(i)
			if len(ls) == 0 {
				return
			}
			if id, op, ok := lockOp(&call.Call); ok && strings.HasPrefix(op, "lock") {
				for h := range ls {
					add(h, id, c.rel(i.Pos()))
				}
				return
			}
			for _, g := range la.callees(&call.Call) {
				for id := range la.acq[g] {
					for h := range ls {
						add(h, id, c.rel(i.Pos())+" via "+fnName(g))
					}
				}
			}
		})
	}
	// cycle detection
	var nodes []string
	for a := range edges {
		nodes = append(nodes, a)
	}
	sort.Strings(nodes)
	state := map[string]int{}
	var cyc []string
	var dfs func(n string, path []string)
	dfs = func(n string, path []string) {
		state[n] = 1
		var outs []string
		for b := range edges[n] {
			outs = append(outs, b)
		}
		sort.Strings(outs)
		for _, b := range outs {
			if state[b] == 1 && cyc == nil {
				cyc = append(append([]string{}, path...), n, b)
			} else if state[b] == 0 {
				dfs(b, append(path, n))
			}
		}
		state[n] = 2
	}
	for _, n := range nodes {
		if state[n] == 0 {
			dfs(n, nil)
		}
	}
	n := 0
	for a, m := range edges {
		for b, w := range m {
			n++
			c.okTriv(rule+".edge", a+" -> "+b, token.NoPos, "nested acquisition at "+w)
		}
	}
	c.check(cyc == nil, rule, "lock-order graph is acyclic", token.NoPos, fmt.Sprintf("%d nested-acquisition edge(s), no cycle", n), "lock-order cycle: "+strings.Join(cyc, " -> "))
}

// whoMayWrite: stores to the given field ("Type.field") occur only in the listed functions.
func (la *lockAnalysis) whoMayWrite(rule, field string, allowed map[string]string) {
	c := la.c
	seen := map[string]bool{}
	for _, f := range la.funcs {
		allInstrs(f, func(_ *ssa.BasicBlock, i ssa.Instruction) {
			st, ok := i.(*ssa.Store)
			if !ok {
				return
			}
			of, ok := ownerField(st.Addr)
			if !ok || of != field {
				return
			}
			fa := st.Addr.(*ssa.FieldAddr)
			name := fnName(f)
			key := field + " written by " + name
			if seen[key] {
				return
			}
			seen[key] = true
			if isFresh(fa.X) {
				c.okTriv(rule, key+" (constructor)", st.Pos(), "initialisation of an unpublished object")
				return
			}
			if k, isK := constInt(st.Val); isK && k == 0 && strings.HasSuffix(strings.ToLower(field), "cursor") {
				// rewinding a read cursor to 0 keeps 0 <= cursor <= len whoever does it
				c.ok(rule, key, st.Pos(), "stores the constant 0 (a reset): the cursor invariant 0 <= cursor <= len holds trivially")
			} else if why, ok := allowed[name]; ok {
				c.ok(rule, key, st.Pos(), why)
			} else if via, ok := helperOf(f, func(n string) bool { _, ok := allowed[n]; return ok }, 0); ok {
				c.ok(rule, key, st.Pos(), "unexported helper called only from "+via+", one of the functions that own this state: "+allowed[via])
			} else {
				c.bad(rule, key, st.Pos(), fmt.Sprintf("%s is assigned in %s, which is not one of the functions that own this state (%s)", field, name, strings.Join(keysOf(allowed), ", ")))
			}
		})
	}
}

func keysOf(m map[string]string) []string {
	var ks []string
	for k := range m {
		ks = append(ks, k)
	}
	sort.Strings(ks)
	return ks
}
