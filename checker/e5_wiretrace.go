package main

import (
	"fmt"
	"go/token"
	"go/types"
	"reflect"
	"regexp"
	"sort"
	"strings"

	"golang.org/x/tools/go/ssa"
)

// E5 wiretrace: the ordered wire events a codec function performs on a cell along each
// success path, normalised so that a writer and a reader of the same format give the same set.

type wireEvent struct {
	s string
}

// eventFilter, when set, restricts the recorded events (used to follow one stream only).
var eventFilter func(in ssa.Instruction) bool

// tracePaths enumerates success paths of f (error edges pruned, each back edge taken at most
// once) and returns the set of normalised event strings, one per path.
func (c *Ctx) tracePaths(f *ssa.Function, maxPaths int) (paths []string, truncated bool) {
	return c.tracePathsIn(f, maxPaths, map[*ssa.Function]bool{}, 2)
}

// helperWithStream: an in-module, non-codec function that takes the stream (a cell / bit string)
// as a parameter: its events are inlined into the caller's paths.
func helperWithStream(cc *ssa.CallCommon) *ssa.Function {
	sc := cc.StaticCallee()
	if sc == nil || !inModule(sc) || len(sc.Blocks) == 0 {
		return nil
	}
	sc = origin(sc)
	switch sc.Name() {
	case "MarshalTLB", "UnmarshalTLB", "Marshal", "Unmarshal", "encode", "decode":
		return nil
	}
	if pkgRel(sc) == "boc" {
		return nil
	}
	for _, p := range sc.Params {
		t := p.Type()
		if ptr, ok := t.(*types.Pointer); ok {
			t = ptr.Elem()
		}
		if n, ok := t.(*types.Named); ok && n.Obj().Pkg() != nil && n.Obj().Pkg().Path() == bocPath && (n.Obj().Name() == "Cell") {
			return sc
		}
	}
	return nil
}

func (c *Ctx) tracePathsIn(f *ssa.Function, maxPaths int, stack map[*ssa.Function]bool, inlineDepth int) (paths []string, truncated bool) {
	if f == nil || len(f.Blocks) == 0 {
		return nil, false
	}
	stack[f] = true
	defer delete(stack, f)
	type state struct {
		b      *ssa.BasicBlock
		events []string
		visits map[*ssa.BasicBlock]int
		conds  map[ssa.Value]string // read value -> constant it was compared equal to on this path
		prev   *ssa.BasicBlock
		known  map[string]bool        // flag bit read on this path (by id) -> the value this path assumes for it
		phiSrc map[*ssa.Phi]ssa.Value // boolean phi -> the value it took on this path
	}
	bitID := func(cl *ssa.Call) string { return f.Name() + "." + cl.Name() }
	// resolveFlag follows a boolean through negations and the phis this path has passed to the ReadBit call it
	// comes from (a flag kept in a local, "second := false; if first { second, err = c.ReadBit() }"), or to a constant.
	resolveFlag := func(st *state, v ssa.Value) (id string, neg bool, isConst bool, cval bool, ok bool) {
		for i := 0; i < 8; i++ {
			switch x := v.(type) {
			case *ssa.Const:
				if b, isb := constBool(x); isb {
					return "", false, true, b != neg, true
				}
				return
			case *ssa.UnOp:
				if x.Op != token.NOT {
					return
				}
				neg = !neg
				v = x.X
			case *ssa.Phi:
				src, has := st.phiSrc[x]
				if !has {
					return
				}
				v = src
			default:
				cl := callOf(v)
				if cl == nil || !strings.HasSuffix(callQName(&cl.Call), ".ReadBit") || !isWireRead(v) {
					return
				}
				if ex, isEx := v.(*ssa.Extract); isEx && ex.Index != 0 {
					return
				}
				return bitID(cl), neg, false, false, true
			}
		}
		return
	}
	seen := map[string]bool{}
	var rec func(st state)
	count := 0
	rec = func(st state) {
		if count > maxPaths*20 {
			truncated = true
			return
		}
		count++
		b := st.b
		st.visits[b]++
		evs := append([]string{}, st.events...)
		if st.known == nil {
			st.known = map[string]bool{}
		}
		if st.phiSrc == nil {
			st.phiSrc = map[*ssa.Phi]ssa.Value{}
		}
		if st.prev != nil {
			for pi, pb := range b.Preds {
				if pb != st.prev {
					continue
				}
				for _, in := range b.Instrs {
					ph, ok := in.(*ssa.Phi)
					if !ok {
						break
					}
					if bt, ok := ph.Type().Underlying().(*types.Basic); ok && bt.Kind() == types.Bool {
						st.phiSrc[ph] = ph.Edges[pi]
					}
				}
				break
			}
		}
		for _, in := range b.Instrs {
			if cl, ok := in.(*ssa.Call); ok && strings.HasSuffix(callQName(&cl.Call), ".ReadBit") && isWireRead(cl) {
				delete(st.known, bitID(cl)) // read again (a loop): a new bit
				if eventFilter == nil || eventFilter(in) {
					if e := c.eventOf(f, in); e == "B" {
						evs = append(evs, "B#"+bitID(cl))
						continue
					}
				}
			}
			if cl, ok := in.(*ssa.Call); ok {
				if h := helperWithStream(&cl.Call); h != nil {
					if stack[h] {
						evs = append(evs, "REC("+h.Name()+")")
						continue
					}
					if inlineDepth > 0 {
						sub, tr := c.tracePathsIn(h, maxPaths, stack, inlineDepth-1)
						if tr {
							truncated = true
						}
						for i := range sub {
							sub[i] = strings.ReplaceAll(sub[i], " ", "\x01")
						}
						evs = append(evs, "\x02"+strings.Join(sub, "\x03"))
						continue
					}
					evs = append(evs, "CALL("+h.Name()+")")
					continue
				}
			}
			if eventFilter != nil && !eventFilter(in) {
				continue
			}
			if e := c.eventOf(f, in); e != "" {
				evs = append(evs, e)
			}
		}
		last := b.Instrs[len(b.Instrs)-1]
		switch t := last.(type) {
		case *ssa.Return:
			// success return?
			ei := errIndex(f.Signature)
			if ei >= 0 && ei < len(t.Results) && isFailureValue(f, retVal(t, ei), b) {
				return
			}
			for _, p := range expandAlts(evs) {
				if !seen[p] {
					seen[p] = true
					paths = append(paths, p)
				}
			}
			return
		case *ssa.If:
			takeT, takeF := true, true
			// prune the failing edge of error tests
			if bo, ok := t.Cond.(*ssa.BinOp); ok && (bo.Op == token.NEQ || bo.Op == token.EQL) {
				var ev ssa.Value
				if isNilConst(bo.Y) && isErrorType(bo.X.Type()) {
					ev = bo.X
				} else if isNilConst(bo.X) && isErrorType(bo.Y.Type()) {
					ev = bo.Y
				}
				if ev != nil {
					if bo.Op == token.NEQ {
						takeT = false
					} else {
						takeF = false
					}
				}
			}
			tag := condTag(t.Cond)
			flagID, flagNeg, flagConst, flagVal, flagOK := resolveFlag(&st, t.Cond)
			if flagOK && flagConst {
				takeT, takeF = takeT && flagVal, takeF && !flagVal
				tag = ""
			}
			for i, s := range b.Succs {
				if (i == 0 && !takeT) || (i == 1 && !takeF) {
					continue
				}
				if st.visits[s] >= 2 {
					continue
				}
				ne := evs
				nk := map[string]bool{}
				for k, v := range st.known {
					nk[k] = v
				}
				if flagOK && !flagConst {
					bitVal := (i == 0) != flagNeg // the value of the bit read on this edge
					if kv, has := st.known[flagID]; has {
						if kv != bitVal {
							continue // this path already took the other value for the same bit
						}
					} else {
						nk[flagID] = bitVal
						if bitVal {
							ne = append(append([]string{}, evs...), "[bit#"+flagID+"]")
						} else {
							ne = append(append([]string{}, evs...), "[!bit#"+flagID+"]")
						}
					}
				} else if tag != "" {
					if i == 0 {
						ne = append(append([]string{}, evs...), "["+tag+"]")
					} else {
						ne = append(append([]string{}, evs...), "[!"+tag+"]")
					}
				}
				nv := map[*ssa.BasicBlock]int{}
				for k, v := range st.visits {
					nv[k] = v
				}
				np := map[*ssa.Phi]ssa.Value{}
				for k, v := range st.phiSrc {
					np[k] = v
				}
				rec(state{b: s, events: ne, visits: nv, prev: b, known: nk, phiSrc: np})
			}
			return
		case *ssa.Jump:
			s := b.Succs[0]
			if st.visits[s] >= 2 {
				return
			}
			nv := map[*ssa.BasicBlock]int{}
			for k, v := range st.visits {
				nv[k] = v
			}
			rec(state{b: s, events: evs, visits: nv, prev: b, known: st.known, phiSrc: st.phiSrc})
		case *ssa.Panic:
			return
		}
	}
	rec(state{b: f.Blocks[0], visits: map[*ssa.BasicBlock]int{}})
	sort.Strings(paths)
	if len(paths) > maxPaths {
		truncated = true
	}
	return
}

// condTag renders a branch condition that tests a value read from / written to the wire:
// comparisons of a read value with a constant, or tests of a struct's discriminating field.
func condTag(cond ssa.Value) string {
	switch x := cond.(type) {
	case *ssa.BinOp:
		if x.Op != token.EQL && x.Op != token.NEQ {
			return ""
		}
		var v ssa.Value
		var k string
		if cst, ok := x.Y.(*ssa.Const); ok && cst.Value != nil {
			v, k = x.X, cst.Value.String()
		} else if cst, ok := x.X.(*ssa.Const); ok && cst.Value != nil {
			v, k = x.Y, cst.Value.String()
		} else {
			return ""
		}
		if !derivesFrom(v, isWireRead, false) && !isSumTypeLoad(v) {
			return ""
		}
		op := "="
		if x.Op == token.NEQ {
			op = "!="
		}
		return "tag" + op + k
	case *ssa.UnOp:
		if x.Op == token.NOT {
			t := condTag(x.X)
			if t != "" {
				return "not " + t
			}
		}
	case *ssa.Extract, *ssa.Call:
		if isWireRead(cond) {
			return "bit"
		}
	}
	if isWireRead(cond) {
		return "bit"
	}
	if isSumTypeLoad(cond) {
		return "bit"
	}
	return ""
}

func isWireRead(v ssa.Value) bool {
	cl := callOf(v)
	if cl == nil {
		return false
	}
	q := callQName(&cl.Call)
	return strings.HasPrefix(q, bocPath+".Cell.Read") || strings.HasPrefix(q, bocPath+".BitString.Read") || strings.HasPrefix(q, bocPath+".Cell.Pick")
}

func isSumTypeLoad(v ssa.Value) bool {
	v = stripConv(v)
	u, ok := v.(*ssa.UnOp)
	if !ok {
		return false
	}
	_, fn, ok := fieldOf(u.X)
	return ok && (fn == "SumType" || fn == "IsRight" || fn == "Exists")
}

// eventOf maps an instruction to a normalised wire event ("" for none).
func (c *Ctx) eventOf(f *ssa.Function, in ssa.Instruction) string {
	var cc *ssa.CallCommon
	switch x := in.(type) {
	case *ssa.Call:
		cc = &x.Call
	case *ssa.Defer:
		return ""
	default:
		return ""
	}
	q := callQName(cc)
	short := strings.TrimPrefix(strings.TrimPrefix(q, bocPath+".Cell."), bocPath+".BitString.")
	if short != q {
		args := cc.Args
		if !cc.IsInvoke() && len(args) > 0 {
			args = args[1:]
		}
		w := func(i int) string {
			if i >= len(args) {
				return "?"
			}
			if k, ok := constInt(args[i]); ok {
				return fmt.Sprint(k)
			}
			return "n"
		}
		cv := func(i int) string {
			if i >= len(args) {
				return ""
			}
			if k, ok := constInt(args[i]); ok {
				return fmt.Sprintf("=%d", k)
			}
			if b, ok := constBool(args[i]); ok {
				if b {
					return "=1"
				}
				return "=0"
			}
			return ""
		}
		switch short {
		case "WriteUint":
			return "U(" + w(1) + ")" + cv(0)
		case "ReadUint", "PickUint":
			if short == "PickUint" {
				return "PEEK(" + w(0) + ")"
			}
			return "U(" + w(0) + ")"
		case "WriteInt":
			return "I(" + w(1) + ")"
		case "ReadInt":
			return "I(" + w(0) + ")"
		case "WriteBit":
			return "B" + cv(0)
		case "ReadBit":
			return "B"
		case "WriteBytes":
			return "BYTES(" + lenShape(args[0]) + ")"
		case "ReadBytes":
			return "BYTES(" + w(0) + ")"
		case "WriteBitString":
			return "BITS"
		case "ReadBits", "ReadRemainingBits":
			return "BITS"
		case "WriteLimUint":
			return "LIM(" + w(1) + ")"
		case "ReadLimUint":
			return "LIM(" + w(0) + ")"
		case "WriteUnary", "ReadUnary":
			return "UNARY"
		case "WriteBigUint":
			return "BIGU(" + w(1) + ")"
		case "ReadBigUint":
			return "BIGU(" + w(0) + ")"
		case "WriteBigInt":
			return "BIGI(" + w(1) + ")"
		case "ReadBigInt":
			return "BIGI(" + w(0) + ")"
		case "NewRef", "NextRef":
			return "REF"
		case "AddRef":
			// a cell created in this function and attached later was already marked at its creation
			if len(args) > 0 {
				if ncl, ok := args[0].(*ssa.Call); ok && callQName(&ncl.Call) == bocPath+".NewCell" {
					return ""
				}
			}
			return "REF"
		case "Skip":
			return "SKIP(" + w(0) + ")"
		case "CopyRemaining":
			return "REST"
		}
		return ""
	}
	if q == bocPath+".NewCell" {
		if cl, ok := in.(*ssa.Call); ok {
			for _, r := range realRefs(cl) {
				if rc, ok := r.(*ssa.Call); ok && callQName(&rc.Call) == bocPath+".Cell.AddRef" && len(rc.Call.Args) == 2 && rc.Call.Args[1] == ssa.Value(cl) {
					return "REF"
				}
			}
		}
		return ""
	}
	// delegations to the generic codec: record the static type
	switch q {
	case tlbPath + ".Marshal", tlbPath + ".Encoder.Marshal", tlbPath + ".encode":
		ai := 1
		if q == tlbPath+".Encoder.Marshal" {
			ai = 2
		}
		if q == tlbPath+".encode" {
			ai = 2
		}
		if ai < len(cc.Args) {
			return subOf(cc.Args[ai])
		}
	case tlbPath + ".Unmarshal", tlbPath + ".Decoder.Unmarshal":
		ai := 1
		if q == tlbPath+".Decoder.Unmarshal" {
			ai = 2
		}
		if ai < len(cc.Args) {
			return subOf(cc.Args[ai])
		}
	}
	if fn := calleeFunc(cc); fn != nil && (fn.Name() == "MarshalTLB" || fn.Name() == "UnmarshalTLB") {
		if sig, ok := fn.Type().(*types.Signature); ok && sig.Recv() != nil {
			t := sig.Recv().Type()
			if p, ok := t.(*types.Pointer); ok {
				t = p.Elem()
			}
			return subEventNoTag(t, "")
		}
	}
	return ""
}

func lenShape(v ssa.Value) string {
	// WriteBytes(x[:]) of a fixed array: its length
	if sl, ok := v.(*ssa.Slice); ok {
		if n, ok := arrayLen(sl.X.Type()); ok && sl.Low == nil && sl.High == nil {
			return fmt.Sprint(n)
		}
	}
	return "n"
}

// typeShape gives the static type of the value passed to Marshal/Unmarshal (through interface
// boxing and pointers).
func typeShape(v ssa.Value) string {
	return shortType(typeOfBoxed(v))
}

func subOf(v ssa.Value) string {
	return subEvent(typeOfBoxed(v), "")
}

func typeOfBoxed(v ssa.Value) types.Type {
	for {
		switch x := v.(type) {
		case *ssa.MakeInterface:
			v = x.X
			continue
		case *ssa.ChangeInterface:
			v = x.X
			continue
		}
		break
	}
	t := v.Type()
	if p, ok := t.(*types.Pointer); ok {
		t = p.Elem()
	}
	return t
}

// subEvent renders the delegation to the generic codec for a value of type t, expanding
// anonymous structs field by field and primitive kinds to the events the reflection codec performs.
func subEvent(t types.Type, tag string) string {
	mref, mb, ref, rest, _ := parseFieldTag(tag)
	inner := subEventNoTag(t, rest)
	switch {
	case mref:
		return "MAYBE{REF " + inner + "}"
	case mb:
		return "MAYBE{" + inner + "}"
	case ref:
		return "REF " + inner
	}
	return inner
}

func subEventNoTag(t types.Type, consTag string) string {
	if p, ok := t.(*types.Pointer); ok {
		t = p.Elem()
	}
	if n, ok := t.(*types.Named); ok {
		if n.Obj().Pkg() != nil && n.Obj().Pkg().Path() == tlbPath {
			name := n.Obj().Name()
			if name == "Magic" && consTag != "" {
				if b, err := parseConsTag(consTag); err == nil {
					v := int64(0)
					for _, ch := range b {
						v = v*2 + int64(ch-'0')
					}
					return fmt.Sprintf("U(%d)=%d", len(b), v)
				}
			}
			if m := intNameRe.FindStringSubmatch(name); m != nil && n.TypeArgs() == nil {
				switch m[1] {
				case "Uint":
					if len(m[2]) <= 2 {
						return "U(" + m[2] + ")"
					}
					return "BIGU(" + m[2] + ")"
				case "Int":
					if len(m[2]) <= 2 {
						return "I(" + m[2] + ")"
					}
					return "BIGI(" + m[2] + ")"
				case "Bits":
					var k int
					fmt.Sscanf(m[2], "%d", &k)
					return fmt.Sprintf("BYTES(%d)", k/8)
				case "VarUInteger":
					return "VARUINT(" + m[2] + ")"
				}
			}
		}
		if st, ok := n.Underlying().(*types.Struct); ok && !hasMethod(n, "MarshalTLB") && !hasMethod(n, "UnmarshalTLB") && n.Obj().Pkg() != nil && n.Obj().Pkg().Path() != bocPath {
			_ = st
		}
		return "SUB(" + shortType(t) + ")"
	}
	switch u := t.(type) {
	case *types.Basic:
		switch u.Kind() {
		case types.Uint8:
			return "U(8)"
		case types.Uint16:
			return "U(16)"
		case types.Uint32:
			return "U(32)"
		case types.Uint64:
			return "U(64)"
		case types.Int8:
			return "I(8)"
		case types.Int16:
			return "I(16)"
		case types.Int32:
			return "I(32)"
		case types.Int64:
			return "I(64)"
		case types.Bool:
			return "B"
		}
	case *types.Struct:
		isSum := false
		for i := 0; i < u.NumFields(); i++ {
			if u.Field(i).Name() == "SumType" {
				isSum = true
			}
		}
		if !isSum {
			var parts []string
			for i := 0; i < u.NumFields(); i++ {
				tg := reflect.StructTag(u.Tag(i)).Get("tlb")
				parts = append(parts, subEvent(u.Field(i).Type(), tg))
			}
			return strings.Join(parts, " ")
		}
	case *types.Array:
		if isByte(u.Elem()) {
			return fmt.Sprintf("BYTES(%d)", u.Len())
		}
	}
	return "SUB(" + shortType(t) + ")"
}

func shortType(t types.Type) string {
	if _, ok := t.(*types.TypeParam); ok {
		return "T"
	}
	if i, ok := t.Underlying().(*types.Interface); ok && i.Empty() {
		return "T"
	}
	s := types.TypeString(t, func(p *types.Package) string { return p.Name() })
	if s == "_" {
		return "T"
	}
	return s
}

// normalisePath removes direction-specific noise so that writer and reader paths compare:
// constant written values become tags, "[tag=k]" branch marks directly following a read of the
// discriminator are folded into it.
func normalisePath(p string, reader bool) string {
	toks := strings.Fields(p)
	var out []string
	for i := 0; i < len(toks); i++ {
		t := toks[i]
		if strings.HasPrefix(t, "[") {
			// branch marker
			inner := strings.Trim(t, "[]")
			if strings.HasPrefix(inner, "!tag!=") {
				inner = "tag=" + strings.TrimPrefix(inner, "!tag!=")
			}
			if strings.HasPrefix(inner, "tag=") && reader {
				// attach to the most recent U(...) without value
				for j := len(out) - 1; j >= 0; j-- {
					if strings.HasPrefix(out[j], "U(") && !strings.Contains(out[j], "=") {
						out[j] += "=" + strings.TrimPrefix(inner, "tag=")
						break
					}
					if out[j] == "B" || strings.HasPrefix(out[j], "B#") {
						break
					}
				}
			}
			if strings.HasPrefix(inner, "bit#") || strings.HasPrefix(inner, "!bit#") {
				// a branch on an identified flag bit: that read takes the value
				want := "B#" + inner[strings.Index(inner, "#")+1:]
				for j := len(out) - 1; j >= 0; j-- {
					if out[j] == want {
						if strings.HasPrefix(inner, "!") {
							out[j] = "B=0"
						} else {
							out[j] = "B=1"
						}
						break
					}
				}
				continue
			}
			if inner == "bit" || inner == "!bit" {
				// a branch on a flag: the most recent bit written/read without a known value is that flag
				for j := len(out) - 1; j >= 0; j-- {
					if out[j] == "B" || strings.HasPrefix(out[j], "B#") {
						if inner == "bit" {
							out[j] = "B=1"
						} else {
							out[j] = "B=0"
						}
						break
					}
					if strings.HasPrefix(out[j], "B=") {
						break
					}
				}
			}
			continue
		}
		out = append(out, t)
	}
	for i := range out {
		if strings.HasPrefix(out[i], "B#") {
			out[i] = "B"
		}
	}
	return strings.Join(out, " ")
}

// pathSet returns the normalised, de-duplicated path set of f.
func (c *Ctx) pathSet(f *ssa.Function, reader bool) ([]string, bool) {
	ps, trunc := c.tracePaths(f, 64*c.scale())
	m := map[string]bool{}
	for _, p := range ps {
		m[normalisePath(p, reader)] = true
	}
	var out []string
	for p := range m {
		out = append(out, p)
	}
	sort.Strings(out)
	return out, trunc
}

// codecPair compares the writer's and the reader's path sets. readerMayAcceptMore lists path
// strings the reader may accept in addition (e.g. label forms the writer never emits).
func (c *Ctx) codecPair(rule, name string, w, r *ssa.Function, readerExtra func(p string) bool) {
	if w == nil || r == nil {
		c.bad(rule, name, token.NoPos, "codec pair "+name+": a side is missing")
		return
	}
	ws, wt := c.pathSet(w, false)
	rs, rt := c.pathSet(r, true)
	if wt || rt {
		c.bad(rule, name, w.Pos(), "undecided: too many paths to enumerate")
		return
	}
	if len(ws) == 0 && len(rs) == 0 {
		c.note("codec pair %s: both directions are declared unimplemented (no success path)", name)
		return
	}
	// a writer path that emits nothing (silent default of an enum switch) has no reader counterpart
	if len(ws) > 1 {
		var nz []string
		for _, p := range ws {
			if strings.TrimSpace(p) != "" {
				nz = append(nz, p)
			}
		}
		ws = nz
	}
	// canonical rewrites
	for i := range ws {
		ws[i] = canonPath(ws[i])
	}
	for i := range rs {
		rs[i] = canonPath(rs[i])
	}
	rs = mergeVarUint(rs)
	ws = mergeVarUint(ws)
	// shape level: values dropped; value level: a reader path with the same shape whose stated values agree
	shape := func(p string) string { return valueRe.ReplaceAllString(p, "") }
	rShapes := map[string][]string{}
	for _, p := range rs {
		rShapes[shape(p)] = append(rShapes[shape(p)], p)
	}
	wShapes := map[string]bool{}
	var missing, extra []string
	for _, p := range ws {
		wShapes[shape(p)] = true
		cands := rShapes[shape(p)]
		okp := false
		for _, r := range cands {
			if valuesCompatible(p, r) {
				okp = true
			}
		}
		if !okp {
			missing = append(missing, p)
		}
	}
	for _, p := range rs {
		if wShapes[shape(p)] {
			continue
		}
		// a lenient reader may stop early (pruned branch, empty list): its path is a proper prefix of a matched path
		pre := false
		for _, q := range rs {
			if q != p && strings.HasPrefix(shape(q), shape(p)+" ") && wShapes[shape(q)] {
				pre = true
			}
		}
		if shape(p) == "" && len(rs) > 1 {
			pre = true
		}
		if pre || (readerExtra != nil && readerExtra(p)) {
			continue
		}
		extra = append(extra, p)
	}
	sort.Strings(missing)
	sort.Strings(extra)
	if len(missing) == 0 && len(extra) == 0 && len(ws) > 0 {
		c.ok(rule, name, w.Pos(), fmt.Sprintf("writer and reader agree on %d wire path(s): %s", len(ws), abbreviate(strings.Join(ws, " | "), 200)))
		return
	}
	c.bad(rule, name, w.Pos(), fmt.Sprintf("writer %s and reader %s disagree on the wire format\n      written but not read: %v\n      read but not written: %v", fnName(w), fnName(r), missing, extra))
}

var valueRe = regexp.MustCompile(`=[0-9]+`)
var recRe = regexp.MustCompile(`REC\([A-Za-z0-9_]+\)`)
var varuintRe = regexp.MustCompile(`LIM\(([0-9]+)\)( U\(8\))?( BYTES\(n\))?`)

// canonPath applies representation-independent rewrites.
func canonPath(p string) string {
	p = recRe.ReplaceAllString(p, "REC")
	// Any: "BITS REF*" is the rest of the cell
	if m, _ := regexp.MatchString(`^BITS( REF)*$`, p); m {
		return "REST"
	}
	return p
}

// mergeVarUint recognises the hand-inlined VarUInteger reader/writer ("LIM(k)" followed by zero
// or more bytes) when both the zero-byte and the one-byte path are present, and the generated
// form LIM(k) BYTES(n); all become VARUINT(k+1).
func mergeVarUint(ps []string) []string {
	set := map[string]bool{}
	for _, p := range ps {
		set[p] = true
	}
	out := map[string]bool{}
	for _, p := range ps {
		q := varuintRe.ReplaceAllStringFunc(p, func(m string) string {
			sm := varuintRe.FindStringSubmatch(m)
			var k int
			fmt.Sscanf(sm[1], "%d", &k)
			if sm[3] != "" {
				return fmt.Sprintf("VARUINT(%d)", k+1)
			}
			// byte loop: require the sibling path (with / without the U(8)) to exist
			with := strings.Replace(p, m, "LIM("+sm[1]+") U(8)", 1)
			without := strings.Replace(p, m, "LIM("+sm[1]+")", 1)
			if set[with] && set[without] {
				return fmt.Sprintf("VARUINT(%d)", k+1)
			}
			return m
		})
		out[q] = true
	}
	var res []string
	for p := range out {
		res = append(res, p)
	}
	sort.Strings(res)
	return res
}

// valuesCompatible: wherever both paths state a value for the same event, the values agree.
func valuesCompatible(a, b string) bool {
	ta, tb := strings.Fields(a), strings.Fields(b)
	if len(ta) != len(tb) {
		return false
	}
	for i := range ta {
		va, vb := valueRe.FindString(ta[i]), valueRe.FindString(tb[i])
		if va != "" && vb != "" && va != vb {
			return false
		}
	}
	return true
}

// valueFree drops written/compared constant values except on tags of width <= 32 that both sides state.
func valueFree(p string) string {
	return p
}

// expandAlts expands inlined-helper alternatives (encoded as \x02 a \x03 b ...) into full paths.
func expandAlts(evs []string) []string {
	out := []string{""}
	for _, e := range evs {
		if strings.HasPrefix(e, "\x02") {
			alts := strings.Split(strings.TrimPrefix(e, "\x02"), "\x03")
			var next []string
			for _, o := range out {
				for _, a := range alts {
					a = strings.ReplaceAll(a, "\x01", " ")
					n := strings.TrimSpace(o + " " + a)
					next = append(next, n)
					if len(next) > 4096 {
						break
					}
				}
			}
			out = next
			continue
		}
		for i := range out {
			out[i] = strings.TrimSpace(out[i] + " " + e)
		}
	}
	return out
}
