package main

import (
	"fmt"
	"go/token"
	"go/types"
	"strings"

	"golang.org/x/tools/go/ssa"
)

// E8 mustcheck: every success exit of a function is dominated by the passing
// edge of a required validation.

// srcPred identifies the SSA values that are "the result of the check".
type srcPred func(v ssa.Value) bool

// callResult matches the value (or an extracted result) of a call to one of the named callees.
func callResult(names ...string) srcPred {
	return func(v ssa.Value) bool {
		c := callOf(v)
		if c == nil {
			return false
		}
		q := callQName(&c.Call)
		for _, n := range names {
			if q == n {
				return true
			}
		}
		return false
	}
}

// paramCallResult matches a call through a function-typed parameter with the given name.
func paramCallResult(param string) srcPred {
	return func(v ssa.Value) bool {
		c := callOf(v)
		if c == nil || c.Call.IsInvoke() {
			return false
		}
		p, ok := c.Call.Value.(*ssa.Parameter)
		return ok && p.Name() == param
	}
}

// condPolarity decides whether cond is a boolean function of a check source and which
// branch is the passing one. kind: "bool" (source is a bool, true = pass),
// "eq" (source is a value that must compare EQUAL to something), "one" (int result must == 1).
func condPolarity(cond ssa.Value, src srcPred, kind string, depth int) (found bool, passWhenTrue bool) {
	if depth > 8 {
		return false, false
	}
	// the test extracted into an unexported predicate helper (one return, one expression): read it as written there
	if cl, ok := cond.(*ssa.Call); ok {
		if h := plainHelper(cl.Call.StaticCallee()); h != nil && h.Signature.Results().Len() == 1 {
			if rets := returnsOf(h); len(rets) == 1 {
				if f, p := condPolarity(retVal(rets[0], 0), src, kind, depth+1); f {
					return f, p
				}
			}
		}
	}
	switch x := cond.(type) {
	case *ssa.UnOp:
		if x.Op == token.NOT {
			f, p := condPolarity(x.X, src, kind, depth+1)
			return f, !p
		}
	case *ssa.BinOp:
		if x.Op == token.EQL || x.Op == token.NEQ {
			eq := x.Op == token.EQL
			// comparison with a boolean / integer constant
			for _, pair := range [][2]ssa.Value{{x.X, x.Y}, {x.Y, x.X}} {
				if b, ok := constBool(pair[1]); ok {
					f, p := condPolarity(pair[0], src, kind, depth+1)
					if f {
						return true, p == (b == eq)
					}
				}
				if kind == "one" {
					if n, ok := constInt(pair[1]); ok && src(pair[0]) {
						if n == 1 {
							return true, eq
						}
						if n == 0 {
							return true, !eq
						}
					}
				}
			}
			if kind == "eq" || kind == "ne" {
				if derivesFrom(x.X, src, true) || derivesFrom(x.Y, src, true) {
					return true, eq == (kind == "eq")
				}
			}
		}
	}
	if kind == "notbool" && src(cond) {
		return true, false
	}
	if kind == "nilerr" {
		// cond is "e != nil" / "e == nil" with e the error result of the source call: passing = e is nil
		if b, ok := cond.(*ssa.BinOp); ok && (b.Op == token.NEQ || b.Op == token.EQL) {
			for _, pair := range [][2]ssa.Value{{b.X, b.Y}, {b.Y, b.X}} {
				if isNilConst(pair[1]) && src(pair[0]) {
					return true, b.Op == token.EQL
				}
			}
		}
		return false, false
	}
	if kind == "bool" {
		if src(cond) {
			return true, true
		}
		// a bool that went through a phi / extract of the source
		if ex, ok := cond.(*ssa.Extract); ok && src(ex) {
			return true, true
		}
	}
	return false, false
}

type requiredCheck struct {
	name string
	src  srcPred
	kind string // bool | eq | one
	// alts: equivalent ways of performing the same check (e.g. bytes.Equal / hmac.Equal /
	// subtle.ConstantTimeCompare == 1); a passing edge of any of them counts
	alts []requiredCheck
}

// bytesEqualCheck: "these two byte strings are equal", in any of the idioms the standard library offers.
func bytesEqualCheck(name string) requiredCheck {
	return requiredCheck{name: name, src: callResult("bytes.Equal"), kind: "bool", alts: []requiredCheck{
		{src: callResult("crypto/hmac.Equal"), kind: "bool"},
		{src: callResult("crypto/subtle.ConstantTimeCompare"), kind: "one"},
	}}
}

// bytesEqualCalls lists the calls in f that compare two byte strings for equality.
func bytesEqualCalls(f *ssa.Function) []*ssa.Call {
	var out []*ssa.Call
	for _, q := range []string{"bytes.Equal", "crypto/hmac.Equal", "crypto/subtle.ConstantTimeCompare"} {
		out = append(out, callsTo(f, q)...)
	}
	return out
}

// passingEdges finds every If in f whose condition is a function of the check source and
// returns the edges taken when the check passes.
func passingEdges(f *ssa.Function, rc requiredCheck) (pass []edge, ifs []*ssa.If) {
	for _, alt := range rc.alts {
		p, i := passingEdges(f, alt)
		pass = append(pass, p...)
		ifs = append(ifs, i...)
	}
	for _, b := range f.Blocks {
		ifi := lastIf(b)
		if ifi == nil {
			continue
		}
		found, pwt := condPolarity(ifi.Cond, rc.src, rc.kind, 0)
		if !found {
			continue
		}
		ifs = append(ifs, ifi)
		if pwt {
			pass = append(pass, edge{b, 0})
		} else {
			pass = append(pass, edge{b, 1})
		}
	}
	return
}

// mustDominate checks that every success exit of f (result index resIdx) is reachable
// only through a passing edge of each required check. extraCut are edges assumed not taken
// (conditional dominance: "when the flag is set").
func (c *Ctx) mustDominate(rule string, f *ssa.Function, resIdx int, checks []requiredCheck, extraCut map[edge]bool, ctxDesc string) {
	if f == nil {
		return
	}
	sps := successPoints(f, resIdx)
	if len(sps) == 0 {
		c.bad(rule, fnName(f)+" no-success-exit", f.Pos(), "function has no success exit at all: the analysis cannot identify what validation protects (rewritten?)")
		return
	}
	for _, rc := range checks {
		pass, ifs := passingEdges(f, rc)
		key := fmt.Sprintf("%s requires %s%s", fnName(f), rc.name, ctxDesc)
		if len(ifs) == 0 {
			// the check was moved into an unexported helper whose verdict f hands on unchanged (return
			// verifyCellSignature(...)): every success of f is then a success of the helper, decided there
			if how, ok := c.delegatedCheck(f, resIdx, rc, 0); ok {
				c.ok(rule, key, f.Pos(), how)
				continue
			}
			c.bad(rule, key, f.Pos(), fmt.Sprintf("no branch in %s tests the result of %s: the validation was removed or its result is ignored", fnName(f), rc.name))
			continue
		}
		cut := map[edge]bool{}
		for e := range extraCut {
			cut[e] = true
		}
		for _, e := range pass {
			cut[e] = true
		}
		reach := reachableWithout(f, cut)
		var offenders []string
		for _, sp := range sps {
			if reach[sp.Block] {
				offenders = append(offenders, fmt.Sprintf("%s (returns %s)", c.rel(sp.Ret.Pos()), sp.Desc))
			}
		}
		if len(offenders) > 0 {
			c.bad(rule, key, condPos(ifs[0]), fmt.Sprintf("success exit(s) of %s reachable without passing %s: %s", fnName(f), rc.name, strings.Join(offenders, ", ")))
		} else {
			c.ok(rule, key, condPos(ifs[0]), fmt.Sprintf("all %d success exits are unreachable once the %d passing edge(s) of %s are cut", len(sps), len(pass), rc.name))
		}
	}
}

// returnsUnchanged checks that wrapper f returns, on every exit, either the result of a call
// to callee (unchanged) or a constant failure.
func (c *Ctx) returnsUnchanged(rule string, f *ssa.Function, resIdx int, callee string) {
	if f == nil {
		return
	}
	okAll := true
	n := 0
	for _, r := range returnsOf(f) {
		if resIdx >= len(r.Results) {
			continue
		}
		v := retVal(r, resIdx)
		var vals []ssa.Value
		if phi, ok := v.(*ssa.Phi); ok {
			vals = phi.Edges
		} else {
			vals = []ssa.Value{v}
		}
		for _, x := range vals {
			if cl := callOf(x); cl != nil && callQName(&cl.Call) == callee {
				n++
				continue
			}
			if isFailureValue(f, x, r.Block()) {
				continue
			}
			okAll = false
		}
	}
	c.check(okAll && n > 0, rule, fnName(f)+" returns "+callee+" unchanged", f.Pos(),
		fmt.Sprintf("every exit returns the result of %s or a constant failure", callee),
		fmt.Sprintf("%s no longer returns the result of %s unchanged on every exit", fnName(f), callee))
}

// boundsAtSuccess: every success exit of f is dominated by comparisons that bound a value
// (identified by pred) by lo <= v <= hi for constants at least as strict as given.
func (c *Ctx) boundsAtSuccess(rule string, f *ssa.Function, resIdx int, what string, pred srcPred, wantLo, wantHi int64) {
	if f == nil {
		return
	}
	sps := successPoints(f, resIdx)
	key := fmt.Sprintf("%s bounds %s in [%d,%d]", fnName(f), what, wantLo, wantHi)
	var offenders []string
	for _, sp := range sps {
		lo, hi, hasLo, hasHi := constBounds(f, sp.Block, pred)
		if !hasLo || !hasHi || lo < wantLo || hi > wantHi {
			offenders = append(offenders, fmt.Sprintf("%s (known: lo=%v/%d hi=%v/%d)", c.rel(sp.Ret.Pos()), hasLo, lo, hasHi, hi))
		}
	}
	c.check(len(offenders) == 0 && len(sps) > 0, rule, key, f.Pos(),
		fmt.Sprintf("all %d success exits dominated by %d <= %s <= %d", len(sps), wantLo, what, wantHi),
		fmt.Sprintf("success exit(s) of %s not dominated by the bound %d <= %s <= %d: %s", fnName(f), wantLo, what, wantHi, strings.Join(offenders, ", ")))
}

// constBounds collects constant lower/upper bounds for values matching pred from the branch
// facts holding at block b.
func constBounds(f *ssa.Function, b *ssa.BasicBlock, pred srcPred) (lo, hi int64, hasLo, hasHi bool) {
	fts := factsAt(f, b)
	args := predicateArgs(fts)
	// an operand that is a parameter of a predicate helper stands for the argument it was called with
	res := func(v ssa.Value) ssa.Value {
		v = stripConv(v)
		if a, ok := args[v]; ok {
			return stripConv(a)
		}
		return v
	}
	for _, ft := range fts {
		bo, ok := ft.Cond.(*ssa.BinOp)
		if !ok {
			continue
		}
		var op token.Token
		var k int64
		if kk, ok := constInt(bo.Y); ok && pred(res(bo.X)) {
			op, k = bo.Op, kk
		} else if kk, ok := constInt(bo.X); ok && pred(res(bo.Y)) {
			k = kk
			switch bo.Op { // k op v  ==  v op' k
			case token.LSS:
				op = token.GTR
			case token.LEQ:
				op = token.GEQ
			case token.GTR:
				op = token.LSS
			case token.GEQ:
				op = token.LEQ
			default:
				op = bo.Op
			}
		} else {
			continue
		}
		if !ft.Truth { // negate
			switch op {
			case token.LSS:
				op = token.GEQ
			case token.LEQ:
				op = token.GTR
			case token.GTR:
				op = token.LEQ
			case token.GEQ:
				op = token.LSS
			case token.EQL:
				op = token.NEQ
			case token.NEQ:
				op = token.EQL
			}
		}
		switch op {
		case token.GEQ:
			if !hasLo || k > lo {
				lo, hasLo = k, true
			}
		case token.GTR:
			if !hasLo || k+1 > lo {
				lo, hasLo = k+1, true
			}
		case token.LEQ:
			if !hasHi || k < hi {
				hi, hasHi = k, true
			}
		case token.LSS:
			if !hasHi || k-1 < hi {
				hi, hasHi = k-1, true
			}
		case token.EQL:
			lo, hi, hasLo, hasHi = k, k, true, true
		}
	}
	return
}

// lenOf matches len(x) builtin calls whose argument satisfies argPred (nil = any).
func lenOf(argPred srcPred) srcPred {
	return func(v ssa.Value) bool {
		c, ok := v.(*ssa.Call)
		if !ok {
			return false
		}
		b, ok := c.Call.Value.(*ssa.Builtin)
		if !ok || b.Name() != "len" {
			return false
		}
		return argPred == nil || argPred(c.Call.Args[0])
	}
}

func typeIs(v ssa.Value, s string) bool {
	return types.TypeString(v.Type(), nil) == s
}

// condPos gives a source position for an If (go/ssa's If has none): the condition's, or the
// nearest positioned instruction before it in the block.
func condPos(i *ssa.If) token.Pos {
	if i.Cond.Pos().IsValid() {
		return i.Cond.Pos()
	}
	b := i.Block()
	for k := len(b.Instrs) - 1; k >= 0; k-- {
		if p := b.Instrs[k].Pos(); p.IsValid() {
			return p
		}
	}
	return i.Block().Parent().Pos()
}

// callDominatedBy: every call to callee in f is reachable only through a passing edge of rc.
func (c *Ctx) callDominatedBy(rule string, f *ssa.Function, callee string, rc requiredCheck) {
	key := fmt.Sprintf("%s call %s requires %s", fnName(f), shortQ(callee), rc.name)
	// the guarded call (with its guard) may have been moved into an unexported helper of f: decide it there
	if len(callsTo(f, callee)) == 0 {
		if h, _ := c.hostOf(f, callee); h != f {
			f = h
		}
	}
	pass, ifs := passingEdges(f, rc)
	var sites []*ssa.Call
	allInstrs(f, func(_ *ssa.BasicBlock, i ssa.Instruction) {
		if cl, ok := i.(*ssa.Call); ok && callQName(&cl.Call) == callee {
			sites = append(sites, cl)
		}
	})
	if len(sites) == 0 {
		c.bad(rule, key, f.Pos(), fmt.Sprintf("no call to %s found in %s (anchor moved?)", callee, fnName(f)))
		return
	}
	if len(ifs) == 0 {
		c.bad(rule, key, sites[0].Pos(), fmt.Sprintf("no branch tests %s before %s is called", rc.name, shortQ(callee)))
		return
	}
	cut := map[edge]bool{}
	for _, e := range pass {
		cut[e] = true
	}
	reach := reachableWithout(f, cut)
	for _, s := range sites {
		if reach[s.Block()] {
			c.bad(rule, key, s.Pos(), fmt.Sprintf("call to %s reachable without passing %s", shortQ(callee), rc.name))
			return
		}
	}
	c.ok(rule, key, sites[0].Pos(), fmt.Sprintf("%d call site(s) unreachable once the passing edge(s) of %s are cut", len(sites), rc.name))
}

func shortQ(q string) string { return strings.TrimPrefix(q, modPath+"/") }

// delegatesTo: every exit of f that is not a definite failure returns, unchanged, the result of a
// call to one of the listed callees.
func (c *Ctx) delegatesTo(rule string, f *ssa.Function, resIdx int, callees []string) {
	sps := successPoints(f, resIdx)
	key := fnName(f) + " delegates success to " + shortQ(strings.Join(callees, "|"))
	var offenders []string
	n := 0
	for _, sp := range sps {
		v := retVal(sp.Ret, resIdx)
		vals := []ssa.Value{v}
		if phi, ok := v.(*ssa.Phi); ok {
			vals = phi.Edges
		}
		matched := false
		for _, x := range vals {
			if cl := callOf(x); cl != nil {
				q := callQName(&cl.Call)
				for _, want := range callees {
					if q == want {
						matched = true
					}
				}
			}
		}
		if matched {
			n++
		} else {
			offenders = append(offenders, fmt.Sprintf("%s (returns %s)", c.rel(sp.Ret.Pos()), sp.Desc))
		}
	}
	c.check(len(offenders) == 0 && n > 0, rule, key, f.Pos(),
		fmt.Sprintf("%d non-failure exit(s) all return a verifier's result unchanged", n),
		fmt.Sprintf("%s has a success exit that does not come from a verifier: %s", fnName(f), strings.Join(offenders, ", ")))
}

// definitelyAssigned: on every path from entry to a success return of f, the local variable
// whose address is alloc receives a value (a store to it or into it). Reports otherwise: the
// function can succeed returning the variable's zero value.
func (c *Ctx) definitelyAssigned(rule string, f *ssa.Function, resIdx int, varName string) {
	if f == nil {
		return
	}
	var al *ssa.Alloc
	// the local whose value is returned as the first result on a success exit (varName only labels the report)
	for _, sp := range successPoints(f, resIdx) {
		derivesFrom(retVal(sp.Ret, 0), func(v ssa.Value) bool {
			if a, ok := v.(*ssa.Alloc); ok && al == nil && a.Parent() == f {
				al = a
			}
			return false
		}, false)
	}
	key := fnName(f) + " result " + varName + " assigned on every success path"
	if al == nil {
		// the function hands the work (and its result) to an unexported helper: decide it there
		var h *ssa.Function
		for _, sp := range successPoints(f, resIdx) {
			v := retVal(sp.Ret, 0)
			if ex, ok := v.(*ssa.Extract); ok {
				v = ex.Tuple
			}
			if cl, ok := v.(*ssa.Call); ok {
				if g := plainHelper(cl.Call.StaticCallee()); g != nil && g != f {
					h = g
				}
			}
		}
		if h != nil && c.assignDepth < 2 {
			c.assignDepth++
			before := len(c.Obls)
			c.definitelyAssigned(rule, h, h.Signature.Results().Len()-1, varName)
			c.assignDepth--
			// report under the entry point's key
			if len(c.Obls) > before {
				c.Obls[len(c.Obls)-1].Key = rule + "|" + key
			}
			return
		}
		c.bad(rule, key, f.Pos(), "local variable "+varName+" not found (anchor moved?)")
		return
	}
	// blocks that assign the variable
	assign := map[*ssa.BasicBlock]bool{}
	allInstrs(f, func(b *ssa.BasicBlock, i ssa.Instruction) {
		switch x := i.(type) {
		case *ssa.Store:
			base := x.Addr
			for {
				switch y := base.(type) {
				case *ssa.IndexAddr:
					base = y.X
					continue
				case *ssa.FieldAddr:
					base = y.X
					continue
				}
				break
			}
			if base == ssa.Value(al) {
				if _, zero := x.Val.(*ssa.Const); !zero {
					assign[b] = true
				}
			}
		}
	})
	// success returns reachable without passing an assigning block?
	cut := map[edge]bool{}
	for b := range assign {
		for i := range b.Succs {
			cut[edge{b, i}] = true
		}
	}
	reach := reachableWithout(f, cut)
	var offenders []string
	for _, sp := range successPoints(f, resIdx) {
		if reach[sp.Block] && !assign[sp.Block] {
			offenders = append(offenders, c.rel(sp.Ret.Pos()))
		}
	}
	c.check(len(offenders) == 0 && len(assign) > 0, rule, key, al.Pos(), fmt.Sprintf("%d assigning block(s); no success return is reachable around them", len(assign)),
		fmt.Sprintf("%s can return success with %s still holding its zero value (return at %s): e.g. a switch without a matching case and without default", fnName(f), varName, strings.Join(offenders, ", ")))
}

// delegatedCheck: every success exit of f (result resIdx) returns, unchanged, the result of the same
// index... of a call to an unexported in-module helper in which every success exit lies behind a
// passing edge of the check.
func (c *Ctx) delegatedCheck(f *ssa.Function, resIdx int, rc requiredCheck, depth int) (string, bool) {
	if depth > 1 {
		return "", false
	}
	var helpers []*ssa.Function
	idxIn := map[*ssa.Function]int{}
	n := 0
	for _, r := range returnsOf(f) {
		if resIdx >= len(r.Results) {
			continue
		}
		v := retVal(r, resIdx)
		if isFailureValue(f, v, r.Block()) {
			continue
		}
		n++
		var cl *ssa.Call
		hi := 0
		switch x := v.(type) {
		case *ssa.Call:
			cl = x
		case *ssa.Extract:
			if t, ok := x.Tuple.(*ssa.Call); ok {
				cl, hi = t, x.Index
			}
		}
		if cl == nil {
			return "", false
		}
		h := plainHelper(cl.Call.StaticCallee())
		if h == nil {
			return "", false
		}
		helpers = append(helpers, h)
		idxIn[h] = hi
	}
	if n == 0 || len(helpers) == 0 {
		return "", false
	}
	for _, h := range helpers {
		pass, ifs := passingEdges(h, rc)
		if len(ifs) == 0 {
			if _, ok := c.delegatedCheck(h, idxIn[h], rc, depth+1); ok {
				continue
			}
			return "", false
		}
		cut := map[edge]bool{}
		for _, e := range pass {
			cut[e] = true
		}
		reach := reachableWithout(h, cut)
		for _, sp := range successPoints(h, idxIn[h]) {
			if reach[sp.Block] {
				return "", false
			}
		}
	}
	return fmt.Sprintf("every success exit of %s returns the verdict of %s, all of whose success exits lie behind the passing edge of %s", fnName(f), fnName(helpers[0]), rc.name), true
}
