package main

import (
	"fmt"
	"go/types"
	"os"
	"sort"
	"strings"

	"golang.org/x/tools/go/ssa"
)

// codecPairs compares MarshalTLB / UnmarshalTLB of every named type in the given packages that
// has both (hand-written codecs). Types whose path sets cannot be normalised are listed as not
// covered; the pairs that compare equal on the pinned tree form the floor.
func (c *Ctx) codecPairs(rule string, skip map[string]string, rels ...string) int {
	n := 0
	for _, rel := range rels {
		p := c.pkg(rel)
		if p == nil {
			continue
		}
		sc := p.Types.Scope()
		names := sc.Names()
		sort.Strings(names)
		for _, name := range names {
			tn, ok := sc.Lookup(name).(*types.TypeName)
			if !ok || tn.IsAlias() {
				continue
			}
			named, ok := tn.Type().(*types.Named)
			if !ok {
				continue
			}
			if rel == "tlb" && intNameRe.MatchString(name) {
				continue
			}
			w, r := c.method(named, "MarshalTLB"), c.method(named, "UnmarshalTLB")
			if w == nil || r == nil {
				continue
			}
			key := rel + "." + name
			if why, ok := skip[key]; ok {
				c.note("codec pair %s not covered: %s", key, why)
				continue
			}
			n++
			c.codecPair(rule, key, w, r, nil)
		}
	}
	return n
}

func debugTrace(c *Ctx) {
	spec := os.Getenv("TONGO_DEBUG_TRACE")
	if spec == "" {
		return
	}
	for _, s := range strings.Split(spec, ",") {
		i := strings.Index(s, ":")
		f := c.fn(s[:i], s[i+1:])
		if f == nil {
			fmt.Println("no such function", s)
			continue
		}
		reader := strings.Contains(s, "Unmarshal") || strings.Contains(s, "load") || strings.Contains(s, "get")
		ps, tr := c.pathSet(f, reader)
		fmt.Printf("== %s (%d paths, truncated=%v)\n", s, len(ps), tr)
		for _, p := range ps {
			fmt.Println("   ", p)
		}
	}
}

var _ = ssa.NaiveForm
