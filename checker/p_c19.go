package main

import (
	"golang.org/x/tools/go/ssa"
)

func init() { register("C19", propC19) }

func propC19(c *Ctx) propInfo {
	const R = "E8.mustcheck"
	cp := c.mustFn(R, "tonconnect", "Server.CheckProof")
	if cp != nil {
		// result 0 is the bool verdict; success = not definitely false
		c.mustDominate(R, cp, 0, []requiredCheck{
			{name: "checkPayload(payload)", src: paramCallResult("checkPayload"), kind: "bool"},
			{name: "checkDomain(domain)", src: paramCallResult("checkDomain"), kind: "bool"},
			{name: "signatureVerify(pubKey, message, signature)", src: callResult(modPath + "/tonconnect.signatureVerify"), kind: "bool"},
		}, nil, "")
		// lifetime comparison: a branch on time.Since(...) > duration; passing edge = false
		c.mustDominate(R, cp, 0, []requiredCheck{
			{name: "proof lifetime comparison", src: func(v ssa.Value) bool {
				b, ok := v.(*ssa.BinOp)
				if !ok {
					return false
				}
				return derivesFrom(b.X, callResult("time.Since"), false) && derivesFrom(b.Y, fieldLoad("lifeTimeProof"), false)
			}, kind: "notbool"},
		}, nil, "")
		// state-init path: the call extracting a key from the state-init is dominated by the
		// passing edge of compareStateInitWithAddress
		c.callDominatedBy(R, cp, modPath+"/tonconnect.ParseStateInit",
			requiredCheck{name: "compareStateInitWithAddress(account, stateInit)", src: callResult(modPath + "/tonconnect.compareStateInitWithAddress"), kind: "bool"})
	}
	c.definitelyAssigned(R, c.mustFn(R, "tonconnect", "ParseStateInit"), 1, "pubKey")
	c.returnsUnchanged(R, c.mustFn(R, "tonconnect", "signatureVerify"), 0, "crypto/ed25519.Verify")
	c.returnsUnchanged(R, c.mustFn(R, "tonconnect", "compareStateInitWithAddress"), 0, "bytes.Equal")
	pl := c.mustFn(R, "tonconnect", "Server.CheckPayload")
	if pl != nil {
		c.mustDominate(R, pl, 0, []requiredCheck{
			{name: "subtle.ConstantTimeCompare(mac, computed) == 1", src: callResult("crypto/subtle.ConstantTimeCompare"), kind: "one"},
			{name: "payload expiry comparison", src: func(v ssa.Value) bool {
				b, ok := v.(*ssa.BinOp)
				if !ok {
					return false
				}
				return derivesFrom(b.X, callResult("time.Since"), false) && derivesFrom(b.Y, fieldLoad("lifeTimePayload"), false)
			}, kind: "notbool"},
		}, nil, "")
		c.boundsAtSuccess("E8.bounds", pl, 0, "len(payload bytes)", lenOf(nil), 32, 32)
	}
	c.floor(R, 10)
	c.floor("E8.bounds", 1)
	// E1: no crash from the entry points that see attacker-supplied proofs
	roots := c.rootsByName("E1.roots", "tonconnect:Server.CheckProof", "tonconnect:Server.CheckPayload", "tonconnect:ParseStateInit",
		"tonconnect:convertTonProofMessage", "tonconnect:compareStateInitWithAddress", "tonconnect:createMessage", "tonconnect:signatureVerify")
	trav := map[string]bool{"tonconnect": true, "ton": true, "wallet": true, "boc": true, "tlb": true, "utils": true}
	c.panicFree(e1cfg{roots: roots, pkgs: map[string]bool{"tonconnect": true, "ton": true}, traverse: trav, maxDepth: 2, exc: excC19, excP5: map[string]excEntry{}})
	c.errflow(excC19E2, "tonconnect")
	c.floor("E1.P2-bounds", 10)
	c.floor("E2.R-drop", 10)
	return propInfo{
		explanation: "Static structural clauses of C19 (DESIGN.md §4 C19): every accepting exit of CheckProof is dominated by the passing edges of payload check, lifetime comparison, domain check, signature verification, and the state-init key extraction is dominated by the state-init/address comparison; CheckPayload accepts only through the constant-time MAC comparison, the expiry comparison and the length check; signed-message byte layout equals the spec; no panic is reachable from the entry points; error discipline in package tonconnect. Decides these necessary conditions, not unforgeability.",
		assumptions: []string{"ed25519/HMAC/SHA-256 behave as documented", "the clock is not modelled"},
	}
}

// fieldLoad matches a load of a struct field with the given name.
func fieldLoad(name string) srcPred {
	return func(v ssa.Value) bool {
		u, ok := v.(*ssa.UnOp)
		if !ok {
			return false
		}
		_, fn, ok := fieldOf(u.X)
		return ok && fn == name
	}
}

var excC19 = map[string]excEntry{
	"(*tonconnect.Server).CheckPayload P2 slice hash.Hash.Sum()[:16]": {"Sum(nil) of an HMAC-SHA256 returns exactly 32 bytes (library contract)", nil},
}
var excC19E2 = map[string]string{}
